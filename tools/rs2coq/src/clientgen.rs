//! tokio-imap/src/client.rs -> gen/ClientTables.v (C11): the tag generator as written -- the fields of `IdGenerator`,
//! the body of `new` and the body of `Iterator::next` -- as normalised token strings.  The hand model Tags.v was
//! written for exactly this text; a reflection lemma compares them, so an edit here breaks a proof obligation.
use crate::util::*;
use std::path::Path;
use syn::*;

fn norm(s: String) -> String {
    s.replace(" . ", ".").replace(" (", "(").replace("( ", "(").replace(" )", ")").replace(" ,", ",").replace("& ", "&").replace(" :: ", "::").replace(" !", "!")
}

/// `Client { .. }` literals and `let x = <..>.framed(..)` bindings inside one function
struct Ctor {
    fields: Vec<(String, String)>,
    framed_lets: Vec<(String, String)>,
}
fn framed_shape(e: &Expr) -> Option<String> {
    if let Expr::MethodCall(m) = e {
        if m.method == "framed" {
            return Some(format!("{}.framed(_)", norm(tokens_of(&*m.receiver))));
        }
    }
    None
}
impl<'ast> syn::visit::Visit<'ast> for Ctor {
    fn visit_local(&mut self, l: &'ast Local) {
        if let (Pat::Ident(i), Some(init)) = (&l.pat, &l.init) {
            if let Some(sh) = framed_shape(&init.expr) {
                self.framed_lets.push((i.ident.to_string(), sh));
            }
        }
        syn::visit::visit_local(self, l);
    }
    fn visit_expr_struct(&mut self, s: &'ast ExprStruct) {
        if s.path.segments.last().map(|x| x.ident == "Client").unwrap_or(false) {
            for f in &s.fields {
                let name = norm(tokens_of(&f.member));
                let val = framed_shape(&f.expr).unwrap_or_else(|| norm(tokens_of(&f.expr)));
                self.fields.push((name, val));
            }
        }
        syn::visit::visit_expr_struct(self, s);
    }
}
fn body_of(f: &ImplItemFn) -> String {
    // let-normal form (canon.rs): renamed or hoisted locals and field shorthand do not show
    crate::canon::normalize_block(&f.block).stmts.iter().map(|s| norm(tokens_of(s))).collect::<Vec<_>>().join(" ")
}

pub fn translate(repo: &Path) -> String {
    let src = std::fs::read_to_string(repo.join("tokio-imap/src/client.rs")).unwrap();
    let file = syn::parse_file(&src).unwrap();
    let mut fields: Vec<(String, String)> = vec![];
    let mut new_body = String::from("<missing>");
    let mut next_body = String::from("<missing>");
    let mut other_methods: Vec<String> = vec![];
    let mut call_body = String::from("<missing>");
    let mut call_generic_body = String::from("<missing>");
    let mut connect_fields: Vec<(String, String)> = vec![];
    let mut hook_fields: Vec<(String, String)> = vec![];
    for item in &file.items {
        if let Item::Impl(im) = item {
            let ty = norm(tokens_of(&im.self_ty));
            for it in &im.items {
                if let ImplItem::Fn(f) = it {
                    let name = f.sig.ident.to_string();
                    if ty == "TlsClient" && name == "call" {
                        call_body = body_of(f);
                    } else if ty.starts_with("Client") && name == "call_generic" {
                        call_generic_body = body_of(f);
                    } else if (ty == "TlsClient" && name == "connect") || (ty.starts_with("Client") && name == "from_transport") {
                        let mut c = Ctor { fields: vec![], framed_lets: vec![] };
                        syn::visit::Visit::visit_block(&mut c, &f.block);
                        // a field initialised from a local that was bound to `<codec>.framed(..)` is that expression
                        let fields: Vec<(String, String)> = c.fields.iter().map(|(n, v)| {
                            match c.framed_lets.iter().find(|(x, _)| x == v) { Some((_, sh)) => (n.clone(), sh.clone()), None => (n.clone(), v.clone()) }
                        }).collect();
                        if name == "connect" { connect_fields = fields; } else { hook_fields = fields; }
                    }
                }
            }
        }
    }
    for item in &file.items {
        match item {
            Item::Struct(s) if s.ident == "IdGenerator" => {
                for f in &s.fields {
                    fields.push((f.ident.as_ref().map(|i| i.to_string()).unwrap_or_default(), norm(tokens_of(&f.ty))));
                }
            }
            Item::Impl(im) if norm(tokens_of(&im.self_ty)) == "IdGenerator" => {
                let tr = im.trait_.as_ref().map(|t| norm(tokens_of(&t.1))).unwrap_or_default();
                for it in &im.items {
                    if let ImplItem::Fn(f) = it {
                        let body = body_of(f);
                        if tr.is_empty() && f.sig.ident == "new" {
                            new_body = body;
                        } else if tr == "Iterator" && f.sig.ident == "next" {
                            next_body = body;
                        } else if !(tr == "Default" && f.sig.ident == "default") {
                            other_methods.push(format!("{}::{}", tr, f.sig.ident));
                        }
                    }
                }
            }
            _ => {}
        }
    }
    let mut o = String::new();
    o.push_str("(* generated by tools/rs2coq from tokio-imap/src/client.rs -- do not edit *)\n");
    o.push_str("From Coq Require Import String List.\nImport ListNotations.\nLocal Open Scope string_scope.\n\n");
    o.push_str("Definition gen_idgen_fields : list (string * string) :=\n  [");
    o.push_str(&fields.iter().map(|(n, t)| format!("({}, {})", coq_str(n), coq_str(t))).collect::<Vec<_>>().join("; "));
    o.push_str("].\n");
    o.push_str(&format!("Definition gen_idgen_new : string := {}.\n", coq_str(&new_body)));
    o.push_str(&format!("Definition gen_idgen_next : string := {}.\n", coq_str(&next_body)));
    o.push_str(&format!("(* TlsClient::call and the verification hook Client::call_generic *)\nDefinition gen_call_body : string := {}.\n", coq_str(&call_body)));
    o.push_str(&format!("Definition gen_call_generic_body : string := {}.\n", coq_str(&call_generic_body)));
    o.push_str("(* the Client { .. } built by TlsClient::connect and by the hook Client::from_transport (the framed transport's argument elided) *)\n");
    o.push_str(&format!("Definition gen_connect_client : list (string * string) :=\n  [{}].\n", connect_fields.iter().map(|(n, t)| format!("({}, {})", coq_str(n), coq_str(t))).collect::<Vec<_>>().join("; ")));
    o.push_str(&format!("Definition gen_hook_client : list (string * string) :=\n  [{}].\n", hook_fields.iter().map(|(n, t)| format!("({}, {})", coq_str(n), coq_str(t))).collect::<Vec<_>>().join("; ")));
    o.push_str("Definition gen_idgen_other_methods : list string :=\n  [");
    o.push_str(&other_methods.iter().map(|m| coq_str(m)).collect::<Vec<_>>().join("; "));
    o.push_str("].\n");
    o
}
