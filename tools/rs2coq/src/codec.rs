//! tokio-imap/src/codec.rs -> gen/CodecTables.v (C07): the buffer operations of `decode` in source order,
//! and the API surface of the frame type `ResponseData` (fields, derives, impl blocks, method signatures),
//! plus every `impl Drop` in imap-proto.
use crate::util::*;
use std::path::Path;
use syn::visit::Visit;
use syn::*;

struct BufOps {
    ops: Vec<String>,
    locals: Vec<String>,
}
/// Local variables of `decode` (bound by `let` or a match-arm pattern), in order of first binding.  They are renamed to
/// `_v1`, `_v2`, ... in the recorded operations so that renaming a local is not a change of the operation sequence.
struct Locals(Vec<String>);
impl<'ast> Visit<'ast> for Locals {
    fn visit_pat_ident(&mut self, p: &'ast PatIdent) {
        let n = p.ident.to_string();
        if n != "buf" && n != "self" && !self.0.contains(&n) {
            self.0.push(n);
        }
        syn::visit::visit_pat_ident(self, p);
    }
}
fn rename_tokens(ts: proc_macro2::TokenStream, locals: &[String]) -> proc_macro2::TokenStream {
    use proc_macro2::{Group, Ident, TokenTree};
    let mut out = vec![];
    let mut prev_dot = false;
    let toks: Vec<TokenTree> = ts.into_iter().collect();
    for (idx, t) in toks.iter().cloned().enumerate() {
        // `name :` (a single colon) is a field label of a struct literal, not a use of the local
        let is_label = matches!(toks.get(idx + 1), Some(TokenTree::Punct(p)) if p.as_char() == ':' && p.spacing() == proc_macro2::Spacing::Alone)
            && !matches!(toks.get(idx.wrapping_sub(1)), Some(TokenTree::Punct(p)) if p.as_char() == ':');
        match t {
            TokenTree::Ident(i) => {
                let n = i.to_string();
                match locals.iter().position(|l| *l == n) {
                    Some(k) if !prev_dot && !is_label => out.push(TokenTree::Ident(Ident::new(&format!("_v{}", k + 1), i.span()))),
                    _ => out.push(TokenTree::Ident(i)),
                }
                prev_dot = false;
            }
            TokenTree::Group(g) => {
                let mut ng = Group::new(g.delimiter(), rename_tokens(g.stream(), locals));
                ng.set_span(g.span());
                out.push(TokenTree::Group(ng));
                prev_dot = false;
            }
            TokenTree::Punct(p) => {
                prev_dot = p.as_char() == '.';
                out.push(TokenTree::Punct(p));
            }
            other => {
                prev_dot = false;
                out.push(other);
            }
        }
    }
    out.into_iter().collect()
}
fn rtokens<T: quote::ToTokens>(t: &T, locals: &[String]) -> String {
    rename_tokens(t.to_token_stream(), locals).to_string()
}

fn norm(s: String) -> String {
    s.replace(" . ", ".").replace(" (", "(").replace("( ", "(").replace(" )", ")").replace(" ,", ",").replace("& ", "&").replace(" :: ", "::").replace(" < ", "<").replace(" >", ">").replace("< ", "<")
}
fn mentions_buf(e: &Expr) -> bool {
    struct F(bool);
    impl<'ast> Visit<'ast> for F {
        fn visit_path(&mut self, p: &'ast syn::Path) {
            if p.is_ident("buf") {
                self.0 = true;
            }
        }
    }
    let mut f = F(false);
    f.visit_expr(e);
    f.0
}
impl<'ast> Visit<'ast> for BufOps {
    fn visit_expr(&mut self, e: &'ast Expr) {
        match e {
            // outermost call / method-call chains that touch `buf`
            Expr::MethodCall(_) | Expr::Call(_) if mentions_buf(e) => {
                // for `a - b` style operands this is reached per operand; record the whole chain once
                self.ops.push(norm(rtokens(e, &self.locals)));
            }
            Expr::Unsafe(u) => {
                self.ops.push(format!("unsafe {{ {} }}", norm(rtokens(&u.block.stmts.last(), &self.locals))));
                syn::visit::visit_expr(self, e);
            }
            Expr::Struct(s) => {
                // field: value, the shorthand `raw` written out as `raw: raw`; the values with locals renamed
                let fs = s.fields.iter().map(|f| format!("{}: {}", norm(tokens_of(&f.member)), norm(rtokens(&f.expr, &self.locals)))).collect::<Vec<_>>().join(", ");
                self.ops.push(format!("{} {{ {} }}", norm(tokens_of(&s.path)), fs));
                syn::visit::visit_expr(self, e);
            }
            _ => syn::visit::visit_expr(self, e),
        }
    }
    fn visit_local(&mut self, l: &'ast Local) {
        // `let raw = ...` : keep the binding name with the operation
        if let (Pat::Ident(i), Some(init)) = (&l.pat, &l.init) {
            if mentions_buf(&init.expr) && matches!(&*init.expr, Expr::MethodCall(_) | Expr::Call(_)) {
                let name = match self.locals.iter().position(|l| *l == i.ident.to_string()) { Some(k) => format!("_v{}", k + 1), None => i.ident.to_string() };
                self.ops.push(format!("let {} = {}", name, norm(rtokens(&init.expr, &self.locals))));
                return;
            }
        }
        syn::visit::visit_local(self, l);
    }
}

fn lifetimes_in(t: &Type) -> Vec<String> {
    struct L(Vec<String>);
    impl<'ast> Visit<'ast> for L {
        fn visit_lifetime(&mut self, l: &'ast Lifetime) {
            self.0.push(format!("'{}", l.ident));
        }
        fn visit_type_reference(&mut self, r: &'ast TypeReference) {
            if r.lifetime.is_none() {
                self.0.push("'_".into());
            }
            syn::visit::visit_type_reference(self, r);
        }
    }
    let mut l = L(vec![]);
    l.visit_type(t);
    l.0
}

pub fn translate(repo: &Path) -> String {
    let src = std::fs::read_to_string(repo.join("tokio-imap/src/codec.rs")).unwrap();
    let file = syn::parse_file(&src).unwrap();
    let mut ops: Vec<String> = vec![];
    let mut fields: Vec<(String, String, String)> = vec![];
    let mut derives: Vec<String> = vec![];
    // (trait ("" for inherent), cfg attribute ("" when none), method rows)
    let mut impls: Vec<(String, String, Vec<(String, String, String, String, Vec<String>)>)> = vec![];
    let mut problems: Vec<String> = vec![];
    for item in &file.items {
        match item {
            Item::Struct(s) if s.ident == "ResponseData" => {
                for f in &s.fields {
                    let vis = match &f.vis {
                        Visibility::Inherited => "private".to_string(),
                        v => norm(tokens_of(v)),
                    };
                    fields.push((f.ident.as_ref().map(|i| i.to_string()).unwrap_or_default(), vis, norm(tokens_of(&f.ty))));
                }
                for a in &s.attrs {
                    if a.path().is_ident("derive") {
                        let _ = a.parse_nested_meta(|m| {
                            derives.push(norm(tokens_of(&m.path)));
                            Ok(())
                        });
                    }
                }
                if !s.generics.params.is_empty() {
                    problems.push("ResponseData has generic parameters".into());
                }
            }
            Item::Impl(im) => {
                let self_ty = norm(tokens_of(&im.self_ty));
                let tr = im.trait_.as_ref().map(|t| norm(tokens_of(&t.1))).unwrap_or_default();
                if self_ty == "ImapCodec" && tr == "Decoder" {
                    for it in &im.items {
                        if let ImplItem::Fn(f) = it {
                            if f.sig.ident == "decode" {
                                // let-normal form first (canon.rs): hoisted sub-expressions and renamed locals do not show
                                let nb = crate::canon::normalize_block(&f.block);
                                let mut loc = Locals(vec![]);
                                loc.visit_block(&nb);
                                let mut v = BufOps { ops: vec![], locals: loc.0 };
                                v.visit_block(&nb);
                                ops = v.ops;
                            } else {
                                problems.push(format!("Decoder for ImapCodec overrides {}", f.sig.ident));
                            }
                        }
                    }
                }
                if self_ty.contains("ResponseData") || tr.contains("ResponseData") {
                    let cfg = im.attrs.iter().filter(|a| a.path().is_ident("cfg")).map(|a| norm(tokens_of(&a.meta))).collect::<Vec<_>>().join(" ");
                    let mut rows = vec![];
                    for it in &im.items {
                        match it {
                            ImplItem::Fn(f) => {
                                let vis = match &f.vis {
                                    Visibility::Inherited => "private".to_string(),
                                    v => norm(tokens_of(v)),
                                };
                                let recv = match f.sig.inputs.first() {
                                    Some(FnArg::Receiver(r)) => norm(tokens_of(r)),
                                    _ => "-".to_string(),
                                };
                                let (out, lts) = match &f.sig.output {
                                    ReturnType::Type(_, t) => (norm(tokens_of(t)), lifetimes_in(t)),
                                    ReturnType::Default => ("()".to_string(), vec![]),
                                };
                                rows.push((f.sig.ident.to_string(), vis, recv, out, lts));
                            }
                            ImplItem::Type(t) => rows.push((format!("type {}", t.ident), "".into(), "-".into(), norm(tokens_of(&t.ty)), lifetimes_in(&t.ty))),
                            other => problems.push(format!("impl item not recognised: {}", norm(tokens_of(other)))),
                        }
                    }
                    impls.push((if self_ty.contains("ResponseData") { tr.clone() } else { format!("{} for {}", tr, self_ty) }, cfg, rows));
                }
            }
            _ => {}
        }
    }
    // Drop impls anywhere in imap-proto (a Drop on a response type could read borrowed data after the frame's bytes are gone)
    let mut drops: Vec<String> = vec![];
    fn walk(dir: &Path, out: &mut Vec<std::path::PathBuf>) {
        if let Ok(rd) = std::fs::read_dir(dir) {
            for e in rd.flatten() {
                let p = e.path();
                if p.is_dir() {
                    walk(&p, out);
                } else if p.extension().map(|x| x == "rs").unwrap_or(false) {
                    out.push(p);
                }
            }
        }
    }
    let mut files = vec![];
    walk(&repo.join("imap-proto/src"), &mut files);
    files.sort();
    for p in files {
        if let Ok(src) = std::fs::read_to_string(&p) {
            if let Ok(f) = syn::parse_file(&src) {
                for item in &f.items {
                    if let Item::Impl(im) = item {
                        if let Some((_, tr, _)) = &im.trait_ {
                            if tr.segments.last().map(|s| s.ident == "Drop").unwrap_or(false) {
                                drops.push(format!("{}: {}", p.strip_prefix(repo).unwrap().display(), norm(tokens_of(&im.self_ty))));
                            }
                        }
                    }
                }
            }
        }
    }

    let mut out = String::from("(* GENERATED by tools/rs2coq from tokio-imap/src/codec.rs (and the Drop impls of imap-proto). *)\nFrom TI Require Import Bytes.\nLocal Open Scope string_scope.\n\n");
    out.push_str("(* calls and constructions in ImapCodec::decode that touch the receive buffer, in source order *)\nDefinition gen_decode_ops : list string :=\n  [");
    out.push_str(&ops.iter().map(|o| coq_str(o)).collect::<Vec<_>>().join(";\n   "));
    out.push_str("].\n\n(* ResponseData: (field, visibility, type) *)\nDefinition gen_frame_fields : list (string * string * string) :=\n  [");
    out.push_str(&fields.iter().map(|(n, v, t)| format!("({}, {}, {})", coq_str(n), coq_str(v), coq_str(t))).collect::<Vec<_>>().join("; "));
    out.push_str("].\n\nDefinition gen_frame_derives : list string :=\n  [");
    out.push_str(&derives.iter().map(|d| coq_str(d)).collect::<Vec<_>>().join("; "));
    out.push_str("].\n\n(* impl blocks mentioning ResponseData: (trait or \"\", cfg, [(method, visibility, receiver, output type, lifetimes in the output)]) *)\nDefinition gen_frame_impls : list (string * string * list (string * string * string * string * list string)) :=\n  [");
    out.push_str(
        &impls
            .iter()
            .map(|(t, c, rows)| {
                format!(
                    "({}, {}, [{}])",
                    coq_str(t),
                    coq_str(c),
                    rows.iter()
                        .map(|(n, v, r, o, l)| format!("({}, {}, {}, {}, [{}])", coq_str(n), coq_str(v), coq_str(r), coq_str(o), l.iter().map(|x| coq_str(x)).collect::<Vec<_>>().join("; ")))
                        .collect::<Vec<_>>()
                        .join("; ")
                )
            })
            .collect::<Vec<_>>()
            .join(";\n   "),
    );
    out.push_str("].\n\nDefinition gen_drop_impls : list string :=\n  [");
    out.push_str(&drops.iter().map(|d| coq_str(d)).collect::<Vec<_>>().join("; "));
    out.push_str("].\n\nDefinition gen_codec_problems : list string :=\n  [");
    out.push_str(&problems.iter().map(|d| coq_str(d)).collect::<Vec<_>>().join("; "));
    out.push_str("].\n");
    out
}
