//! types.rs / acls.rs -> type declarations and `into_owned` bodies (C15);
//! builders/command.rs -> typestate transition table and keyword tables (C14, C16);
//! codec.rs -> API surface of ResponseData (C07).
use crate::util::*;
use std::path::Path;
use syn::*;

fn path_str(p: &syn::Path) -> String {
    p.segments.iter().map(|s| s.ident.to_string()).collect::<Vec<_>>().join("::")
}

fn pat_of(p: &Pat) -> String {
    match p {
        Pat::Ident(i) => format!("PVar {}", coq_str(&i.ident.to_string())),
        Pat::Wild(_) => "PWild".into(),
        Pat::Tuple(t) => format!("PTuple [{}]", t.elems.iter().map(pat_of).collect::<Vec<_>>().join("; ")),
        Pat::Paren(p) => pat_of(&p.pat),
        Pat::Type(t) => pat_of(&t.pat),
        _ => "PWild".into(),
    }
}

/// the closure or function given to map(): (pattern, body)
fn own_fn(e: &Expr) -> String {
    match e {
        Expr::Path(p) => {
            let s = path_str(&p.path);
            if s == "to_owned_cow" {
                "(PVar \"x\") (OCow (OField \"x\"))".into()
            } else if s.ends_with("::into_owned") {
                let ty = s.trim_end_matches("::into_owned");
                format!("(PVar \"x\") (OInto {} (OField \"x\"))", coq_str(ty))
            } else {
                format!("(PVar \"x\") (OUnknown {})", coq_str(&tokens_of(e)))
            }
        }
        Expr::Closure(c) if c.inputs.len() == 1 => format!("({}) ({})", pat_of(&c.inputs[0]), own_expr(&c.body)),
        _ => format!("(PVar \"x\") (OUnknown {})", coq_str(&tokens_of(e))),
    }
}

fn own_expr(e: &Expr) -> String {
    match e {
        Expr::Paren(p) => own_expr(&p.expr),
        Expr::Block(b) if b.block.stmts.len() == 1 => match &b.block.stmts[0] {
            Stmt::Expr(x, None) => own_expr(x),
            _ => format!("OUnknown {}", coq_str(&tokens_of(e))),
        },
        Expr::Path(p) => {
            let s = path_str(&p.path);
            format!("OField {}", coq_str(&s))
        }
        Expr::Field(f) => {
            // self.field
            if tokens_of(&f.base) == "self" {
                if let Member::Named(n) = &f.member {
                    return format!("OField {}", coq_str(&n.to_string()));
                }
            }
            format!("OUnknown {}", coq_str(&tokens_of(e)))
        }
        Expr::Tuple(t) => format!("OTuple [{}]", t.elems.iter().map(own_expr).collect::<Vec<_>>().join("; ")),
        Expr::Call(c) => {
            let f = match &*c.func {
                Expr::Path(p) => path_str(&p.path),
                _ => String::new(),
            };
            if c.args.len() == 1 {
                let a = own_expr(&c.args[0]);
                match f.as_str() {
                    "to_owned_cow" => return format!("OCow ({})", a),
                    "Box::new" => return format!("OBox ({})", a),
                    "body_param_owned" => return format!("OCall \"body_param_owned\" ({})", a),
                    _ if f.ends_with("::into_owned") => {
                        return format!("OInto {} ({})", coq_str(f.trim_end_matches("::into_owned")), a)
                    }
                    _ => {}
                }
            }
            format!("OUnknown {}", coq_str(&tokens_of(e)))
        }
        Expr::MethodCall(m) => {
            let name = m.method.to_string();
            match (name.as_str(), m.args.len()) {
                ("into_owned", 0) => format!("OInto \"?\" ({})", own_expr(&m.receiver)),
                ("map", 1) => {
                    // option map, or iterator map (receiver is .into_iter())
                    if let Expr::MethodCall(r) = &*m.receiver {
                        if r.method == "into_iter" && r.args.is_empty() {
                            return format!("OIterMap {} ({})", own_fn(&m.args[0]), own_expr(&r.receiver));
                        }
                    }
                    format!("OOptMap {} ({})", own_fn(&m.args[0]), own_expr(&m.receiver))
                }
                ("collect", 0) => match &*m.receiver {
                    Expr::MethodCall(r) if r.method == "map" => format!("OCollect ({})", own_expr(&m.receiver)),
                    _ => format!("OUnknown {}", coq_str(&tokens_of(e))),
                },
                _ => format!("OUnknown {}", coq_str(&tokens_of(e))),
            }
        }
        _ => format!("OUnknown {}", coq_str(&tokens_of(e))),
    }
}

struct Row {
    ty: String,
    con: String,        // constructor name as the value model spells it ("Response::Fetch", "Envelope")
    inputs: Vec<String>, // source fields: names (struct-like) or pattern variables (tuple-like), in pattern order
    named: bool,
    outputs: Vec<(String, String)>, // (target field name or position, own expression)
    out_con: String,
}

fn rows_of_into_owned(ty: &str, f: &ImplItemFn, rows: &mut Vec<Row>, problems: &mut Vec<String>) {
    let body = match f.block.stmts.last() {
        Some(Stmt::Expr(e, None)) if f.block.stmts.len() == 1 => e,
        _ => {
            problems.push(format!("{}::into_owned: body shape", ty));
            return;
        }
    };
    match body {
        Expr::Struct(s) => {
            let mut outputs = vec![];
            let mut inputs = vec![];
            for fv in &s.fields {
                let n = match &fv.member {
                    Member::Named(n) => n.to_string(),
                    Member::Unnamed(i) => i.index.to_string(),
                };
                inputs.push(n.clone());
                outputs.push((n, own_expr(&fv.expr)));
            }
            rows.push(Row { ty: ty.into(), con: ty.into(), inputs, named: true, outputs, out_con: path_str(&s.path) });
        }
        Expr::Match(m) if tokens_of(&m.expr) == "self" => {
            for arm in &m.arms {
                let (con, inputs, named) = match &arm.pat {
                    Pat::Path(p) => (path_str(&p.path), vec![], false),
                    Pat::Ident(i) => (i.ident.to_string(), vec![], false),
                    Pat::TupleStruct(t) => (
                        path_str(&t.path),
                        t.elems
                            .iter()
                            .map(|e| match e {
                                Pat::Ident(i) => i.ident.to_string(),
                                _ => "_".into(),
                            })
                            .collect(),
                        false,
                    ),
                    Pat::Struct(s) => (
                        path_str(&s.path),
                        s.fields
                            .iter()
                            .map(|f| match &f.member {
                                Member::Named(n) => n.to_string(),
                                Member::Unnamed(i) => i.index.to_string(),
                            })
                            .collect(),
                        true,
                    ),
                    _ => {
                        problems.push(format!("{}::into_owned: arm pattern {}", ty, tokens_of(&arm.pat)));
                        continue;
                    }
                };
                let mut body_e: &Expr = &arm.body;
                while let Expr::Block(b) = body_e {
                    if b.block.stmts.len() == 1 {
                        if let Stmt::Expr(inner, None) = &b.block.stmts[0] {
                            body_e = inner;
                            continue;
                        }
                    }
                    break;
                }
                let (out_con, outputs) = match body_e {
                    Expr::Path(p) => (path_str(&p.path), vec![]),
                    Expr::Call(c) => (
                        match &*c.func {
                            Expr::Path(p) => path_str(&p.path),
                            _ => "?".into(),
                        },
                        c.args.iter().enumerate().map(|(k, a)| (k.to_string(), own_expr(a))).collect(),
                    ),
                    Expr::Struct(s) => (
                        path_str(&s.path),
                        s.fields
                            .iter()
                            .map(|fv| {
                                (
                                    match &fv.member {
                                        Member::Named(n) => n.to_string(),
                                        Member::Unnamed(i) => i.index.to_string(),
                                    },
                                    own_expr(&fv.expr),
                                )
                            })
                            .collect(),
                    ),
                    _ => {
                        problems.push(format!("{}::into_owned: arm body {}", ty, tokens_of(&arm.body)));
                        continue;
                    }
                };
                rows.push(Row { ty: ty.into(), con, inputs, named, outputs, out_con });
            }
        }
        _ => problems.push(format!("{}::into_owned: body is neither a struct literal nor `match self`", ty)),
    }
}

fn has_lifetime(g: &Generics) -> bool {
    g.lifetimes().next().is_some()
}

pub fn translate(repo: &Path) -> String {
    let mut out = String::from(
        "(* GENERATED by tools/rs2coq from imap-proto/src/types.rs, types/acls.rs, builders/command.rs, tokio-imap/src/codec.rs. *)\nFrom TI Require Import Bytes Grammar Owned.\nLocal Open Scope string_scope.\nLocal Open Scope N_scope.\n\n",
    );
    let mut rows: Vec<Row> = vec![];
    let mut problems: Vec<String> = vec![];
    // (type name, has lifetime, variants: (constructor name, named?, fields))
    let mut types: Vec<(String, bool, Vec<(String, bool, Vec<String>)>)> = vec![];
    let mut helpers: Vec<(String, String)> = vec![];
    for rel in ["imap-proto/src/types.rs", "imap-proto/src/types/acls.rs"] {
        let src = std::fs::read_to_string(repo.join(rel)).unwrap();
        let file = syn::parse_file(&src).unwrap();
        for item in &file.items {
            match item {
                Item::Struct(s) => {
                    let fields: Vec<String> = match &s.fields {
                        Fields::Named(n) => n.named.iter().map(|f| f.ident.as_ref().unwrap().to_string()).collect(),
                        Fields::Unnamed(u) => (0..u.unnamed.len()).map(|k| k.to_string()).collect(),
                        Fields::Unit => vec![],
                    };
                    let named = matches!(s.fields, Fields::Named(_));
                    types.push((s.ident.to_string(), has_lifetime(&s.generics), vec![(s.ident.to_string(), named, fields)]));
                }
                Item::Enum(e) => {
                    let vs = e
                        .variants
                        .iter()
                        .map(|v| {
                            let fields: Vec<String> = match &v.fields {
                                Fields::Named(n) => n.named.iter().map(|f| f.ident.as_ref().unwrap().to_string()).collect(),
                                Fields::Unnamed(u) => (0..u.unnamed.len()).map(|k| k.to_string()).collect(),
                                Fields::Unit => vec![],
                            };
                            (format!("{}::{}", e.ident, v.ident), matches!(v.fields, Fields::Named(_)), fields)
                        })
                        .collect();
                    types.push((e.ident.to_string(), has_lifetime(&e.generics), vs));
                }
                Item::Impl(im) if im.trait_.is_none() => {
                    let ty = match &*im.self_ty {
                        Type::Path(p) => p.path.segments.last().unwrap().ident.to_string(),
                        _ => continue,
                    };
                    for it in &im.items {
                        if let ImplItem::Fn(f) = it {
                            if f.sig.ident == "into_owned" {
                                rows_of_into_owned(&ty, f, &mut rows, &mut problems);
                            }
                        }
                    }
                }
                Item::Fn(f) if f.sig.ident == "body_param_owned" => {
                    // fn body_param_owned(v) -> .. { v.map(|v| v.into_iter().map(|(k, v)| (..)).collect()) }
                    if let Some(Stmt::Expr(e, None)) = f.block.stmts.last() {
                        let param = match f.sig.inputs.first() {
                            Some(FnArg::Typed(t)) => tokens_of(&t.pat),
                            _ => "v".into(),
                        };
                        helpers.push(("body_param_owned".into(), format!("(PVar {}, {})", coq_str(&param), own_expr(e))));
                    }
                }
                Item::Fn(f) if f.sig.ident == "to_owned_cow" => {
                    helpers.push(("to_owned_cow".into(), format!("(* {} *) (PVar \"c\", OCow (OField \"c\"))", fnv64(&tokens_of(f)))));
                }
                _ => {}
            }
        }
    }
    out.push_str("(* ---- type declarations: (type, has a lifetime parameter, [(constructor, named fields?, fields)]) ---- *)\n");
    out.push_str("Definition gen_types : list (string * bool * list (string * bool * list string)) :=\n  [");
    out.push_str(
        &types
            .iter()
            .map(|(t, lt, vs)| {
                format!(
                    "({}, {}, [{}])",
                    coq_str(t),
                    lt,
                    vs.iter()
                        .map(|(c, named, fs)| format!("({}, {}, [{}])", coq_str(c), named, fs.iter().map(|f| coq_str(f)).collect::<Vec<_>>().join("; ")))
                        .collect::<Vec<_>>()
                        .join("; ")
                )
            })
            .collect::<Vec<_>>()
            .join(";\n   "),
    );
    out.push_str("].\n\n");
    out.push_str("(* ---- into_owned bodies: one row per struct / enum variant ---- *)\n");
    out.push_str("Definition gen_into_owned : list own_row :=\n  [");
    out.push_str(
        &rows
            .iter()
            .map(|r| {
                format!(
                    "mk_own_row {} {} {} [{}] {} [{}]",
                    coq_str(&r.ty),
                    coq_str(&r.con),
                    r.named,
                    r.inputs.iter().map(|f| coq_str(f)).collect::<Vec<_>>().join("; "),
                    coq_str(&r.out_con),
                    r.outputs.iter().map(|(f, e)| format!("({}, {})", coq_str(f), e)).collect::<Vec<_>>().join("; ")
                )
            })
            .collect::<Vec<_>>()
            .join(";\n   "),
    );
    out.push_str("].\n\n");
    out.push_str("Definition gen_own_helpers : list (string * (pat * own)) :=\n  [");
    out.push_str(&helpers.iter().map(|(n, b)| format!("({}, {})", coq_str(n), b)).collect::<Vec<_>>().join(";\n   "));
    out.push_str("].\n\n");
    // the entry point: `impl Response { pub fn from_bytes(buf) -> ParseResult { <body> } }` and every other function of lib/types
    // that calls the parser: the model's `parse` is `parser::parse_response`, so the body must be exactly that call
    let mut entry = String::from("<not found>");
    {
        let src = std::fs::read_to_string(repo.join("imap-proto/src/types.rs")).unwrap();
        let file = syn::parse_file(&src).unwrap();
        for item in &file.items {
            if let Item::Impl(im) = item {
                if im.trait_.is_none() && tokens_of(&im.self_ty).starts_with("Response") {
                    for it in &im.items {
                        if let ImplItem::Fn(f) = it {
                            if f.sig.ident == "from_bytes" {
                                entry = f.block.stmts.iter().map(|s| tokens_of(s)).collect::<Vec<_>>().join(" ; ").replace(' ', "");
                            }
                        }
                    }
                }
            }
        }
    }
    out.push_str(&format!("(* body of Response::from_bytes, tokens without spaces *)\nDefinition gen_from_bytes_body : string := {}.\n\n", coq_str(&entry)));
    out.push_str("Definition gen_own_problems : list string :=\n  [");
    out.push_str(&problems.iter().map(|p| coq_str(p)).collect::<Vec<_>>().join(";\n   "));
    out.push_str("].\n");
    out
}
