use std::path::Path;

pub fn write_if_changed(p: &Path, content: &str) {
    if let Ok(old) = std::fs::read_to_string(p) {
        if old == content {
            return;
        }
    }
    std::fs::write(p, content).unwrap();
}

/// Coq string literal
pub fn coq_str(s: &str) -> String {
    let mut o = String::from("\"");
    for c in s.chars() {
        if c == '"' {
            o.push_str("\"\"");
        } else if (c as u32) >= 32 && (c as u32) < 127 {
            o.push(c);
        } else {
            o.push('?');
        }
    }
    o.push('"');
    o
}

/// a byte list: `(bs "...")` when printable, else an explicit list of numbers
pub fn coq_bytes(b: &[u8]) -> String {
    if !b.is_empty() && b.iter().all(|c| *c >= 32 && *c < 127 && *c != b'"') {
        format!("(bs {})", coq_str(std::str::from_utf8(b).unwrap()))
    } else {
        let items: Vec<String> = b.iter().map(|c| c.to_string()).collect();
        format!("[{}]", items.join("; "))
    }
}

pub fn fnv64(s: &str) -> u64 {
    let mut h: u64 = 0xcbf29ce484222325;
    for b in s.as_bytes() {
        h ^= *b as u64;
        h = h.wrapping_mul(0x100000001b3);
    }
    h
}

pub fn tokens_of<T: quote::ToTokens>(t: &T) -> String {
    t.to_token_stream().to_string()
}

pub fn coq_ident(s: &str) -> String {
    s.replace("::", "_x_").replace('#', "_c").replace('-', "_")
}
