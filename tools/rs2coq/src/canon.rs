//! Alpha-normalisation of closures in map / map_res position: the parameters get names that depend only on
//! their position in the pattern (`x` for a single variable, `p<i>` for the i-th component of a tuple,
//! `p<i>_<j>` below that), so that renaming a closure parameter, writing `preceded(a, b)` as
//! `map(pair(a, b), |(_, v)| v)` or `map(p, Some)` as `map(p, |v| Some(v))` does not change the translation.
use proc_macro2::{Group, Ident, TokenStream, TokenTree};
use std::collections::{HashMap, HashSet};
use syn::visit::Visit;
use syn::visit_mut::VisitMut;
use syn::*;

fn collect(p: &Pat, path: &str, top: bool, map: &mut HashMap<String, String>) -> bool {
    match p {
        Pat::Wild(_) => true,
        Pat::Ident(i) if i.subpat.is_none() => {
            let name = if top { "x".to_string() } else { format!("p{}", path) };
            map.insert(i.ident.to_string(), name);
            true
        }
        Pat::Tuple(t) => {
            for (k, e) in t.elems.iter().enumerate() {
                let sub = if path.is_empty() { format!("{}", k) } else { format!("{}_{}", path, k) };
                if !collect(e, &sub, false, map) {
                    return false;
                }
            }
            true
        }
        Pat::Paren(p) => collect(&p.pat, path, top, map),
        Pat::Type(t) => collect(&t.pat, path, top, map),
        _ => false,
    }
}

struct Binders(HashSet<String>);
impl<'ast> Visit<'ast> for Binders {
    fn visit_pat_ident(&mut self, p: &'ast PatIdent) {
        self.0.insert(p.ident.to_string());
        visit::visit_pat_ident(self, p);
    }
}

fn rename_tokens(ts: TokenStream, map: &HashMap<String, String>) -> TokenStream {
    let mut out = vec![];
    let mut prev_dot = false;
    for t in ts {
        match t {
            TokenTree::Ident(i) => {
                let s = i.to_string();
                match map.get(&s) {
                    Some(n) if !prev_dot => out.push(TokenTree::Ident(Ident::new(n, i.span()))),
                    _ => out.push(TokenTree::Ident(i)),
                }
                prev_dot = false;
            }
            TokenTree::Group(g) => {
                let mut ng = Group::new(g.delimiter(), rename_tokens(g.stream(), map));
                ng.set_span(g.span());
                out.push(TokenTree::Group(ng));
                prev_dot = false;
            }
            TokenTree::Punct(p) => {
                prev_dot = p.as_char() == '.';
                out.push(TokenTree::Punct(p));
            }
            other => {
                prev_dot = false;
                out.push(other)
            }
        }
    }
    out.into_iter().collect()
}

struct Renamer<'a>(&'a HashMap<String, String>);
impl VisitMut for Renamer<'_> {
    fn visit_expr_path_mut(&mut self, p: &mut ExprPath) {
        if p.qself.is_none() && p.path.leading_colon.is_none() && p.path.segments.len() == 1 && p.path.segments[0].arguments.is_none() {
            let id = &p.path.segments[0].ident;
            if let Some(n) = self.0.get(&id.to_string()) {
                p.path.segments[0].ident = Ident::new(n, id.span());
            }
        }
    }
    fn visit_pat_ident_mut(&mut self, p: &mut PatIdent) {
        if let Some(n) = self.0.get(&p.ident.to_string()) {
            p.ident = Ident::new(n, p.ident.span());
        }
        visit_mut::visit_pat_ident_mut(self, p);
    }
    fn visit_field_value_mut(&mut self, fv: &mut FieldValue) {
        if fv.colon_token.is_none() {
            fv.colon_token = Some(Default::default());
        }
        self.visit_expr_mut(&mut fv.expr);
    }
    fn visit_macro_mut(&mut self, m: &mut Macro) {
        m.tokens = rename_tokens(m.tokens.clone(), self.0);
    }
}

/// the closure with canonical parameter names, or None when it is left as written (unusual pattern, or an
/// inner binder that would capture a canonical name)
pub fn canon_closure(c: &ExprClosure) -> Option<ExprClosure> {
    if c.inputs.len() != 1 {
        return None;
    }
    let mut map = HashMap::new();
    if !collect(&c.inputs[0], "", true, &mut map) {
        return None;
    }
    let mut b = Binders(HashSet::new());
    b.visit_expr(&c.body);
    let targets: HashSet<&String> = map.values().collect();
    for inner in &b.0 {
        if targets.contains(inner) && map.get(inner) != Some(inner) {
            return None;
        }
    }
    // a free identifier of the body that already has a canonical name would be captured too
    let mut c2 = c.clone();
    let mut r = Renamer(&map);
    r.visit_pat_mut(&mut c2.inputs[0]);
    r.visit_expr_mut(&mut c2.body);
    Some(c2)
}

// ---------------------------------------------------------------- let-normal form of a function body
//
// `normalize_block` rewrites a block into a normal form in which renaming a local, hoisting a sub-expression into a
// `let`, destructuring a struct parameter instead of accessing its field, or writing a struct field in shorthand does
// not show:
//   * `S { f, .. }` field shorthand becomes `f : f`;
//   * `let S { f, g: h, .. } = p;` (p a path) is dropped and `f`, `h` are replaced by `p.f`, `p.g`;
//   * `let x = e;` / `let x: T = e;` (not `mut`) whose `x` is used exactly once afterwards is dropped and the use is
//     replaced by `e`.
// Evaluation order may differ between a function and its normal form when the inlined expression has side effects; the
// normal form is only a key for the model, whose agreement with the running code is the correspondence check's business.

fn simple_postfix(e: &Expr) -> bool {
    matches!(
        e,
        Expr::Path(_) | Expr::MethodCall(_) | Expr::Call(_) | Expr::Macro(_) | Expr::Field(_) | Expr::Lit(_) | Expr::Paren(_) | Expr::Struct(_) | Expr::Index(_)
    )
}

fn expr_tokens(e: &Expr) -> TokenStream {
    use quote::ToTokens;
    if simple_postfix(e) {
        e.to_token_stream()
    } else {
        let inner = e.to_token_stream();
        TokenTree::Group(Group::new(proc_macro2::Delimiter::Parenthesis, inner)).into()
    }
}

fn count_tokens(ts: &TokenStream, name: &str) -> usize {
    let mut n = 0;
    let mut prev_dot = false;
    for t in ts.clone() {
        match t {
            TokenTree::Ident(i) => {
                if !prev_dot && i == name {
                    n += 1;
                }
                prev_dot = false;
            }
            TokenTree::Group(g) => {
                n += count_tokens(&g.stream(), name);
                prev_dot = false;
            }
            TokenTree::Punct(p) => prev_dot = p.as_char() == '.',
            _ => prev_dot = false,
        }
    }
    n
}

fn subst_tokens(ts: TokenStream, name: &str, by: &Expr) -> TokenStream {
    use quote::ToTokens;
    let toks: Vec<TokenTree> = ts.into_iter().collect();
    let mut out: Vec<TokenTree> = vec![];
    let is_comma = |t: Option<&TokenTree>| match t {
        None => true,
        Some(TokenTree::Punct(p)) => p.as_char() == ',',
        _ => false,
    };
    for (k, t) in toks.iter().enumerate() {
        let prev_dot = k > 0 && matches!(&toks[k - 1], TokenTree::Punct(p) if p.as_char() == '.');
        match t {
            TokenTree::Ident(i) if !prev_dot && i == name => {
                // a whole comma-delimited macro argument needs no parentheses
                let whole = is_comma(if k > 0 { toks.get(k - 1) } else { None }) && is_comma(toks.get(k + 1));
                if whole {
                    out.extend(by.to_token_stream());
                } else {
                    out.extend(expr_tokens(by));
                }
            }
            TokenTree::Group(g) => {
                let mut ng = Group::new(g.delimiter(), subst_tokens(g.stream(), name, by));
                ng.set_span(g.span());
                out.push(TokenTree::Group(ng));
            }
            other => out.push(other.clone()),
        }
    }
    out.into_iter().collect()
}

struct Uses<'a> {
    name: &'a str,
    n: usize,
    rebound: bool,
}
impl<'ast> Visit<'ast> for Uses<'_> {
    fn visit_expr_path(&mut self, p: &'ast ExprPath) {
        if p.qself.is_none() && p.path.is_ident(self.name) {
            self.n += 1;
        }
    }
    fn visit_macro(&mut self, m: &'ast Macro) {
        self.n += count_tokens(&m.tokens, self.name);
    }
    fn visit_pat_ident(&mut self, p: &'ast PatIdent) {
        if p.ident == self.name {
            self.rebound = true;
        }
        visit::visit_pat_ident(self, p);
    }
}

struct Subst<'a> {
    name: &'a str,
    by: &'a Expr,
}
impl VisitMut for Subst<'_> {
    fn visit_expr_mut(&mut self, e: &mut Expr) {
        if let Expr::Path(p) = e {
            if p.qself.is_none() && p.path.is_ident(self.name) {
                *e = if simple_postfix(self.by) {
                    self.by.clone()
                } else {
                    Expr::Paren(ExprParen { attrs: vec![], paren_token: Default::default(), expr: Box::new(self.by.clone()) })
                };
                return;
            }
        }
        visit_mut::visit_expr_mut(self, e);
    }
    fn visit_macro_mut(&mut self, m: &mut Macro) {
        m.tokens = subst_tokens(m.tokens.clone(), self.name, self.by);
    }
}

struct Longhand;
impl VisitMut for Longhand {
    fn visit_field_value_mut(&mut self, fv: &mut FieldValue) {
        if fv.colon_token.is_none() {
            fv.colon_token = Some(Default::default());
        }
        visit_mut::visit_field_value_mut(self, fv);
    }
}

fn plain_ident(p: &Pat) -> Option<(String, bool)> {
    match p {
        Pat::Ident(i) if i.by_ref.is_none() && i.subpat.is_none() => Some((i.ident.to_string(), i.mutability.is_some())),
        Pat::Type(t) => plain_ident(&t.pat),
        Pat::Paren(p) => plain_ident(&p.pat),
        _ => None,
    }
}

pub fn substitute(e: &mut Expr, name: &str, by: &Expr) {
    let mut s = Subst { name, by };
    s.visit_expr_mut(e);
}

struct Deep;
impl VisitMut for Deep {
    fn visit_block_mut(&mut self, b: &mut Block) {
        visit_mut::visit_block_mut(self, b);
        *b = normalize_shallow(b);
    }
}

/// let-normal form of a block and of every block nested in it
pub fn normalize_block(b: &Block) -> Block {
    let mut b = b.clone();
    Deep.visit_block_mut(&mut b);
    b
}

fn normalize_shallow(b: &Block) -> Block {
    let mut b = b.clone();
    Longhand.visit_block_mut(&mut b);
    let mut k = 0;
    while k < b.stmts.len() {
        let mut substs: Vec<(String, Expr)> = vec![];
        let mut drop = false;
        if let Stmt::Local(l) = &b.stmts[k] {
            if let Some(init) = &l.init {
                if init.diverge.is_none() {
                    // struct destructuring of a path
                    if let (Pat::Struct(ps), Expr::Path(src)) = (&l.pat, &*init.expr) {
                        let mut ok = true;
                        for f in &ps.fields {
                            match (&f.member, plain_ident(&f.pat)) {
                                (Member::Named(m), Some((v, _))) => {
                                    let fe: Expr = syn::parse2({
                                        use quote::ToTokens;
                                        let mut ts = src.to_token_stream();
                                        ts.extend(quote::quote!(. #m));
                                        ts
                                    })
                                    .unwrap();
                                    substs.push((v, fe));
                                }
                                _ => ok = false,
                            }
                        }
                        if ok {
                            drop = true;
                        } else {
                            substs.clear();
                        }
                    } else if let Some((v, is_mut)) = plain_ident(&l.pat) {
                        if !is_mut {
                            let mut u = Uses { name: &v, n: 0, rebound: false };
                            for s in &b.stmts[k + 1..] {
                                u.visit_stmt(s);
                            }
                            if u.n == 1 && !u.rebound {
                                substs.push((v, (*init.expr).clone()));
                                drop = true;
                            }
                        }
                    }
                }
            }
        }
        if drop {
            for (v, by) in &substs {
                let mut s = Subst { name: v, by };
                for st in b.stmts[k + 1..].iter_mut() {
                    s.visit_stmt_mut(st);
                }
            }
            b.stmts.remove(k);
        } else {
            k += 1;
        }
    }
    b
}
