//! builders/command.rs -> the typestate machine tables (C14, C16):
//!   gen/BuilderTables.v        constructors, transitions, finals, keyword tables (Machine.v language)
//!   harness/src/gen_chains.rs  a dynamically-driven wrapper with one arm per (typestate, method) of the
//!                              *current* source, so the harness can run every chain the types admit.
use crate::util::*;
use std::collections::BTreeMap;
use std::path::Path;
use syn::*;

#[derive(Clone, Debug, PartialEq)]
enum Piece {
    Lit(Vec<u8>),
    Dec(String, String),
    Kw(String, String),
    Quoted(String),
    Unknown(String),
}

struct Ctx {
    helpers: BTreeMap<String, (Vec<String>, Vec<Piece>)>, // helper fn -> (value parameter names, pieces)
    kw: BTreeMap<String, Vec<(String, String)>>,
    problems: Vec<String>,
    // free functions whose body is one expression of their parameters: unfolded at their call sites
    pure_fns: BTreeMap<String, (Vec<String>, Expr)>,
    // inherent methods of the argument enums that are one expression of `self`: (type, method) -> body
    pure_methods: BTreeMap<(String, String), Expr>,
    // types of the value parameters of the function being read
    cur_params: Vec<(String, String)>,
    // locals bound to `quoted_string(p).unwrap()`: local -> p
    quoted_locals: BTreeMap<String, String>,
}

fn path_str(p: &syn::Path) -> String {
    p.segments.iter().map(|s| s.ident.to_string()).collect::<Vec<_>>().join("::")
}

fn strip_expr(e: &Expr) -> &Expr {
    match e {
        Expr::Paren(p) => strip_expr(&p.expr),
        Expr::Reference(r) => strip_expr(&r.expr),
        Expr::Group(g) => strip_expr(&g.expr),
        _ => e,
    }
}

fn is_buffer(e: &Expr) -> bool {
    let t = tokens_of(strip_expr(e)).replace(' ', "");
    t == "self.args" || t == "cmd" || t == "cmd.args" || t == "args"
}

fn merge(ps: Vec<Piece>) -> Vec<Piece> {
    let mut out: Vec<Piece> = vec![];
    for p in ps {
        if let (Some(Piece::Lit(a)), Piece::Lit(b)) = (out.last_mut(), &p) {
            a.extend_from_slice(b);
            continue;
        }
        if let Piece::Lit(b) = &p {
            if b.is_empty() {
                continue;
            }
        }
        out.push(p);
    }
    out
}

impl Ctx {
    /// an expression denoting text: "lit", b"lit", v.to_string(), range.start().to_string(), match v {..}, each possibly .as_bytes()
    fn text(&mut self, e: &Expr, whr: &str) -> Option<Vec<Piece>> {
        let e = strip_expr(e);
        match e {
            Expr::Lit(l) => match &l.lit {
                Lit::ByteStr(b) => Some(vec![Piece::Lit(b.value())]),
                Lit::Str(s) => Some(vec![Piece::Lit(s.value().into_bytes())]),
                Lit::Byte(b) => Some(vec![Piece::Lit(vec![b.value()])]),
                _ => None,
            },
            Expr::MethodCall(m) if m.args.is_empty() && (m.method == "as_bytes" || m.method == "to_vec" || m.method == "into_bytes") => self.text(&m.receiver, whr),
            Expr::MethodCall(m) if m.args.is_empty() && m.method == "to_string" => {
                let r = strip_expr(&m.receiver);
                match r {
                    Expr::Path(p) => Some(vec![Piece::Dec(path_str(&p.path), String::new())]),
                    Expr::MethodCall(c) if c.args.is_empty() && (c.method == "start" || c.method == "end") => match strip_expr(&c.receiver) {
                        Expr::Path(p) => Some(vec![Piece::Dec(path_str(&p.path), c.method.to_string())]),
                        _ => None,
                    },
                    Expr::Field(f) => match (strip_expr(&f.base), &f.member) {
                        (Expr::Path(p), Member::Named(n)) if n == "start" || n == "end" => Some(vec![Piece::Dec(path_str(&p.path), n.to_string())]),
                        _ => None,
                    },
                    _ => None,
                }
            }
            Expr::Match(m) => {
                let var = match strip_expr(&m.expr) {
                    Expr::Path(p) => path_str(&p.path),
                    _ => return None,
                };
                let mut table = String::new();
                let mut rows = vec![];
                for arm in &m.arms {
                    if arm.guard.is_some() {
                        return None;
                    }
                    let name = match &arm.pat {
                        Pat::Path(p) => path_str(&p.path),
                        Pat::Ident(i) => i.ident.to_string(),
                        _ => return None,
                    };
                    let t = name.split("::").next().unwrap_or("").to_string();
                    if table.is_empty() {
                        table = t;
                    } else if table != t {
                        return None;
                    }
                    let kw = match strip_expr(&arm.body) {
                        Expr::Lit(l) => match &l.lit {
                            Lit::Str(s) => s.value(),
                            _ => return None,
                        },
                        _ => return None,
                    };
                    rows.push((name, kw));
                }
                match self.kw.get(&table) {
                    Some(old) if *old != rows => self.problems.push(format!("{}: two different keyword tables for {}", whr, table)),
                    _ => {
                        self.kw.insert(table.clone(), rows);
                    }
                }
                Some(vec![Piece::Kw(table, var)])
            }
            Expr::Macro(m) if m.mac.path.is_ident("format") => self.format_macro(&m.mac, whr),
            Expr::Path(p) if p.path.segments.len() == 1 && self.quoted_locals.contains_key(&path_str(&p.path)) => {
                Some(vec![Piece::Quoted(self.quoted_locals[&path_str(&p.path)].clone())])
            }
            Expr::MethodCall(m) if m.args.is_empty() => {
                // `v.keyword()` where v is a parameter of an enum type with a one-expression inherent method
                if let Expr::Path(rp) = strip_expr(&m.receiver) {
                    let v = path_str(&rp.path);
                    let ty = self.cur_params.iter().find(|(n, _)| *n == v).map(|(_, t)| t.clone())?;
                    let body = self.pure_methods.get(&(ty, m.method.to_string()))?.clone();
                    let mut e2 = body;
                    let by: Expr = syn::parse_str(&v).ok()?;
                    crate::canon::substitute(&mut e2, "self", &by);
                    return self.text(&e2, whr);
                }
                None
            }
            Expr::Unary(u) if matches!(u.op, UnOp::Deref(_)) => self.text(&u.expr, whr),
            Expr::Call(c) => {
                // a private one-expression function (e.g. a keyword table pulled out into its own fn): unfold it
                if let Expr::Path(p) = &*c.func {
                    if let Some((params, body)) = self.pure_fns.get(&path_str(&p.path)).cloned() {
                        if params.len() == c.args.len() {
                            let mut e2 = body;
                            for (p, a) in params.iter().zip(c.args.iter()) {
                                crate::canon::substitute(&mut e2, p, a);
                            }
                            return self.text(&e2, whr);
                        }
                    }
                }
                None
            }
            _ => None,
        }
    }

    /// format!("LIT {} LIT {}", quoted_string(a).unwrap(), ...)
    fn format_macro(&mut self, mac: &Macro, _whr: &str) -> Option<Vec<Piece>> {
        let args: syn::punctuated::Punctuated<Expr, Token![,]> = mac.parse_body_with(syn::punctuated::Punctuated::parse_terminated).ok()?;
        let mut it = args.iter();
        let fmt = match it.next()? {
            Expr::Lit(l) => match &l.lit {
                Lit::Str(s) => s.value(),
                _ => return None,
            },
            _ => return None,
        };
        let mut out = vec![];
        let mut rest = fmt.as_str();
        loop {
            match rest.find("{}") {
                Some(k) => {
                    out.push(Piece::Lit(rest[..k].as_bytes().to_vec()));
                    let a = strip_expr(it.next()?);
                    // quoted_string(x).unwrap()
                    let ok = match a {
                        Expr::MethodCall(u) if u.method == "unwrap" && u.args.is_empty() => match strip_expr(&u.receiver) {
                            Expr::Call(c) if tokens_of(&c.func) == "quoted_string" && c.args.len() == 1 => match strip_expr(&c.args[0]) {
                                Expr::Path(p) => {
                                    out.push(Piece::Quoted(path_str(&p.path)));
                                    true
                                }
                                _ => false,
                            },
                            _ => false,
                        },
                        _ => false,
                    };
                    let ok = ok || {
                        // a number: n, r.start(), r.end(), r.start
                        let fake: Expr = syn::parse_quote!((#a).to_string());
                        match self.text(&fake, _whr) {
                            Some(ps) if ps.len() == 1 && matches!(ps[0], Piece::Dec(..)) => {
                                out.extend(ps);
                                true
                            }
                            _ => false,
                        }
                    };
                    if !ok {
                        return None;
                    }
                    rest = &rest[k + 2..];
                }
                None => {
                    if rest.contains('{') || rest.contains('}') {
                        return None;
                    }
                    out.push(Piece::Lit(rest.as_bytes().to_vec()));
                    break;
                }
            }
        }
        if it.next().is_some() {
            return None;
        }
        Some(out)
    }

    /// one statement that appends to the buffer
    fn stmt(&mut self, s: &Stmt, whr: &str) -> Option<Vec<Piece>> {
        let e = match s {
            Stmt::Expr(e, _) => e,
            _ => return None,
        };
        match e {
            Expr::MethodCall(m) if is_buffer(&m.receiver) && m.args.len() == 1 => {
                let name = m.method.to_string();
                if name == "extend" || name == "extend_from_slice" || name == "push" {
                    return self.text(&m.args[0], whr);
                }
                None
            }
            Expr::Call(c) => {
                let f = tokens_of(&c.func);
                let (params, pieces) = self.helpers.get(&f)?.clone();
                if c.args.len() != params.len() + 1 || !is_buffer(&c.args[0]) {
                    return None;
                }
                let mut sub = BTreeMap::new();
                for (p, a) in params.iter().zip(c.args.iter().skip(1)) {
                    match strip_expr(a) {
                        Expr::Path(pa) => {
                            sub.insert(p.clone(), path_str(&pa.path));
                        }
                        _ => return None,
                    }
                }
                Some(
                    pieces
                        .into_iter()
                        .map(|p| match p {
                            Piece::Dec(v, c) => Piece::Dec(sub.get(&v).cloned().unwrap_or(v), c),
                            Piece::Kw(t, v) => Piece::Kw(t, sub.get(&v).cloned().unwrap_or(v)),
                            Piece::Quoted(v) => Piece::Quoted(sub.get(&v).cloned().unwrap_or(v)),
                            l => l,
                        })
                        .collect(),
                )
            }
            _ => None,
        }
    }
}

fn coq_piece(p: &Piece) -> String {
    match p {
        Piece::Lit(b) => {
            if b.iter().all(|c| *c >= 32 && *c < 127) {
                format!("PLit {}", coq_str(std::str::from_utf8(b).unwrap()))
            } else {
                format!("PLit {}", coq_str(&"?".repeat(b.len())))
            }
        }
        Piece::Dec(v, c) => format!("PDec {} {}", coq_str(v), coq_str(c)),
        Piece::Kw(t, v) => format!("PKw {} {}", coq_str(t), coq_str(v)),
        Piece::Quoted(v) => format!("PQuoted {}", coq_str(v)),
        Piece::Unknown(w) => format!("PUnknown {}", coq_str(w)),
    }
}
fn coq_pieces(ps: &[Piece]) -> String {
    format!("[{}]", ps.iter().map(coq_piece).collect::<Vec<_>>().join("; "))
}

/// `FetchCommand<fetch::Empty>` -> ("FetchCommand", "Empty"); `Command` -> ("Command", "")
fn builder_type(t: &Type) -> Option<(String, String)> {
    if let Type::Path(p) = t {
        let seg = p.path.segments.last()?;
        let name = seg.ident.to_string();
        match &seg.arguments {
            PathArguments::None => return Some((name, String::new())),
            PathArguments::AngleBracketed(a) if a.args.len() == 1 => {
                if let GenericArgument::Type(Type::Path(s)) = &a.args[0] {
                    return Some((name, s.path.segments.last()?.ident.to_string()));
                }
            }
            _ => {}
        }
    }
    None
}

fn type_str(t: &Type) -> String {
    tokens_of(t).replace(' ', "")
}

struct Trans {
    ty: String,
    from: String,
    meth: String,
    params: Vec<(String, String)>,
    pieces: Vec<Piece>,
    to: String,
}
struct Final {
    ty: String,
    state: String,
    pieces: Vec<Piece>,
    next: String,
}
struct Ctor {
    name: String,
    params: Vec<(String, String)>,
    pieces: Vec<Piece>,
    ty: String,
    state: String,
    next: String,
}

fn value_params(sig: &Signature) -> Vec<(String, String)> {
    // a generic parameter (or `impl Trait`) bounded by RangeBounds<u32> is shown as the pseudo-type "RangeBounds<u32>":
    // the generated wrapper instantiates it with every kind of range expression
    let mut range_generics: Vec<String> = vec![];
    for gp in sig.generics.type_params() {
        if tokens_of(&gp.bounds).replace(' ', "").contains("RangeBounds<u32>") {
            range_generics.push(gp.ident.to_string());
        }
    }
    if let Some(w) = &sig.generics.where_clause {
        for pr in &w.predicates {
            let t = tokens_of(pr).replace(' ', "");
            if t.contains("RangeBounds<u32>") {
                if let Some((lhs, _)) = t.split_once(':') {
                    range_generics.push(lhs.to_string());
                }
            }
        }
    }
    let fix = |t: String| -> String {
        let flat = t.replace(' ', "");
        if range_generics.contains(&flat) || flat.contains("implRangeBounds<u32>") || flat.contains("implstd::ops::RangeBounds<u32>") {
            "RangeBounds<u32>".to_string()
        } else {
            t
        }
    };
    sig.inputs
        .iter()
        .filter_map(|a| match a {
            FnArg::Typed(t) => match &*t.pat {
                Pat::Ident(i) => Some((i.ident.to_string(), fix(type_str(&t.ty)))),
                _ => Some(("?".into(), fix(type_str(&t.ty)))),
            },
            _ => None,
        })
        .collect()
}

/// `Command { args, next_state: X }` / `Command { args: cmd.args, next_state: X }` / `FetchCommand { args: .., state: PhantomData }`
/// returns (pieces given inline for args, next_state text)
fn struct_tail(cx: &mut Ctx, e: &Expr, whr: &str) -> Option<(Vec<Piece>, String)> {
    match strip_expr(e) {
        Expr::Struct(s) => {
            let mut pieces = vec![];
            let mut next = String::new();
            for f in &s.fields {
                let n = match &f.member {
                    Member::Named(n) => n.to_string(),
                    _ => return None,
                };
                match n.as_str() {
                    "args" => {
                        let t = tokens_of(strip_expr(&f.expr)).replace(' ', "");
                        if t == "args" || t == "self.args" || t == "cmd.args" {
                        } else {
                            pieces = cx.text(&f.expr, whr)?;
                        }
                    }
                    "next_state" => next = tokens_of(&f.expr).replace(' ', ""),
                    "state" => {
                        if tokens_of(&f.expr) != "PhantomData" {
                            return None;
                        }
                    }
                    _ => return None,
                }
            }
            Some((pieces, next))
        }
        Expr::Path(p) if p.path.is_ident("self") => Some((vec![], String::new())),
        _ => None,
    }
}

/// body = appending statements, then the tail
fn body(cx: &mut Ctx, b: &Block, whr: &str) -> Option<(Vec<Piece>, String)> {
    cx.quoted_locals.clear();
    // let-normal form (canon.rs): renamed or hoisted locals, destructured parameters and field shorthand do not show
    let nb = crate::canon::normalize_block(b);
    let b = &nb;
    let n = b.stmts.len();
    if n == 0 {
        return None;
    }
    let mut pieces = vec![];
    for (k, s) in b.stmts.iter().enumerate() {
        if k + 1 == n {
            let tail = match s {
                Stmt::Expr(e, None) => e,
                _ => return None,
            };
            let (p, next) = struct_tail(cx, tail, whr)?;
            pieces.extend(p);
            return Some((merge(pieces), next));
        }
        // `let args = <text>;` (constructors)
        if let Stmt::Local(l) = s {
            if let (Pat::Ident(i), Some(init)) = (&l.pat, &l.init) {
                // `let r = quoted_string(p).unwrap();`
                if let Expr::MethodCall(u) = strip_expr(&init.expr) {
                    if u.method == "unwrap" && u.args.is_empty() {
                        if let Expr::Call(c) = strip_expr(&u.receiver) {
                            if tokens_of(&c.func) == "quoted_string" && c.args.len() == 1 {
                                if let Expr::Path(p) = strip_expr(&c.args[0]) {
                                    cx.quoted_locals.insert(i.ident.to_string(), path_str(&p.path));
                                    continue;
                                }
                            }
                        }
                    }
                }
                // `let mut args = Vec::new() / Vec::with_capacity(..) / vec![]`: an empty buffer
                if i.ident == "args" && init.diverge.is_none() {
                    let t = tokens_of(strip_expr(&init.expr)).replace(' ', "");
                    if t == "Vec::new()" || t.starts_with("Vec::with_capacity(") || t == "vec![]" {
                        continue;
                    }
                }
                if i.ident == "args" && init.diverge.is_none() {
                    pieces.extend(cx.text(&init.expr, whr)?);
                    continue;
                }
            }
            return None;
        }
        pieces.extend(cx.stmt(s, whr)?);
    }
    None
}

pub struct Output {
    pub coq: String,
    pub rust: String,
}

pub fn translate(repo: &Path) -> Output {
    let src = std::fs::read_to_string(repo.join("imap-proto/src/builders/command.rs")).unwrap();
    let file = syn::parse_file(&src).unwrap();
    let mut cx = Ctx { helpers: BTreeMap::new(), kw: BTreeMap::new(), problems: vec![], pure_fns: BTreeMap::new(), pure_methods: BTreeMap::new(), cur_params: vec![], quoted_locals: BTreeMap::new() };
    // inherent one-expression methods on the enums of types.rs (a keyword table moved next to its enum)
    if let Ok(tsrc) = std::fs::read_to_string(repo.join("imap-proto/src/types.rs")) {
        if let Ok(tfile) = syn::parse_file(&tsrc) {
            for item in &tfile.items {
                if let Item::Impl(im) = item {
                    if im.trait_.is_some() {
                        continue;
                    }
                    let ty = tokens_of(&im.self_ty).replace(' ', "");
                    for it in &im.items {
                        if let ImplItem::Fn(f) = it {
                            let only_self = f.sig.inputs.len() == 1 && matches!(f.sig.inputs.first(), Some(FnArg::Receiver(_)));
                            let nb = crate::canon::normalize_block(&f.block);
                            if only_self && nb.stmts.len() == 1 {
                                if let Stmt::Expr(e, None) = &nb.stmts[0] {
                                    cx.pure_methods.insert((ty.clone(), f.sig.ident.to_string()), e.clone());
                                }
                            }
                        }
                    }
                }
            }
        }
    }
    // pass 0: free functions that are one expression of their parameters
    for item in &file.items {
        if let Item::Fn(f) = item {
            let nb = crate::canon::normalize_block(&f.block);
            if nb.stmts.len() == 1 {
                if let Stmt::Expr(e, None) = &nb.stmts[0] {
                    let mut params = vec![];
                    let mut ok = true;
                    for a in &f.sig.inputs {
                        match a {
                            FnArg::Typed(t) => match &*t.pat {
                                Pat::Ident(i) if i.by_ref.is_none() => params.push(i.ident.to_string()),
                                _ => ok = false,
                            },
                            _ => ok = false,
                        }
                    }
                    if ok {
                        cx.pure_fns.insert(f.sig.ident.to_string(), (params, e.clone()));
                    }
                }
            }
        }
    }
    let mut trans: Vec<Trans> = vec![];
    let mut finals: Vec<Final> = vec![];
    let mut ctors: Vec<Ctor> = vec![];

    // pass 1: helper functions `fn f(cmd: &mut Vec<u8>, x: T)` whose body only appends
    for item in &file.items {
        if let Item::Fn(f) = item {
            let ps = value_params(&f.sig);
            cx.cur_params = ps.clone();
            if ps.first().map(|p| p.0 == "cmd" && p.1 == "&mutVec<u8>").unwrap_or(false) {
                let whr = format!("fn {}", f.sig.ident);
                let mut pieces = vec![];
                let mut ok = true;
                for s in &crate::canon::normalize_block(&f.block).stmts {
                    match cx.stmt(s, &whr) {
                        Some(p) => pieces.extend(p),
                        None => ok = false,
                    }
                }
                if ok {
                    cx.helpers.insert(f.sig.ident.to_string(), (ps[1..].iter().map(|p| p.0.clone()).collect(), merge(pieces)));
                } else {
                    cx.problems.push(format!("{}: statement not recognised", whr));
                }
            }
        }
    }
    // pass 2: impl blocks
    for item in &file.items {
        match item {
            Item::Struct(s) => {
                let n = s.ident.to_string();
                if n == "FetchCommand" || n == "SelectCommand" {
                    for f in &s.fields {
                        if !matches!(f.vis, Visibility::Inherited) {
                            cx.problems.push(format!("struct {}: field `{}` is not private (builder values could be forged)", n, f.ident.as_ref().map(|i| i.to_string()).unwrap_or_default()));
                        }
                    }
                    if s.attrs.iter().any(|a| tokens_of(a).contains("derive")) {
                        cx.problems.push(format!("struct {}: derives are not expected on a typestate builder", n));
                    }
                }
            }
            Item::Impl(im) => {
                if !im.generics.params.is_empty() {
                    cx.problems.push(format!("generic impl block: {}", tokens_of(&im.self_ty)));
                    continue;
                }
                let self_ty = builder_type(&im.self_ty);
                match (&im.trait_, self_ty) {
                    (None, Some((ty, st))) if ty == "CommandBuilder" && st.is_empty() => {
                        for it in &im.items {
                            if let ImplItem::Fn(f) = it {
                                let whr = format!("CommandBuilder::{}", f.sig.ident);
                                let ret = match &f.sig.output {
                                    ReturnType::Type(_, t) => builder_type(t),
                                    _ => None,
                                };
                                match ({ cx.cur_params = value_params(&f.sig); body(&mut cx, &f.block, &whr) }, ret) {
                                    (Some((pieces, next)), Some((rty, rst))) => ctors.push(Ctor { name: f.sig.ident.to_string(), params: value_params(&f.sig), pieces, ty: rty, state: rst, next }),
                                    (None, Some((rty, rst))) => {
                                        // the signature is enough for the harness wrapper; the Coq side sees an unknown piece
                                        cx.problems.push(format!("{}: body not recognised", whr));
                                        ctors.push(Ctor { name: f.sig.ident.to_string(), params: value_params(&f.sig), pieces: vec![Piece::Unknown(whr.clone())], ty: rty, state: rst, next: String::new() });
                                    }
                                    _ => cx.problems.push(format!("{}: signature not recognised", whr)),
                                }
                            }
                        }
                    }
                    (None, Some((ty, st))) if ty == "FetchCommand" || ty == "SelectCommand" => {
                        for it in &im.items {
                            if let ImplItem::Fn(f) = it {
                                let whr = format!("{}<{}>::{}", ty, st, f.sig.ident);
                                if !matches!(f.vis, Visibility::Public(_)) {
                                    // private helpers on a state would need inlining
                                    cx.problems.push(format!("{}: non-public method", whr));
                                    continue;
                                }
                                let takes_self = matches!(f.sig.inputs.first(), Some(FnArg::Receiver(r)) if r.reference.is_none());
                                let ret = match &f.sig.output {
                                    ReturnType::Type(_, t) => builder_type(t),
                                    _ => None,
                                };
                                match (takes_self, { cx.cur_params = value_params(&f.sig); body(&mut cx, &f.block, &whr) }, ret) {
                                    (true, Some((pieces, _)), Some((rty, rst))) if rty == ty => {
                                        trans.push(Trans { ty: ty.clone(), from: st.clone(), meth: f.sig.ident.to_string(), params: value_params(&f.sig), pieces, to: rst })
                                    }
                                    (true, None, Some((rty, rst))) if rty == ty => {
                                        cx.problems.push(format!("{}: body not recognised", whr));
                                        trans.push(Trans { ty: ty.clone(), from: st.clone(), meth: f.sig.ident.to_string(), params: value_params(&f.sig), pieces: vec![Piece::Unknown(whr.clone())], to: rst })
                                    }
                                    _ => cx.problems.push(format!("{}: method not recognised", whr)),
                                }
                            }
                        }
                    }
                    (Some((_, tr, _)), Some((target, _))) if target == "Command" && tr.segments.last().map(|s| s.ident == "From").unwrap_or(false) => {
                        // impl From<XCommand<m::S>> for Command
                        let from_ty = match &tr.segments.last().unwrap().arguments {
                            PathArguments::AngleBracketed(a) if a.args.len() == 1 => match &a.args[0] {
                                GenericArgument::Type(t) => builder_type(t),
                                _ => None,
                            },
                            _ => None,
                        };
                        let whr = format!("From<{:?}> for Command", from_ty);
                        let mut done = false;
                        if let Some((ty, st)) = from_ty {
                            for it in &im.items {
                                if let ImplItem::Fn(f) = it {
                                    if let Some((pieces, next)) = { cx.cur_params = value_params(&f.sig); body(&mut cx, &f.block, &whr) } {
                                        finals.push(Final { ty: ty.clone(), state: st.clone(), pieces, next });
                                        done = true;
                                    } else {
                                        finals.push(Final { ty: ty.clone(), state: st.clone(), pieces: vec![Piece::Unknown(whr.clone())], next: String::new() });
                                    }
                                }
                            }
                        }
                        if !done {
                            cx.problems.push(format!("{}: not recognised", whr));
                        }
                    }
                    (tr, st) => cx.problems.push(format!("impl block not recognised: {} for {:?}", tr.as_ref().map(|t| tokens_of(&t.1)).unwrap_or_default(), st)),
                }
            }
            _ => {}
        }
    }

    // canonical order: a reordering of impl blocks or methods is not a change
    ctors.sort_by(|a, b| a.name.cmp(&b.name));
    trans.sort_by(|a, b| (&a.ty, &a.from, &a.meth).cmp(&(&b.ty, &b.from, &b.meth)));
    finals.sort_by(|a, b| (&a.ty, &a.state).cmp(&(&b.ty, &b.state)));

    // ---------------- Coq
    let mut coq = String::from("(* GENERATED by tools/rs2coq from imap-proto/src/builders/command.rs. *)\nFrom TI Require Import Bytes Builders Machine.\nLocal Open Scope string_scope.\nLocal Open Scope N_scope.\nLocal Open Scope list_scope.\n\n");
    let params = |ps: &[(String, String)]| format!("[{}]", ps.iter().map(|(n, t)| format!("({}, {})", coq_str(n), coq_str(t))).collect::<Vec<_>>().join("; "));
    coq.push_str("Definition gen_kw : kwtables :=\n  [");
    coq.push_str(
        &cx.kw
            .iter()
            .map(|(t, rows)| format!("({}, [{}])", coq_str(t), rows.iter().map(|(k, s)| format!("({}, {})", coq_str(k), coq_str(s))).collect::<Vec<_>>().join("; ")))
            .collect::<Vec<_>>()
            .join(";\n   "),
    );
    coq.push_str("].\n\nDefinition gen_ctors : list ctor :=\n  [");
    coq.push_str(&ctors.iter().map(|c| format!("mk_ctor {} {} {} {} {} {}", coq_str(&c.name), params(&c.params), coq_pieces(&c.pieces), coq_str(&c.ty), coq_str(&c.state), coq_str(&c.next))).collect::<Vec<_>>().join(";\n   "));
    coq.push_str("].\n\nDefinition gen_trans : list trans :=\n  [");
    coq.push_str(&trans.iter().map(|t| format!("mk_trans {} {} {} {} {} {}", coq_str(&t.ty), coq_str(&t.from), coq_str(&t.meth), params(&t.params), coq_pieces(&t.pieces), coq_str(&t.to))).collect::<Vec<_>>().join(";\n   "));
    coq.push_str("].\n\nDefinition gen_finals : list final :=\n  [");
    coq.push_str(&finals.iter().map(|f| format!("mk_final {} {} {} {}", coq_str(&f.ty), coq_str(&f.state), coq_pieces(&f.pieces), coq_str(&f.next))).collect::<Vec<_>>().join(";\n   "));
    coq.push_str("].\n\nDefinition gen_machine : machine := mk_machine gen_ctors gen_trans gen_finals gen_kw.\n\nDefinition gen_builder_problems : list string :=\n  [");
    coq.push_str(&cx.problems.iter().map(|p| coq_str(p)).collect::<Vec<_>>().join(";\n   "));
    coq.push_str("].\n");

    // ---------------- Rust wrapper for the harness
    let mut states: Vec<(String, String)> = vec![];
    let mut add = |ty: &str, st: &str, states: &mut Vec<(String, String)>| {
        if ty != "Command" && !states.iter().any(|(a, b)| a == ty && b == st) {
            states.push((ty.to_string(), st.to_string()));
        }
    };
    for c in &ctors {
        add(&c.ty, &c.state, &mut states);
    }
    for t in &trans {
        add(&t.ty, &t.from, &mut states);
        add(&t.ty, &t.to, &mut states);
    }
    for f in &finals {
        add(&f.ty, &f.state, &mut states);
    }
    let modname = |ty: &str| if ty == "FetchCommand" { "fetch" } else { "select" };
    let mut r = String::from("// GENERATED by tools/rs2coq from imap-proto/src/builders/command.rs: one arm per (typestate, method) of the current source.\n#![allow(non_camel_case_types, dead_code, unused_variables, clippy::all)]\nuse imap_proto::builders::command::*;\nuse imap_proto::types::*;\n\n#[derive(Clone, Debug)]\npub enum Arg {\n    Num(u64),\n    Range(u64, u64),\n    RangeFrom(u64),\n    /// a range expression of any kind: 0 a..b, 1 a..=b, 2 a.., 3 ..b, 4 ..=b, 5 ..\n    Bounds(u8, u64, u64),\n    Kw(String),\n    Str(String),\n}\n\npub enum St {\n    Done(Command),\n");
    for (ty, st) in &states {
        r.push_str(&format!("    {}_{}({}<{}::{}>),\n", ty, st, ty, modname(ty), st));
    }
    r.push_str("}\n\npub fn state_name(s: &St) -> (&'static str, &'static str) {\n    match s {\n        St::Done(_) => (\"Command\", \"\"),\n");
    for (ty, st) in &states {
        r.push_str(&format!("        St::{}_{}(_) => (\"{}\", \"{}\"),\n", ty, st, ty, st));
    }
    r.push_str("    }\n}\n\n");
    // for the generated Rust wrapper only: an enum whose keyword table was not recognised in the method bodies still
    // has its variants (taken from the enum declaration), so that the harness can go on calling the real builder
    let mut rust_kw: std::collections::BTreeMap<String, Vec<(String, String)>> = cx.kw.iter().map(|(k, v)| (k.clone(), v.clone())).collect();
    let types_src = std::fs::read_to_string(repo.join("imap-proto/src/types.rs")).unwrap_or_default();
    let types_file = syn::parse_file(&types_src).ok();
    for item in file.items.iter().chain(types_file.iter().flat_map(|f| f.items.iter())) {
        if let Item::Enum(e) = item {
            let name = e.ident.to_string();
            let used = trans.iter().any(|t| t.params.iter().any(|p| p.1 == name));
            if used && !rust_kw.contains_key(&name) && e.variants.iter().all(|v| matches!(v.fields, Fields::Unit)) {
                rust_kw.insert(name.clone(), e.variants.iter().map(|v| (format!("{}::{}", name, v.ident), String::new())).collect());
            }
        }
    }
    for (table, rows) in &rust_kw {
        r.push_str(&format!("pub fn kw_{}(name: &str) -> Option<{}> {{\n    match name {{\n", table, table));
        for (k, _) in rows {
            r.push_str(&format!("        \"{}\" => Some({}),\n", k, k));
        }
        r.push_str("        _ => None,\n    }\n}\n\n");
    }
    // argument patterns and conversions by parameter type
    let conv = |ps: &[(String, String)]| -> Option<(String, String, String)> {
        // (slice pattern, prelude statements, call arguments)
        let mut pats = vec![];
        let mut pre = String::new();
        let mut args = vec![];
        for (k, (_, t)) in ps.iter().enumerate() {
            match t.as_str() {
                "u32" => {
                    pats.push(format!("Arg::Num(a{})", k));
                    pre.push_str(&format!("if *a{} > u32::MAX as u64 {{ return Err(st); }} ", k));
                    args.push(format!("*a{} as u32", k));
                }
                "u64" => {
                    pats.push(format!("Arg::Num(a{})", k));
                    args.push(format!("*a{}", k));
                }
                "RangeInclusive<u32>" => {
                    pats.push(format!("Arg::Range(a{}, b{})", k, k));
                    pre.push_str(&format!("if *a{} > u32::MAX as u64 || *b{} > u32::MAX as u64 {{ return Err(st); }} ", k, k));
                    args.push(format!("(*a{} as u32)..=(*b{} as u32)", k, k));
                }
                "RangeFrom<u32>" => {
                    pats.push(format!("Arg::RangeFrom(a{})", k));
                    pre.push_str(&format!("if *a{} > u32::MAX as u64 {{ return Err(st); }} ", k));
                    args.push(format!("(*a{} as u32)..", k));
                }
                "RangeBounds<u32>" => {
                    pats.push(format!("Arg::Bounds(k{}, a{}, b{})", k, k, k));
                    pre.push_str(&format!("if *a{} > u32::MAX as u64 || *b{} > u32::MAX as u64 || *k{} > 5 {{ return Err(st); }} let (k{}, a{}, b{}) = (*k{}, *a{} as u32, *b{} as u32); ", k, k, k, k, k, k, k, k, k));
                    args.push(format!("@B{}@", k));
                }
                "&str" => {
                    pats.push(format!("Arg::Str(a{})", k));
                    args.push(format!("a{}.as_str()", k));
                }
                other if rust_kw.contains_key(other) => {
                    pats.push(format!("Arg::Kw(a{})", k));
                    pre.push_str(&format!("let v{} = match kw_{}(a{}) {{ Some(v) => v, None => return Err(st) }}; ", k, other, k));
                    args.push(format!("v{}", k));
                }
                _ => return None,
            }
        }
        Some((pats.join(", "), pre, args.join(", ")))
    };
    let wrap = |ty: &str, st: &str, e: &str| if ty == "Command" { format!("St::Done({})", e) } else { format!("St::{}_{}({})", ty, st, e) };
    // a call with a range-expression argument is one arm per kind of range (each arm has its own argument type)
    fn expand_bounds(ok_expr: String) -> String {
        match ok_expr.find("@B") {
            None => ok_expr,
            Some(p) => {
                let e = ok_expr[p + 2..].find('@').unwrap() + p + 2;
                let k = ok_expr[p + 2..e].to_string();
                let ph = format!("@B{}@", k);
                let forms = [format!("a{k}..b{k}", k = k), format!("a{k}..=b{k}", k = k), format!("a{k}..", k = k), format!("..b{k}", k = k), format!("..=b{k}", k = k), "..".to_string()];
                let mut m = format!("match k{} {{ ", k);
                for (i, f) in forms.iter().enumerate() {
                    m.push_str(&format!("{} => {{ {} }} ", i, expand_bounds(ok_expr.replacen(&ph, &format!("({})", f), 1))));
                }
                m.push_str("_ => unreachable!() }");
                m
            }
        }
    }
    r.push_str("/// CommandBuilder::<name>(args)\npub fn start(name: &str, args: &[Arg]) -> Option<St> {\n    let st = ();\n    let r: Result<St, ()> = (|| {\n        match (name, args) {\n");
    let mut rust_problems = vec![];
    for c in &ctors {
        match conv(&c.params) {
            Some((pat, pre, a)) => r.push_str(&format!("            (\"{}\", [{}]) => {{ {}{} }}\n", c.name, pat, pre, expand_bounds(format!("Ok({})", wrap(&c.ty, &c.state, &format!("CommandBuilder::{}({})", c.name, a)))))),
            None => rust_problems.push(format!("constructor {}: parameter type not supported", c.name)),
        }
    }
    r.push_str("            _ => Err(st),\n        }\n    })();\n    r.ok()\n}\n\n/// one builder call; Err(state) when the typestate does not offer the method (the value is handed back)\npub fn step(st: St, meth: &str, args: &[Arg]) -> Result<St, St> {\n");
    // two-level match: first on the state (moves the value), then on the method
    r.push_str("    match st {\n");
    for (ty, s) in &states {
        r.push_str(&format!("        St::{}_{}(c) => {{\n            let st = St::{}_{}(c);\n            match (meth, args) {{\n", ty, s, ty, s));
        for t in trans.iter().filter(|t| &t.ty == ty && &t.from == s) {
            match conv(&t.params) {
                Some((pat, pre, a)) => r.push_str(&format!(
                    "                (\"{}\", [{}]) => {{ {}let c = match st {{ St::{}_{}(c) => c, _ => unreachable!() }}; {} }}\n",
                    t.meth,
                    pat,
                    pre,
                    ty,
                    s,
                    expand_bounds(format!("Ok({})", wrap(&t.ty, &t.to, &format!("c.{}({})", t.meth, a))))
                )),
                None => rust_problems.push(format!("{}<{}>::{}: parameter type not supported", ty, s, t.meth)),
            }
        }
        r.push_str("                _ => Err(st),\n            }\n        }\n");
    }
    r.push_str("        St::Done(c) => Err(St::Done(c)),\n    }\n}\n\n/// Command::from(..)\npub fn finish(st: St) -> Option<Command> {\n    match st {\n        St::Done(c) => Some(c),\n");
    for f in &finals {
        r.push_str(&format!("        St::{}_{}(c) => Some(Command::from(c)),\n", f.ty, f.state));
    }
    r.push_str("        #[allow(unreachable_patterns)]\n        _ => None,\n    }\n}\n\n");
    r.push_str("/// (type, from, method, parameter types, to)\npub const TRANS: &[(&str, &str, &str, &[&str], &str)] = &[\n");
    for t in &trans {
        r.push_str(&format!("    (\"{}\", \"{}\", \"{}\", &[{}], \"{}\"),\n", t.ty, t.from, t.meth, t.params.iter().map(|p| format!("\"{}\"", p.1)).collect::<Vec<_>>().join(", "), t.to));
    }
    r.push_str("];\n/// (constructor, parameter types, type, state)\npub const CTORS: &[(&str, &[&str], &str, &str)] = &[\n");
    for c in &ctors {
        r.push_str(&format!("    (\"{}\", &[{}], \"{}\", \"{}\"),\n", c.name, c.params.iter().map(|p| format!("\"{}\"", p.1)).collect::<Vec<_>>().join(", "), c.ty, c.state));
    }
    r.push_str("];\n/// (type, state) pairs that convert into a Command\npub const FINALS: &[(&str, &str)] = &[\n");
    for f in &finals {
        r.push_str(&format!("    (\"{}\", \"{}\"),\n", f.ty, f.state));
    }
    r.push_str("];\n/// keyword tables: (enum, [variant])\npub const KW: &[(&str, &[&str])] = &[\n");
    for (t, rows) in &rust_kw {
        r.push_str(&format!("    (\"{}\", &[{}]),\n", t, rows.iter().map(|(k, _)| format!("\"{}\"", k)).collect::<Vec<_>>().join(", ")));
    }
    r.push_str("];\n");
    if !rust_problems.is_empty() {
        // keep the Coq side informed as well
        let extra: Vec<String> = rust_problems.iter().map(|p| coq_str(p)).collect();
        coq = coq.replace("Definition gen_builder_problems : list string :=\n  [", &format!("Definition gen_builder_problems : list string :=\n  [{}{}", extra.join(";\n   "), if cx.problems.is_empty() { "" } else { ";\n   " }));
    }
    Output { coq, rust: r }
}
