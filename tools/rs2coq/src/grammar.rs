//! Parser skeletons, character classes, actions, rank table.
use crate::util::*;
use std::collections::{BTreeMap, BTreeSet, HashMap};
use std::path::Path;
use syn::*;

pub struct Output {
    pub coq: String,
    pub report: String,
    /// Rust table of the parser functions the harness can call one by one (per-function correspondence)
    pub fns_rs: String,
}

const PARSER_FILES: &[(&str, &str)] = &[
    ("parser", "imap-proto/src/parser/mod.rs"),
    ("core", "imap-proto/src/parser/core.rs"),
    ("gmail", "imap-proto/src/parser/gmail.rs"),
    ("rfc2087", "imap-proto/src/parser/rfc2087.rs"),
    ("rfc2971", "imap-proto/src/parser/rfc2971.rs"),
    ("rfc3501", "imap-proto/src/parser/rfc3501/mod.rs"),
    ("body", "imap-proto/src/parser/rfc3501/body.rs"),
    ("body_structure", "imap-proto/src/parser/rfc3501/body_structure.rs"),
    ("rfc4314", "imap-proto/src/parser/rfc4314.rs"),
    ("rfc4315", "imap-proto/src/parser/rfc4315.rs"),
    ("rfc4551", "imap-proto/src/parser/rfc4551.rs"),
    ("rfc5161", "imap-proto/src/parser/rfc5161.rs"),
    ("rfc5256", "imap-proto/src/parser/rfc5256.rs"),
    ("rfc5464", "imap-proto/src/parser/rfc5464.rs"),
    ("rfc7162", "imap-proto/src/parser/rfc7162.rs"),
];

/// functions whose bodies are imperative and are modelled by hand (Natives.v / Nom.v)
const NATIVE_FNS: &[&str] = &[
    "core::number",
    "core::number_64",
    "core::literal",
    "core::opt_opt",
    "body::section_part",
    "rfc5464::check_private_shared",
    "rfc5464::check_admin",
    "rfc5464::check_vendor_comment",
    "rfc5464::check_path",
    "rfc5464::check_entry_name",
    "rfc5464::entry_name",
    "rfc5464::slice_to_str",
    "rfc4314::map_text_to_rights",
    "rfc3501::ensure_capabilities_contains_imap4rev",
    "body_structure::nesting_too_deep",
];

#[derive(Clone, Copy, PartialEq, Debug)]
enum Kind {
    Class,
    Parser,
    DepthParser,
    Template,
    Helper,
}

struct Module {
    name: String,
    nom: HashMap<String, String>,
    imports: HashMap<String, String>,
    globs: Vec<String>,
    fns: Vec<ItemFn>,
    consts: HashMap<String, String>,
    const_exprs: HashMap<String, Expr>,
}

struct Global {
    kinds: HashMap<String, Kind>, // "module::fn" -> kind
    modules: Vec<String>,
    templates: HashMap<String, (String, Expr)>, // qualified name -> (param name, body expr)
}

fn is_module(g: &[String], s: &str) -> bool {
    g.iter().any(|m| m == s)
}

fn collect_use(tree: &UseTree, prefix: &mut Vec<String>, m: &mut Module, mods: &[String]) {
    match tree {
        UseTree::Path(p) => {
            prefix.push(p.ident.to_string());
            collect_use(&p.tree, prefix, m, mods);
            prefix.pop();
        }
        UseTree::Name(n) => use_name(&n.ident.to_string(), &n.ident.to_string(), prefix, m, mods),
        UseTree::Rename(r) => use_name(&r.ident.to_string(), &r.rename.to_string(), prefix, m, mods),
        UseTree::Glob(_) => {
            if let Some(md) = prefix.iter().rev().find(|s| is_module(mods, s)) {
                if prefix.first().map(|s| s.as_str()) != Some("nom") {
                    m.globs.push(md.clone());
                }
            }
        }
        UseTree::Group(g) => {
            for t in &g.items {
                collect_use(t, prefix, m, mods);
            }
        }
    }
}

fn use_name(orig: &str, local: &str, prefix: &[String], m: &mut Module, mods: &[String]) {
    if prefix.first().map(|s| s.as_str()) == Some("nom") {
        let mut p: Vec<String> = prefix[1..].to_vec();
        p.push(orig.to_string());
        m.nom.insert(local.to_string(), p.join("::"));
    } else if orig == "self" {
    } else if is_module(mods, orig) && orig != "parser" {
        // module import: qualified paths are resolved by their last two segments
    } else if let Some(md) = prefix.iter().rev().find(|s| is_module(mods, s) && s.as_str() != "parser") {
        m.imports.insert(local.to_string(), md.clone());
    }
}

fn is_test_item(attrs: &[Attribute]) -> bool {
    attrs.iter().any(|a| a.path().is_ident("cfg") && tokens_of(a).contains("test"))
}

fn type_str(t: &Type) -> String {
    tokens_of(t).replace(' ', "")
}

fn classify(name: &str, f: &ItemFn) -> Kind {
    if NATIVE_FNS.contains(&name) {
        return Kind::Helper;
    }
    let ret = match &f.sig.output {
        ReturnType::Type(_, t) => type_str(t),
        _ => String::new(),
    };
    let params: Vec<String> = f
        .sig
        .inputs
        .iter()
        .map(|a| match a {
            FnArg::Typed(t) => type_str(&t.ty),
            _ => String::new(),
        })
        .collect();
    if ret == "bool" && params.len() == 1 && params[0] == "u8" {
        Kind::Class
    } else if ret.starts_with("implFnMut") {
        Kind::Template
    } else if ret.starts_with("IResult<") && params.first().map(|s| s.as_str()) == Some("&[u8]") {
        if params.len() == 1 {
            Kind::Parser
        } else if params.len() == 2 && params[1] == "usize" {
            Kind::DepthParser
        } else {
            Kind::Helper
        }
    } else if ret.starts_with("ParseResult") {
        Kind::Parser
    } else {
        Kind::Helper
    }
}

// ------------------------------------------------------------------------------------------------

struct Ctx<'a> {
    m: &'a Module,
    g: &'a Global,
    fname: String,
    depth_var: Option<String>,
    subst: HashMap<String, String>,
    natives: Vec<(String, String)>, // (native name, token hash) discovered while translating this fn
    refs: Vec<(String, String)>,    // (callee, darg)
    closure_no: usize,
    problems: Vec<String>,
    guards: Vec<u64>,
}

fn path_segs(p: &syn::Path) -> Vec<String> {
    p.segments.iter().map(|s| s.ident.to_string()).collect()
}

impl<'a> Ctx<'a> {
    fn resolve_nom(&self, segs: &[String]) -> Option<String> {
        if segs.len() == 1 {
            return self.m.nom.get(&segs[0]).cloned();
        }
        if segs[0] == "nom" {
            return Some(segs[1..].join("::"));
        }
        // e.g. `sequence::tuple` after `use nom::sequence`
        if let Some(base) = self.m.nom.get(&segs[0]) {
            return Some(format!("{}::{}", base, segs[1..].join("::")));
        }
        None
    }

    fn resolve_fn(&self, segs: &[String]) -> Option<String> {
        let name = segs.last().unwrap();
        if segs.len() >= 2 {
            let md = &segs[segs.len() - 2];
            let q = format!("{}::{}", md, name);
            if self.g.kinds.contains_key(&q) {
                return Some(q);
            }
            return None;
        }
        let local = format!("{}::{}", self.m.name, name);
        if self.g.kinds.contains_key(&local) {
            return Some(local);
        }
        if let Some(md) = self.m.imports.get(name) {
            let q = format!("{}::{}", md, name);
            if self.g.kinds.contains_key(&q) {
                return Some(q);
            }
        }
        for md in &self.m.globs {
            let q = format!("{}::{}", md, name);
            if self.g.kinds.contains_key(&q) {
                return Some(q);
            }
        }
        None
    }

    fn unsupported(&mut self, why: &str) -> String {
        self.problems.push(format!("{}: {}", self.fname, why));
        format!("(Unsupported {})", coq_str(why))
    }

    fn lit_bytes(&mut self, e: &Expr) -> Option<Vec<u8>> {
        match e {
            Expr::Lit(l) => match &l.lit {
                Lit::ByteStr(b) => Some(b.value()),
                Lit::Str(s) => Some(s.value().into_bytes()),
                Lit::Char(c) => {
                    let mut buf = [0u8; 4];
                    Some(c.value().encode_utf8(&mut buf).as_bytes().to_vec())
                }
                Lit::Byte(b) => Some(vec![b.value()]),
                _ => None,
            },
            Expr::Reference(r) => self.lit_bytes(&r.expr),
            Expr::Paren(p) => self.lit_bytes(&p.expr),
            // a `const KW: &str = "..";` of the same module
            Expr::Path(p) if p.path.segments.len() == 1 => {
                let e: Expr = self.m.const_exprs.get(&p.path.segments[0].ident.to_string())?.clone();
                match e {
                    Expr::Lit(_) | Expr::Reference(_) => self.lit_bytes(&e),
                    _ => None,
                }
            }
            _ => None,
        }
    }

    // ---------------------------------------------------------------- classes
    fn tr_class_expr(&mut self, e: &Expr, var: &str) -> String {
        match e {
            Expr::Paren(p) => self.tr_class_expr(&p.expr, var),
            Expr::Binary(b) => {
                let l = self.tr_class_expr(&b.left, var);
                let r = self.tr_class_expr(&b.right, var);
                match &b.op {
                    BinOp::Or(_) => format!("({} || {})", l, r),
                    BinOp::And(_) => format!("({} && {})", l, r),
                    BinOp::Eq(_) => format!("({} =? {})", l, r),
                    BinOp::Ne(_) => format!("(negb ({} =? {}))", l, r),
                    BinOp::Lt(_) => format!("({} <? {})", l, r),
                    BinOp::Le(_) => format!("({} <=? {})", l, r),
                    BinOp::Gt(_) => format!("({} <? {})", r, l),
                    BinOp::Ge(_) => format!("({} <=? {})", r, l),
                    _ => {
                        self.problems.push(format!("{}: class operator {}", self.fname, tokens_of(&b.op)));
                        "false".into()
                    }
                }
            }
            Expr::Unary(u) => match u.op {
                UnOp::Not(_) => format!("(negb {})", self.tr_class_expr(&u.expr, var)),
                UnOp::Deref(_) => self.tr_class_expr(&u.expr, var),
                _ => {
                    self.problems.push(format!("{}: class unary", self.fname));
                    "false".into()
                }
            },
            Expr::Lit(l) => match &l.lit {
                Lit::Byte(b) => b.value().to_string(),
                Lit::Int(i) => i.base10_parse::<u64>().unwrap().to_string(),
                Lit::Bool(b) => b.value.to_string(),
                _ => {
                    self.problems.push(format!("{}: class literal", self.fname));
                    "0".into()
                }
            },
            Expr::Path(p) => {
                let segs = path_segs(&p.path);
                if segs.len() == 1 && segs[0] == var {
                    var.to_string()
                } else {
                    self.problems.push(format!("{}: class path {}", self.fname, segs.join("::")));
                    "0".into()
                }
            }
            Expr::Call(c) => {
                if let Expr::Path(p) = &*c.func {
                    if let Some(q) = self.resolve_fn(&path_segs(&p.path)) {
                        if self.g.kinds.get(&q) == Some(&Kind::Class) && c.args.len() == 1 {
                            let a = self.tr_class_expr(&c.args[0], var);
                            return format!("(cls_{} {})", coq_ident(&q), a);
                        }
                    }
                }
                self.problems.push(format!("{}: class call {}", self.fname, tokens_of(c)));
                "false".into()
            }
            Expr::Macro(mc) if mc.mac.path.is_ident("matches") => {
                // matches!(c, LO..=HI)
                let toks = mc.mac.tokens.to_string();
                let parts: Vec<&str> = toks.splitn(2, ',').collect();
                if parts.len() == 2 {
                    let pat = parts[1].trim();
                    let alts: Vec<String> = pat
                        .split('|')
                        .map(|a| {
                            let a = a.trim();
                            if let Some((lo, hi)) = a.split_once("..=") {
                                format!("(({} <=? {}) && ({} <=? {}))", num(lo.trim()), var, var, num(hi.trim()))
                            } else {
                                format!("({} =? {})", var, num(a))
                            }
                        })
                        .collect();
                    return format!("({})", alts.join(" || "));
                }
                self.problems.push(format!("{}: matches! shape", self.fname));
                "false".into()
            }
            _ => {
                self.problems.push(format!("{}: class expr {}", self.fname, tokens_of(e)));
                "false".into()
            }
        }
    }

    /// predicate argument of take_while*: a class fn path or a closure over class fns
    fn tr_pred(&mut self, e: &Expr) -> String {
        match e {
            Expr::Path(p) => {
                if let Some(q) = self.resolve_fn(&path_segs(&p.path)) {
                    if self.g.kinds.get(&q) == Some(&Kind::Class) {
                        return format!("cls_{}", coq_ident(&q));
                    }
                }
                self.problems.push(format!("{}: predicate {}", self.fname, tokens_of(e)));
                "(fun _ => false)".into()
            }
            Expr::Closure(c0) if c0.inputs.len() == 1 => {
                let canon = crate::canon::canon_closure(c0);
                let c = canon.as_ref().unwrap_or(c0);
                let v = match &c.inputs[0] {
                    Pat::Ident(i) => i.ident.to_string(),
                    Pat::Type(t) => tokens_of(&t.pat),
                    _ => "c".into(),
                };
                let body = self.tr_class_expr(&c.body, &v);
                format!("(fun {} : byte => {})", v, body)
            }
            _ => {
                self.problems.push(format!("{}: predicate {}", self.fname, tokens_of(e)));
                "(fun _ => false)".into()
            }
        }
    }

    // ---------------------------------------------------------------- grammar
    fn proj(&self, n: usize, keep: &[usize]) -> String {
        // action selecting components `keep` of an n-tuple
        let pats: Vec<String> = (0..n)
            .map(|k| if keep.contains(&k) { format!("PVar \"p{}\"", k) } else { "PWild".into() })
            .collect();
        let body = if keep.len() == 1 {
            format!("AVar \"p{}\"", keep[0])
        } else {
            format!("ATuple [{}]", keep.iter().map(|k| format!("AVar \"p{}\"", k)).collect::<Vec<_>>().join("; "))
        };
        format!("(mk_action (PTuple [{}]) ({}))", pats.join("; "), body)
    }

    fn alt_items(&mut self, e: &Expr, out: &mut Vec<String>) {
        let elems: Vec<&Expr> = match e {
            Expr::Tuple(t) => t.elems.iter().collect(),
            Expr::Paren(p) => vec![&*p.expr],
            _ => {
                out.push(self.unsupported(&format!("expected a tuple of parsers: {}", tokens_of(e))));
                return;
            }
        };
        for x in elems {
            let mut inner = x;
            while let Expr::Paren(p) = inner {
                inner = &p.expr;
            }
            if let Expr::Call(c) = inner {
                if let Expr::Path(p) = &*c.func {
                    let segs = path_segs(&p.path);
                    if c.args.len() == 1 && self.resolve_nom(&segs).as_deref() == Some("branch::alt") {
                        self.alt_items(&c.args[0], out);
                        continue;
                    }
                }
            }
            out.push(self.tr_g(x));
        }
    }

    fn tr_list(&mut self, e: &Expr) -> Vec<String> {
        match e {
            Expr::Tuple(t) => t.elems.iter().map(|x| self.tr_g(x)).collect(),
            Expr::Paren(p) => vec![self.tr_g(&p.expr)],
            _ => vec![self.unsupported(&format!("expected a tuple of parsers: {}", tokens_of(e)))],
        }
    }

    fn tr_g(&mut self, e: &Expr) -> String {
        match e {
            Expr::Paren(p) => self.tr_g(&p.expr),
            Expr::Path(p) => {
                let segs = path_segs(&p.path);
                if segs.len() == 1 {
                    if let Some(s) = self.subst.get(&segs[0]) {
                        return s.clone();
                    }
                }
                if let Some(n) = self.resolve_nom(&segs) {
                    return self.nom_leaf_path(&n);
                }
                if let Some(q) = self.resolve_fn(&segs) {
                    match self.g.kinds.get(&q) {
                        Some(Kind::Parser) | Some(Kind::Helper) => {
                            self.refs.push((q.clone(), "DSame".into()));
                            return format!("(Ref f_{} DSame)", coq_ident(&q));
                        }
                        _ => {}
                    }
                }
                self.unsupported(&format!("path {}", segs.join("::")))
            }
            Expr::Closure(c) => {
                // |i| f(i, depth + 1)  /  |i| f(i, depth)  /  |i| f(i, 0)
                if let Expr::Call(call) = &*c.body {
                    if let Expr::Path(p) = &*call.func {
                        if let Some(q) = self.resolve_fn(&path_segs(&p.path)) {
                            if self.g.kinds.get(&q) == Some(&Kind::DepthParser) && call.args.len() == 2 {
                                let d = self.darg(&call.args[1]);
                                if let Some(d) = d {
                                    self.refs.push((q.clone(), d.clone()));
                                    return format!("(Ref f_{} {})", coq_ident(&q), d);
                                }
                            }
                        }
                    }
                }
                self.unsupported(&format!("closure in parser position: {}", tokens_of(e)))
            }
            Expr::Call(c) => {
                let (segs, is_path) = match &*c.func {
                    Expr::Path(p) => (path_segs(&p.path), true),
                    _ => (vec![], false),
                };
                if !is_path {
                    return self.unsupported(&format!("call of a non-path: {}", tokens_of(&c.func)));
                }
                let args: Vec<&Expr> = c.args.iter().collect();
                if let Some(n) = self.resolve_nom(&segs) {
                    return self.nom_call(&n, &args, e);
                }
                if let Some(q) = self.resolve_fn(&segs) {
                    if q == "core::opt_opt" && args.len() == 1 {
                        let a = self.tr_g(args[0]);
                        return format!("(OptOpt {})", a);
                    }
                    if let Some((param, body)) = self.g.templates.get(&q).cloned() {
                        if args.len() == 1 {
                            let a = self.tr_g(args[0]);
                            // templates live in core: translate their body in core's name space
                            let saved = self.subst.insert(param.clone(), a);
                            let r = self.tr_template_body(&q, &body);
                            match saved {
                                Some(s) => {
                                    self.subst.insert(param, s);
                                }
                                None => {
                                    self.subst.remove(&param);
                                }
                            }
                            return r;
                        }
                    }
                }
                self.unsupported(&format!("call {}", segs.join("::")))
            }
            _ => self.unsupported(&format!("expression {}", tokens_of(e))),
        }
    }

    fn tr_template_body(&mut self, _q: &str, body: &Expr) -> String {
        // The template's own module is core; its nom imports are core's.  We are called with self.m
        // being the *caller's* module, so resolve through a temporary context.
        let core = self.g_core();
        let mut sub = Ctx {
            m: core,
            g: self.g,
            fname: self.fname.clone(),
            depth_var: None,
            subst: self.subst.clone(),
            natives: vec![],
            refs: vec![],
            closure_no: 0,
            problems: vec![],
            guards: vec![],
        };
        let r = sub.tr_g(body);
        self.problems.extend(sub.problems);
        self.refs.extend(sub.refs);
        r
    }

    fn g_core(&self) -> &'a Module {
        unsafe { &*CORE_MODULE.with(|c| c.get()) }
    }

    fn darg(&self, e: &Expr) -> Option<String> {
        let dv = self.depth_var.clone()?;
        let s = tokens_of(e).replace(' ', "");
        if s == dv {
            Some("DSame".into())
        } else if s == format!("{}+1", dv) {
            Some("DSucc".into())
        } else if s == "0" {
            Some("DZero".into())
        } else {
            None
        }
    }

    fn nom_leaf_path(&mut self, n: &str) -> String {
        match n {
            "character::streaming::digit1" => "(Leaf (LTakeWhile1 nom_is_digit))".into(),
            "character::streaming::space1" => "(Leaf (LTakeWhile1 nom_is_space))".into(),
            "character::streaming::space0" => "(Leaf (LTakeWhile nom_is_space))".into(),
            _ if n.contains("::complete::") => format!("(Leaf (LComplete {}))", coq_str(n)),
            _ => self.unsupported(&format!("nom path {}", n)),
        }
    }

    fn nom_call(&mut self, n: &str, args: &[&Expr], whole: &Expr) -> String {
        if n.contains("::complete::") {
            return format!("(Leaf (LComplete {}))", coq_str(n));
        }
        match (n, args.len()) {
            ("branch::alt", 1) => {
                // an `alt` directly inside an `alt` is spliced in place (nom's tuples stop at 21 elements, so long
                // alternations are nested; first success wins and the last error is reported either way)
                let mut l = vec![];
                self.alt_items(args[0], &mut l);
                format!("(Alt [{}])", l.join(";\n      "))
            }
            ("sequence::tuple", 1) => {
                let l = self.tr_list(args[0]);
                format!("(Seq [{}])", l.join(";\n      "))
            }
            ("sequence::pair", 2) => {
                let a = self.tr_g(args[0]);
                let b = self.tr_g(args[1]);
                format!("(Seq [{}; {}])", a, b)
            }
            ("sequence::preceded", 2) => {
                let a = self.tr_g(args[0]);
                let b = self.tr_g(args[1]);
                format!("(Map {} (Seq [{}; {}]))", self.proj(2, &[1]), a, b)
            }
            ("sequence::terminated", 2) => {
                let a = self.tr_g(args[0]);
                let b = self.tr_g(args[1]);
                format!("(Map {} (Seq [{}; {}]))", self.proj(2, &[0]), a, b)
            }
            ("sequence::delimited", 3) => {
                let a = self.tr_g(args[0]);
                let b = self.tr_g(args[1]);
                let c = self.tr_g(args[2]);
                format!("(Map {} (Seq [{}; {}; {}]))", self.proj(3, &[1]), a, b, c)
            }
            ("sequence::separated_pair", 3) => {
                let a = self.tr_g(args[0]);
                let b = self.tr_g(args[1]);
                let c = self.tr_g(args[2]);
                format!("(Map {} (Seq [{}; {}; {}]))", self.proj(3, &[0, 2]), a, b, c)
            }
            ("combinator::map", 2) => {
                let p = self.tr_g(args[0]);
                let a = self.tr_action(args[1]);
                format!("(Map {} {})", a, p)
            }
            ("combinator::map_res", 2) => {
                let p = self.tr_g(args[0]);
                let a = self.tr_action(args[1]);
                format!("(MapRes {} {})", a, p)
            }
            ("combinator::opt", 1) => format!("(Opt {})", self.tr_g(args[0])),
            ("combinator::recognize", 1) => format!("(Recognize {})", self.tr_g(args[0])),
            ("combinator::value", 2) => {
                let v = self.tr_aexp(args[0]);
                let p = self.tr_g(args[1]);
                match v {
                    Some(v) => format!("(Map (mk_action PWild ({})) {})", v, p),
                    None => self.unsupported(&format!("value(): {}", tokens_of(args[0]))),
                }
            }
            ("multi::many0", 1) => format!("(Many0 {})", self.tr_g(args[0])),
            ("multi::many1", 1) => format!("(Many1 {})", self.tr_g(args[0])),
            ("multi::separated_list0", 2) => {
                let s = self.tr_g(args[0]);
                let p = self.tr_g(args[1]);
                format!("(SepList0 {} {})", s, p)
            }
            ("multi::separated_list1", 2) => {
                let s = self.tr_g(args[0]);
                let p = self.tr_g(args[1]);
                format!("(SepList1 {} {})", s, p)
            }
            ("bytes::streaming::tag", 1) => match self.lit_bytes(args[0]) {
                Some(b) => format!("(Leaf (LTag {}))", coq_bytes(&b)),
                None => self.unsupported("tag of a non-literal"),
            },
            ("bytes::streaming::tag_no_case", 1) => match self.lit_bytes(args[0]) {
                Some(b) => format!("(Leaf (LTagNC {}))", coq_bytes(&b)),
                None => self.unsupported("tag_no_case of a non-literal"),
            },
            ("character::streaming::char", 1) => match self.lit_bytes(args[0]) {
                Some(b) if b.len() == 1 => format!("(Leaf (LTag {}))", coq_bytes(&b)),
                _ => self.unsupported("char of a non-ASCII/non-literal"),
            },
            // is_not(set) / is_a(set): split_at_position1 on (not) being in the set, i.e. take_while1 of the complement / the set
            ("bytes::streaming::is_not", 1) => match self.lit_bytes(args[0]) {
                Some(b) => format!("(Leaf (LTakeWhile1 (fun x : byte => negb (existsb (N.eqb x) {}))))", coq_bytes(&b)),
                None => self.unsupported("is_not of a non-literal"),
            },
            ("bytes::streaming::is_a", 1) => match self.lit_bytes(args[0]) {
                Some(b) => format!("(Leaf (LTakeWhile1 (fun x : byte => existsb (N.eqb x) {})))", coq_bytes(&b)),
                None => self.unsupported("is_a of a non-literal"),
            },
            ("bytes::streaming::take_while", 1) => format!("(Leaf (LTakeWhile {}))", self.tr_pred(args[0])),
            ("bytes::streaming::take_while1", 1) => format!("(Leaf (LTakeWhile1 {}))", self.tr_pred(args[0])),
            ("bytes::streaming::escaped", 3) => {
                // escaped(take_while1(P), 'c', one_of("..."))
                let mut ok = None;
                if let (Expr::Call(n), Some(ctl), Expr::Call(o)) = (args[0], self.lit_bytes(args[1]), args[2]) {
                    let nn = if let Expr::Path(p) = &*n.func { self.resolve_nom(&path_segs(&p.path)) } else { None };
                    let on = if let Expr::Path(p) = &*o.func { self.resolve_nom(&path_segs(&p.path)) } else { None };
                    if nn.as_deref() == Some("bytes::streaming::take_while1")
                        && on.as_deref() == Some("character::streaming::one_of")
                        && ctl.len() == 1
                        && n.args.len() == 1
                        && o.args.len() == 1
                    {
                        if let Some(set) = self.lit_bytes(&o.args[0]) {
                            let p = self.tr_pred(&n.args[0]);
                            let items: Vec<String> = set.iter().map(|c| c.to_string()).collect();
                            ok = Some(format!("(Leaf (LEscaped {} {} [{}]))", p, ctl[0], items.join("; ")));
                        }
                    }
                }
                match ok {
                    Some(s) => s,
                    None => self.unsupported(&format!("escaped shape: {}", tokens_of(whole))),
                }
            }
            _ => self.unsupported(&format!("nom combinator {}/{}", n, args.len())),
        }
    }

    // ---------------------------------------------------------------- actions
    fn native_action(&mut self, e: &Expr, vars: &[String]) -> String {
        self.closure_no += 1;
        let name = format!("{}#{}", self.fname, self.closure_no);
        self.natives.push((name.clone(), format!("{:016x}", fnv64(&tokens_of(e)))));
        let args: Vec<String> = vars.iter().map(|v| format!("AVar {}", coq_str(v))).collect();
        format!("ACall {} [{}]", coq_str(&name), args.join("; "))
    }

    fn tr_pat(&mut self, p: &Pat, vars: &mut Vec<String>) -> Option<String> {
        match p {
            Pat::Wild(_) => Some("PWild".into()),
            Pat::Ident(i) => {
                let n = i.ident.to_string();
                vars.push(n.clone());
                Some(format!("PVar {}", coq_str(&n)))
            }
            Pat::Tuple(t) => {
                let mut parts = vec![];
                for e in &t.elems {
                    parts.push(self.tr_pat(e, vars)?);
                }
                Some(format!("PTuple [{}]", parts.join("; ")))
            }
            Pat::Paren(p) => self.tr_pat(&p.pat, vars),
            Pat::Type(t) => self.tr_pat(&t.pat, vars),
            _ => None,
        }
    }

    /// a closure or a function path in map / map_res position
    fn tr_action(&mut self, e: &Expr) -> String {
        match e {
            Expr::Path(p) => {
                let segs = path_segs(&p.path);
                let joined = segs.join("::");
                let x = "AVar \"x\"";
                let body = match joined.as_str() {
                    "Cow::Borrowed" | "Box::new" => x.to_string(),
                    "Some" | "Option::from" => format!("ASome ({})", x),
                    "from_utf8" | "std::str::from_utf8" | "str::from_utf8" => format!("ACall \"from_utf8\" [{}]", x),
                    _ => {
                        if let Some(q) = self.resolve_fn(&segs) {
                            // a helper function of the parser, modelled by hand under its own name
                            self.natives.push((q.clone(), String::new()));
                            format!("ACall {} [{}]", coq_str(&q), x)
                        } else if segs.len() >= 2 && segs.last().unwrap().chars().next().unwrap().is_uppercase() {
                            format!("ACon {} [{}]", coq_str(&joined), x)
                        } else {
                            // From::from and friends: type-directed, modelled by hand
                            return format!("(mk_action (PVar \"x\") ({}))", self.native_action(e, &["x".to_string()]));
                        }
                    }
                };
                format!("(mk_action (PVar \"x\") ({}))", body)
            }
            Expr::Closure(c0) if c0.inputs.len() == 1 => {
                // parameter names are normalised by position (canon.rs): a renamed parameter is the same action
                let canon = crate::canon::canon_closure(c0);
                let c = canon.as_ref().unwrap_or(c0);
                let e_canon = Expr::Closure(c.clone());
                let e = &e_canon;
                let mut vars = vec![];
                let pat = self.tr_pat(&c.inputs[0], &mut vars);
                match pat {
                    Some(pat) => {
                        let body = match self.tr_aexp(&c.body) {
                            Some(b) => b,
                            None => self.native_action(e, &vars),
                        };
                        format!("(mk_action ({}) ({}))", pat, body)
                    }
                    None => format!("(mk_action (PVar \"x\") ({}))", self.native_action(e, &["x".to_string()])),
                }
            }
            _ => format!("(mk_action (PVar \"x\") ({}))", self.native_action(e, &["x".to_string()])),
        }
    }

    fn is_ctor_path(segs: &[String]) -> bool {
        segs.last().map(|s| s.chars().next().unwrap().is_uppercase()).unwrap_or(false)
    }

    /// regular value expressions; None = irregular (the caller turns the whole closure into a native)
    fn tr_aexp(&mut self, e: &Expr) -> Option<String> {
        match e {
            Expr::Paren(p) => self.tr_aexp(&p.expr),
            Expr::Reference(r) => self.tr_aexp(&r.expr),
            Expr::Block(b) if b.block.stmts.len() == 1 => match &b.block.stmts[0] {
                Stmt::Expr(x, None) => self.tr_aexp(x),
                _ => None,
            },
            Expr::Path(p) => {
                let segs = path_segs(&p.path);
                if segs.len() == 1 && segs[0] == "None" {
                    Some("ANone".into())
                } else if segs.len() == 1 && !Self::is_ctor_path(&segs) {
                    Some(format!("AVar {}", coq_str(&segs[0])))
                } else if Self::is_ctor_path(&segs) {
                    Some(format!("ACon {} []", coq_str(&segs.join("::"))))
                } else {
                    None
                }
            }
            Expr::Lit(l) => match &l.lit {
                Lit::Str(s) => Some(format!("ABytes {}", coq_bytes(s.value().as_bytes()))),
                Lit::ByteStr(s) => Some(format!("ABytes {}", coq_bytes(&s.value()))),
                Lit::Int(i) => Some(format!("ANumLit {}", i.base10_parse::<u64>().ok()?)),
                Lit::Bool(b) => Some(format!("ABoolLit {}", b.value)),
                _ => None,
            },
            Expr::Tuple(t) => {
                let mut es = vec![];
                for x in &t.elems {
                    es.push(self.tr_aexp(x)?);
                }
                Some(format!("ATuple [{}]", es.join("; ")))
            }
            Expr::Field(f) => {
                let b = self.tr_aexp(&f.base)?;
                match &f.member {
                    Member::Named(n) => Some(format!("AField ({}) {}", b, coq_str(&n.to_string()))),
                    Member::Unnamed(i) => Some(format!("AProj ({}) {}", b, i.index)),
                }
            }
            Expr::Struct(s) => {
                if s.rest.is_some() {
                    return None;
                }
                let name = path_segs(&s.path).join("::");
                let mut fs = vec![];
                for f in &s.fields {
                    let n = match &f.member {
                        Member::Named(n) => n.to_string(),
                        Member::Unnamed(i) => i.index.to_string(),
                    };
                    fs.push(format!("({}, {})", coq_str(&n), self.tr_aexp(&f.expr)?));
                }
                Some(format!("ARec {} [{}]", coq_str(&name), fs.join("; ")))
            }
            Expr::Call(c) => {
                let segs = match &*c.func {
                    Expr::Path(p) => path_segs(&p.path),
                    _ => return None,
                };
                let joined = segs.join("::");
                let mut args = vec![];
                for a in &c.args {
                    args.push(self.tr_aexp(a)?);
                }
                match joined.as_str() {
                    "Cow::Borrowed" | "Box::new" if args.len() == 1 => Some(args[0].clone()),
                    "Some" if args.len() == 1 => Some(format!("ASome ({})", args[0])),
                    _ if Self::is_ctor_path(&segs) => Some(format!("ACon {} [{}]", coq_str(&joined), args.join("; "))),
                    _ => None,
                }
            }
            Expr::MethodCall(m) => {
                let recv = self.tr_aexp(&m.receiver)?;
                let name = m.method.to_string();
                match (name.as_str(), m.args.len()) {
                    ("to_string", 0) | ("to_owned", 0) | ("clone", 0) => Some(recv),
                    ("is_some", 0) => Some(format!("AIsSome ({})", recv)),
                    ("unwrap", 0) => Some(format!("AUnwrap ({})", recv)),
                    ("expect", 1) => Some(format!("AUnwrap ({})", recv)),
                    ("map", 1) => match &m.args[0] {
                        Expr::Path(p) => {
                            let j = path_segs(&p.path).join("::");
                            match j.as_str() {
                                "Cow::Borrowed" | "Box::new" => Some(recv),
                                _ if Self::is_ctor_path(&path_segs(&p.path)) => Some(format!(
                                    "AOptMap \"m\" (ACon {} [AVar \"m\"]) ({})",
                                    coq_str(&j),
                                    recv
                                )),
                                _ => None,
                            }
                        }
                        Expr::Closure(c) if c.inputs.len() == 1 => {
                            if let Pat::Ident(i) = &c.inputs[0] {
                                let b = self.tr_aexp(&c.body)?;
                                Some(format!("AOptMap {} ({}) ({})", coq_str(&i.ident.to_string()), b, recv))
                            } else {
                                None
                            }
                        }
                        _ => None,
                    },
                    _ => None,
                }
            }
            Expr::Macro(mc) if mc.mac.path.is_ident("vec") => {
                let parser = punctuated::Punctuated::<Expr, Token![,]>::parse_terminated;
                let es = mc.mac.parse_body_with(parser).ok()?;
                let mut out = vec![];
                for x in &es {
                    out.push(self.tr_aexp(x)?);
                }
                Some(format!("AVec [{}]", out.join("; ")))
            }
            Expr::Index(ix) => {
                let b = self.tr_aexp(&ix.expr)?;
                match &*ix.index {
                    Expr::Lit(l) => {
                        if let Lit::Int(i) = &l.lit {
                            return Some(format!("AIndex ({}) {}", b, i.base10_parse::<u64>().ok()?));
                        }
                        None
                    }
                    Expr::Range(r) if r.end.is_none() => {
                        if let Some(s) = &r.start {
                            if let Expr::Lit(l) = &**s {
                                if let Lit::Int(i) = &l.lit {
                                    return Some(format!("ASliceFrom ({}) {}", b, i.base10_parse::<u64>().ok()?));
                                }
                            }
                        }
                        None
                    }
                    _ => None,
                }
            }
            Expr::Range(r) => {
                if let (Some(s), Some(en), RangeLimits::Closed(_)) = (&r.start, &r.end, &r.limits) {
                    let a = self.tr_aexp(s)?;
                    let b = self.tr_aexp(en)?;
                    Some(format!("ACon \"RangeInclusive\" [{}; {}]", a, b))
                } else {
                    None
                }
            }
            _ => None,
        }
    }

    // ---------------------------------------------------------------- functions
    /// `EXPR(i)` -> EXPR
    fn applied_to_input<'e>(&self, e: &'e Expr) -> Option<&'e Expr> {
        if let Expr::Call(c) = e {
            if c.args.len() == 1 {
                if let Expr::Path(p) = &c.args[0] {
                    if p.path.get_ident().is_some() {
                        // the callee must itself be a combinator expression or a path
                        return Some(&c.func);
                    }
                }
            }
        }
        None
    }

    fn tr_parser_fn(&mut self, f: &ItemFn) -> String {
        let stmts = &f.block.stmts;
        let mut idx = 0;
        let mut guard: Option<String> = None;
        // optional depth guard: if depth >= MAX { return ...; }
        if let (Some(dv), Some(Stmt::Expr(Expr::If(ifx), _))) = (self.depth_var.clone(), stmts.first()) {
            let cond = tokens_of(&ifx.cond).replace(' ', "");
            if let Some(rest) = cond.strip_prefix(&format!("{}>=", dv)) {
                let max = self.m.consts.get(rest).cloned().or_else(|| rest.parse::<u64>().ok().map(|n| n.to_string()));
                let body_ok = ifx.else_branch.is_none()
                    && ifx.then_branch.stmts.len() == 1
                    && tokens_of(&ifx.then_branch.stmts[0]).replace(' ', "").starts_with("returnnesting_too_deep(");
                if let (Some(max), true) = (max, body_ok) {
                    if let Ok(v) = max.parse::<u64>() {
                        self.guards.push(v);
                    }
                    guard = Some(max);
                    idx = 1;
                }
            }
        }
        let rest = &stmts[idx..];
        let g = self.tr_body(rest);
        match guard {
            Some(max) => format!("(Guard {} {})", max, g),
            None => g,
        }
    }

    fn tr_body(&mut self, stmts: &[Stmt]) -> String {
        // shape A: a single tail expression EXPR(i); shape D: f(i, 0)
        if stmts.len() == 1 {
            if let Stmt::Expr(e, None) = &stmts[0] {
                if let Expr::Call(c) = e {
                    if c.args.len() == 2 {
                        if let Expr::Path(p) = &*c.func {
                            if let Some(q) = self.resolve_fn(&path_segs(&p.path)) {
                                if self.g.kinds.get(&q) == Some(&Kind::DepthParser) {
                                    let s = tokens_of(&c.args[1]).replace(' ', "");
                                    let d = if s == "0" { Some("DZero".to_string()) } else { self.darg(&c.args[1]) };
                                    if let Some(d) = d {
                                        self.refs.push((q.clone(), d.clone()));
                                        return format!("(Ref f_{} {})", coq_ident(&q), d);
                                    }
                                }
                            }
                        }
                    }
                }
                if let Some(inner) = self.applied_to_input(e) {
                    return self.tr_g(inner);
                }
                return self.unsupported(&format!("body shape: {}", tokens_of(e)));
            }
        }
        // shape B: let (i, PAT) = EXPR(i)?; Ok((i, VALUE))
        if stmts.len() == 2 {
            if let (Stmt::Local(l), Stmt::Expr(tail, None)) = (&stmts[0], &stmts[1]) {
                if let (Pat::Tuple(pt), Some(init)) = (&l.pat, &l.init) {
                    if pt.elems.len() == 2 && init.diverge.is_none() {
                        if let Expr::Try(t) = &*init.expr {
                            if let Some(inner) = self.applied_to_input(&t.expr) {
                                if let Expr::Call(okc) = tail {
                                    if tokens_of(&okc.func) == "Ok" && okc.args.len() == 1 {
                                        if let Expr::Tuple(tt) = &okc.args[0] {
                                            if tt.elems.len() == 2 {
                                                // the same thing as `map(EXPR, |PAT| VALUE)(i)`: translated as that
                                                let g = self.tr_g(inner);
                                                let (p, v) = (&pt.elems[1], &tt.elems[1]);
                                                let clos: Expr = syn::parse_quote!(|#p| #v);
                                                let a = self.tr_action(&clos);
                                                return format!("(Map {} {})", a, g);
                                            }
                                        }
                                    }
                                }
                            }
                        }
                    }
                }
            }
        }
        // shape C: k >= 1 leading `let (i, PAT) = EXPR(i)?;` and then anything else (loops, matches, a hand-built value):
        // the parsers run in sequence; the rest is one action the translator cannot read (reported as hand-modelled, so
        // the obligations about values break, but the syntax of the rule is there for the sentence generator and the
        // generic theorems)
        let mut gs: Vec<String> = vec![];
        let mut pats: Vec<Pat> = vec![];
        let mut k = 0;
        while k < stmts.len() {
            let mut got = None;
            if let Stmt::Local(l) = &stmts[k] {
                if let (Pat::Tuple(pt), Some(init)) = (&l.pat, &l.init) {
                    if pt.elems.len() == 2 && init.diverge.is_none() && tokens_of(&pt.elems[0]) == "i" {
                        if let Expr::Try(t) = &*init.expr {
                            if let Some(inner) = self.applied_to_input(&t.expr) {
                                got = Some((inner.clone(), pt.elems[1].clone()));
                            }
                        }
                    }
                }
            }
            match got {
                Some((inner, pat)) => {
                    gs.push(self.tr_g(&inner));
                    pats.push(pat);
                    k += 1;
                }
                None => break,
            }
        }
        if k >= 1 && k < stmts.len() {
            let rest = &stmts[k..];
            let clos: Expr = if k == 1 {
                let p0 = &pats[0];
                syn::parse_quote!(|#p0| { #(#rest)* })
            } else {
                syn::parse_quote!(|(#(#pats),*)| { #(#rest)* })
            };
            let a = self.tr_action(&clos);
            let g = if k == 1 { gs[0].clone() } else { format!("(Seq [{}])", gs.join("; ")) };
            return format!("(MapRes {} {})", a, g);
        }
        self.unsupported("function body shape")
    }
}

fn num(s: &str) -> String {
    let s = s.trim();
    if let Some(h) = s.strip_prefix("0x") {
        u64::from_str_radix(h, 16).unwrap().to_string()
    } else if s.starts_with("b'") {
        let lit: LitByte = syn::parse_str(s).unwrap();
        lit.value().to_string()
    } else {
        s.parse::<u64>().map(|n| n.to_string()).unwrap_or_else(|_| "0".into())
    }
}

thread_local! {
    static CORE_MODULE: std::cell::Cell<*const Module> = const { std::cell::Cell::new(std::ptr::null()) };
}

pub fn translate(repo: &Path) -> Output {
    // the files known when the models were written, then whatever else lives in the parser directories now
    // (a new extension gets its own file): the module name is the file stem
    let mut files: Vec<(String, String)> = PARSER_FILES.iter().map(|(m, r)| (m.to_string(), r.to_string())).collect();
    for dir in ["imap-proto/src/parser", "imap-proto/src/parser/rfc3501"] {
        let mut extra: Vec<(String, String)> = vec![];
        if let Ok(rd) = std::fs::read_dir(repo.join(dir)) {
            for ent in rd.flatten() {
                let p = ent.path();
                if p.extension().and_then(|e| e.to_str()) != Some("rs") {
                    continue;
                }
                let stem = p.file_stem().unwrap().to_string_lossy().to_string();
                let rel = format!("{}/{}.rs", dir, stem);
                if stem == "tests" || stem == "mod" || files.iter().any(|(_, r)| *r == rel) {
                    continue;
                }
                extra.push((stem, rel));
            }
        }
        extra.sort();
        files.extend(extra);
    }
    let mods: Vec<String> = files.iter().map(|(m, _)| m.to_string()).collect();
    let mut modules: Vec<Module> = vec![];
    for (name, rel) in &files {
        let src = std::fs::read_to_string(repo.join(rel)).unwrap_or_else(|e| panic!("{}: {}", rel, e));
        let file = syn::parse_file(&src).unwrap_or_else(|e| panic!("{}: {}", rel, e));
        let mut m = Module {
            name: name.to_string(),
            nom: HashMap::new(),
            imports: HashMap::new(),
            globs: vec![],
            fns: vec![],
            consts: HashMap::new(),
            const_exprs: HashMap::new(),
        };
        for item in &file.items {
            match item {
                Item::Use(u) => collect_use(&u.tree, &mut vec![], &mut m, &mods),
                Item::Fn(f) if !is_test_item(&f.attrs) => m.fns.push(f.clone()),
                Item::Const(c) => {
                    m.consts.insert(c.ident.to_string(), tokens_of(&c.expr).replace(' ', ""));
                    m.const_exprs.insert(c.ident.to_string(), (*c.expr).clone());
                }
                _ => {}
            }
        }
        modules.push(m);
    }
    let mut g = Global { kinds: HashMap::new(), modules: mods.clone(), templates: HashMap::new() };
    for m in &modules {
        for f in &m.fns {
            let q = format!("{}::{}", m.name, f.sig.ident);
            let k = classify(&q, f);
            g.kinds.insert(q.clone(), k);
            if k == Kind::Template {
                // fn t(f: F) -> impl FnMut { BODY }
                let param = match f.sig.inputs.first() {
                    Some(FnArg::Typed(t)) => match &*t.pat {
                        Pat::Ident(i) => i.ident.to_string(),
                        _ => "f".into(),
                    },
                    _ => "f".into(),
                };
                if let Some(Stmt::Expr(e, None)) = f.block.stmts.last() {
                    if f.block.stmts.len() == 1 {
                        g.templates.insert(q, (param, e.clone()));
                    }
                }
            }
        }
    }
    let _ = &g.modules;
    let core_ptr: *const Module = modules.iter().find(|m| m.name == "core").unwrap();
    CORE_MODULE.with(|c| c.set(core_ptr));

    let mut classes: Vec<(String, String)> = vec![];
    let mut defs: Vec<(String, String)> = vec![];
    let mut natives: BTreeMap<String, String> = BTreeMap::new();
    let mut callgraph: BTreeMap<String, Vec<(String, String)>> = BTreeMap::new();
    let mut problems: Vec<String> = vec![];
    let mut native_fns: Vec<(String, String)> = vec![];
    let mut class_order: Vec<String> = vec![];
    let mut guards: Vec<u64> = vec![];

    for m in &modules {
        for f in &m.fns {
            let q = format!("{}::{}", m.name, f.sig.ident);
            let kind = g.kinds[&q];
            let depth_var = if kind == Kind::DepthParser {
                match f.sig.inputs.iter().nth(1) {
                    Some(FnArg::Typed(t)) => Some(tokens_of(&t.pat)),
                    _ => None,
                }
            } else {
                None
            };
            let mut cx = Ctx {
                m,
                g: &g,
                fname: q.clone(),
                depth_var,
                subst: HashMap::new(),
                natives: vec![],
                refs: vec![],
                closure_no: 0,
                problems: vec![],
                guards: vec![],
            };
            match kind {
                Kind::Class => {
                    let var = match f.sig.inputs.first() {
                        Some(FnArg::Typed(t)) => tokens_of(&t.pat),
                        _ => "c".into(),
                    };
                    let body = match f.block.stmts.last() {
                        Some(Stmt::Expr(e, None)) if f.block.stmts.len() == 1 => cx.tr_class_expr(e, &var),
                        _ => {
                            cx.problems.push(format!("{}: class body shape", q));
                            "false".into()
                        }
                    };
                    classes.push((q.clone(), format!("Definition cls_{} ({} : byte) : bool := {}.", coq_ident(&q), var, body)));
                    class_order.push(q.clone());
                }
                Kind::Parser | Kind::DepthParser => {
                    let gtxt = cx.tr_parser_fn(f);
                    defs.push((q.clone(), gtxt));
                    callgraph.insert(q.clone(), cx.refs.clone());
                }
                Kind::Template => {}
                Kind::Helper => {
                    native_fns.push((q.clone(), format!("{:016x}", fnv64(&tokens_of(f)))));
                }
            }
            for (n, h) in cx.natives {
                natives.insert(n, h);
            }
            guards.extend(cx.guards);
            problems.extend(cx.problems);
        }
    }

    // classes must be emitted in dependency order: sort by repeated scanning
    let mut emitted: BTreeSet<String> = BTreeSet::new();
    let mut class_out: Vec<String> = vec![];
    let mut remaining = classes.clone();
    let mut guard = 0;
    while !remaining.is_empty() && guard < 100 {
        guard += 1;
        let mut next = vec![];
        for (q, d) in remaining {
            let body = d.split(":=").nth(1).unwrap_or("");
            let deps_ok = class_order
                .iter()
                .filter(|o| **o != q)
                .all(|o| !body.contains(&format!("cls_{} ", coq_ident(o))) || emitted.contains(o));
            if deps_ok {
                emitted.insert(q.clone());
                class_out.push(d);
            } else {
                next.push((q, d));
            }
        }
        remaining = next;
    }

    // ---- rank table: rk f d = base + slope * (MAXD - d) must strictly decrease along every call
    // hand-modelled parser functions: their call edges are stated here (Natives.v must agree; rank_ok re-checks)
    for (f, callees) in [
        ("core::number", vec![]),
        ("core::number_64", vec![]),
        ("core::literal", vec![]),
        ("body::section_part", vec!["core::number"]),
        ("rfc5464::entry_name", vec!["core::astring"]),
    ] {
        callgraph.insert(f.to_string(), callees.iter().map(|c| (c.to_string(), "DSame".to_string())).collect());
    }
    let ranks = compute_ranks(&callgraph, guards.iter().copied().max().unwrap_or(0));

    let mut out = String::new();
    out.push_str("(* GENERATED by tools/rs2coq from the working tree of /repo -- do not edit. *)\n");
    out.push_str("From TI Require Import Bytes Grammar Nom.\nLocal Open Scope string_scope.\nLocal Open Scope N_scope.\n\n");
    out.push_str("(* ---- character classes ---- *)\n");
    for c in &class_out {
        out.push_str(c);
        out.push('\n');
    }
    out.push_str("\n(* ---- function identifiers ---- *)\n");
    let mut id_list: Vec<String> = vec![];
    for m in &modules {
        for f in &m.fns {
            let q = format!("{}::{}", m.name, f.sig.ident);
            match g.kinds[&q] {
                Kind::Parser | Kind::DepthParser | Kind::Helper => id_list.push(q),
                _ => {}
            }
        }
    }
    for (k, q) in id_list.iter().enumerate() {
        out.push_str(&format!("Definition f_{} : N := {}.\n", coq_ident(q), k));
    }
    out.push_str("\n(* ---- parser functions ---- *)\n");
    for (q, gtxt) in &defs {
        out.push_str(&format!("Definition def_{} : G :=\n  {}.\n\n", coq_ident(q), gtxt));
    }
    // gen_defs is indexed by function identifier: entry k belongs to the function with id k
    out.push_str("Definition gen_defs : list (string * option G) :=\n  [");
    let defmap: HashMap<String, ()> = defs.iter().map(|(q, _)| (q.clone(), ())).collect();
    out.push_str(
        &id_list
            .iter()
            .map(|q| {
                if defmap.contains_key(q) {
                    format!("({}, Some def_{})", coq_str(q), coq_ident(q))
                } else {
                    format!("({}, None)", coq_str(q))
                }
            })
            .collect::<Vec<_>>()
            .join(";\n   "),
    );
    out.push_str("].\n\n");
    out.push_str("(* functions modelled by hand (Natives.v must define each): name, token hash *)\n");
    out.push_str("Definition gen_native_fns : list (string * string) :=\n  [");
    out.push_str(&native_fns.iter().map(|(q, h)| format!("({}, {})", coq_str(q), coq_str(h))).collect::<Vec<_>>().join(";\n   "));
    out.push_str("].\n\n");
    out.push_str("(* irregular closures / helper functions used as actions (Natives.v must model each): name, token hash *)\n");
    out.push_str("Definition gen_native_actions : list (string * string) :=\n  [");
    out.push_str(&natives.iter().map(|(q, h)| format!("({}, {})", coq_str(q), coq_str(h))).collect::<Vec<_>>().join(";\n   "));
    out.push_str("].\n\n");
    out.push_str("(* rank table, indexed by function identifier: (base, slope); rank f d = base + slope * (max_depth - d) *)\n");
    out.push_str(&format!("Definition gen_max_depth : N := {}.\n", ranks.max_depth));
    out.push_str("Definition gen_rank_tbl : list (N * N) :=\n  [");
    let rmap: HashMap<String, (u64, u64)> = ranks.table.iter().cloned().collect();
    out.push_str(
        &id_list
            .iter()
            .map(|q| {
                let (b, sl) = rmap.get(q).cloned().unwrap_or((0, 0));
                format!("({}, {})", b, sl)
            })
            .collect::<Vec<_>>()
            .join("; "),
    );
    out.push_str("].\n\n");
    out.push_str("(* translation problems (must be empty): *)\n");
    out.push_str("Definition gen_problems : list string :=\n  [");
    out.push_str(&problems.iter().map(|p| coq_str(p)).collect::<Vec<_>>().join(";\n   "));
    out.push_str("].\n");

    let mut report = String::new();
    report.push_str(&format!("parser functions translated: {}\nclasses: {}\nnative fns: {}\nnative actions: {}\nproblems: {}\n",
        defs.len(), class_out.len(), native_fns.len(), natives.len(), problems.len()));
    for p in &problems {
        report.push_str(&format!("PROBLEM {}\n", p));
    }
    for (n, h) in &natives {
        report.push_str(&format!("NATIVE-ACTION {} {}\n", n, h));
    }
    for (n, h) in &native_fns {
        report.push_str(&format!("NATIVE-FN {} {}\n", n, h));
    }
    let fns_rs = emit_fn_table(repo, &files, &modules);
    Output { coq: out, report, fns_rs }
}

/// One entry per `pub fn f(i: &[u8]) -> IResult<&[u8], T>` reachable through `pub mod`s: the harness calls the real
/// function on a buffer and prints verdict, consumed length and (for plain value types) the value.
fn emit_fn_table(repo: &Path, files: &[(String, String)], modules: &[Module]) -> String {
    let mut out = String::new();
    out.push_str("// GENERATED by rs2coq from the working tree: the parser functions that can be called one by one.\n");
    out.push_str("#[allow(unused_imports)]\nuse crate::fnrun::{verdict, verdict_plain};\n");
    out.push_str("pub const FNS: &[(&str, fn(&[u8]) -> String)] = &[\n");
    for ((name, rel), m) in files.iter().zip(modules.iter()) {
        // Rust path of the module, and whether every module on the way is `pub mod`
        let inner = rel.trim_start_matches("imap-proto/src/").trim_end_matches(".rs").trim_end_matches("/mod");
        let segs: Vec<&str> = inner.split('/').collect();
        let mut visible = true;
        for k in 1..segs.len() {
            // segs[..k] is the parent module; its file is <parent>/mod.rs or <parent>.rs
            let parent = segs[..k].join("/");
            let cand = [format!("imap-proto/src/{}/mod.rs", parent), format!("imap-proto/src/{}.rs", parent)];
            let src = cand.iter().filter_map(|c| std::fs::read_to_string(repo.join(c)).ok()).next().unwrap_or_default();
            let src = if k == 1 && src.is_empty() { std::fs::read_to_string(repo.join("imap-proto/src/lib.rs")).unwrap_or_default() } else { src };
            let decl = format!("pub mod {}", segs[k]);
            if !src.lines().any(|l| l.trim_start().starts_with(&decl)) {
                visible = false;
            }
        }
        let lib = std::fs::read_to_string(repo.join("imap-proto/src/lib.rs")).unwrap_or_default();
        if !lib.lines().any(|l| l.trim_start().starts_with(&format!("pub mod {}", segs[0]))) {
            visible = false;
        }
        if !visible {
            continue;
        }
        let path = format!("imap_proto::{}", segs.join("::"));
        for f in &m.fns {
            if !matches!(f.vis, syn::Visibility::Public(_)) || f.sig.inputs.len() != 1 {
                continue;
            }
            if f.sig.generics.type_params().next().is_some() || f.sig.generics.const_params().next().is_some() {
                continue;
            }
            let arg_ty = match f.sig.inputs.first() {
                Some(FnArg::Typed(t)) => tokens_of(&t.ty).replace(' ', ""),
                _ => continue,
            };
            if !(arg_ty == "&[u8]" || (arg_ty.starts_with("&'") && arg_ty.ends_with("[u8]"))) {
                continue;
            }
            let ret = match &f.sig.output {
                syn::ReturnType::Type(_, t) => tokens_of(t).replace(' ', ""),
                _ => continue,
            };
            let value_ty = if ret.starts_with("IResult<") {
                // IResult<&[u8],T> (possibly with lifetimes)
                match ret.find(',') {
                    Some(c) => ret[c + 1..ret.len() - 1].to_string(),
                    None => continue,
                }
            } else if ret.contains("ParseResult") {
                "Response".to_string()
            } else {
                continue;
            };
            // plain value types are shown; anything else is compared on verdict and consumed length only
            let mut t = value_ty.clone();
            for w in ["Option<", "Vec<", "Cow<", "&'a", "&'_", "&", "[u8]", "str", "u32", "u64", "'a,", "'_,", "'static,", ">", ","] {
                t = t.replace(w, "");
            }
            let plain = t.is_empty();
            out.push_str(&format!("    (\"{}::{}\", |i| {}(i, {}::{}(i))),\n", name, f.sig.ident, if plain { "verdict_plain" } else { "verdict" }, path, f.sig.ident));
        }
    }
    out.push_str("];\n");
    out
}


struct Ranks {
    max_depth: u64,
    table: Vec<(String, (u64, u64))>,
}

/// rank f d = base_f + slope_f * (MAXD - d), and 0 for a guarded function at a depth its guard rejects.
/// Every call f -> c must go to a strictly smaller rank.  All of it is re-checked in Coq (rank_ok).
fn compute_ranks(cg: &BTreeMap<String, Vec<(String, String)>>, max_depth: u64) -> Ranks {
    let names: Vec<String> = cg.keys().cloned().collect();
    // functions that (transitively through DSame edges) reach a DSucc edge carry the slope
    let mut sloped: BTreeSet<String> = BTreeSet::new();
    loop {
        let mut changed = false;
        for (f, edges) in cg {
            if sloped.contains(f) {
                continue;
            }
            if edges.iter().any(|(c, d)| d == "DSucc" || (d == "DSame" && sloped.contains(c))) {
                sloped.insert(f.clone());
                changed = true;
            }
        }
        if !changed {
            break;
        }
    }
    let mut s: u64 = 1;
    let mut base: HashMap<String, u64> = HashMap::new();
    for _round in 0..8 {
        base = names.iter().map(|n| (n.clone(), 1)).collect();
        for _ in 0..4 * names.len() + 8 {
            let mut changed = false;
            for (f, edges) in cg {
                for (callee, d) in edges {
                    let cb = *base.get(callee).unwrap_or(&1);
                    let c_sloped = sloped.contains(callee);
                    let f_sloped = sloped.contains(f);
                    let need = match d.as_str() {
                        "DSucc" => continue,
                        "DZero" if c_sloped => cb + s * max_depth + 1,
                        "DSame" if c_sloped && !f_sloped => cb + s * max_depth + 1,
                        _ => cb + 1,
                    };
                    if base[f] < need && need < 1_000_000 {
                        base.insert(f.clone(), need);
                        changed = true;
                    }
                }
            }
            if !changed {
                break;
            }
        }
        let mut need_s = 1;
        for (f, edges) in cg {
            for (callee, d) in edges {
                if d == "DSucc" {
                    let cb = *base.get(callee).unwrap_or(&1);
                    let fb = base[f];
                    if cb + 1 > fb {
                        need_s = need_s.max(cb + 1 - fb + 1);
                    }
                }
            }
        }
        if need_s <= s {
            break;
        }
        s = need_s;
    }
    let table = names
        .iter()
        .map(|nme| (nme.clone(), (base[nme], if sloped.contains(nme) { s } else { 0 })))
        .collect();
    Ranks { max_depth, table }
}
