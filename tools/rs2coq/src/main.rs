//! rs2coq: reads the working tree of djc/tokio-imap and writes the generated Coq files (Tie A).
//!   rs2coq <repo root> <out dir>
//! gen/ImapGrammar.v : character classes, one G term per parser function, the rank table,
//!                     the list of hand-modelled (native) functions/actions with token hashes.
//! gen/PanicSites.v  : inventory of potential panic sites in non-test code.
//! Later stages add Types / IntoOwned / Typestate / ApiSig (see the other modules).
mod canon;
mod grammar;
mod sites;
mod util;
mod tables;
mod builders;
mod clientgen;
mod codec;

use std::path::PathBuf;

fn main() {
    let args: Vec<String> = std::env::args().collect();
    if args.len() < 3 {
        eprintln!("usage: rs2coq <repo root> <out dir>");
        std::process::exit(2);
    }
    let repo = PathBuf::from(&args[1]);
    let out = PathBuf::from(&args[2]);
    std::fs::create_dir_all(&out).unwrap();
    let g = grammar::translate(&repo);
    util::write_if_changed(&out.join("ImapGrammar.v"), &g.coq);
    util::write_if_changed(&out.join("grammar_report.txt"), &g.report);
    util::write_if_changed(&out.join("gen_fns.rs"), &g.fns_rs);
    let s = sites::inventory(&repo);
    util::write_if_changed(&out.join("PanicSites.v"), &s);
    let t = tables::translate(&repo);
    util::write_if_changed(&out.join("Tables.v"), &t);
    let b = builders::translate(&repo);
    util::write_if_changed(&out.join("BuilderTables.v"), &b.coq);
    util::write_if_changed(&out.join("gen_chains.rs"), &b.rust);
    let c = codec::translate(&repo);
    util::write_if_changed(&out.join("CodecTables.v"), &c);
    let cl = clientgen::translate(&repo);
    util::write_if_changed(&out.join("ClientTables.v"), &cl);
}
