#!/usr/bin/env python3
"""Run the quick checks against every seeded mutant (apply patch to /repo, check, revert) and record
the outcome in seeded/<id>/meta.json.   usage: run_seeded.py [mutant-id ...] [--checks C01,C02]"""
import json, os, subprocess, sys
ROOT = os.path.dirname(os.path.dirname(os.path.abspath(__file__)))
SEED = os.path.join(ROOT, "seeded")
claimed = [c["property_id"] for c in json.load(open(os.path.join(ROOT, "MANIFEST.json")))["checks"]]
args = [a for a in sys.argv[1:] if not a.startswith("--")]
only = None
for a in sys.argv[1:]:
    if a.startswith("--checks"):
        only = a.split("=", 1)[1].split(",")
ids = args or sorted(os.listdir(SEED))
subprocess.run(["git", "-C", "/repo", "checkout", "--", "."], check=True)
import shutil, tempfile
_ev_backup = tempfile.mkdtemp(prefix="evid_")
shutil.copytree(os.path.join(ROOT, "evidence"), os.path.join(_ev_backup, "evidence"))
for mid in ids:
    d = os.path.join(SEED, mid)
    meta = json.load(open(os.path.join(d, "meta.json")))
    prop = meta["property"]
    related = meta.get("also_run", [])
    checks = [c for c in ([prop] + related) if c in claimed]
    if only:
        checks = [c for c in only if c in claimed]
    if subprocess.run(["git", "-C", "/repo", "apply", os.path.join(d, "patch.diff")]).returncode != 0:
        print(mid, "PATCH DOES NOT APPLY")
        continue
    res = meta.get("results", {})
    try:
        for c in checks:
            p = subprocess.run([os.path.join(ROOT, "check"), c, "--tier", "quick"], stdout=subprocess.PIPE, stderr=subprocess.STDOUT, text=True, timeout=3000)
            line = [l for l in p.stdout.splitlines() if l.startswith("VIOLATION")]
            if line:
                res[c] = "VIOLATION" + (" (no-failing-input-found)" if "no-failing-input-found" in line[0] else " (failing input found)")
                rp = line[0].split("replay=")[1].split()[0]
                try:
                    txt = open(rp).read()
                    res[c + "_replay_excerpt"] = txt[:600]
                except Exception:
                    pass
            else:
                res[c] = "passed (exit %d)" % p.returncode
    finally:
        subprocess.run(["git", "-C", "/repo", "checkout", "--", "."], check=True)
        subprocess.run(["git", "-C", "/repo", "clean", "-fdq"], check=True)
    meta["results"] = res
    own = res.get(prop, "check not built")
    meta["detected_by_quick_check"] = "yes" if any(v.startswith("VIOLATION") for k, v in res.items() if not k.endswith("_excerpt")) else ("no" if checks else "check not built yet")
    json.dump(meta, open(os.path.join(d, "meta.json"), "w"), indent=1)
    print(mid, {k: v for k, v in res.items() if not k.endswith("_excerpt")})
# evidence files describe runs on the unmodified tree only: restore them
shutil.rmtree(os.path.join(ROOT, "evidence"))
shutil.copytree(os.path.join(_ev_backup, "evidence"), os.path.join(ROOT, "evidence"))
shutil.rmtree(_ev_backup)
# leave the generated files in the state of the unmodified tree
subprocess.run([os.path.join(ROOT, "tools", "rs2coq", "target", "debug", "rs2coq"), "/repo", os.path.join(ROOT, "coq", "gen")], check=True)
