#!/usr/bin/env python3
"""Writes the table of seeded changes (seeded/*/meta.json) into DESIGN.md between the SEEDED markers."""
import json, os, re
ROOT = os.path.dirname(os.path.dirname(os.path.abspath(__file__)))
rows = []
for mid in sorted(os.listdir(os.path.join(ROOT, "seeded"))):
    m = json.load(open(os.path.join(ROOT, "seeded", mid, "meta.json")))
    res = {k: v for k, v in m.get("results", {}).items() if not k.endswith("_excerpt")}
    readme = os.path.join(ROOT, "seeded", mid, "README.md")
    title = ""
    if os.path.exists(readme):
        for l in open(readme):
            l = l.strip().lstrip("#").strip()
            if l and not l.lower().startswith(("crate of", "file", "kind of", "* crate", "* file", "* kind")):
                title = l
                break
    needs = m.get("needs_to_manifest", "")
    what = (needs if needs and needs != "see README.md" else title)[:150].replace("|", "/")
    inp = [k for k, v in res.items() if v.startswith("VIOLATION") and "failing input found" in v and "no-" not in v]
    noinp = [k for k, v in res.items() if v.startswith("VIOLATION") and "no-failing-input-found" in v]
    passed = [k for k, v in res.items() if v.startswith("passed")]
    rows.append("| %s | %s | %s | %s | %s |" % (mid, what, ", ".join(inp) or "-", ", ".join(noinp) or "-", ", ".join(passed) or "-"))
table = ("Each seeded change (`seeded/<id>/`: `patch.diff`, the demonstration, `meta.json`) compiles, keeps the 78 tests green, and was\n"
         "confirmed in a scratch worktree (`tools/confirm_mutant.sh`: demonstration fails with it, passes without it). `tools/run_seeded.py`\n"
         "applies each to /repo, runs the property's own quick check and the related ones, and reverts. Columns: checks that report a\n"
         "VIOLATION with a concrete failing input / checks that report it only through a broken proof or correspondence\n"
         "(`no-failing-input-found`) / related checks that (rightly or not) stay quiet.\n\n"
         "| change | what it needs to show | caught with a failing input by | caught by a broken proof / correspondence only | quiet |\n|---|---|---|---|---|\n" + "\n".join(rows))
caught = sum(1 for r in rows if not r.split("|")[3].strip() == "-" or not r.split("|")[4].strip() == "-")
table += "\n\n%d of %d seeded changes are reported by at least one check; %d of them with a concrete failing input.\n" % (
    caught, len(rows), sum(1 for r in rows if r.split("|")[3].strip() != "-"))
p = os.path.join(ROOT, "DESIGN.md")
s = open(p).read()
if "SEEDED_TABLE_PLACEHOLDER" in s:
    s = s.replace("SEEDED_TABLE_PLACEHOLDER", "<!-- SEEDED:BEGIN -->\n" + table + "\n<!-- SEEDED:END -->")
else:
    s = re.sub(r"<!-- SEEDED:BEGIN -->.*?<!-- SEEDED:END -->", lambda _: "<!-- SEEDED:BEGIN -->\n" + table + "\n<!-- SEEDED:END -->", s, flags=re.S)
open(p, "w").write(s)
print(table[-200:])
