#!/bin/sh
# usage: tools/try_mutant.sh <patch.diff> <property id>...   applies the patch to /repo, runs the quick checks, reverts
P="$1"; shift
git -C /repo apply "$P" || { echo "patch does not apply"; exit 2; }
for id in "$@"; do
  echo "== $id"; /verif/check "$id" --tier quick 2>&1 | tail -3; echo "rc=$?"
done
git -C /repo checkout -- . ; git -C /repo clean -fdq
git -C /repo status --short
