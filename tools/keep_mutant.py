#!/usr/bin/env python3
"""keep_mutant.py <PROP> <name> <srcdir> <crate> <needs> <detected: yes|no|partial> <by>  -> /verif/seeded/<PROP>-<name>/"""
import json, os, shutil, sys
prop, name, src, crate, needs, detected, by = sys.argv[1:8]
d = os.path.join(os.path.dirname(os.path.dirname(os.path.abspath(__file__))), "seeded", "%s-%s" % (prop, name))
os.makedirs(d, exist_ok=True)
for f in os.listdir(src):
    shutil.copy(os.path.join(src, f), os.path.join(d, f))
meta = {"property": prop, "needs_to_manifest": needs,
        "confirmed": "tools/confirm_mutant.sh in a scratch worktree: existing suite 78 passed with the patch; demo (%s/tests/seeded_demo.rs) fails with the patch and passes without it" % crate,
        "demo_crate": crate, "detected_by_quick_check": detected, "detected_by": by,
        "ran": "tools/try_mutant.sh seeded/%s-%s/patch.diff %s" % (prop, name, prop)}
json.dump(meta, open(os.path.join(d, "meta.json"), "w"), indent=1)
print(d)
