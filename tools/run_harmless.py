#!/usr/bin/env python3
"""Apply each behaviour-preserving rewrite under harmless/ to /repo, run the quick checks of its area, revert.
A VIOLATION here is an alarm on code where the property holds (allowed by the interface when a proof or the
correspondence breaks -- it then carries no-failing-input-found -- but every one is a cost; a VIOLATION *with* a failing
input would be a wrong oracle).   usage: run_harmless.py [id ...] [--checks=C01,C02]"""
import json, os, shutil, subprocess, sys, tempfile
ROOT = os.path.dirname(os.path.dirname(os.path.abspath(__file__)))
H = os.path.join(ROOT, "harmless")
AREA = {"bodystruct": ["C17"], "parser": ["C01", "C02", "C03", "C08", "C09", "C12", "C13", "C15", "C16"],
        "builders": ["C10", "C14", "C16"],
        "client": ["C04", "C05", "C06", "C07", "C11"]}
args = [a for a in sys.argv[1:] if not a.startswith("--")]
only = None
for a in sys.argv[1:]:
    if a.startswith("--checks"):
        only = a.split("=", 1)[1].split(",")
ids = args or sorted(os.listdir(H))
subprocess.run(["git", "-C", "/repo", "checkout", "--", "."], check=True)
bk = tempfile.mkdtemp(prefix="evid_")
shutil.copytree(os.path.join(ROOT, "evidence"), os.path.join(bk, "evidence"))
for hid in ids:
    d = os.path.join(H, hid)
    checks = only or AREA[hid.split("-")[0]]
    if subprocess.run(["git", "-C", "/repo", "apply", os.path.join(d, "patch.diff")]).returncode != 0:
        print(hid, "PATCH DOES NOT APPLY", flush=True)
        continue
    res = {}
    try:
        for c in checks:
            p = subprocess.run([os.path.join(ROOT, "check"), c, "--tier", "quick"], stdout=subprocess.PIPE, stderr=subprocess.STDOUT, text=True, timeout=3000)
            line = [l for l in p.stdout.splitlines() if l.startswith("VIOLATION")]
            if line:
                res[c] = "ALARM" + (" (no-failing-input-found)" if "no-failing-input-found" in line[0] else " WITH A 'FAILING INPUT' -- wrong oracle?")
                try:
                    res[c + "_excerpt"] = open(line[0].split("replay=")[1].split()[0]).read()[:500]
                except Exception:
                    pass
            else:
                res[c] = "quiet (exit %d)" % p.returncode
    finally:
        subprocess.run(["git", "-C", "/repo", "checkout", "--", "."], check=True)
        subprocess.run(["git", "-C", "/repo", "clean", "-fdq"], check=True)
    json.dump(res, open(os.path.join(d, "result.json"), "w"), indent=1)
    print(hid, {k: v for k, v in res.items() if not k.endswith("_excerpt")}, flush=True)
shutil.rmtree(os.path.join(ROOT, "evidence"))
shutil.copytree(os.path.join(bk, "evidence"), os.path.join(ROOT, "evidence"))
shutil.rmtree(bk)
subprocess.run([os.path.join(ROOT, "tools", "rs2coq", "target", "debug", "rs2coq"), "/repo", os.path.join(ROOT, "coq", "gen")], check=True)
