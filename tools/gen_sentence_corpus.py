#!/usr/bin/env python3
"""Writes corpus/SENT/sentences.txt: the responses read off the grammar of the tree as it is now (run on the unchanged
tree).  The checks use this fixed set next to the set computed from the current translation, so that a change which
makes part of the grammar untranslatable (and so takes the sentences through that part away) still meets them."""
import os, sys
ROOT = os.path.dirname(os.path.dirname(os.path.abspath(__file__)))
sys.path.insert(0, ROOT)
from checks import common as C
C._SENT_STATIC = []
s = C.grammar_sentences_live()
os.makedirs(os.path.join(ROOT, "corpus", "SENT"), exist_ok=True)
open(os.path.join(ROOT, "corpus", "SENT", "sentences.txt"), "w").write("\n".join(s) + "\n")
print(len(s), "sentences")
