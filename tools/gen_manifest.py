#!/usr/bin/env python3
"""Regenerates /verif/MANIFEST.json from the table below (kept valid at all times)."""
import json, os
ROOT = os.path.dirname(os.path.dirname(os.path.abspath(__file__)))
ids = [json.loads(l)["id"] for l in open(os.path.join(ROOT, "properties.jsonl"))]

TB = ("Trusted base: Coq 8.16.1 kernel (vm_compute for reflection; no native_compute); no axioms (every pinned theorem prints "
      "'Closed under the global context'); extraction with ExtrOcamlBasic only + ocaml/driver.ml; the Rust harness and rustc. ")

CLAIMS = {
 "C13": dict(
   text="Theorems about the hand models of core::number / number_64 / literal, for numerals of ANY length: on digits ds followed by a non-digit the result is exactly `dec ds` when below 2^32 (2^64), an Error otherwise, and nothing else (no wrap, no truncation, no saturation); leading zeros do not change the value; a literal takes exactly the announced number of bytes, lengths of 2^32 or more are an Error, fewer bytes than announced is Incomplete. Reflection over the grammar regenerated from /repo: no translated action builds or computes a number (the action language has no arithmetic or cast construct; a closure containing one becomes a native action and must be among the hand-modelled ones), every numeric leaf is 32 or 64 bits wide, and the natives that touch numbers return exactly the numbers given. Tie: translator + correspondence; the implementation-side oracle overwrites every numeric position (width known to the RFC-derived printer) with numerals beyond the range and requires a parse error or, inside a response code, the verbatim-text fallback.",
   note=TB + "rs2coq in the trusted base. Modelled, not verified: u32::from_str/u64::from_str on a digit string (`dec ds < 2^bits`). Which width applies at which position is validated on the implementation side (printer knows the RFC widths), not proved against types.rs.",
   technique="Coq proof (induction over digit strings) + vm_compute reflection on the regenerated grammar + boundary-numeral differential", ref="3 C13"),
 "C17": dict(
   text="Theorems over a hand model of BodyStructParser (BodyStruct.v), for all trees of any width and depth: the map built by the walker holds exactly (IMAP part specifier -> part) (soundness, completeness, no key inserted twice); every candidate search() may return leads to a part satisfying the predicate, and there is a candidate iff some part satisfies it; every index lies between 1 and the widest multipart (u32 counter cannot overflow below 2^32 children). Tied to the code by running the real BodyStructParser on ~35 000 generated (tree, predicate) cases and requiring its answer to be one of the model's candidates; an implementation-only oracle (the property's own definition of part specifiers) judges violations.",
   note=TB + "Modelled, not verified: HashMap (insert keeps last value per key; iteration order arbitrary). message/rfc822 parts are leaves for the walker, as in the code.",
   technique="Coq proof by induction over trees + extraction-based differential vs BodyStructParser", ref="3 C17"),
 "C01": dict(
   text="Totality of the model parser for every byte string, from three generic theorems over the deep-embedded grammar and their instantiation on the grammar regenerated from /repo. (1) No panic: translated actions are syntactically total (no unwrap/index/slice), every hand-modelled native is proved total (incl. the METADATA entry-name checker: every index guarded, its loop terminates), the one action that needs a value invariant (&text[1..]) is proved safe from the 7-bit class of `text`, every reference resolves and nothing is untranslatable; the regenerated inventory of unwrap/index/cast/arithmetic sites must be contained in a hand table of sites with an argument. (2) Bounded call depth: a rank table emitted by rs2coq is re-checked by computation at every nesting depth 0..MAX (every call goes to a strictly smaller rank; the depth guards are what makes the recursive cycles decrease), so fuel 400 >= rank(parse_response) suffices for ALL inputs. (3) Loops: the structural loop counters are never the reason a loop stops (nom's progress checks fire first). Tie: translator + correspondence; the implementation-side oracle catches panics on six input streams and runs a nesting sweep 1..20000 at every recursive position on a 2 MiB thread in a child process, debug and release.",
   note=TB + "rs2coq in the trusted base. PARTIAL: the theorem bounds the number of nested parser-function calls; bytes of stack per call are not modelled, so 'fits a 2 MiB stack' is measured by the nesting sweep, not proved. Through-the-codec arithmetic (rsp_len <= |buf|) follows from Thm_Sfx.run_rest_le and is pinned with C04. Modelled, not verified: nom primitives/combinators; std from_utf8/from_str/eq_ignore_ascii_case.",
   technique="Coq generic metatheorems (no-panic, rank => bounded depth, loop counters) + vm_compute reflection on regenerated grammar, rank table and panic-site inventory + crash oracle in a child process", ref="3 C01"),
 "C02": dict(
   text="Generic theorem run_stab, proved once over the deep-embedded grammar for ANY grammar without complete-mode nom primitives, any actions, any fuel and loop bounds: accept (same value, same consumed length), Error and Failure verdicts are unchanged when arbitrary bytes are appended. Instantiated on the grammar that rs2coq regenerates from /repo on every run (140 parser functions): reflection obligation streaming_only = true by vm_compute, c02_verdicts_final for all buffers B and continuations X, and the corollary that every proper prefix of an accepted response is neither accepted nor rejected. The model is tied to the code by the translator (the use-lists decide streaming vs complete per module) and by comparing model and implementation results (verdict, consumed length, full value) on generated responses, all their prefixes, mutated/spliced buffers; violations are searched on the implementation alone.",
   note=TB + "rs2coq (unverified translator) in the trusted base. Modelled, not verified: nom 7.1.3 primitives/combinators (Nom.v, Interp.v), the hand models of number/literal/entry_name and of the irregular closures (Natives.v). RPanic/RFuel outcomes are excluded by C01's theorems, not here.",
   technique="Coq generic metatheorem over a deep-embedded grammar + vm_compute reflection on the regenerated grammar + extraction-based differential", ref="3 C02"),
 "C09": dict(
   text="Generic theorem (Thm_Crlf.v) proved once over the deep-embedded grammar: for any grammar in which no class, tag or char admits CR except the terminating CRLF of the top rules and the CRLF inside `literal`, no parser answers Incomplete on a buffer that holds a lexically complete frame under the property's own framing rule (`safe`: scan to CRLF; a line ending in {n} skips n bytes and continues -- an inductive predicate independent of the grammar). The literal leaf is the one place where the framer's {n} and the parser's number must agree; that is proved (literal_good). Instantiated on the grammar regenerated from /repo: reflection obligation c09_crlf_discipline by vm_compute, then c09_no_incomplete_on_complete_line for all buffers. Tie: translator + model/implementation correspondence; violations are searched on the implementation alone with an independent framer.",
   note=TB + "rs2coq in the trusted base. Modelled, not verified: nom primitives/combinators, natives. The clause 'an accepted response without literals ends exactly at the first CRLF' is enforced by the implementation-side oracle on every run but is not yet a pinned theorem (partial). The codec path (a complete line through ImapCodec/Framed) belongs to C04.",
   technique="Coq generic metatheorem (CRLF discipline) + vm_compute reflection on the regenerated grammar + differential with an independent lexical framer", ref="3 C09"),
 "C10": dict(
   text="Theorems over a hand model of quoted_string (the imperative loop with start/new/slices and the borrowed fast path) and of the text-taking builders (Builders.v), for ALL byte strings of any length: the loop computes exactly `escape` (refinement); refusal iff the text contains CR or LF; the output contains no CR/LF; an independent quoted-string lexer reads back exactly the text given and stops at the closing quote; whole commands lex to verb + the given arguments (hence injectivity); UTF-8 validity is preserved so the inner unwrap cannot fail; the encoded request is one line ending in the only CRLF. Tied to the code by exhaustive comparison on all ASCII strings of length <= 2 (quick) / 3 (thorough) in each of the 6 argument slots plus random Unicode strings, including the bytes the real client writes.",
   note=TB + "Modelled, not verified: Rust's String::from_utf8 (RFC 3629 automaton in Bytes.v), format!. Arguments are &str (valid UTF-8); the theorems cover all byte strings and show the panic branch unreachable for valid UTF-8.",
   technique="Coq proof (loop invariant + refinement to escape; inverse lexer) + exhaustive/ random extraction-based differential", ref="3 C10"),
 "C11": dict(
   text="Theorems over a hand model of IdGenerator (Tags.v): every tag is a valid 5-byte IMAP tag; any two of 10 000 consecutive counter values give different tags for every start (arithmetic proof, not enumeration); k<=10000 calls from any non-overflowing state yield NoDup tags. The model is tied to the code by running 30 000 commands through the real client over a mock transport and comparing the tags on the wire with the extracted model.",
   note=TB + "Modelled, not verified: format!(\"A{:04}\") (pad4), u64 increment without overflow inside the window. The exact-match half (completion only by the byte-identical tag) is pinned with the client machine (C05) when that is built.",
   technique="Coq proof (lia over N div/mod) + extraction-based differential vs the real client", ref="3 C11"),
}

m = {"version": 1,
     "setup_cmd": "./setup.sh",
     "hooks": {"guard": "cargo feature djc_tokio_imap_verif (tokio-imap)",
               "enable": "the harness crate enables feature djc_tokio_imap_verif on its tokio-imap path dependency (cargo build --offline in /verif/harness)",
               "baseline_off_cmd": "cd /repo && cargo test --workspace --no-fail-fast --offline",
               "source_commits": ["684eb6e"], "add_only": True},
     "engines": [{"name": "coq-proof+differential", "path": "check", "serves_properties": sorted(CLAIMS),
                  "kind_free_text": "Coq 8.16.1 theorems over executable models; rs2coq translator and extraction-based correspondence tie them to /repo"}],
     "checks": [], "notes": "Machine-checked proof in Coq 8.16.1; see DESIGN.md. known_findings.txt records repaired defects (fixed:) and open findings (known:).",
     "not_applicable": []}
for i in ids:
    if i in CLAIMS:
        c = CLAIMS[i]
        m["checks"].append({"property_id": i, "quick_cmd": "./check %s --tier quick" % i,
                            "thorough_cmd": "./check %s --tier thorough" % i,
                            "evidence_file": "evidence/%s.json" % i,
                            "replay_cmd_template": "./check %s --replay {path}" % i,
                            "engine": "coq-proof+differential",
                            "level_claimed": {"category": "proof", "text": c["text"], "design_ref": c["ref"]},
                            "level_note": c["note"], "technique": c["technique"]})
    else:
        m["not_applicable"].append({"property_id": i, "reason": "check not built yet (construction order in DESIGN.md 7.4); the technique applies and the property is not claimed until its check exists"})
json.dump(m, open(os.path.join(ROOT, "MANIFEST.json"), "w"), indent=1)
print("claimed:", sorted(CLAIMS))
