#!/bin/sh
# usage: confirm_mutant.sh <worktree> <patch.diff> <demo.rs> <crate> [cargo test extra args...]
# Confirms in a scratch worktree: with the patch the existing suite passes (78) and the demo FAILS; without it the demo PASSES.
WT="$1"; PATCH="$2"; DEMO="$3"; CRATE="$4"; shift 4
cd "$WT" || exit 2
git checkout -q -- . ; git clean -fdq
mkdir -p "$CRATE/tests"; cp "$DEMO" "$CRATE/tests/seeded_demo.rs"
echo "--- without patch: demo"; cargo test -p "$CRATE" --offline --test seeded_demo "$@" 2>&1 | grep -E "^test result|error(\[|:)" | head -5
git apply "$PATCH" || { echo "PATCH DOES NOT APPLY"; exit 2; }
echo "--- with patch: suite"; rm -f "$CRATE/tests/seeded_demo.rs"; cargo test --workspace --offline 2>&1 | grep -E "^test result: .* [1-9][0-9]* passed|FAILED|error(\[|:)" | head -5
cp "$DEMO" "$CRATE/tests/seeded_demo.rs"
echo "--- with patch: demo"; cargo test -p "$CRATE" --offline --test seeded_demo "$@" 2>&1 | grep -E "^test result|error(\[|:)" | head -5
git checkout -q -- . ; git clean -fdq
