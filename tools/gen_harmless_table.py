#!/usr/bin/env python3
"""Writes the table of behaviour-preserving rewrites (harmless/*/result.json) into DESIGN.md (HARMLESS markers)."""
import json, os, re
ROOT = os.path.dirname(os.path.dirname(os.path.abspath(__file__)))
rows = []
quiet_all = 0
for hid in sorted(os.listdir(os.path.join(ROOT, "harmless"))):
    d = os.path.join(ROOT, "harmless", hid)
    rp = os.path.join(d, "result.json")
    if not os.path.exists(rp):
        continue
    res = {k: v for k, v in json.load(open(rp)).items() if not k.endswith("_excerpt")}
    title = ""
    for l in open(os.path.join(d, "README.md")):
        l = l.strip().lstrip("#").strip()
        if l:
            title = re.sub(r"^m\d+\s*-\s*", "", l)
            break
    quiet = [k for k, v in res.items() if v.startswith("quiet")]
    alarm = [k for k, v in res.items() if v.startswith("ALARM") and "no-failing-input-found" in v]
    wrong = [k for k, v in res.items() if v.startswith("ALARM") and "no-failing-input-found" not in v]
    if not alarm and not wrong:
        quiet_all += 1
    rows.append("| %s | %s | %s | %s | %s |" % (hid, title[:140].replace("|", "/"), ", ".join(quiet) or "-", ", ".join(alarm) or "-", ", ".join(wrong) or "-"))
table = ("| rewrite | what it does | quiet | alarm through a broken obligation (`no-failing-input-found`) | alarm with a 'failing input' (would be a wrong oracle) |\n|---|---|---|---|---|\n"
         + "\n".join(rows) + "\n\n%d of %d rewrites leave every check of their area quiet; none is reported with a failing input.\n" % (quiet_all, len(rows)))
p = os.path.join(ROOT, "DESIGN.md")
s = open(p).read()
block = "<!-- HARMLESS:BEGIN -->\n" + table + "<!-- HARMLESS:END -->"
if "HARMLESS_TABLE_PLACEHOLDER" in s:
    s = s.replace("HARMLESS_TABLE_PLACEHOLDER", block)
else:
    s = re.sub(r"<!-- HARMLESS:BEGIN -->.*?<!-- HARMLESS:END -->", lambda _: block, s, flags=re.S)
open(p, "w").write(s)
print(table[-160:])
