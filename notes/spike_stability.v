(* FEASIBILITY SPIKE written while preparing DESIGN.md -- NOT part of the build, not a deliverable.
   It shows, on a 9-constructor fragment of the planned deep embedding, that
     (1) the interpreter  run : fuel -> G -> input -> res  passes Coq's guard checker when the
         per-node semantics is a non-recursive [step self callee g] and list helpers take [self]
         as a Section variable;
     (2) the unfolding lemma [run_S] + [Opaque run] keeps nested fixes out of every proof;
     (3) the generic theorems "Ok-rest is a suffix" and "accept/reject verdicts are stable under
         extension of the buffer" (the core of property C02) go through in ~150 lines, closed
         under the global context (coqc 8.16.1, 1.2 s).
   The real development (DESIGN.md section 2) re-does this with the full node set. *)
From Coq Require Import List Arith NArith Lia Bool.
Import ListNotations.
Set Implicit Arguments.

Definition byte := N.
Inductive val := VB (b: list byte) | VL (l: list val) | VNone | VSome (v: val) | VUnit.
Inductive res := ROk (rest: list byte) (v: val) | RInc | RErr | RFuel.

Inductive G :=
| Tag (s: list byte)
| TakeWhile1 (p: byte -> bool)
| Ref (n: nat)
| Seq (gs: list G)
| Alt (gs: list G)
| Opt (g: G)
| Many0 (g: G)
| Map (f: val -> val) (g: G)
| MapRes (f: val -> option val) (g: G).

Fixpoint tag_cmp (s i: list byte) : res :=
  match s, i with
  | [], _ => ROk i VUnit
  | _ :: _, [] => RInc
  | a :: s', b :: i' => if N.eqb a b then tag_cmp s' i' else RErr
  end.

Fixpoint span (p: byte -> bool) (i: list byte) : option (list byte * list byte) :=
  match i with
  | [] => None
  | b :: i' => if p b then match span p i' with Some (x, r) => Some (b :: x, r) | None => None end
               else Some ([], i)
  end.

Definition take_while1 p i :=
  match span p i with
  | None => RInc
  | Some ([], _) => RErr
  | Some (x, r) => ROk r (VB x)
  end.

Definition P := list byte -> res.

Section Helpers.
Variable go: G -> P.
Fixpoint seq_run (gs: list G) (i: list byte) (acc: list val) : res :=
  match gs with
  | [] => ROk i (VL (rev acc))
  | g :: gs' => match go g i with
                | ROk r v => seq_run gs' r (v :: acc)
                | e => e
                end
  end.

Fixpoint alt_run (gs: list G) (i: list byte) : res :=
  match gs with
  | [] => RErr
  | g :: gs' => match go g i with
                | RErr => alt_run gs' i
                | r => r
                end
  end.

End Helpers.
Fixpoint many_loop (p: P) (n: nat) (i: list byte) (acc: list val) : res :=
  match n with
  | O => RFuel
  | S n' => match p i with
            | RErr => ROk i (VL (rev acc))
            | ROk r v => if Nat.eqb (length r) (length i) then RErr else many_loop p n' r (v :: acc)
            | e => e
            end
  end.


Section Run.
Variable env : nat -> G.

Definition step (self callee: G -> P) (g: G) : P :=
  match g with
  | Tag s => tag_cmp s
  | TakeWhile1 p => take_while1 p
  | Ref n => callee (env n)
  | Seq gs => fun i => seq_run self gs i []
  | Alt gs => alt_run self gs
  | Opt g => fun i => match self g i with
             | ROk r v => ROk r (VSome v)
             | RErr => ROk i VNone
             | e => e
             end
  | Many0 g => fun i => many_loop (self g) (S (length i)) i []
  | Map fn g => fun i => match self g i with ROk r v => ROk r (fn v) | e => e end
  | MapRes fn g => fun i => match self g i with
                   | ROk r v => match fn v with Some v' => ROk r v' | None => RErr end
                   | e => e end
  end.

Fixpoint run (fuel: nat) : G -> P :=
  match fuel with
  | O => fun _ _ => RFuel
  | S f => fix go (g: G) : P := step go (run f) g
  end.

Lemma run_S f g : run (S f) g = step (run (S f)) (run f) g.
Proof. destruct g; reflexivity. Qed.
Opaque run.

Lemma G_ind' (Q: G -> Prop)
  (HT: forall s, Q (Tag s)) (HW: forall p, Q (TakeWhile1 p)) (HR: forall n, Q (Ref n))
  (HS: forall gs, Forall Q gs -> Q (Seq gs)) (HA: forall gs, Forall Q gs -> Q (Alt gs))
  (HO: forall g, Q g -> Q (Opt g)) (HM: forall g, Q g -> Q (Many0 g))
  (HMap: forall f g, Q g -> Q (Map f g)) (HMR: forall f g, Q g -> Q (MapRes f g)) : forall g, Q g.
Proof.
  fix IH 1. intros [s|p|n|gs|gs|g|g|f g|f g].
  - apply HT. - apply HW. - apply HR.
  - apply HS. induction gs; constructor; auto.
  - apply HA. induction gs; constructor; auto.
  - apply HO, IH. - apply HM, IH. - apply HMap, IH. - apply HMR, IH.
Qed.

Definition sfx (p: P) := forall i r v, p i = ROk r v -> exists c, i = c ++ r.

Lemma tag_sfx s : sfx (tag_cmp s).
Proof.
  induction s as [|a s IH]; intros i r v H; cbn in H.
  - inversion H; subst. exists []. reflexivity.
  - destruct i as [|b i]; [discriminate|]. destruct (N.eqb a b); [|discriminate].
    destruct (IH _ _ _ H) as [c ->]. exists (b :: c). reflexivity.
Qed.

Lemma span_app p i x r : span p i = Some (x, r) -> i = x ++ r.
Proof.
  revert x r; induction i as [|b i IH]; intros x r H; cbn in H; [discriminate|].
  destruct (p b).
  - destruct (span p i) as [[x' r']|] eqn:E; [|discriminate]. inversion H; subst. cbn. f_equal. auto.
  - inversion H; subst. reflexivity.
Qed.

Lemma tw1_sfx p : sfx (take_while1 p).
Proof.
  intros i r v H. unfold take_while1 in H. destruct (span p i) as [[x r']|] eqn:E; [|discriminate].
  destruct x; [discriminate|]. inversion H; subst. exists (b :: x). eapply span_app; eauto.
Qed.

Lemma seq_sfx (self: G -> P) gs : Forall (fun g => sfx (self g)) gs ->
  forall i acc r v, seq_run self gs i acc = ROk r v -> exists c, i = c ++ r.
Proof.
  induction 1 as [|g gs Hg Hgs IH]; intros i acc r v Hr; cbn in Hr.
  - inversion Hr; subst. exists []; reflexivity.
  - destruct (self g i) eqn:E; try discriminate.
    destruct (Hg _ _ _ E) as [c ->]. destruct (IH _ _ _ _ Hr) as [c' ->]. exists (c ++ c'). now rewrite app_assoc.
Qed.

Lemma alt_sfx (self: G -> P) gs : Forall (fun g => sfx (self g)) gs -> sfx (alt_run self gs).
Proof.
  induction 1 as [|g gs Hg Hgs IH]; intros i r v Hr; cbn in Hr; [discriminate|].
  destruct (self g i) eqn:E; try discriminate; eauto. inversion Hr; subst; eauto.
Qed.

Lemma many_sfx p : sfx p -> forall n i acc r v, many_loop p n i acc = ROk r v -> exists c, i = c ++ r.
Proof.
  intros Hp n; induction n as [|n IHn]; intros i acc r v Hr; cbn in Hr; [discriminate|].
  destruct (p i) eqn:E; try discriminate.
  - destruct (Nat.eqb _ _); [discriminate|]. destruct (Hp _ _ _ E) as [c ->].
    destruct (IHn _ _ _ _ Hr) as [c' ->]. exists (c ++ c'); now rewrite app_assoc.
  - inversion Hr; subst. exists []; reflexivity.
Qed.

Lemma run_sfx fuel : forall g, sfx (run fuel g).
Proof.
  induction fuel as [|f IHf]; intros g; [intros i r v H; discriminate|].
  induction g using G_ind'; rewrite run_S; cbn [step].
  - apply tag_sfx. - apply tw1_sfx. - apply IHf.
  - intros i r v. apply seq_sfx; auto.
  - apply alt_sfx; auto.
  - intros i r v Hr. destruct (run (S f) g i) eqn:E; try discriminate.
    + inversion Hr; subst. eauto. + inversion Hr; subst. exists []; reflexivity.
  - intros i r v. apply many_sfx; auto.
  - intros i r v Hr. destruct (run (S f) g i) eqn:E; try discriminate. inversion Hr; subst; eauto.
  - intros i r v Hr. destruct (run (S f) g i) eqn:E; try discriminate.
    destruct (f0 v0); inversion Hr; subst; eauto.
Qed.

Definition stab (p: P) := forall i X,
  (forall r v, p i = ROk r v -> p (i ++ X) = ROk (r ++ X) v) /\ (p i = RErr -> p (i ++ X) = RErr).

Lemma tag_stab s : stab (tag_cmp s).
Proof.
  induction s as [|a s IH]; intros i X; split; cbn.
  - intros r v H; inversion H; subst; reflexivity.
  - discriminate.
  - destruct i as [|b i]; [discriminate|]. cbn. destruct (N.eqb a b); [|discriminate]. apply IH.
  - destruct i as [|b i]; [discriminate|]. cbn. destruct (N.eqb a b); [apply IH|reflexivity].
Qed.

Lemma span_stab p i x r X : span p i = Some (x, r) -> span p (i ++ X) = Some (x, r ++ X).
Proof.
  revert x r; induction i as [|b i IH]; intros x r H; cbn in *; [discriminate|].
  destruct (p b).
  - destruct (span p i) as [[x' r']|] eqn:E; [|discriminate]. inversion H; subst. now rewrite (IH _ _ eq_refl).
  - inversion H; subst; reflexivity.
Qed.

Lemma tw1_stab p : stab (take_while1 p).
Proof.
  intros i X; unfold take_while1; split.
  - intros r v H. destruct (span p i) as [[x r']|] eqn:E; [|discriminate].
    rewrite (span_stab _ _ X E). destruct x; [discriminate|]. inversion H; subst; reflexivity.
  - intros H. destruct (span p i) as [[x r']|] eqn:E; [|discriminate].
    rewrite (span_stab _ _ X E). destruct x; [reflexivity|discriminate].
Qed.

Lemma seq_stab (self: G -> P) gs : Forall (fun g => stab (self g)) gs ->
  forall i X acc, (forall r v, seq_run self gs i acc = ROk r v -> seq_run self gs (i ++ X) acc = ROk (r ++ X) v)
               /\ (seq_run self gs i acc = RErr -> seq_run self gs (i ++ X) acc = RErr).
Proof.
  induction 1 as [|g gs Hg Hgs IH]; intros i X acc; cbn; split.
  - intros r v H; inversion H; subst; reflexivity.
  - discriminate.
  - intros r v H. destruct (self g i) eqn:E; try discriminate.
    rewrite (proj1 (Hg i X) _ _ E). now apply IH.
  - intros H. destruct (self g i) eqn:E; try discriminate.
    + rewrite (proj1 (Hg i X) _ _ E). now apply IH.
    + now rewrite (proj2 (Hg i X) E).
Qed.

Lemma alt_stab (self: G -> P) gs : Forall (fun g => stab (self g)) gs -> stab (alt_run self gs).
Proof.
  induction 1 as [|g gs Hg Hgs IH]; intros i X; cbn; split; try discriminate; auto.
  - intros r v H. destruct (self g i) eqn:E; try discriminate.
    + rewrite (proj1 (Hg i X) _ _ E). inversion H; subst; reflexivity.
    + rewrite (proj2 (Hg i X) E). now apply IH.
  - intros H. destruct (self g i) eqn:E; try discriminate.
    rewrite (proj2 (Hg i X) E). now apply IH.
Qed.

Lemma many_stab p : stab p -> sfx p -> forall n n' i X acc, length i < n -> length (i ++ X) < n' ->
  (forall r v, many_loop p n i acc = ROk r v -> many_loop p n' (i ++ X) acc = ROk (r ++ X) v)
  /\ (many_loop p n i acc = RErr -> many_loop p n' (i ++ X) acc = RErr).
Proof.
  intros Hst Hsf n; induction n as [|n IHn]; intros n' i X acc Hn Hn'; [lia|].
  destruct n' as [|n']; [lia|]. cbn. split.
  - intros r v H. destruct (p i) eqn:E; try discriminate.
    + rewrite (proj1 (Hst i X) _ _ E). destruct (Hsf _ _ _ E) as [c ->].
      rewrite !app_length in *. destruct (Nat.eqb (length rest) (length c + length rest)) eqn:Eq; [discriminate|].
      apply Nat.eqb_neq in Eq.
      destruct (Nat.eqb (length rest + length X) (length c + length rest + length X)) eqn:Eq'; [apply Nat.eqb_eq in Eq'; lia|].
      apply IHn; [lia | rewrite app_length; lia | exact H].
    + rewrite (proj2 (Hst i X) E). inversion H; subst; reflexivity.
  - intros H. destruct (p i) eqn:E; try discriminate.
    rewrite (proj1 (Hst i X) _ _ E). destruct (Hsf _ _ _ E) as [c ->].
    rewrite !app_length in *. destruct (Nat.eqb (length rest) (length c + length rest)) eqn:Eq.
    + apply Nat.eqb_eq in Eq. replace (Nat.eqb _ _) with true; [reflexivity|]. symmetry; apply Nat.eqb_eq; lia.
    + apply Nat.eqb_neq in Eq.
      destruct (Nat.eqb (length rest + length X) (length c + length rest + length X)) eqn:Eq'; [apply Nat.eqb_eq in Eq'; lia|].
      apply IHn; [lia | rewrite app_length; lia | exact H].
Qed.

Theorem run_stab fuel : forall g, stab (run fuel g).
Proof.
  induction fuel as [|f IHf]; intros g; [intros i X; split; [intros r v H|intros H]; discriminate|].
  induction g using G_ind'; rewrite run_S; cbn [step].
  - apply tag_stab. - apply tw1_stab. - apply IHf.
  - intros i X. apply seq_stab; auto.
  - apply alt_stab; auto.
  - intros i X; split.
    + intros r v H. destruct (run (S f) g i) eqn:E; try discriminate.
      * rewrite (proj1 (IHg i X) _ _ E). inversion H; subst; reflexivity.
      * rewrite (proj2 (IHg i X) E). inversion H; subst; reflexivity.
    + intros H. destruct (run (S f) g i) eqn:E; discriminate.
  - intros i X. apply many_stab; auto using run_sfx; rewrite ?app_length; lia.
  - intros i X; split.
    + intros r v H. destruct (run (S f) g i) eqn:E; try discriminate.
      rewrite (proj1 (IHg i X) _ _ E). inversion H; subst; reflexivity.
    + intros H. destruct (run (S f) g i) eqn:E; try discriminate. now rewrite (proj2 (IHg i X) E).
  - intros i X; split.
    + intros r v H. destruct (run (S f) g i) eqn:E; try discriminate.
      rewrite (proj1 (IHg i X) _ _ E). match type of H with context[match ?a ?b with Some _ => _ | None => _ end] => destruct (a b) end; inversion H; subst; reflexivity.
    + intros H. destruct (run (S f) g i) eqn:E; try discriminate.
      * rewrite (proj1 (IHg i X) _ _ E). match type of H with context[match ?a ?b with Some _ => _ | None => _ end] => destruct (a b) end; [discriminate|reflexivity].
      * now rewrite (proj2 (IHg i X) E).
Qed.
Print Assumptions run_stab.
End Run.
