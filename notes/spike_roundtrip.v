(* FEASIBILITY SPIKE written while preparing DESIGN.md -- NOT part of the build, not a deliverable.
   Third spike: the shape of the C03 round-trip proofs on a toy slice of response_data
   (Tag "* "; Alt [ "OK" ; number " EXISTS" ; number " RECENT" ]; Tag CRLF).
     - [enc_recent n e]: an independent encoding relation -- any digit spelling of n (leading zeros),
       any letter case of the keyword;
     - [first_rejects] / [first_sound]: computable FIRST-byte rejection with a generic soundness
       theorem, used to dismiss the earlier Alt branch that starts with a keyword;
     - the earlier branch that shares the numeric prefix is dismissed by inverting the keyword's
       Forall2 and computing (pattern reusable as an Ltac);
     - [roundtrip_recent]: forall n < 2^32, forall encodings e of n, forall trailing X,
       run g_resp (e ++ X) = ROk X <value carrying n>.   Closed under the global context, 1.0 s. *)
From Coq Require Import List Arith NArith Lia Bool.
Import ListNotations.
Set Implicit Arguments.
Arguments N.eqb : simpl never. Arguments N.leb : simpl never. Arguments N.ltb : simpl never.
Arguments N.add : simpl never. Arguments N.mul : simpl never. Arguments N.sub : simpl never.

Definition byte := N.
Inductive val := VN (n: N) | VL (l: list val) | VUnit.
Inductive res := ROk (rest: list byte) (v: val) | RInc | RErr.

Definition lower (b: byte) : byte := if ((65 <=? b) && (b <=? 90))%N then (b + 32)%N else b.
Definition is_digit (b: byte) := ((48 <=? b) && (b <=? 57))%N.

Fixpoint tag_cmp (s i: list byte) : res :=
  match s, i with
  | [], _ => ROk i VUnit
  | _ :: _, [] => RInc
  | a :: s', b :: i' => if N.eqb a b then tag_cmp s' i' else RErr
  end.
Fixpoint tag_nc (s i: list byte) : res :=
  match s, i with
  | [], _ => ROk i VUnit
  | _ :: _, [] => RInc
  | a :: s', b :: i' => if N.eqb (lower a) (lower b) then tag_nc s' i' else RErr
  end.
Fixpoint span (p: byte -> bool) (i: list byte) : option (list byte * list byte) :=
  match i with
  | [] => None
  | b :: i' => if p b then match span p i' with Some (x, r) => Some (b :: x, r) | None => None end
               else Some ([], i)
  end.
Fixpoint dec_acc (acc: N) (ds: list byte) : N :=
  match ds with [] => acc | d :: t => dec_acc (acc * 10 + (d - 48))%N t end.
Definition dec := dec_acc 0%N.
Definition number (i: list byte) : res :=
  match span is_digit i with
  | None => RInc
  | Some ([], _) => RErr
  | Some (ds, r) => if (dec ds <? 4294967296)%N then ROk r (VN (dec ds)) else RErr
  end.

Inductive G := Tag (s: list byte) | TagNC (s: list byte) | Num | Seq (gs: list G) | Alt (gs: list G).
Definition P := list byte -> res.
Section Helpers.
Variable go: G -> P.
Fixpoint seq_run (gs: list G) (i: list byte) (acc: list val) : res :=
  match gs with
  | [] => ROk i (VL (rev acc))
  | g :: gs' => match go g i with ROk r v => seq_run gs' r (v :: acc) | e => e end
  end.
Fixpoint alt_run (gs: list G) (i: list byte) : res :=
  match gs with
  | [] => RErr
  | g :: gs' => match go g i with RErr => alt_run gs' i | r => r end
  end.
End Helpers.
Fixpoint run (g: G) : P :=
  match g with
  | Tag s => tag_cmp s
  | TagNC s => tag_nc s
  | Num => number
  | Seq gs => fun i => seq_run run gs i []
  | Alt gs => alt_run run gs
  end.

(* ---- the grammar under test (what rs2coq would emit) ---- *)
Definition b (s: list N) := s.
Definition kw_ok      := [79;75]%N.                         (* "OK" *)
Definition kw_exists  := [32;69;88;73;83;84;83]%N.          (* " EXISTS" *)
Definition kw_recent  := [32;82;69;67;69;78;84]%N.          (* " RECENT" *)
Definition star_sp    := [42;32]%N.
Definition crlf       := [13;10]%N.
Definition g_ok     := TagNC kw_ok.
Definition g_exists := Seq [Num; TagNC kw_exists].
Definition g_recent := Seq [Num; TagNC kw_recent].
Definition g_resp   := Seq [Tag star_sp; Alt [g_ok; g_exists; g_recent]; Tag crlf].

(* ---- the independent encoding relation (what Spec.v would say) ---- *)
Definition enc_kw (s e: list byte) := Forall2 (fun a c => lower a = lower c) s e.
Definition enc_num (n: N) (ds: list byte) := ds <> [] /\ Forall (fun d => is_digit d = true) ds /\ dec ds = n.
Definition enc_recent (n: N) (e: list byte) :=
  exists ds k, enc_num n ds /\ enc_kw kw_recent k /\ e = star_sp ++ ds ++ k ++ crlf.

(* ---- generic leaf lemmas ---- *)
Lemma tag_cmp_app s r : tag_cmp s (s ++ r) = ROk r VUnit.
Proof. induction s as [|a s IH]; cbn; [reflexivity|]. now rewrite N.eqb_refl. Qed.

Lemma tag_nc_enc s : forall e r, enc_kw s e -> tag_nc s (e ++ r) = ROk r VUnit.
Proof.
  induction s as [|a s IH]; intros e r H; inversion H; subst; cbn; [reflexivity|].
  match goal with Hl: lower a = lower _ |- _ => rewrite Hl end. rewrite N.eqb_refl. auto.
Qed.

Lemma span_digits ds r : Forall (fun d => is_digit d = true) ds ->
  (match r with [] => False | c :: _ => is_digit c = false end) ->
  span is_digit (ds ++ r) = Some (ds, r).
Proof.
  induction 1 as [|d ds Hd Hds IH]; intros Hr; cbn.
  - destruct r as [|c r]; [contradiction|]. cbn. now rewrite Hr.
  - rewrite Hd, (IH Hr). reflexivity.
Qed.

Lemma number_enc n ds r : enc_num n ds -> (n < 4294967296)%N ->
  (match r with [] => False | c :: _ => is_digit c = false end) ->
  number (ds ++ r) = ROk r (VN n).
Proof.
  intros (Hne & Hd & Hn) Hlt Hr. unfold number. rewrite (span_digits _ Hd Hr).
  destruct ds; [contradiction|]. rewrite Hn. apply N.ltb_lt in Hlt. now rewrite Hlt.
Qed.

(* ---- FIRST-byte rejection, sound by construction ---- *)
Fixpoint first_rejects (g: G) (c: byte) : bool :=
  match g with
  | Tag (a :: _) => negb (N.eqb a c)
  | TagNC (a :: _) => negb (N.eqb (lower a) (lower c))
  | Tag [] | TagNC [] => false
  | Num => negb (is_digit c)
  | Seq (g :: _) => first_rejects g c
  | Seq [] => false
  | Alt gs => forallb (fun g => first_rejects g c) gs
  end.

Lemma G_ind' (Q: G -> Prop)
  (HT: forall s, Q (Tag s)) (HN: forall s, Q (TagNC s)) (HNum: Q Num)
  (HS: forall gs, Forall Q gs -> Q (Seq gs)) (HA: forall gs, Forall Q gs -> Q (Alt gs)) : forall g, Q g.
Proof.
  fix IH 1. intros [s|s| |gs|gs]; [apply HT|apply HN|apply HNum| |].
  - apply HS. induction gs; constructor; auto.
  - apply HA. induction gs; constructor; auto.
Qed.

Theorem first_sound : forall g c i, first_rejects g c = true -> run g (c :: i) = RErr.
Proof.
  induction g using G_ind'; intros c i Hf; cbn [run].
  - destruct s as [|a s]; [discriminate|]. cbn in *. now destruct (N.eqb a c).
  - destruct s as [|a s]; [discriminate|]. cbn in *. now destruct (N.eqb (lower a) (lower c)).
  - cbn in Hf. unfold number. cbn [span]. destruct (is_digit c); [discriminate|reflexivity].
  - destruct gs as [|g gs]; [discriminate|]. cbn in *. inversion H; subst.
    match goal with Hg: forall c i, _ -> run g _ = RErr |- _ => rewrite (Hg c i Hf) end. reflexivity.
  - cbn in Hf. induction H as [|g gs Hg Hgs IH]; [reflexivity|]. cbn in *.
    apply andb_prop in Hf as [H1 H2]. rewrite (Hg c i H1). auto.
Qed.

(* ---- the round trip for "* <n> RECENT CRLF", any case, any leading zeros, any trailing bytes ---- *)
Lemma digit_cases d : is_digit d = true -> lower d = d /\ (48 <= d <= 57)%N.
Proof.
  unfold is_digit, lower. intros H. apply andb_prop in H as [H1 H2].
  apply N.leb_le in H1, H2. split; [|lia].
  destruct ((65 <=? d)%N && (d <=? 90)%N) eqn:E; [|reflexivity].
  apply andb_prop in E as [E1 E2]. apply N.leb_le in E1, E2. lia.
Qed.

Lemma enc_kw_first_not_digit s k c0 : enc_kw (c0 :: s) k -> is_digit c0 = false -> lower c0 = c0 ->
  match k with [] => False | c :: _ => is_digit c = false end.
Proof.
  intros H Hd Hl. inversion H as [|a c s' k' Hac Hrest]; subst. rewrite Hl in Hac.
  destruct (is_digit c) eqn:E; [|reflexivity]. destruct (digit_cases _ E) as [Hlc _].
  rewrite Hlc in Hac. subst. congruence.
Qed.

Theorem roundtrip_recent : forall n e X, enc_recent n e -> (n < 4294967296)%N ->
  run g_resp (e ++ X) = ROk X (VL [VUnit; VL [VN n; VUnit]; VUnit]).
Proof.
  intros n e X (ds & k & Hnum & Hkw & ->) Hlt.
  destruct Hnum as (Hne & Hd & Hn).
  destruct ds as [|d ds]; [contradiction|].
  assert (Hfollow: match (k ++ crlf) ++ X with [] => False | c :: _ => is_digit c = false end).
  { pose proof (@enc_kw_first_not_digit _ k 32%N Hkw eq_refl eq_refl) as Hk. destruct k; [contradiction|exact Hk]. }
  unfold g_resp. cbn [run seq_run]. rewrite <- !app_assoc. rewrite tag_cmp_app. cbn [alt_run].
  (* branch 1: "OK" rejects a digit *)
  inversion Hd as [|d' ds' Hdd Hds]; subst d' ds'.
  cbn [app]. rewrite (@first_sound g_ok d).
  2:{ destruct (digit_cases _ Hdd) as [Hl Hr]. unfold g_ok, kw_ok; cbn [first_rejects]. rewrite Hl. apply negb_true_iff, N.eqb_neq. change (lower 79%N) with 111%N. lia. }
  (* branch 2: number succeeds, " EXISTS" mismatches " RECENT" *)
  change (d :: ds ++ k ++ crlf ++ X) with ((d :: ds) ++ (k ++ crlf ++ X)).
  assert (Hnumber: number ((d :: ds) ++ k ++ crlf ++ X) = ROk (k ++ crlf ++ X) (VN n)).
  { apply number_enc; [repeat split; auto; discriminate|exact Hlt|].
    rewrite app_assoc. exact Hfollow. }
  unfold g_exists at 1. cbn [run seq_run]. rewrite Hnumber.
  assert (Hmis: tag_nc kw_exists (k ++ crlf ++ X) = RErr).
  { unfold enc_kw, kw_recent in Hkw.
    repeat match goal with H: Forall2 _ (_ :: _) _ |- _ => inversion H; clear H; subst end.
    match goal with H: Forall2 _ [] _ |- _ => inversion H; clear H; subst end.
    cbn [app tag_nc kw_exists].
    repeat match goal with H: lower ?a = lower ?c |- context[N.eqb (lower _) (lower ?c)] => rewrite <- H end.
    vm_compute. reflexivity. }
  rewrite Hmis.
  (* branch 3 *)
  unfold g_recent. cbn [run seq_run]. rewrite Hnumber. rewrite (tag_nc_enc _ Hkw). cbn [rev app].
  rewrite tag_cmp_app. reflexivity.
Qed.
Print Assumptions roundtrip_recent.
