(* FEASIBILITY SPIKE written while preparing DESIGN.md -- NOT part of the build, not a deliverable.
   Second spike: the generic CRLF-discipline theorem behind property C09, on a fragment of the
   planned deep embedding (Tag, TakeWhile1, the native literal, Ref, Seq, Alt, Opt, Many0).
     - [safe i]  : the property's own lexical framer (scan to CRLF; a line ending in "{n}" skips n
                   bytes and continues) finds a complete frame in i  (inductive, no fuel);
     - [inner g] : computable side condition (tags and classes admit no CR);
     - [run_good]: inner g -> safe i -> run fuel g i <> RInc /\ (run fuel g i = ROk r v -> safe r);
     - [literal_good]: the same for the hand model of core::literal -- the only place where the
                   framer's "{n}" and the parser's number must agree;
     - [top_never_incomplete]: a rule  body ++ CRLF  never answers Incomplete on a buffer that
                   holds a lexically complete frame.
   ~390 lines, closed under the section's two variables (env, env_inner), coqc 8.16.1: 1.4 s. *)
From Coq Require Import List Arith NArith Lia Bool.
Import ListNotations.
Set Implicit Arguments.
Arguments N.eqb : simpl never.

Definition byte := N.
Definition CR : byte := 13%N. Definition LF : byte := 10%N.
Inductive val := VB (b: list byte) | VL (l: list val) | VNone | VSome (v: val) | VUnit.
Inductive res := ROk (rest: list byte) (v: val) | RInc | RErr | RFuel.

Inductive G :=
| Tag (s: list byte) | TakeWhile1 (p: byte -> bool) | Lit | Ref (n: nat)
| Seq (gs: list G) | Alt (gs: list G) | Opt (g: G) | Many0 (g: G).

Fixpoint tag_cmp (s i: list byte) : res :=
  match s, i with
  | [], _ => ROk i VUnit
  | _ :: _, [] => RInc
  | a :: s', b :: i' => if N.eqb a b then tag_cmp s' i' else RErr
  end.
Fixpoint span (p: byte -> bool) (i: list byte) : option (list byte * list byte) :=
  match i with
  | [] => None
  | b :: i' => if p b then match span p i' with Some (x, r) => Some (b :: x, r) | None => None end
               else Some ([], i)
  end.
Definition take_while1 p i :=
  match span p i with None => RInc | Some ([], _) => RErr | Some (x, r) => ROk r (VB x) end.

Definition is_digit (b: byte) := (48 <=? b)%N && (b <=? 57)%N.
Fixpoint dec_acc (acc: N) (ds: list byte) : N :=
  match ds with [] => acc | d :: t => dec_acc (acc * 10 + (d - 48))%N t end.
Definition dec := dec_acc 0%N.

(* literal = "{" digits "}" CRLF take(n) *)
Definition literal (i: list byte) : res :=
  match tag_cmp [123%N] i with
  | ROk r1 _ =>
    match span is_digit r1 with
    | None => RInc
    | Some ([], _) => RErr
    | Some (ds, r2) =>
      if (4294967296 <=? dec ds)%N then RErr else
      match tag_cmp [125%N] r2 with
      | ROk r3 _ =>
        match tag_cmp [CR; LF] r3 with
        | ROk r4 _ => let n := N.to_nat (dec ds) in
                      if length r4 <? n then RInc else ROk (skipn n r4) (VB (firstn n r4))
        | e => e end
      | e => e end
    end
  | e => e end.

Definition P := list byte -> res.
Section Helpers.
Variable go: G -> P.
Fixpoint seq_run (gs: list G) (i: list byte) (acc: list val) : res :=
  match gs with
  | [] => ROk i (VL (rev acc))
  | g :: gs' => match go g i with ROk r v => seq_run gs' r (v :: acc) | e => e end
  end.
Fixpoint alt_run (gs: list G) (i: list byte) : res :=
  match gs with
  | [] => RErr
  | g :: gs' => match go g i with RErr => alt_run gs' i | r => r end
  end.
End Helpers.
Fixpoint many_loop (p: P) (n: nat) (i: list byte) (acc: list val) : res :=
  match n with
  | O => RFuel
  | S n' => match p i with
            | RErr => ROk i (VL (rev acc))
            | ROk r v => if Nat.eqb (length r) (length i) then RErr else many_loop p n' r (v :: acc)
            | e => e
            end
  end.

Section Run.
Variable env : nat -> G.
Definition step (self callee: G -> P) (g: G) : P :=
  match g with
  | Tag s => tag_cmp s
  | TakeWhile1 p => take_while1 p
  | Lit => literal
  | Ref n => callee (env n)
  | Seq gs => fun i => seq_run self gs i []
  | Alt gs => alt_run self gs
  | Opt g => fun i => match self g i with ROk r v => ROk r (VSome v) | RErr => ROk i VNone | e => e end
  | Many0 g => fun i => many_loop (self g) (S (length i)) i []
  end.
Fixpoint run (fuel: nat) : G -> P :=
  match fuel with O => fun _ _ => RFuel | S f => fix go (g: G) : P := step go (run f) g end.
Lemma run_S f g : run (S f) g = step (run (S f)) (run f) g.
Proof. destruct g; reflexivity. Qed.
Opaque run.

Lemma G_ind' (Q: G -> Prop)
  (HT: forall s, Q (Tag s)) (HW: forall p, Q (TakeWhile1 p)) (HL: Q Lit) (HR: forall n, Q (Ref n))
  (HS: forall gs, Forall Q gs -> Q (Seq gs)) (HA: forall gs, Forall Q gs -> Q (Alt gs))
  (HO: forall g, Q g -> Q (Opt g)) (HM: forall g, Q g -> Q (Many0 g)) : forall g, Q g.
Proof.
  fix IH 1. intros [s|p| |n|gs|gs|g|g].
  - apply HT. - apply HW. - apply HL. - apply HR.
  - apply HS. induction gs; constructor; auto.
  - apply HA. induction gs; constructor; auto.
  - apply HO, IH. - apply HM, IH.
Qed.

(* ---------- the lexical framer ---------- *)
Fixpoint split_crlf (i: list byte) : option (list byte * list byte) :=
  match i with
  | [] => None
  | a :: t => match t with
              | b :: t' => if N.eqb a CR && N.eqb b LF then Some ([], t')
                           else match split_crlf t with Some (l, r) => Some (a :: l, r) | None => None end
              | [] => None
              end
  end.

(* line ends in "{" digits "}" *)
Fixpoint spanl (p: byte -> bool) (l: list byte) : list byte * list byte :=
  match l with
  | b :: t => if p b then let (x, r) := spanl p t in (b :: x, r) else ([], l)
  | [] => ([], [])
  end.
Definition lit_suffix (line: list byte) : option N :=
  match rev line with
  | c :: t => if N.eqb c 125 then
                let (rds, t') := spanl is_digit t in
                match rds, t' with
                | _ :: _, o :: _ => if N.eqb o 123 then Some (dec (rev rds)) else None
                | _, _ => None
                end
              else None
  | [] => None
  end.

Inductive safe : list byte -> Prop :=
| safe_plain i line after : split_crlf i = Some (line, after) -> lit_suffix line = None -> safe i
| safe_lit i line after k : split_crlf i = Some (line, after) -> lit_suffix line = Some k ->
    N.to_nat k <= length after -> safe (skipn (N.to_nat k) after) -> safe i.

Definition nocr (c: list byte) := Forall (fun b => b <> CR) c.

Lemma split_crlf_app_nocr c r : nocr c ->
  split_crlf (c ++ r) = match split_crlf r with Some (l, a) => Some (c ++ l, a) | None => None end.
Proof.
  induction 1 as [|a c Ha Hc IH]; cbn [app].
  - destruct (split_crlf r) as [[l a]|]; reflexivity.
  - cbn [split_crlf]. destruct (c ++ r) as [|b t] eqn:E.
    + destruct c; [|discriminate]. cbn in E. subst r. reflexivity.
    + replace (N.eqb a CR) with false by (symmetry; apply N.eqb_neq; exact Ha). cbn [andb].
      rewrite IH. destruct (split_crlf r) as [[l a']|]; reflexivity.
Qed.

Lemma spanl_app_stop p t x o r y : spanl p t = (x, o :: r) -> spanl p (t ++ y) = (x, o :: r ++ y).
Proof.
  revert x; induction t as [|b t IH]; intros x H; cbn in H; [discriminate|].
  cbn [app spanl]. destruct (p b).
  - destruct (spanl p t) as [x' r'] eqn:E. inversion H; subst. now rewrite (IH _ eq_refl).
  - inversion H; subst. reflexivity.
Qed.

Lemma lit_suffix_app c l k : lit_suffix l = Some k -> lit_suffix (c ++ l) = Some k.
Proof.
  unfold lit_suffix. rewrite rev_app_distr. destruct (rev l) as [|b t]; [discriminate|].
  cbn [app]. destruct (N.eqb b 125); [|discriminate].
  destruct (spanl is_digit t) as [rds t'] eqn:E. destruct rds as [|d rds]; [discriminate|].
  destruct t' as [|o t']; [discriminate|]. rewrite (spanl_app_stop _ _ (rev c) E). auto.
Qed.

Lemma safe_drop c r : nocr c -> safe (c ++ r) -> safe r.
Proof.
  intros Hc Hs. inversion Hs as [i line after Hsp Hl | i line after k Hsp Hl Hlen Hrest]; subst.
  - rewrite (split_crlf_app_nocr r Hc) in Hsp. destruct (split_crlf r) as [[l a]|] eqn:E; [|discriminate].
    inversion Hsp; subst. destruct (lit_suffix l) eqn:El.
    + rewrite (lit_suffix_app c _ El) in Hl. discriminate.
    + eapply safe_plain; eauto.
  - rewrite (split_crlf_app_nocr r Hc) in Hsp. destruct (split_crlf r) as [[l a]|] eqn:E; [|discriminate].
    inversion Hsp; subst. destruct (lit_suffix l) eqn:El.
    + rewrite (lit_suffix_app c _ El) in Hl. inversion Hl; subst. eapply safe_lit; eauto.
    + eapply safe_plain; eauto.
Qed.

Lemma split_nocr_none i : nocr i -> split_crlf i = None.
Proof.
  induction 1 as [|a i Ha Hi IH]; [reflexivity|]. cbn [split_crlf]. destruct i as [|b t]; [reflexivity|].
  replace (N.eqb a CR) with false by (symmetry; apply N.eqb_neq; exact Ha). cbn [andb]. now rewrite IH.
Qed.

Lemma safe_has_split i : safe i -> split_crlf i <> None.
Proof. intros H; inversion H; subst; congruence. Qed.

(* leaves *)
Lemma tag_inc_prefix s : forall i, tag_cmp s i = RInc -> exists t, s = i ++ t.
Proof.
  induction s as [|a s IH]; intros i H; cbn in H; [discriminate|].
  destruct i as [|b i]; [exists (a :: s); reflexivity|].
  destruct (N.eqb a b) eqn:E; [|discriminate]. apply N.eqb_eq in E; subst.
  destruct (IH _ H) as [t ->]. exists t; reflexivity.
Qed.
Lemma tag_ok_app s : forall i r v, tag_cmp s i = ROk r v -> i = s ++ r.
Proof.
  induction s as [|a s IH]; intros i r v H; cbn in H.
  - inversion H; reflexivity.
  - destruct i as [|b i]; [discriminate|]. destruct (N.eqb a b) eqn:E; [|discriminate].
    apply N.eqb_eq in E; subst. cbn. f_equal. eauto.
Qed.
Lemma nocr_app_l a b : nocr (a ++ b) -> nocr a.
Proof. unfold nocr; rewrite Forall_app; tauto. Qed.

Definition good (p: P) := forall i, safe i -> p i <> RInc /\ (forall r v, p i = ROk r v -> safe r).

Lemma tag_good s : nocr s -> good (tag_cmp s).
Proof.
  intros Hs i Hi; split.
  - intros H. destruct (tag_inc_prefix _ _ H) as [t ->]. apply (safe_has_split Hi).
    apply split_nocr_none. eapply nocr_app_l; eauto.
  - intros r v H. rewrite (tag_ok_app _ _ H) in Hi. eapply safe_drop; eauto.
Qed.

Lemma span_none_all p i : span p i = None -> Forall (fun b => p b = true) i.
Proof.
  induction i as [|b i IH]; intros H; [constructor|]. cbn in H. destruct (p b) eqn:E; [|discriminate].
  destruct (span p i) as [[x r]|]; [discriminate|]. constructor; auto.
Qed.
Lemma span_some p i x r : span p i = Some (x, r) -> i = x ++ r /\ Forall (fun b => p b = true) x.
Proof.
  revert x r; induction i as [|b i IH]; intros x r H; cbn in H; [discriminate|].
  destruct (p b) eqn:E.
  - destruct (span p i) as [[x' r']|] eqn:E'; [|discriminate]. inversion H; subst.
    destruct (IH _ _ eq_refl) as [-> Hx]. split; [reflexivity|constructor; auto].
  - inversion H; subst. split; [reflexivity|constructor].
Qed.
Lemma all_p_nocr p x : p CR = false -> Forall (fun b => p b = true) x -> nocr x.
Proof. intros Hp H. eapply Forall_impl; [|exact H]. intros b Hb ->. congruence. Qed.

Lemma tw1_good p : p CR = false -> good (take_while1 p).
Proof.
  intros Hp i Hi; unfold take_while1; split.
  - destruct (span p i) as [[x r]|] eqn:E.
    + destruct x; discriminate.
    + intros _. apply (safe_has_split Hi), split_nocr_none. eapply all_p_nocr; eauto using span_none_all.
  - intros r v H. destruct (span p i) as [[x r']|] eqn:E; [|discriminate].
    destruct x; [discriminate|]. inversion H; subst. destruct (span_some _ _ E) as [-> Hx].
    eapply safe_drop; eauto using all_p_nocr.
Qed.

Lemma spanl_all p x y o : Forall (fun b => p b = true) x -> p o = false -> spanl p (x ++ o :: y) = (x, o :: y).
Proof.
  induction 1 as [|b x Hb Hx IH]; intros Ho; cbn.
  - now rewrite Ho.
  - rewrite Hb, (IH Ho). reflexivity.
Qed.

Lemma lit_suffix_exact ds : ds <> [] -> Forall (fun b => is_digit b = true) ds ->
  lit_suffix (123%N :: ds ++ [125%N]) = Some (dec ds).
Proof.
  intros Hne Hd. unfold lit_suffix. cbn [rev]. rewrite rev_app_distr. cbn [rev app].
  replace (N.eqb 125 125) with true by reflexivity.
  rewrite (@spanl_all is_digit (rev ds) [] 123%N); [|apply Forall_rev; exact Hd|reflexivity].
  destruct (rev ds) as [|d t] eqn:E.
  - apply (f_equal (@rev byte)) in E. rewrite rev_involutive in E. cbn in E. contradiction.
  - replace (N.eqb 123 123) with true by reflexivity. rewrite <- E, rev_involutive. reflexivity.
Qed.

Lemma digits_nocr ds : Forall (fun b => is_digit b = true) ds -> nocr ds.
Proof. apply all_p_nocr. reflexivity. Qed.

Lemma literal_good : good literal.
Proof.
  intros i Hi. unfold literal.
  destruct (tag_good (s:=[123%N])) with (i:=i) as [T1 T1ok]; [repeat constructor; discriminate|exact Hi|].
  destruct (tag_cmp [123%N] i) as [r1 v1| | |] eqn:E1; try (split; [assumption || discriminate | discriminate]).
  pose proof (T1ok _ _ eq_refl) as S1. pose proof (tag_ok_app _ _ E1) as Hi1.
  destruct (span is_digit r1) as [[ds r2]|] eqn:E2.
  2:{ exfalso. apply (safe_has_split S1), split_nocr_none, digits_nocr. eauto using span_none_all. }
  destruct (span_some _ _ E2) as [Hr1 Hds].
  destruct ds as [|d ds]; [split; discriminate|].
  destruct (4294967296 <=? dec (d :: ds))%N; [split; discriminate|].
  assert (S2: safe r2) by (rewrite Hr1 in S1; eapply safe_drop; eauto using digits_nocr).
  destruct (tag_good (s:=[125%N])) with (i:=r2) as [T3 T3ok]; [repeat constructor; discriminate|exact S2|].
  destruct (tag_cmp [125%N] r2) as [r3 v3| | |] eqn:E3; try (split; [assumption || discriminate | discriminate]).
  pose proof (T3ok _ _ eq_refl) as S3. pose proof (tag_ok_app _ _ E3) as Hr2.
  destruct (tag_cmp [CR; LF] r3) as [r4 v4| | |] eqn:E4; try (split; discriminate).
  2:{ exfalso. destruct (tag_inc_prefix _ _ E4) as [t Ht]. apply (safe_has_split S3).
      destruct r3 as [|a [|b r3']]; [reflexivity|reflexivity|].
      exfalso. destruct r3' as [|c r3'']; cbn in Ht.
      - inversion Ht; subst. vm_compute in E4. discriminate.
      - discriminate Ht. }
  pose proof (tag_ok_app _ _ E4) as Hr3.
  (* reconstruct i *)
  assert (Hlit: lit_suffix (123%N :: (d :: ds) ++ [125%N]) = Some (dec (d :: ds)))
    by (apply lit_suffix_exact; [discriminate|exact Hds]).
  assert (HLn: nocr (123%N :: (d :: ds) ++ [125%N])).
  { constructor; [discriminate|]. apply Forall_app; split; [apply digits_nocr; exact Hds|repeat constructor; discriminate]. }
  assert (Hiall: i = (123%N :: (d :: ds) ++ [125%N]) ++ CR :: LF :: r4).
  { rewrite Hi1, Hr1, Hr2, Hr3. cbn. rewrite <- app_assoc. reflexivity. }
  remember (123%N :: (d :: ds) ++ [125%N]) as L eqn:HL. clear HL.
  assert (Hsplit: split_crlf i = Some (L, r4)).
  { rewrite Hiall, split_crlf_app_nocr by exact HLn.
    cbn [split_crlf]. replace (N.eqb CR CR && N.eqb LF LF) with true by reflexivity. now rewrite app_nil_r. }
  inversion Hi as [i0 line after Hsp Hl | i0 line after k Hsp Hl Hlen Hrest]; subst i0.
  - assert (line = L) by congruence. subst line. congruence.
  - assert (line = L) by congruence. assert (after = r4) by congruence. subst line after.
    assert (k = dec (d :: ds)) by congruence. subst k.
    destruct (length r4 <? N.to_nat (dec (d :: ds))) eqn:Elt; [apply Nat.ltb_lt in Elt; lia|].
    split; [discriminate|]. intros r v H; inversion H; subst. exact Hrest.
Qed.

(* computable side condition on grammar nodes *)
Fixpoint nocrb (s: list byte) : bool := match s with [] => true | b :: t => negb (N.eqb b CR) && nocrb t end.
Lemma nocrb_ok s : nocrb s = true -> nocr s.
Proof.
  induction s as [|b t IH]; cbn; intros H.
  - constructor.
  - apply andb_prop in H. destruct H as [H1 H2]. constructor.
    + apply N.eqb_neq. destruct (N.eqb b CR); [discriminate H1|reflexivity].
    + apply IH; exact H2.
Qed.

Fixpoint inner (g: G) : bool :=
  match g with
  | Tag s => nocrb s
  | TakeWhile1 p => negb (p CR)
  | Lit | Ref _ => true
  | Seq gs | Alt gs => forallb inner gs
  | Opt g | Many0 g => inner g
  end.
Hypothesis env_inner : forall n, inner (env n) = true.

Lemma seq_good (self: G -> P) gs : Forall (fun g => good (self g)) gs ->
  forall i acc, safe i -> seq_run self gs i acc <> RInc /\ (forall r v, seq_run self gs i acc = ROk r v -> safe r).
Proof.
  induction 1 as [|g gs Hg Hgs IH]; intros i acc Hi; cbn.
  - split; [discriminate|]. intros r v H; inversion H; subst; exact Hi.
  - destruct (Hg i Hi) as [Hn Hok]. destruct (self g i) as [r1 v1| | |] eqn:E; try (split; [assumption || discriminate|discriminate]).
    apply IH. eapply Hok; reflexivity.
Qed.

Lemma alt_good (self: G -> P) gs : Forall (fun g => good (self g)) gs -> good (alt_run self gs).
Proof.
  induction 1 as [|g gs Hg Hgs IH]; intros i Hi; cbn.
  - split; discriminate.
  - destruct (Hg i Hi) as [Hn Hok]. destruct (self g i) as [r1 v1| | |] eqn:E; try (split; [assumption || discriminate|discriminate]).
    + split; [discriminate|]. intros r v H; inversion H; subst. eapply Hok; reflexivity.
    + apply IH; exact Hi.
Qed.

Lemma many_good p : good p -> forall n i acc, safe i ->
  many_loop p n i acc <> RInc /\ (forall r v, many_loop p n i acc = ROk r v -> safe r).
Proof.
  intros Hp n; induction n as [|n IHn]; intros i acc Hi; cbn; [split; discriminate|].
  destruct (Hp i Hi) as [Hn Hok]. destruct (p i) as [r1 v1| | |] eqn:E; try (split; [assumption || discriminate|discriminate]).
  - destruct (Nat.eqb _ _); [split; discriminate|]. apply IHn. eapply Hok; reflexivity.
  - split; [discriminate|]. intros r v H; inversion H; subst; exact Hi.
Qed.

Theorem run_good fuel : forall g, inner g = true -> good (run fuel g).
Proof.
  induction fuel as [|f IHf]; intros g Hg.
  { intros i Hi; split; [discriminate|discriminate]. }
  revert Hg. induction g using G_ind'; intros Hg; rewrite run_S; cbn [step]; cbn [inner] in Hg.
  - apply tag_good, nocrb_ok, Hg.
  - apply tw1_good. now destruct (p CR).
  - apply literal_good.
  - apply IHf, env_inner.
  - intros i Hi. apply seq_good; auto. rewrite forallb_forall in Hg. rewrite Forall_forall in *. auto.
  - apply alt_good. rewrite forallb_forall in Hg. rewrite Forall_forall in *. auto.
  - intros i Hi. destruct (IHg Hg i Hi) as [Hn Hok].
    destruct (run (S f) g i) as [r1 v1| | |] eqn:E; try (split; [assumption || discriminate|discriminate]).
    + split; [discriminate|]. intros r v H; inversion H; subst. eapply Hok; reflexivity.
    + split; [discriminate|]. intros r v H; inversion H; subst. exact Hi.
  - intros i Hi. apply many_good; auto.
Qed.

(* a top rule: inner body followed by the terminating CRLF tag *)
Theorem top_never_incomplete fuel body : inner body = true ->
  forall i, safe i -> run fuel (Seq [body; Tag [CR; LF]]) i <> RInc.
Proof.
  intros Hb i Hi. destruct fuel as [|f]; [discriminate|]. rewrite run_S; cbn [step seq_run].
  destruct (@run_good (S f) body Hb i Hi) as [Hn Hok].
  destruct (run (S f) body i) as [r1 v1| | |] eqn:E; try assumption; try discriminate.
  pose proof (Hok _ _ eq_refl) as S1. rewrite run_S; cbn [step].
  destruct (tag_cmp [CR; LF] r1) as [r2 v2| | |] eqn:E2; try discriminate.
  exfalso. destruct (tag_inc_prefix _ _ E2) as [t Ht]. apply (safe_has_split S1).
  destruct r1 as [|a [|b r1']]; [reflexivity|reflexivity|].
  destruct r1' as [|c r1'']; cbn in Ht.
  - inversion Ht; subst. vm_compute in E2. discriminate.
  - discriminate Ht.
Qed.
Print Assumptions top_never_incomplete.
End Run.
