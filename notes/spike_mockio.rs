// FEASIBILITY SPIKE for DESIGN.md sections 2.4 / 5 -- not part of the build.
// A scripted MockIo (AsyncRead + AsyncWrite), polled by hand with Waker::noop() (no executor crate
// is available offline), driving (1) the real tokio_util::codec::Framed<MockIo, ImapCodec> and
// (2) the real Client/ResponseStream through the trial hooks (notes/trial_hooks.diff).
// Observed: pinned codec withholds `* OK [Mail]` split as `* OK [M` + `ail]\r\n` (Pending forever);
// with trial fix F6 it is delivered at the first poll. Client: partial write (3 bytes), write
// Pending, read Pending, foreign-tag completion passed through, own completion ends the stream,
// `* 2 EXISTS` left in the buffer and delivered to the next command's stream.
use std::collections::VecDeque;
use std::io;
use std::pin::Pin;
use std::task::{Context, Poll, Waker};
use futures_core::Stream;
use tokio::io::{AsyncRead, AsyncWrite, ReadBuf};
use tokio_util::codec::Framed;
use tokio_imap::{ImapCodec, Client};
use imap_proto::builders::command::CommandBuilder;

#[derive(Debug, Clone)]
enum Ev { Chunk(Vec<u8>), NotReady, Eof }
#[derive(Debug, Clone)]
enum Wv { Accept(usize), NotReady }
struct MockIo { reads: VecDeque<Ev>, writes: VecDeque<Wv>, wire: Vec<u8>, log: Vec<String> }
impl AsyncRead for MockIo {
    fn poll_read(mut self: Pin<&mut Self>, _cx: &mut Context<'_>, buf: &mut ReadBuf<'_>) -> Poll<io::Result<()>> {
        match self.reads.pop_front() {
            None | Some(Ev::NotReady) => { self.log.push("read:pending".into()); Poll::Pending }
            Some(Ev::Eof) => { self.log.push("read:eof".into()); Poll::Ready(Ok(())) }
            Some(Ev::Chunk(c)) => {
                let n = c.len().min(buf.remaining());
                buf.put_slice(&c[..n]);
                if n < c.len() { self.reads.push_front(Ev::Chunk(c[n..].to_vec())); }
                self.log.push(format!("read:{}", n)); Poll::Ready(Ok(()))
            }
        }
    }
}
impl AsyncWrite for MockIo {
    fn poll_write(mut self: Pin<&mut Self>, _cx: &mut Context<'_>, buf: &[u8]) -> Poll<io::Result<usize>> {
        match self.writes.pop_front() {
            Some(Wv::NotReady) => { self.log.push("write:pending".into()); Poll::Pending }
            Some(Wv::Accept(k)) => { let n = k.min(buf.len()); self.wire.extend_from_slice(&buf[..n]); self.log.push(format!("write:{}", n)); Poll::Ready(Ok(n)) }
            None => { self.wire.extend_from_slice(buf); self.log.push(format!("write:{}", buf.len())); Poll::Ready(Ok(buf.len())) }
        }
    }
    fn poll_flush(mut self: Pin<&mut Self>, _cx: &mut Context<'_>) -> Poll<io::Result<()>> { self.log.push("flush".into()); Poll::Ready(Ok(())) }
    fn poll_shutdown(self: Pin<&mut Self>, _cx: &mut Context<'_>) -> Poll<io::Result<()>> { Poll::Ready(Ok(())) }
}
fn io(reads: Vec<Ev>, writes: Vec<Wv>) -> MockIo { MockIo { reads: reads.into(), writes: writes.into(), wire: vec![], log: vec![] } }

fn main() {
    let waker = Waker::noop();
    let mut cx = Context::from_waker(&waker);
    // 1. codec through the real Framed: the C04 withheld frame
    let mut fr = Framed::new(io(vec![Ev::Chunk(b"* OK [M".to_vec()), Ev::Chunk(b"ail]\r\n".to_vec()), Ev::NotReady], vec![]), ImapCodec::default());
    for k in 0..4 {
        match Pin::new(&mut fr).poll_next(&mut cx) {
            Poll::Pending => println!("framed poll {}: Pending", k),
            Poll::Ready(None) => println!("framed poll {}: None", k),
            Poll::Ready(Some(Ok(f))) => println!("framed poll {}: frame {:?}", k, f.parsed()),
            Poll::Ready(Some(Err(e))) => println!("framed poll {}: err {}", k, e),
        }
    }
    println!("  io log: {:?}", fr.get_ref().log);
    // 2. client over MockIo: one command, partial writes, a pending read, foreign-tag completion first
    let server = b"* 1 EXISTS\r\nA0002 OK other\r\nA0001 OK [READ-WRITE] done\r\n* 2 EXISTS\r\n".to_vec();
    let mut client = Client::from_transport(io(vec![Ev::NotReady, Ev::Chunk(server[..20].to_vec()), Ev::Chunk(server[20..].to_vec()), Ev::NotReady], vec![Wv::Accept(3), Wv::NotReady, Wv::Accept(1000)]));
    {
        let mut s = client.call_generic(CommandBuilder::select("INBOX"));
        for k in 0..9 {
            match Pin::new(&mut s).poll_next(&mut cx) {
                Poll::Pending => println!("client poll {}: Pending", k),
                Poll::Ready(None) => println!("client poll {}: None", k),
                Poll::Ready(Some(Ok(f))) => println!("client poll {}: item {:?} tag={:?}", k, f.parsed(), f.request_id()),
                Poll::Ready(Some(Err(e))) => println!("client poll {}: err {}", k, e),
            }
        }
    }
    let mut s2 = client.call_generic(CommandBuilder::check());
    for k in 0..3 {
        match Pin::new(&mut s2).poll_next(&mut cx) {
            Poll::Pending => println!("client2 poll {}: Pending", k),
            Poll::Ready(None) => println!("client2 poll {}: None", k),
            Poll::Ready(Some(Ok(f))) => println!("client2 poll {}: item {:?}", k, f.parsed()),
            Poll::Ready(Some(Err(e))) => println!("client2 poll {}: err {}", k, e),
        }
    }
}
