"""C11 — tags are valid, unique within a window, matched exactly."""
from . import common as C
from . import clientlib as L

PROP = "C11"
PROPFILE = "Properties/C11.v"


def tag_char(c):
    # independent transcription of RFC 3501: tag = 1*<any ASTRING-CHAR except "+">
    if not (1 <= c <= 127) or c < 32 or c == 127:
        return False
    return chr(c) not in '(){ %*"\\+'


def oracle(tags):
    """Implementation-side judgement of the property on an observed tag sequence."""
    for i, t in enumerate(tags):
        if not t or not all(tag_char(ord(ch)) for ch in t):
            return "tag #%d %r is not a valid IMAP tag" % (i + 1, t)
    last = {}
    for i, t in enumerate(tags):
        if t in last and i - last[t] < 10000:
            return "tags #%d and #%d are both %r (distance %d < 10000)" % (last[t] + 1, i + 1, t, i - last[t])
        last[t] = i
    return None


def match_oracle(sess, obs, ref):
    """the stream of command k must end exactly at the first completion whose tag is byte-for-byte A<k>"""
    frames, _ = L.parse_ref(ref.split("|")[0])
    cursor = 0
    for k, items in enumerate(obs.split(";")[:-1]):
        own = ("A%04d" % ((k + 1) % 10000)).encode().hex()
        last_tag = None
        for t in [x for x in items.split(",") if x]:
            if t.startswith("F:"):
                if last_tag == own:
                    return "command %d kept receiving after the completion carrying its own tag" % (k + 1)
                if cursor < len(frames):
                    last_tag = frames[cursor][1]
                cursor += 1
            elif t == "N":
                if last_tag != own:
                    return "command %d was treated as complete by a response whose tag is %s, not its own %s" % (
                        k + 1, bytes.fromhex(last_tag).decode("latin1") if last_tag not in (None, "-") else last_tag, bytes.fromhex(own).decode())
    return None


def run(tier, seed, t0):
    n = 30000 if tier == "quick" else 100000
    okr, problems = C.regen()
    proof = C.proof_stage(PROP, PROPFILE, extra_targets=["Extract.vo"]) if okr else dict(ok=False, failure=problems, obligations=0, discharged=0, names=[])
    okh, outh = C.build_harness()
    if not okh:
        raise RuntimeError("harness build failed:\n" + outh[-3000:])
    rc, impl = C.run_harness(["tags", str(n)])
    impl_tags = impl.split()
    bad = oracle(impl_tags)
    if bad:
        raise C.Violation(PROP, "the real client issued an invalid or repeated tag", bad + "\nreplay: harness tags %d" % n, True)
    if rc != 0 or len(impl_tags) != n:
        raise C.Violation(PROP, "harness tags run failed", impl[-2000:], False)
    nsess = 500 if tier == "quick" else 30000
    rows = L.run_stream("client", seed, nsess, prop=PROP)
    for sess, obs, ref in rows:
        bad = match_oracle(sess, obs, ref)
        if bad:
            raise C.Violation(PROP, "completion matching is not byte-for-byte", "%s\nsession: %s\nobserved: %s\nreference: %s\nreplay: harness client %d %d" % (bad, sess[:600], obs[:600], ref[:600], seed, nsess), True)
    if not proof["ok"]:
        # a proof obligation broke (e.g. the generator's source is no longer the modelled text): look further for a
        # failing history before reporting -- a long run of consecutive commands through the real client
        n_long = 200000
        rc, impl_long = C.run_harness(["tags", str(n_long)], timeout=1800)
        long_tags = impl_long.split()
        bad = oracle(long_tags)
        if bad:
            raise C.Violation(PROP, "the real client issued an invalid or repeated tag", bad + "\n(first proof failure: %s)\nreplay: harness tags %d" % (proof["failure"][:300], n_long), True)
        raise C.Violation(PROP, proof["failure"], "search: %d consecutive tags (and a longer run of %d) and %d sessions with look-alike completions satisfy the property's oracle" % (n, len(long_tags), nsess), False)
    okd, outd = C.build_driver()
    if not okd:
        raise RuntimeError("driver build failed:\n" + outd[-3000:])
    rc, model = C.run_driver(["tags"], "0 %d\n" % n)
    model_tags = model.split()
    diffs = C.diff_lines(model_tags, impl_tags)
    if diffs:
        raise C.Violation(PROP, "correspondence Tags.idgen_next vs the real IdGenerator fails (model stale; the implementation-side oracle found no violating tag)",
                          "\n".join("tag #%d: model %s impl %s" % (i + 1, a, b) for i, _, a, b in diffs), False)
    model = L.model_outputs("client", [r[0] for r in rows])
    for (sess, obs, _), m in zip(rows, model):
        if obs != m:
            raise C.Violation(PROP, "correspondence Client.v vs the real client fails (model stale; the implementation-side oracle found no wrong match)",
                              "session: %s\nimplementation: %s\nmodel:          %s" % (sess[:600], obs[:600], m[:600]), False)
    C.write_evidence(PROP, tier, seed, t0, obligations=proof["obligations"] + 2, discharged=proof["discharged"] + 2,
                     checker_cmd="make -C coq Properties/C11.vo (coqc 8.16.1) + harness tags %d vs ocaml/driver tags" % n,
                     evaluations=n + len(rows), distinct_nontrivial=len(set(impl_tags)) + len(set(r[0] for r in rows)),
                     rule="the tags of %d consecutive commands issued through the real client over a mock transport, read off the wire; distinct = distinct tag strings (the generator has 10000 states); plus %d scripted sessions in which, before the genuine completion, completions with look-alike tags are sent (lower-cased, last character dropped, a character appended, other counter values, first character kept only, A replaced by B, arbitrary valid tags): each stream must end exactly at the first completion whose tag is byte-for-byte its own" % (n, len(rows)),
                     samples=impl_tags[:3] + impl_tags[9997:10002],
                     extra=dict(theorems=proof["names"], correspondence="tag sequence model == implementation for %d commands (%d periods)" % (n, n // 10000), exhaustive=True),
                     assumptions=["u64 counter does not overflow within the window (2^64 commands on one connection)",
                                  "format!(\"A{:04}\") modelled by pad4; validated by the correspondence",
                                  "the matching half is proved on the client machine of Client.v (tokio-util Framed and poll_next modelled, validated by the session correspondence)"])
    print("C11 ok: %d theorems, %d tags agree" % (proof["obligations"], n))


def evidence_on_violation(tier, seed, t0, v):
    C.write_evidence(PROP, tier, seed, t0, obligations=1, discharged=0, checker_cmd="make -C coq Properties/C11.vo",
                     evaluations=1, distinct_nontrivial=0, rule="violation run", samples=[v.what], violations=1)


def replay(path):
    print(open(path).read())
    rc, impl = C.run_harness(["tags", "30000"])
    print("oracle:", oracle(impl.split()))
    return 0
