"""C07 — a delivered frame owns its bytes; its parsed view never dangles or changes."""
import os
import re
from . import common as C

PROP = "C07"
PROPFILE = "Properties/C07.v"
CFAIL = os.path.join(C.ROOT, "cfail")


def frames(seed, n, max_lit, max_count, release=False):
    rc, out = C.run_harness(["frames", str(seed), str(n), str(max_lit), str(max_count)], release=release, timeout=3000)
    if rc != 0:
        # the process died while handling frames (abort, SIGSEGV, ...): memory was misused; the last complete line shows how far it got
        done = [l for l in out.split("\n") if l.endswith("\tOK")]
        raise C.Violation(PROP, "the process handling frames was killed (exit status %s): memory misuse while frames were read" % rc,
                          "harness frames %d %d %d %d died after %d complete histories; tail of its output:\n%s" % (seed, n, max_lit, max_count, len(done), out[-600:]), True)
    rows = []
    for l in out.split("\n"):
        if l:
            p = l.split("\t")
            while len(p) < 3:
                p.append("")
            rows.append(p[:3])
    return rows


def asan_frames(seed, n, max_lit, max_count):
    """Thorough tier: the same histories with the harness built under AddressSanitizer (nightly, offline)."""
    tdir = os.path.join(C.ROOT, "harness", "target-asan")
    env = dict(C.ENV, CARGO_NET_OFFLINE="true", RUSTFLAGS="-Zsanitizer=address", CARGO_TARGET_DIR=tdir)
    rc, out, _ = C.run(["cargo", "+nightly", "build", "--offline", "--target", "x86_64-unknown-linux-gnu"], cwd=os.path.join(C.ROOT, "harness"), env=env, timeout=3000)
    if rc != 0:
        return None, "AddressSanitizer build not available: " + out[-300:]
    binp = os.path.join(tdir, "x86_64-unknown-linux-gnu", "debug", "harness")
    rc, out, _ = C.run([binp, "frames", str(seed), str(n), str(max_lit), str(max_count)], timeout=6000, env=dict(C.ENV, ASAN_OPTIONS="detect_leaks=0"))
    if rc != 0 or "AddressSanitizer" in out:
        raise C.Violation(PROP, "AddressSanitizer reports a memory error while frames are read",
                          "ASAN harness frames %d %d %d %d\n%s" % (seed, n, max_lit, max_count, out[-3000:]), True)
    bad = [l for l in out.split("\n") if l and not l.endswith("\tOK")]
    if bad:
        raise C.Violation(PROP, "a frame changed under AddressSanitizer", bad[0][-1500:], True)
    return len([l for l in out.split("\n") if l]), None


def model_frames(events):
    rc, mout = C.run_driver(["frames"], "\n".join(events) + "\n")
    model = mout.split("\n")
    if model and model[-1] == "":
        model.pop()
    if rc != 0 or len(model) != len(events):
        raise RuntimeError("driver frames failed (rc=%s, %d results for %d cases): %s" % (rc, len(model), len(events), mout[-2000:]))
    return model


def compile_fail():
    """The fixed set of client programs: the control must compile, every other one must be rejected by rustc."""
    env = dict(C.ENV, CARGO_NET_OFFLINE="true", CARGO_TARGET_DIR=os.path.join(CFAIL, "target"))
    rc, out, _ = C.run(["cargo", "check", "--offline", "--bins", "--keep-going", "--message-format=short"], cwd=CFAIL, env=env, timeout=1800)
    progs = sorted(f[:-3] for f in os.listdir(os.path.join(CFAIL, "src", "bin")) if f.endswith(".rs"))
    failed = set(re.findall(r'could not compile `cfail` \(bin "([^"]+)"\)', out))
    codes = {}
    for m in re.finditer(r'src/bin/([a-z_0-9]+)\.rs:\d+:\d+: error(\[E\d+\])?', out):
        codes.setdefault(m.group(1), []).append(m.group(2) or "error")
    if "could not compile `tokio-imap`" in out or "could not compile `imap-proto`" in out:
        raise RuntimeError("the crates under test do not compile:\n" + out[-3000:])
    accepted = [p for p in progs if p not in failed and not p.startswith("ok_")]
    broken_controls = [p for p in progs if p.startswith("ok_") and p in failed]
    return progs, accepted, broken_controls, codes, out


def search(tier, seed):
    samples = []
    total = 0
    plans = [(seed, 40, 70000, 60), (seed + 1, 3, 1048576, 200)] if tier == "quick" else [(seed, 600, 70000, 200), (seed + 1, 60, 1048576, 200), (seed + 2, 300, 9000, 200)]
    rows = []
    for s, n, lit, cnt in plans:
        rs = frames(s, n, lit, cnt)
        for ev, fin, verdict in rs:
            total += 1
            if verdict != "OK":
                return total, "history (harness frames %d %d %d %d), %d events:\n%s" % (s, n, lit, cnt, ev.count(";") + 1, verdict[:1500]), samples, rows
        rows += rs
    progs, accepted, broken_controls, codes, out = compile_fail()
    total += len(progs)
    if broken_controls:
        raise RuntimeError("control program(s) no longer compile: %s\n%s" % (broken_controls, out[-2000:]))
    if accepted:
        p = accepted[0]
        return total, "a client program that keeps a borrowed view past its frame is accepted by the compiler: cfail/src/bin/%s.rs\n%s" % (
            p, open(os.path.join(CFAIL, "src", "bin", p + ".rs")).read()), samples, rows
    samples.append("rejected programs: " + ", ".join("%s %s" % (p, "/".join(sorted(set(codes.get(p, []))))) for p in progs if not p.startswith("ok_")))
    return total, None, samples, rows


def run(tier, seed, t0):
    okr, problems = C.regen()
    proof = C.proof_stage(PROP, PROPFILE, extra_targets=["Extract.vo"]) if okr else dict(ok=False, failure=problems, obligations=0, discharged=0, names=[])
    okh, outh = C.build_harness()
    if not okh:
        raise RuntimeError("harness build failed:\n" + outh[-3000:])
    total, bad, samples, rows = search(tier, seed)
    if bad:
        raise C.Violation(PROP, "a delivered frame does not own what its parsed view shows / a borrowed view can outlive its frame", bad, True)
    if not proof["ok"]:
        raise C.Violation(PROP, proof["failure"], "search: %d histories and programs: every retained frame re-read identically; every escaping program rejected" % total, False)
    asan_note = "not run in the quick tier"
    if tier != "quick":
        na, why = asan_frames(seed + 7, 200, 1048576, 200)
        asan_note = ("%d histories clean under AddressSanitizer" % na) if na is not None else why
    C.ensure_built(PROP)
    small = [r for r in rows if len(r[0]) < 150000]
    model = model_frames([r[0] for r in small])
    evals = 0
    for (ev, fin, _), m in zip(small, model):
        evals += 1
        if fin != m:
            raise C.Violation(PROP, "correspondence storage model vs the real Framed/ImapCodec fails (model stale; the implementation-side oracle found no changed or dangling frame)",
                              "events %s...\nimplementation frames: %s\nmodel frames:          %s" % (ev[:600], fin[:600], m[:600]), False)
    kept = sum(1 for r in rows if r[1])
    C.write_evidence(PROP, tier, seed, t0, obligations=proof["obligations"] + 2, discharged=proof["discharged"] + 2,
                     checker_cmd="tools/rs2coq /repo coq/gen && make -C coq Properties/C07.vo (coqc 8.16.1) + harness frames vs ocaml/driver frames + cargo check of cfail/src/bin/*.rs",
                     evaluations=total + evals, distinct_nontrivial=kept,
                     rule="search oracle (implementation only): histories of 1..200 generated responses (literals 0, 1, 100, 700, 8191, 8192, 9000, 40 000, 70 000, 150 000, 300 000, 1 MiB; tagged completions; every response kind) through the real Framed<MockIo, ImapCodec> in packets of 1..3 bytes / 512 / 1500 / up to 70 000 bytes; each frame is snapshotted at delivery (canonical dump of parsed(), copy of raw_bytes()), every borrowed string of the view must lie inside raw_bytes() by address (library string constants excepted), frames are retained with probability 1, 1/2, 1/8 or 1/40 and dropped in random order, the allocator is churned after every frame, every 7 frames and after the connection is dropped all retained frames must dump and read as at delivery, then again on another thread where they are dropped in reverse order. 15 client programs that try to keep a view past its frame (parsed(), request_id(), raw_bytes(), deref, clone, fields, AsRef, Into, threads, collections) must each be rejected by rustc and the control program must compile. distinct = histories that ended with retained frames.",
                     samples=samples,
                     extra=dict(theorems=proof["names"], correspondence_cases=evals, histories=len(rows), address_sanitizer=asan_note),
                     assumptions=["bytes crate semantics as modelled in Frames.v (split_to shares; the BytesMut writes only at or after the end of its window; reclaiming the front only when unshared; otherwise a fresh allocation) -- modelled, not verified",
                                  "PARTIAL: 'safe code cannot obtain a reference that outlives the frame' is decided by rustc on the program set plus the reflection c07_api_discipline over the regenerated API surface; there is no Coq model of Rust's borrow checker",
                                  "the unsafe transmute itself is justified by c07_decode_is_the_modelled_sequence (parse in place, then split_to(rsp_len).freeze(), nothing in between) + c07_frame_is_the_parsed_region; AddressSanitizer is used in the thorough tier when the nightly toolchain supports it offline"])
    print("C07 ok: %d theorems; search %d histories/programs; correspondence %d histories" % (proof["obligations"], total, evals))


def evidence_on_violation(tier, seed, t0, v):
    C.write_evidence(PROP, tier, seed, t0, obligations=1, discharged=0, checker_cmd="make -C coq Properties/C07.vo",
                     evaluations=1, distinct_nontrivial=0, rule="violation run", samples=[v.what], violations=1)


def replay(path):
    print(open(path).read())
    return 0
