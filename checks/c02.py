"""C02 — streaming verdicts are final; prefixes of a response are 'incomplete'."""
from . import common as C

PROP = "C02"
PROPFILE = "Properties/C02.v"


def verdict(r):
    return r.split(" ", 1)[0]


def search(tier, seed):
    """Implementation-only oracle. Returns (n_cases, violation or None, samples, distinct)."""
    n_pref = 200 if tier == "quick" else 3000
    n_stab = 4000 if tier == "quick" else 100000
    total = 0
    seen = set()
    samples = []
    # corpus first
    for l in C.corpus_lines(PROP):
        h, exp = l.split()
        rows = C.parse_stream("corpus", seed, 0, stdin=h + "\n")
        total += 1
        if verdict(rows[0][1]) != exp:
            return total, "corpus case %s: verdict %s, expected %s" % (C.show_input(h), rows[0][1][:80], exp), samples, len(seen)
    # every proper prefix of an accepted response must be incomplete
    rows = C.parse_stream("prefix", seed, n_pref)
    for h, impl, _ in rows:
        total += 1
        seen.add(h)
        if verdict(impl) != "INC":
            return total, "a proper prefix of a valid response is not reported incomplete:\ninput %s\nverdict %s" % (C.show_input(h), impl[:200]), samples, len(seen)
    samples.append("prefix %s -> %s" % (C.show_input(rows[len(rows) // 2][0], 60), rows[len(rows) // 2][1]))
    # responses read off the translated grammar (every alternative of every rule, including rules the generators do not
    # know): proper prefixes are incomplete, verdicts are final
    sents = C.grammar_sentences()
    if sents:
        res = C.parse_stream("corpus", seed, 0, stdin="\n".join(sents) + "\n")
        cases = []
        for h, impl, _ in res:
            v = verdict(impl)
            if v == "OK":
                used = int(impl.split(" ")[1])
                for k in range(1, used):
                    cases.append((h[:2 * k], "INC", h))
            if v in ("OK", "ERR"):
                for x in ("0d0a", "2a2031204558495354530d0a", "78", "29"):
                    cases.append((h + x, impl, h))
        # the same responses with one byte missing: whatever the verdict on such a buffer is, appending cannot change it
        dels = []
        for h in sents:
            for k in range(0, len(h) - 4, 2):
                dels.append(h[:k] + h[k + 2:])
        dres = C.parse_stream("corpus", seed, 0, stdin="\n".join(dels) + "\n") if dels else []
        for h, impl, _ in dres:
            if verdict(impl) in ("OK", "ERR"):
                for x in ("2a2031204558495354530d0a", "5d0d0a"):
                    cases.append((h + x, impl, h))
        if cases:
            out = C.parse_stream("corpus", seed, 0, stdin="\n".join(c[0] for c in cases) + "\n")
            for (hc, want, h0), (_, got, _) in zip(cases, out):
                total += 1
                seen.add(hc)
                if want == "INC" and verdict(got) != "INC":
                    return total, "a proper prefix of an accepted response is not reported incomplete:\nresponse %s\nprefix   %s\nverdict  %s" % (C.show_input(h0), C.show_input(hc), got[:200]), samples, len(seen)
                if want != "INC" and got != want:
                    return total, "verdict changed when bytes were appended:\nB   = %s\nB+X = %s\nverdict(B)   = %s\nverdict(B+X) = %s" % (C.show_input(h0), C.show_input(hc), want[:300], got[:300]), samples, len(seen)
        samples.append("grammar sentences: %d responses read off the translated grammar, %d prefixes and extensions" % (len(sents), len(cases)))
    # the same for response lines far beyond 8 KiB (sampled cuts, dense around 8192)
    rows = C.parse_stream("longline", seed, 5 if tier == "quick" else 60)
    for h, impl, ex in rows:
        total += 1
        seen.add(h[:64] + str(len(h)))
        want = "INC" if ex == "P" else "OK"
        if verdict(impl) != want:
            return total, "a response line of %d bytes: %s is reported %s instead of %s:\ninput %s..." % (
                len(h) // 2, "a proper prefix" if ex == "P" else "the whole line", impl[:60], want, C.show_input(h, 120)), samples, len(seen)
    # (B, B++X): accept/reject verdicts are final
    rows = C.parse_stream("stability", seed, n_stab)
    nontriv = 0
    for k in range(0, len(rows) - 1, 2):
        (hb, rb, _), (hx, rx, ex) = rows[k], rows[k + 1]
        total += 1
        blen = int(ex.split()[1])
        vb = verdict(rb)
        if vb in ("OK", "ERR", "FAIL"):
            nontriv += 1
            seen.add(hb + "+" + hx[2 * blen:])
            if rb != rx:
                return total, "verdict changed when bytes were appended:\nB   = %s\nB+X = %s\nverdict(B)   = %s\nverdict(B+X) = %s" % (
                    C.show_input(hb), C.show_input(hx), rb[:300], rx[:300]), samples, len(seen)
        if vb == "PANIC" or verdict(rx) == "PANIC":
            return total, "parser panicked on %s" % C.show_input(hx), samples, len(seen)
    samples.append("B=%s X=%s -> %s / %s" % (C.show_input(rows[0][0], 50), C.show_input(rows[1][0][len(rows[0][0]):], 30), rows[0][1][:40], rows[1][1][:40]))
    return total, None, samples, len(seen)


def run(tier, seed, t0):
    okr, problems = C.regen()
    proof = C.proof_stage(PROP, PROPFILE, extra_targets=["Extract.vo"]) if okr else dict(ok=False, failure=problems, obligations=0, discharged=0, names=[])
    okh, outh = C.build_harness()
    if not okh:
        raise RuntimeError("harness build failed:\n" + outh[-3000:])
    total, bad, samples, distinct = search(tier, seed)
    if bad:
        raise C.Violation(PROP, "the parser violates verdict stability", bad + "\nreplay: harness parse stability|prefix %d" % seed, True)
    if problems and okr:
        raise C.Violation(PROP, "translator could not translate part of the parser: " + problems, "search: %d (B, X) pairs and prefixes satisfy the property's oracle on the implementation" % total, False)
    if not proof["ok"]:
        raise C.Violation(PROP, proof["failure"], "search: %d (B, X) pairs and prefixes satisfy the property's oracle on the implementation" % total, False)
    # correspondence: model == implementation, verdict, consumed length and value
    C.ensure_built(PROP)
    evals = 0
    for stream, n in (("valid", 1500), ("prefix", 20), ("stability", 1500), ("mutate", 1500)) if tier == "quick" else (("valid", 30000), ("prefix", 600), ("stability", 40000), ("mutate", 40000)):
        rows = C.parse_stream(stream, seed + 1, n)
        model = C.model_parse([r[0] for r in rows])
        evals += len(rows)
        for (h, impl, _), m in zip(rows, model):
            if impl != m:
                raise C.Violation(PROP, "correspondence parse model vs Response::from_bytes fails (model stale; the implementation-side oracle found no violating pair)",
                                  "stream %s\ninput %s\nimplementation: %s\nmodel:          %s" % (stream, C.show_input(h), impl[:400], m[:400]), False)
    fn_cases, fn_count = C.fn_correspondence(PROP, tier)   # every callable parser function on its own inputs, model vs code
    C.write_evidence(PROP, tier, seed, t0, obligations=proof["obligations"] + 1, discharged=proof["discharged"] + 1,
                     checker_cmd="tools/rs2coq /repo coq/gen && make -C coq Properties/C02.vo (coqc 8.16.1) + harness parse {valid,prefix,stability,mutate} vs ocaml/driver parse",
                     evaluations=total + evals, distinct_nontrivial=distinct,
                     rule="search oracle (implementation only): every proper prefix of generated responses of every kind must be INC; for pairs (B, X) with B a whole/prefix/mutated/spliced response and X empty-response/random bytes/garbage line/token, verdict(B) in {OK, ERR} implies result(B++X) == result(B). distinct_nontrivial = distinct prefixes plus distinct (B,X) pairs whose B verdict is accept or reject. Correspondence: model result == implementation result (verdict, consumed, value) on 4 streams.",
                     samples=samples,
                     extra=dict(theorems=proof["names"], correspondence_cases=evals, per_function_cases=fn_cases, per_function_fns=fn_count),
                     assumptions=["nom 7.1.3 streaming primitives and combinators are modelled (Nom.v, Interp.v step), validated by the correspondence",
                                  "the theorem is about `parse` = the interpreter run on the grammar regenerated from /repo by rs2coq with fuel 400 and loop bound |buffer|+1; C01 shows neither is ever the reason for a verdict"])
    print("C02 ok: %d theorems; search %d cases; correspondence %d cases" % (proof["obligations"], total, evals))


def evidence_on_violation(tier, seed, t0, v):
    C.write_evidence(PROP, tier, seed, t0, obligations=1, discharged=0, checker_cmd="make -C coq Properties/C02.vo",
                     evaluations=1, distinct_nontrivial=0, rule="violation run", samples=[v.what], violations=1)


def replay(path):
    print(open(path).read())
    return 0
