"""C14 — typed builders emit exactly the command requested, and only grammatical ones."""
from . import common as C

PROP = "C14"
PROPFILE = "Properties/C14.v"


def chains(stream, seed, depth, per_path, stdin=None):
    rc, out = C.run_harness(["chains", stream, str(seed), str(depth), str(per_path)], inp=stdin)
    if rc != 0:
        raise RuntimeError("harness chains failed: %s" % out[-2000:])
    rows = []
    for l in out.split("\n"):
        if l:
            p = l.split("\t")
            while len(p) < 4:
                p.append("")
            rows.append(p[:4])
    return rows


def model_chains(descs):
    rc, mout = C.run_driver(["chains"], "\n".join(descs) + "\n")
    model = mout.split("\n")
    if model and model[-1] == "":
        model.pop()
    if rc != 0 or len(model) != len(descs):
        raise RuntimeError("driver chains failed (rc=%s, %d results for %d cases): %s" % (rc, len(model), len(descs), mout[-2000:]))
    return model


def show(desc, hx):
    try:
        return "%s -> %r" % (desc, bytes.fromhex(hx)) if hx not in ("NONE", "BADCASE") else "%s -> %s" % (desc, hx)
    except ValueError:
        return "%s -> %s" % (desc, hx)


def search(tier, seed):
    depth, per = (7, 1) if tier == "quick" else (7, 12)
    total = 0
    admitted = 0
    samples = []
    corpus = C.corpus_lines(PROP)
    rows = []
    if corpus:
        rows += chains("corpus", seed, 0, 0, stdin="\n".join(corpus) + "\n")
    rows += chains("all", seed, depth, per)
    for desc, hx, nxt, verdict in rows:
        total += 1
        if hx != "NONE":
            admitted += 1
        if verdict != "OK":
            return total, "a chain of builder calls that the types admit yields a command that is not the grammatical rendering of what was asked:\n%s\nnext_state %s\n%s" % (show(desc, hx), nxt, verdict), samples, admitted, rows
    for k in (len(rows) // 3, len(rows) - 1):
        samples.append(show(rows[k][0], rows[k][1])[:300])
    return total, None, samples, admitted, rows


def run(tier, seed, t0):
    okr, problems = C.regen()
    proof = C.proof_stage(PROP, PROPFILE, extra_targets=["Extract.vo"]) if okr else dict(ok=False, failure=problems, obligations=0, discharged=0, names=[])
    okh, outh = C.build_harness()
    if not okh:
        raise RuntimeError("harness build failed (the wrapper coq/gen/gen_chains.rs is regenerated from builders/command.rs):\n" + outh[-3000:])
    total, bad, samples, admitted, rows = search(tier, seed)
    if bad:
        raise C.Violation(PROP, "a typed builder chain emits a command that is ungrammatical or not what was asked for", bad + "\nreplay: harness chains corpus  (one chain per line on stdin)", True)
    if not proof["ok"]:
        raise C.Violation(PROP, proof["failure"], "search: all %d chains admitted by the typestates of the current source (up to 7 calls) are grammatical and read back as asked" % admitted, False)
    C.ensure_built(PROP)
    model = model_chains([r[0] for r in rows])
    evals = 0
    for (desc, hx, nxt, _), m in zip(rows, model):
        evals += 1
        impl = "NONE" if hx == "NONE" else hx + "\t" + nxt
        if impl != m:
            raise C.Violation(PROP, "correspondence builder machine model vs CommandBuilder fails (model stale; the implementation-side recogniser found nothing ungrammatical)",
                              "chain %s\nimplementation: %s\nmodel:          %s" % (desc, impl[:600], m[:600]), False)
    C.write_evidence(PROP, tier, seed, t0, obligations=proof["obligations"] + 1, discharged=proof["discharged"] + 1,
                     checker_cmd="tools/rs2coq /repo coq/gen && make -C coq Properties/C14.vo (coqc 8.16.1) + harness chains all (wrapper regenerated from the source) vs ocaml/driver chains",
                     evaluations=total + evals, distinct_nontrivial=admitted,
                     rule="search oracle (implementation only): every path of at most 7 calls through the typestate graph that rs2coq reads off the current builders/command.rs (one Rust match arm per (typestate, method), so a chain is run iff the types admit it), from each of the 8 constructors, with message numbers from {1, 2, 10, 99, 100, 2^31, 2^32-2, 2^32-1, random}, mod-sequences from {1, 2, 2^31, 2^32-1, 2^32, 2^63, 10^19-1, 10^19, 2^64-2, 2^64-1, random}, every attribute and macro in rotation, 12 mailbox / user strings with quotes, backslashes and UTF-8. An independent hand-written reader of the RFC 3501 / 4466 / 4551 grammar must accept Command.args and read back exactly the verb, message set, items and modifiers passed, in order, and next_state must be the documented one. distinct = chains that produced a command.",
                     samples=samples,
                     extra=dict(theorems=proof["names"], correspondence_cases=evals, chains=total, admitted=admitted),
                     assumptions=["u32/u64::to_string modelled as Bytes.to_dec (canonical decimal; dec (to_dec n) = n proved)",
                                  "the typestate discipline itself (a method can only be called in the state whose impl block offers it, builder fields are private) is rustc's; rs2coq reports public fields, derives, generic impl blocks or non-public methods as problems",
                                  "text arguments: derivability from `quoted` is proved for 7-bit text without NUL/CR/LF; 8-bit text is passed through unchanged (C10) but is outside RFC 3501 CHAR",
                                  "X-GM-LABELS / X-GM-MSGID are Gmail extensions, accepted by the reference grammar as an extension list"])
    print("C14 ok: %d theorems; search %d chains (%d admitted); correspondence %d chains" % (proof["obligations"], total, admitted, evals))


def evidence_on_violation(tier, seed, t0, v):
    C.write_evidence(PROP, tier, seed, t0, obligations=1, discharged=0, checker_cmd="make -C coq Properties/C14.vo",
                     evaluations=1, distinct_nontrivial=0, rule="violation run", samples=[v.what], violations=1)


def replay(path):
    print(open(path).read())
    return 0
