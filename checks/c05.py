"""C05 — a command's response stream is delimited by its own tagged completion."""
from . import common as C
from . import clientlib as L

PROP = "C05"
PROPFILE = "Properties/C05.v"


def run(tier, seed, t0):
    okr, problems = C.regen()
    proof = C.proof_stage(PROP, PROPFILE, extra_targets=["Extract.vo"]) if okr else dict(ok=False, failure=problems, obligations=0, discharged=0, names=[])
    okh, outh = C.build_harness()
    if not okh:
        raise RuntimeError("harness build failed:\n" + outh[-3000:])
    n = 600 if tier == "quick" else 6000
    rows = L.run_stream("client", seed, n, prop=PROP)
    distinct = set()
    for sess, obs, ref in rows:
        bad = L.session_oracles(sess, obs, ref, {PROP})
        distinct.add(sess)
        if bad and bad[0] == PROP:
            raise C.Violation(PROP, "a response stream is not delimited by the command's own completion", "%s\nsession: %s\nobserved: %s\nreference: %s\nreplay: harness client %d %d" % (
                bad[1], sess[:700], obs[:700], ref[:700], seed, n), True)
    if problems and okr:
        raise C.Violation(PROP, "translator could not translate part of the parser: " + problems, "search: %d sessions satisfy the oracle" % len(rows), False)
    if not proof["ok"]:
        raise C.Violation(PROP, proof["failure"], "search: %d sessions satisfy the oracle on the real client" % len(rows), False)
    C.ensure_built(PROP)
    model = L.model_outputs("client", [r[0] for r in rows])
    for (sess, obs, _), m in zip(rows, model):
        if obs != m:
            raise C.Violation(PROP, "correspondence Client.v (rs_poll / poll_flush / fr_poll) vs the real client over MockIo fails (model stale; the implementation-side oracle found no violating session)",
                              "session: %s\nimplementation: %s\nmodel:          %s" % (sess[:600], obs[:600], m[:600]), False)
    C.write_evidence(PROP, tier, seed, t0, obligations=proof["obligations"] + 1, discharged=proof["discharged"] + 1,
                     checker_cmd="tools/rs2coq /repo coq/gen && make -C coq Properties/C05.vo (coqc 8.16.1) + harness client %d %d vs ocaml/driver client" % (seed, n),
                     evaluations=len(rows), distinct_nontrivial=len(distinct),
                     rule="sessions of 1..6 commands against a scripted server that per command sends 0..5 untagged responses of any kind and completions for look-alike tags (case-flipped, truncated, extended, other counter values, arbitrary tags), then the matching completion (OK/NO/BAD with or without code and text), optionally followed by unsolicited data, garbage, a truncated response or EOF / a read error; the server stream is cut into random chunks (down to 1..3 bytes) with not-ready results injected; writes accept 1 / k bytes, are not ready, return 0 or fail; flushes may be not ready or fail; streams are abandoned after 0..4 polls in one case out of six. Oracle (implementation only): each stream's items are the next responses of the one-piece parse of the server stream, in order, up to and including the first completion carrying its own tag; None only after that; nothing after it. distinct = distinct sessions (script as the transport actually delivered it, operations).",
                     samples=[rows[0][0][:160] + " -> " + rows[0][1][:160], rows[len(rows) // 2][0][:160] + " -> " + rows[len(rows) // 2][1][:160]],
                     extra=dict(theorems=proof["names"]),
                     assumptions=["tokio-util 0.7.19 FramedImpl (read loop, sink with the 8 KiB back-pressure rule, flush loop with WriteZero) and the Stream/Sink polling contract are modelled (Client.v), validated by the correspondence",
                                  "wakers are not modelled beyond 'Pending is only propagated from the transport'; the loop-back TLS leg of the property's quantifier is not exercised"])
    print("C05 ok: %d theorems; %d sessions satisfy the oracle and the model" % (proof["obligations"], len(rows)))


def evidence_on_violation(tier, seed, t0, v):
    C.write_evidence(PROP, tier, seed, t0, obligations=1, discharged=0, checker_cmd="make -C coq Properties/C05.vo",
                     evaluations=1, distinct_nontrivial=0, rule="violation run", samples=[v.what], violations=1)


def replay(path):
    print(open(path).read())
    return 0
