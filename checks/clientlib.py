"""Shared oracles for the framed / client session streams (C04, C05, C06, C11): implementation side only."""
import re
from . import common as C


def run_stream(mode, seed, n, prop=None):
    rc, out = C.run_harness([mode, str(seed), str(n)])
    if rc != 0:
        if prop is not None and (rc < 0 or rc >= 128 or "panic" in out[-4000:]):
            # the process running the real client / codec died (abort, signal, non-unwinding panic): the run itself is
            # the failing input -- the same command reproduces it
            lines = [l for l in out.split("\n") if l]
            raise C.Violation(prop, "the implementation brought down the process that was running it (abort, fatal signal or non-unwinding panic)",
                              "harness %s %d %d ended with status %s after %d scripts\nlast output: %s\nreplay: harness %s %d %d" % (
                                  mode, seed, n, rc, len(lines), out[-600:], mode, seed, n), True)
        raise RuntimeError("harness %s failed: %s" % (mode, out[-2000:]))
    rows = []
    for l in out.split("\n"):
        if l:
            p = l.split("\t")
            rows.append((p[0], p[1], p[2]))
    return rows


def model_outputs(mode, sessions):
    rc, mout = C.run_driver([mode], "\n".join(sessions) + "\n")
    model = mout.split("\n")
    if model and model[-1] == "":
        model.pop()
    if rc != 0 or len(model) != len(sessions):
        raise RuntimeError("driver %s failed (rc=%s, %d results for %d sessions): %s" % (mode, rc, len(model), len(sessions), mout[-1500:]))
    return model


def parse_ref(ref):
    """reference `F:<raw>:<tag>,...,END:<kind>` -> ([(raw, tag)], end)"""
    frames = []
    end = None
    for t in ref.split(","):
        if t.startswith("END:"):
            end = t[4:]
        elif t.startswith("F:"):
            _, raw, tag = t.split(":")
            frames.append((raw, tag))
    return frames, end


def reads_of(sess):
    r = sess.split("|")[0][1:]
    return [e for e in r.split(",") if e]


# ------------------------------------------------------------------ C04
def framed_oracle(sess, obs, ref):
    frames, end = parse_ref(ref)
    reads = reads_of(sess)
    total_bytes = sum(len(f[0]) // 2 for f in frames)
    toks = obs.split(",")
    k = 0
    state = "frames"
    for i, t in enumerate(toks):
        if t == "PANIC":
            return "the framed connection panicked while decoding (poll #%d)" % (i + 1)
        if t.startswith("F:"):
            raw = t.split(":")[1]
            if k >= len(frames) or frames[k][0] != raw:
                return "frame #%d delivered is %s, the one-piece parse has %s" % (k + 1, raw[:80], frames[k][0][:80] if k < len(frames) else "no further frame")
            k += 1
        elif t.startswith("P"):
            d, m = t[1:].split("/")
            if int(d) != int(m) and state == "frames":
                return "at a moment the transport had nothing more to give, %s frames were delivered but the bytes received hold %s complete responses (a frame is withheld)" % (d, m)
        elif t.startswith("E:"):
            kind = t[2:]
            if kind == "decode":
                if not (end == "malformed" and k == len(frames)):
                    return "decoder error although the one-piece parse is %s after %d frames (delivered %d)" % (end, len(frames), k)
                state = "error"
            elif kind == "remaining":
                if not (end == "truncated" and k == len(frames) and "e" in reads):
                    return "'bytes remaining' although the one-piece parse ends %s" % end
                state = "error"
            elif kind == "io":
                state = "error"
            else:
                return "unexpected error item " + t
        elif t == "N":
            if state == "frames":
                # clean end: only after EOF with everything delivered and nothing left
                if not ("e" in reads and k == len(frames) and end == "clean"):
                    return "the stream ended (None) although the one-piece parse ends %s with %d frames (%d delivered)" % (end, len(frames), k)
            state = "frames" if state == "error" else state
    return None


# ------------------------------------------------------------------ C05 / C06 / C11
def parse_session(sess):
    parts = sess.split("|")
    ops = [o for o in parts[3][1:].split(",") if o]
    return [(bytes.fromhex(o.split(":")[0]), int(o.split(":")[1])) for o in ops]


def session_oracles(sess, obs, ref, which):
    """which: set of 'C05', 'C06', 'C11'. Returns a description of the violation or None."""
    parts = ref.split("|")
    ref_frames_s, lines_s = parts[0], parts[1]
    tlog = parts[2].split(",") if len(parts) > 2 and parts[2] else []
    frames, end = parse_ref(ref_frames_s)
    lines = [bytes.fromhex(x) for x in lines_s.split(",") if x]
    per_cmd = obs.split(";")
    wire = bytes.fromhex(per_cmd[-1][5:]) if per_cmd[-1].startswith("wire=") else b""
    per_cmd = per_cmd[:-1]
    cursor = 0
    read_side = []
    for k, items in enumerate(per_cmd):
        own = ("A%04d" % ((k + 1) % 10000)).encode().hex()
        toks = [t for t in items.split(",") if t]
        done = False
        touched = False
        for t in toks:
            if t.startswith("F:"):
                touched = True
                raw = t.split(":")[1]
                if done:
                    return "C05", "command %d: an item was delivered after the command's own completion" % (k + 1)
                if cursor >= len(frames) or frames[cursor][0] != raw:
                    return "C05", "command %d: item %s is not the next response of the server stream (%s)" % (k + 1, raw[:60], frames[cursor][0][:60] if cursor < len(frames) else "none left")
                tag = frames[cursor][1]
                cursor += 1
                if tag == own:
                    done = True
                elif tag != "-" and bytes.fromhex(tag).lower() == bytes.fromhex(own).lower() and "C11" in which:
                    pass  # a look-alike differing in case: must be handed through, i.e. not end the stream (checked below)
            elif t == "N":
                if not done:
                    return "C05", "command %d: the stream ended silently (None) before its own tagged completion" % (k + 1)
            elif t.startswith("E:"):
                if t[2:] in ("ended", "decode", "remaining", "io"):
                    touched = True
                if done:
                    return "C05", "command %d: an error item after the completion" % (k + 1)
            elif t == "PX":
                return "C05", "command %d: the stream answered Pending although the transport did not report 'not ready' during that poll (nothing will wake the caller: it stays pending while the transport can progress)" % (k + 1)
            elif t == "P":
                pass
        if done and toks and toks[-1] != "N" and len(toks) < 40:
            pass
        read_side.append(touched)
        # exact matching: the stream must end exactly at the first own-tag completion
        # (if it ended earlier, `done` would have been set by a different tag -> caught as 'item after completion' or silent end)
    if "C06" in which:
        # the command line is completely flushed before the stream waits: no read is attempted while bytes the
        # transport accepted have not been followed by a successful flush of the transport
        dirty = False
        for e in tlog:
            if e[0] == "w" and e[1:].isdigit() and int(e[1:]) > 0:
                dirty = True
            elif e == "fO":
                dirty = False
            elif e[0] == "r" and dirty:
                return "C06", "the connection was read (%s) while written command bytes had not been flushed by the transport (transport log ...%s)" % (e, ",".join(tlog[max(0, tlog.index(e) - 8):tlog.index(e) + 1]))
        pos = 0
        for k, line in enumerate(lines):
            rest = wire[pos:]
            if rest.startswith(line):
                pos += len(line)
            elif rest and line.startswith(rest):
                pos = len(wire)
                if k < len(read_side) and read_side[k]:
                    return "C06", "command %d waited for a response although its line was only partly written" % (k + 1)
            else:
                if k < len(read_side) and read_side[k]:
                    return "C06", "command %d read from the connection although its line %r is not on the wire" % (k + 1, line[:50])
        if pos != len(wire):
            return "C06", "the bytes on the wire are not the command lines in issue order: unexpected %r at offset %d" % (wire[pos:pos + 60], pos)
    return None
