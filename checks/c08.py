"""C08 — literal content is opaque: message bytes cannot forge or break protocol framing."""
from . import common as C
from . import rtlib
from . import clientlib as L

PROP = "C08"
KNOWN_HITS = {}
# the witness of the listed finding: `* OK [BADCHARSET ({2}CRLF <ff fe>)] xCRLF`
WITNESS = "2a204f4b205b4241444348415253455420287b327d0d0afffe295d20780d0a"
PROPFILE = "Properties/C08.v"


def search(tier, seed):
    n = 2500 if tier == "quick" else 80000
    total = 0
    positions = 0
    samples = []
    for l in C.corpus_lines(PROP):
        h, exp = l.split(None, 1)
        rows = C.parse_stream("corpus", seed, 0, stdin=h + "\n")
        total += 1
        if rows[0][1] != exp:
            return total, "corpus case %s:\nparsed   %s\nexpected %s" % (C.show_input(h), rows[0][1][:400], exp[:400]), samples, positions
    rows = C.parse_stream("literal", seed, n)
    known, _ = C.known_findings()
    known_classes = [k.split()[1] for k in known if k.startswith("property=C08 ")]
    for h, impl, verdict in rows:
        total += 1
        positions += 1
        if verdict.startswith("KNOWN "):
            cls = verdict.split()[1]
            if cls in known_classes:
                KNOWN_HITS[cls] = KNOWN_HITS.get(cls, 0) + 1
                continue
            verdict = "BAD (class %s is not a listed finding)" % cls
        if verdict != "OK":
            return total, ("replacing the content of a literal changed something else than that field's value:\ninput %s\nresult %s\n%s") % (
                C.show_input(h, 400), impl[:400], verdict[:600]), samples, positions
    if rows:
        samples.append("literal: %s -> %s" % (C.show_input(rows[0][0], 100), rows[0][1][:80]))
    # responses read off the translated grammar: every quoted string that may also be sent as a literal is sent as one
    # whose content looks like protocol syntax; the response must then end exactly where it ends
    sents = C.grammar_sentences()
    if sents:
        q = "224122"  # "A"
        plain = "7b317d0d0a41"  # {1} CR LF A
        cand = []
        for h in sents:
            k = h.find(q)
            while k >= 0:
                if k % 2 == 0:
                    cand.append((h, k))
                k = h.find(q, k + 2)
        res = C.parse_stream("corpus", seed, 0, stdin="\n".join(h[:k] + plain + h[k + 6:] for h, k in cand) + "\n") if cand else []
        cases = []
        for (h, k), (hp, impl, _) in zip(cand, res):
            if impl.startswith("OK %d " % (len(hp) // 2)):
                for content in (b")\r\n", b"{5}\r\n", b"\"", b"\\", b"A0001 OK done\r\n", b"(\r\n* 1 EXISTS\r\n"):
                    cases.append((h[:k] + (b"{%d}\r\n" % len(content) + content).hex() + h[k + 6:], h, content))
        if cases:
            out = C.parse_stream("corpus", seed, 0, stdin="\n".join(c[0] for c in cases) + "\n")
            for (hc, h0, content), (_, got, _) in zip(cases, out):
                total += 1
                positions += 1
                v = got.split(" ", 1)[0]
                # the same position took the one-byte literal {1}CRLF A whole: it is a literal-capable string position, and
                # what the literal holds must not matter -- an error verdict means the content was read as syntax as well
                if v in ("INC", "PANIC", "ERR", "FAIL") or (v == "OK" and int(got.split(" ")[1]) != len(hc) // 2):
                    return total, "the content of a literal was read as protocol syntax: the response %s with the literal content %r in place of \"A\" is answered %s (it is complete, %d bytes):\ninput %s" % (
                        C.show_input(h0), content, got[:80], len(hc) // 2, C.show_input(hc, 400)), samples, positions
            samples.append("grammar sentences: %d literal positions x 6 hostile contents" % (len(cases) // 6))
    # through the codec: literal look-alikes under arbitrary chunking (the C04 streams put `{4096}CRLF`, `{99999}CRLF`,
    # `)CRLF A0001 OK` inside literal contents and cut right after them)
    frows = L.run_stream("framed", seed, 25 if tier == "quick" else 400)
    for sess, obs, ref in frows:
        total += 1
        bad = L.framed_oracle(sess, obs, ref)
        if bad:
            return total, "through the codec: " + bad, samples, positions
    return total, None, samples, positions


def run(tier, seed, t0):
    # listed finding: reproduce it on the implementation; it is reported as KNOWN-FINDING, never as a violation
    known, _ = C.known_findings()
    for k in known:
        if k.startswith("property=C08 resp-code-literal-fallback"):
            C.build_harness()
            r = C.parse_stream("corpus", seed, 0, stdin=WITNESS + "\n")[0][1]
            if r.startswith("OK 23 ") and "code=None" in r:
                print("KNOWN-FINDING: property=C08 " + k[len("property=C08 "):])
    rtlib.generic_run(PROP, PROPFILE, tier, seed, t0, search,
        rule="search oracle (implementation only): every generated response is printed with all strings as literals; for up to 4 literal positions per response the content is first replaced by a unique marker (positions whose parse does not show the marker exactly once, or that constrain their content, are skipped), then by adversarial contents (empty, `)CRLF A0001 OK doneCRLF`, `{5}CRLF`, `{99999}CRLF`, quotes, backslashes, unbalanced parentheses, CR, LF, `* 1 EXISTSCRLF`, NIL, brackets, `+ goCRLF`, all bytes 1..127, 66 KB of `)CRLF* BYECRLF`, random bytes 1..255) with the header rewritten; the result must be the marker parse with exactly that field replaced, the consumed length must be the new length, and a further response appended must parse exactly as it does alone. Text fields (decided by the implementation's answer to a binary marker) are not asked to hold non-UTF-8 bytes. Then the C04 framed streams (literal look-alikes at read boundaries) through the real codec. distinct = literal positions exercised.",
        what="literal content leaks into the rest of the parse",
        corr_streams=[("literal", 600, 20000)],
        assumptions=["codec path: C04's theorems (frames are cut at the parser-reported length for every chunking) compose with the parser-level statements here",
                     "literal positions inside text-typed fields: contents that are not UTF-8 cannot be that field's value; only UTF-8 contents are required to be taken verbatim there"])


evidence_on_violation = rtlib.on_violation(PROP, PROPFILE)


def replay(path):
    print(open(path).read())
    return 0
