"""C01 — the response parser is total: no panic, abort, stack exhaustion or loop on any input."""
import subprocess
from . import common as C

PROP = "C01"
PROPFILE = "Properties/C01.v"


def verdict(r):
    return r.split(" ", 1)[0]


def crash_sweep(release):
    rc, nest = C.run_harness(["crash-gen", "20000"], release=release)
    rc, out = C.run_harness(["crash"], inp=nest, release=release, timeout=1200)
    rows = [l.split("\t") for l in out.split("\n") if l]
    return rows


def grammar_probes():
    """Inputs read off the translated grammar (coq/Synth.v, extracted): for every parser function that can call itself, a
    prefix that reaches it followed by n repetitions of the bytes of one cycle."""
    okd, outd = C.build_driver()
    if not okd:
        return None, outd[-1500:]
    rc, out = C.run_driver(["probes", "40", "1500", "20000"], "")
    if rc != 0:
        return None, out[-1500:]
    return sorted(set(l for l in out.split("\n") if l)), None


def search(tier, seed):
    n = 2500 if tier == "quick" else 120000
    total = 0
    seen = set()
    samples = []
    for l in C.corpus_lines(PROP):
        h, exp = l.split()
        rows = C.parse_stream("corpus", seed, 0, stdin=h + "\n")
        total += 1
        if verdict(rows[0][1]) in ("PANIC",):
            return total, "corpus case %s panics" % C.show_input(h), samples, len(seen)
    for stream in ("valid", "mutate", "garbage", "follow", "stability", "numeric"):
        rows = C.parse_stream(stream, seed, n)
        for h, impl, _ in rows:
            total += 1
            if verdict(impl) not in ("OK", "INC", "ERR"):
                return total, "the parser did not return one of the three verdicts:\ninput %s\nresult %s" % (C.show_input(h), impl[:100]), samples, len(seen)
            if verdict(impl) != "INC":
                seen.add(h)
        samples.append("%s: %s -> %s" % (stream, C.show_input(rows[len(rows) // 3][0], 60), verdict(rows[len(rows) // 3][1])))
    # responses read off the translated grammar, their prefixes, and each with one byte changed
    sents = C.grammar_sentences()
    if sents:
        cases = []
        for h in sents:
            cases.append(h)
            for k in range(2, len(h), 2):
                cases.append(h[:k])
                cases.append(h[:k] + ("00" if h[k:k + 2] != "00" else "ff") + h[k + 2:])
                cases.append(h[:k] + "28" + h[k:])
        rows = C.parse_stream("corpus", seed, 0, stdin="\n".join(cases) + "\n")
        for h, impl, _ in rows:
            total += 1
            if verdict(impl) not in ("OK", "INC", "ERR"):
                return total, "the parser did not return one of the three verdicts:\ninput %s\nresult %s" % (C.show_input(h), impl[:100]), samples, len(seen)
            if verdict(impl) != "INC":
                seen.add(h)
        samples.append("grammar sentences: %d responses read off the translated grammar; with prefixes and one-byte changes %d inputs" % (len(sents), len(cases)))
    # the same kinds of bytes through the framed client codec, under many chunkings: the codec must not panic either
    from . import clientlib as L
    rows = L.run_stream("framed", seed, 12 if tier == "quick" else 150, prop=PROP)
    for sess, obs, ref in rows:
        total += 1
        if "PANIC" in obs.split(","):
            return total, "the framed client codec panicked while decoding:\nread script %s\nobserved %s" % (sess[:700], obs[-300:]), samples, len(seen)
    samples.append("framed: %d chunked scripts through Framed<MockIo, ImapCodec>, none panicked" % len(rows))
    # nesting 1..20000 at every recursive position, on a 2 MiB thread in a child process, debug and release
    for release in ("stack", True):
        rows = crash_sweep(release)
        for h, v in rows:
            total += 1
            seen.add(h)
            if v not in ("OK", "INC", "ERR"):
                return total, "parsing on a 2 MiB thread (%s build) ended with %s:\ninput (%d bytes) %s" % (
                    "release" if release is True else "debug, opt-level 0", v, len(h) // 2, C.show_input(h, 160)), samples, len(seen)
        samples.append("nesting sweep (%s): %d inputs, e.g. %s -> %s" % ("release" if release is True else "debug, opt-level 0", len(rows), C.show_input(rows[7][0], 60), rows[7][1]))
    # the same on inputs read off the grammar as it is translated now (covers recursion through rules the harness's
    # generators do not know)
    probes, err = grammar_probes()
    if probes:
        for release in ("stack", True):
            rc, out = C.run_harness(["crash"], inp="\n".join(probes) + "\n", release=release, timeout=1200)
            rows = [l.split("\t") for l in out.split("\n") if l]
            for h, v in rows:
                total += 1
                seen.add(h)
                if v not in ("OK", "INC", "ERR"):
                    return total, "parsing on a 2 MiB thread (%s build) ended with %s:\ninput (%d bytes, read off the grammar: a prefix reaching a self-calling rule, then its cycle repeated) %s" % (
                        "release" if release is True else "debug, opt-level 0", v, len(h) // 2, C.show_input(h, 160)), samples, len(seen)
        samples.append("grammar probes: %d inputs (prefix reaching a self-calling rule ++ cycle^n, n = 40, 1500, 20000), e.g. %s" % (len(probes), C.show_input(probes[0], 60)))
    else:
        samples.append("grammar probes: not available (%s)" % (err or "no self-calling rule reachable")[:200])
    return total, None, samples, len(seen)


def run(tier, seed, t0):
    okr, problems = C.regen()
    proof = C.proof_stage(PROP, PROPFILE, extra_targets=["Extract.vo"]) if okr else dict(ok=False, failure=problems, obligations=0, discharged=0, names=[])
    for rel in (False, "stack", True):
        okh, outh = C.build_harness(rel)
        if not okh:
            raise RuntimeError("harness build failed:\n" + outh[-3000:])
    total, bad, samples, distinct = search(tier, seed)
    if bad:
        raise C.Violation(PROP, "the parser panics, aborts, exhausts the stack or does not come back with a verdict", bad + "\nreplay: harness parse <stream> %d | harness crash-gen 20000 | harness crash | ocaml/driver probes 40 1500 20000 | harness crash" % seed, True)
    if problems and okr:
        raise C.Violation(PROP, "translator could not translate part of the parser: " + problems, "search: %d inputs all got a verdict (incl. the nesting sweep on a 2 MiB thread, debug and release)" % total, False)
    if not proof["ok"]:
        raise C.Violation(PROP, proof["failure"], "search: %d inputs all got a verdict (incl. the nesting sweep on a 2 MiB thread, debug and release)" % total, False)
    C.ensure_built(PROP)
    evals = 0
    rc, nest = C.run_harness(["crash-gen", "400"])
    streams = [("mutate", 2000), ("garbage", 1000), ("stability", 1500)] if tier == "quick" else [("mutate", 60000), ("garbage", 30000), ("stability", 40000)]
    for stream, n in streams + [("corpus", 0)]:
        rows = C.parse_stream(stream, seed + 4, n, stdin=nest if stream == "corpus" else None)
        model = C.model_parse([r[0] for r in rows])
        evals += len(rows)
        for (h, impl, _), m in zip(rows, model):
            if impl != m:
                raise C.Violation(PROP, "correspondence parse model vs Response::from_bytes fails (model stale; the implementation-side oracle found no crash)",
                                  "stream %s\ninput %s\nimplementation: %s\nmodel:          %s" % (stream, C.show_input(h), impl[:400], m[:400]), False)
    fn_cases, fn_count = C.fn_correspondence(PROP, tier)   # every callable parser function on its own inputs, model vs code
    C.write_evidence(PROP, tier, seed, t0, obligations=proof["obligations"] + 1, discharged=proof["discharged"] + 1,
                     checker_cmd="tools/rs2coq /repo coq/gen && make -C coq Properties/C01.vo (coqc 8.16.1) + harness parse <6 streams> + harness crash (2 MiB thread, child process, debug+release) vs ocaml/driver parse",
                     evaluations=total + evals, distinct_nontrivial=distinct,
                     rule="search oracle (implementation only): every input of the streams valid / mutate (token-dictionary and byte mutations, splices, truncations, boundary numerals) / garbage / follow / stability / numeric must yield OK, INC or ERR (panics caught by catch_unwind); generated streams (with stray line ends, literal-final responses, malformed lines, truncations) through the real Framed<MockIo, ImapCodec> under whole / single-cut / pair / many-cut chunkings must not panic; the nesting sweep (depths 1..20000 at: nested multiparts, bare '(' runs, message/rfc822 chains, alternating multipart/message, body-extension lists, extension inside multiparts, and non-recursive list positions; BODYSTRUCTURE and BODY; plus the probes read off the translated grammar by coq/Synth.v: for every parser function that can call itself, a prefix reaching it followed by 40 / 1500 / 20000 repetitions of the bytes of one cycle) is parsed on a 2 MiB thread in a child process in debug and release builds and the child must survive. distinct_nontrivial = distinct inputs with an accept/reject verdict.",
                     samples=samples,
                     extra=dict(theorems=proof["names"], correspondence_cases=evals, per_function_cases=fn_cases, per_function_fns=fn_count),
                     assumptions=["partial: the theorem bounds the NUMBER of nested parser calls for all inputs (rank of parse_response, about 210); that this many Rust frames fit a 2 MiB stack is measured by the nesting sweep, not proved",
                                  "nom primitives/combinators and the natives are modelled and validated by the correspondence; std (from_utf8, from_str, eq_ignore_ascii_case) trusted as specified"])
    print("C01 ok: %d theorems; search %d inputs; correspondence %d cases" % (proof["obligations"], total, evals))


def evidence_on_violation(tier, seed, t0, v):
    C.write_evidence(PROP, tier, seed, t0, obligations=1, discharged=0, checker_cmd="make -C coq Properties/C01.vo",
                     evaluations=1, distinct_nontrivial=0, rule="violation run", samples=[v.what], violations=1)


def replay(path):
    print(open(path).read())
    return 0
