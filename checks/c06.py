"""C06 — each command goes on the wire exactly once, whole, and before any waiting."""
from . import common as C
from . import clientlib as L

PROP = "C06"
PROPFILE = "Properties/C06.v"


def run(tier, seed, t0):
    okr, problems = C.regen()
    proof = C.proof_stage(PROP, PROPFILE, extra_targets=["Extract.vo"]) if okr else dict(ok=False, failure=problems, obligations=0, discharged=0, names=[])
    okh, outh = C.build_harness()
    if not okh:
        raise RuntimeError("harness build failed:\n" + outh[-3000:])
    n = 600 if tier == "quick" else 6000
    rows = L.run_stream("client", seed, n, prop=PROP)
    distinct = set()
    for sess, obs, ref in rows:
        bad = L.session_oracles(sess, obs, ref, {PROP})
        distinct.add(sess)
        if bad and bad[0] == PROP:
            raise C.Violation(PROP, "the bytes on the wire are not the command lines, whole, once, in order, flushed before waiting", "%s\nsession: %s\nobserved: %s\nreference: %s\nreplay: harness client %d %d" % (
                bad[1], sess[:700], obs[:700], ref[:700], seed, n), True)
    if problems and okr:
        raise C.Violation(PROP, "translator could not translate part of the parser: " + problems, "search: %d sessions satisfy the oracle" % len(rows), False)
    if not proof["ok"]:
        raise C.Violation(PROP, proof["failure"], "search: %d sessions satisfy the oracle on the real client" % len(rows), False)
    C.ensure_built(PROP)
    model = L.model_outputs("client", [r[0] for r in rows])
    for (sess, obs, _), m in zip(rows, model):
        if obs != m:
            raise C.Violation(PROP, "correspondence Client.v (rs_poll / poll_flush / fr_poll) vs the real client over MockIo fails (model stale; the implementation-side oracle found no violating session)",
                              "session: %s\nimplementation: %s\nmodel:          %s" % (sess[:600], obs[:600], m[:600]), False)
    C.write_evidence(PROP, tier, seed, t0, obligations=proof["obligations"] + 1, discharged=proof["discharged"] + 1,
                     checker_cmd="tools/rs2coq /repo coq/gen && make -C coq Properties/C06.vo (coqc 8.16.1) + harness client %d %d vs ocaml/driver client" % (seed, n),
                     evaluations=len(rows), distinct_nontrivial=len(distinct),
                     rule="the same sessions, with argument sizes 0, 1, 100, 8180, 8190, 8192, 8200, 20000 around the 8 KiB back-pressure boundary in one session out of three. Oracle (implementation only): the bytes accepted by the transport are the lines `tag SP args CRLF` of a subsequence of the commands, in issue order, each at most once, only the last possibly partial; a command whose stream touched the read side has its whole line on the wire. distinct = distinct sessions (script as the transport actually delivered it, operations).",
                     samples=[rows[0][0][:160] + " -> " + rows[0][1][:160], rows[len(rows) // 2][0][:160] + " -> " + rows[len(rows) // 2][1][:160]],
                     extra=dict(theorems=proof["names"]),
                     assumptions=["tokio-util 0.7.19 FramedImpl (read loop, sink with the 8 KiB back-pressure rule, flush loop with WriteZero) and the Stream/Sink polling contract are modelled (Client.v), validated by the correspondence",
                                  "wakers are not modelled beyond 'Pending is only propagated from the transport'; the loop-back TLS leg of the property's quantifier is not exercised"])
    print("C06 ok: %d theorems; %d sessions satisfy the oracle and the model" % (proof["obligations"], len(rows)))


def evidence_on_violation(tier, seed, t0, v):
    C.write_evidence(PROP, tier, seed, t0, obligations=1, discharged=0, checker_cmd="make -C coq Properties/C06.vo",
                     evaluations=1, distinct_nontrivial=0, rule="violation run", samples=[v.what], violations=1)


def replay(path):
    print(open(path).read())
    return 0
