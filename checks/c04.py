"""C04 — framing is independent of how the byte stream is chunked."""
from . import common as C
from . import clientlib as L

PROP = "C04"
PROPFILE = "Properties/C04.v"


def run(tier, seed, t0):
    okr, problems = C.regen()
    proof = C.proof_stage(PROP, PROPFILE, extra_targets=["Extract.vo"]) if okr else dict(ok=False, failure=problems, obligations=0, discharged=0, names=[])
    okh, outh = C.build_harness()
    if not okh:
        raise RuntimeError("harness build failed:\n" + outh[-3000:])
    n = 25 if tier == "quick" else 250
    rows = L.run_stream("framed", seed, n, prop=PROP)
    distinct = set()
    for sess, obs, ref in rows:
        bad = L.framed_oracle(sess, obs, ref)
        distinct.add(sess)
        if bad:
            raise C.Violation(PROP, "the framed connection delivers something other than the one-piece parse", "%s\nscript: %s\nobserved: %s\nreference: %s\nreplay: harness framed %d %d" % (
                bad, sess[:600], obs[:600], ref[:600], seed, n), True)
    if problems and okr:
        raise C.Violation(PROP, "translator could not translate part of the parser: " + problems, "search: %d chunked scripts satisfy the oracle" % len(rows), False)
    if not proof["ok"]:
        raise C.Violation(PROP, proof["failure"], "search: %d chunked scripts satisfy the oracle on the real Framed<_, ImapCodec>" % len(rows), False)
    C.ensure_built(PROP)
    model = L.model_outputs("framed", [r[0] for r in rows])
    import re
    for (sess, obs, _), m in zip(rows, model):
        if re.sub(r"P\d+/\d+", "P", obs) != m:
            raise C.Violation(PROP, "correspondence Client.fr_poll vs the real Framed<MockIo, ImapCodec> fails (model stale; the implementation-side oracle found no mis-framed script)",
                              "script: %s\nimplementation: %s\nmodel:          %s" % (sess[:500], obs[:500], m[:500]), False)
    C.write_evidence(PROP, tier, seed, t0, obligations=proof["obligations"] + 1, discharged=proof["discharged"] + 1,
                     checker_cmd="tools/rs2coq /repo coq/gen && make -C coq Properties/C04.vo (coqc 8.16.1) + harness framed %d %d vs ocaml/driver framed" % (seed, n),
                     evaluations=len(rows), distinct_nontrivial=len(distinct),
                     rule="streams of 1..12 generated responses (incl. multi-kilobyte and empty literals whose content imitates protocol), optionally truncated or followed by a malformed line; chunkings: whole, every single cut (short streams) or 12 sampled cuts, all pairs of cuts (streams up to 60 bytes) or 12 sampled pairs, random many-cut chunkings down to single bytes; not-ready results injected before reads; with and without EOF. Oracle on the real Framed: delivered frames = the one-piece parse in order; at every Pending the number delivered equals the number of complete responses in the bytes received; end-of-stream verdict (clean / bytes remaining / decoder error) as the one-piece parse says. distinct = distinct scripts as the transport actually delivered them.",
                     samples=[rows[0][0][:200] + " -> " + rows[0][1][:120], rows[len(rows) // 2][0][:200] + " -> " + rows[len(rows) // 2][1][:120]],
                     extra=dict(theorems=proof["names"]),
                     assumptions=["tokio-util 0.7.19 FramedImpl::poll_next and bytes::BytesMut::split_to are modelled (Client.v), validated by the correspondence on the actual read sizes the transport delivered",
                                  "the theorems use C02 (stability) and C01 (no panic/fuel) on the regenerated grammar"])
    print("C04 ok: %d theorems; %d chunked scripts satisfy the oracle and the model" % (proof["obligations"], len(rows)))


def evidence_on_violation(tier, seed, t0, v):
    C.write_evidence(PROP, tier, seed, t0, obligations=1, discharged=0, checker_cmd="make -C coq Properties/C04.vo",
                     evaluations=1, distinct_nontrivial=0, rule="violation run", samples=[v.what], violations=1)


def replay(path):
    print(open(path).read())
    return 0
