"""C10 — command arguments are quoted injectively; no argument can inject protocol."""
from . import common as C

PROP = "C10"
PROPFILE = "Properties/C10.v"
VERB = {"login": b"LOGIN", "list": b"LIST", "select": b"SELECT", "examine": b"EXAMINE"}
NARGS = {"login": 2, "list": 2, "select": 1, "examine": 1}


def lex_quoted(b, pos):
    """independent reading of a quoted string: returns (unescaped, next pos) or None"""
    if pos >= len(b) or b[pos] != 0x22:
        return None
    pos += 1
    out = bytearray()
    while True:
        if pos >= len(b):
            return None
        c = b[pos]
        if c == 0x22:
            return bytes(out), pos + 1
        if c in (13, 10):
            return None
        if c == 0x5C:
            if pos + 1 >= len(b) or b[pos + 1] not in (0x22, 0x5C):
                return None
            out.append(b[pos + 1])
            pos += 2
        else:
            out.append(c)
            pos += 1


def oracle(case, impl):
    which, a, b = case.split(" ")
    a, b = bytes.fromhex(a), bytes.fromhex(b)
    texts = [a, b][:NARGS[which]]
    has_crlf = any(13 in t or 10 in t for t in texts)
    if impl == "REFUSED":
        return None if has_crlf else "refused although no argument contains CR or LF"
    parts = impl.split(" ")
    if parts[0] != "OK":
        return "unexpected result " + impl
    args, wire = bytes.fromhex(parts[1]), bytes.fromhex(parts[2])
    if has_crlf:
        return "text containing CR/LF was emitted instead of refused"
    if 13 in args or 10 in args:
        return "the command contains CR or LF"
    v = VERB[which]
    if not args.startswith(v):
        return "wrong verb"
    pos = len(v)
    for t in texts:
        if pos >= len(args) or args[pos] != 0x20:
            return "missing SP before an argument"
        r = lex_quoted(args, pos + 1)
        if r is None:
            return "an argument does not lex as a quoted string"
        if r[0] != t:
            return "argument reads back as %r, given %r" % (r[0], t)
        pos = r[1]
    if pos != len(args):
        return "trailing bytes after the last argument: %r" % args[pos:]
    if wire != b"A0001 " + args + b"\r\n":
        return "bytes written by the client are %r" % wire
    return None


def run(tier, seed, t0):
    proof = C.proof_stage(PROP, PROPFILE, extra_targets=["Extract.vo"])
    okh, outh = C.build_harness()
    if not okh:
        raise RuntimeError("harness build failed:\n" + outh[-3000:])
    hargs = ["builder", str(seed), "2" if tier == "quick" else "3", "20000" if tier == "quick" else "300000"]
    rc, out = C.run_harness(hargs)
    lines = [l for l in out.split("\n") if l]
    for l in lines:
        case, _, impl = l.partition("\t")
        bad = oracle(case, impl)
        if bad:
            raise C.Violation(PROP, "a command builder violates the property on a generated argument", "case: %s\nimplementation: %s\n%s\nreplay: harness %s" % (case, impl, bad, " ".join(hargs)), True)
    if not proof["ok"]:
        raise C.Violation(PROP, proof["failure"], "search: %d generated builder calls satisfy the property's oracle on the implementation" % len(lines), False)
    C.ensure_built(PROP)
    cases, impl, model, diffs = C.differential(hargs, "builder")
    if diffs:
        raise C.Violation(PROP, "correspondence Builders.v vs the real builders fails (model stale; the implementation-side oracle found no violating case)",
                          "\n".join("case %s: impl %s model %s" % (c, i, m) for _, c, i, m in diffs), False)
    nontriv = C.distinct_count([c for c, i in zip(cases, impl) if i == "REFUSED" or "5c" in i])
    C.write_evidence(PROP, tier, seed, t0, obligations=proof["obligations"] + 1, discharged=proof["discharged"] + 1,
                     checker_cmd="make -C coq Properties/C10.vo (coqc 8.16.1) + harness %s vs ocaml/driver builder" % " ".join(hargs),
                     evaluations=len(cases), distinct_nontrivial=nontriv,
                     rule="every ASCII string of length <= %s in each of the 6 text argument slots (login x2, list x2, select, examine; at length 3 full ASCII in the select slot and a 24-character alphabet of specials elsewhere) plus random Unicode strings up to 1 KiB biased to quote, backslash, CR, LF, SP, brace, parenthesis; compared: Command.args and the bytes the real client writes; non-trivial = refused or containing an escape" % hargs[2],
                     samples=[cases[i] + " -> " + impl[i] for i in (5, 40, len(cases) // 2, len(cases) - 1)],
                     extra=dict(theorems=proof["names"], exhaustive_part="all ASCII strings of length <= %s per slot" % hargs[2]),
                     assumptions=["arguments are &str, i.e. valid UTF-8 (the theorems cover all byte strings; QPanic is shown unreachable for valid UTF-8)",
                                  "the lexer used in the theorems accepts any byte except CR, LF, DQUOTE and backslash unescaped (8-bit and NUL included), which is the property's reading of 'quoted string'"])
    print("C10 ok: %d theorems, %d cases agree (%d non-trivial)" % (proof["obligations"], len(cases), nontriv))


def evidence_on_violation(tier, seed, t0, v):
    C.write_evidence(PROP, tier, seed, t0, obligations=1, discharged=0, checker_cmd="make -C coq Properties/C10.vo",
                     evaluations=1, distinct_nontrivial=0, rule="violation run", samples=[v.what], violations=1)


def replay(path):
    print(open(path).read())
    return 0
