"""C09 — a complete line always gets a verdict; the parser cannot stall the connection."""
import re
from . import common as C

PROP = "C09"
PROPFILE = "Properties/C09.v"
LIT = re.compile(rb"\{(\d+)\}$")


def lexframe(b):
    """The property's own framing rule, independent of the parser: returns the length of the first
    lexically complete frame, or None."""
    pos = 0
    while True:
        k = b.find(b"\r\n", pos)
        if k < 0:
            return None
        m = LIT.search(b[pos:k])
        end = k + 2
        if not m:
            return end
        n = int(m.group(1))
        if end + n > len(b):
            return None
        pos = end + n


def first_line_plain(b):
    k = b.find(b"\r\n")
    return k >= 0 and not LIT.search(b[:k])


def verdict(r):
    return r.split(" ", 1)[0]


def search(tier, seed):
    n = 3000 if tier == "quick" else 100000
    total = complete = 0
    seen = set()
    samples = []
    for l in C.corpus_lines(PROP):
        h, _ = l.split()
        rows = C.parse_stream("corpus", seed, 0, stdin=h + "\n")
        total += 1
        if verdict(rows[0][1]) == "INC":
            return total, complete, "corpus case %s is lexically complete but answered Incomplete" % C.show_input(h), samples, len(seen)
    sents = C.grammar_sentences()
    gram = []
    for h in sents:
        gram += [h, h + "2a2031204558495354530d0a", h[:-4] + "2078" + h[-4:] if h.endswith("0d0a") else h + "0d0a", h[:-4] + h[-4:] * 2 if h.endswith("0d0a") else h]
        # one byte missing (a closing bracket, quote or parenthesis that never comes), alone and followed by another line
        for k in range(0, len(h) - 4, 2):
            d = h[:k] + h[k + 2:]
            gram += [d, d + "2a2031204558495354530d0a"]
    for stream in ("valid", "follow", "mutate", "garbage", "grammar"):
        if stream == "grammar":
            if not gram:
                continue
            rows = C.parse_stream("corpus", seed, 0, stdin="\n".join(gram) + "\n")
        else:
            rows = C.parse_stream(stream, seed, n)
        for h, impl, _ in rows:
            total += 1
            b = bytes.fromhex(h)
            if lexframe(b) is None:
                continue
            complete += 1
            seen.add(h)
            v = verdict(impl)
            if v == "INC":
                return total, complete, "a lexically complete buffer is answered Incomplete:\ninput %s" % C.show_input(h), samples, len(seen)
            if v == "PANIC":
                return total, complete, "parser panicked on %s" % C.show_input(h), samples, len(seen)
            if v == "OK" and first_line_plain(b):
                used = int(impl.split(" ")[1])
                if used != b.find(b"\r\n") + 2:
                    return total, complete, "an accepted response without literals does not end at the first CRLF (consumed %d):\ninput %s" % (used, C.show_input(h)), samples, len(seen)
        if rows:
            samples.append("%s: %s -> %s" % (stream, C.show_input(rows[len(rows) // 2][0], 70), rows[len(rows) // 2][1][:50]))
    return total, complete, None, samples, len(seen)


def run(tier, seed, t0):
    okr, problems = C.regen()
    proof = C.proof_stage(PROP, PROPFILE, extra_targets=["Extract.vo"]) if okr else dict(ok=False, failure=problems, obligations=0, discharged=0, names=[])
    okh, outh = C.build_harness()
    if not okh:
        raise RuntimeError("harness build failed:\n" + outh[-3000:])
    total, complete, bad, samples, distinct = search(tier, seed)
    if bad:
        raise C.Violation(PROP, "the parser stalls on (or mis-frames) a lexically complete buffer", bad + "\nreplay: harness parse {valid,follow,mutate,garbage} %d" % seed, True)
    if problems and okr:
        raise C.Violation(PROP, "translator could not translate part of the parser: " + problems, "search: %d lexically complete buffers all got a verdict from the implementation" % complete, False)
    if not proof["ok"]:
        raise C.Violation(PROP, proof["failure"], "search: %d lexically complete buffers all got a verdict from the implementation" % complete, False)
    C.ensure_built(PROP)
    evals = 0
    for stream, n in (("follow", 1500), ("mutate", 2500), ("garbage", 1500)) if tier == "quick" else (("follow", 30000), ("mutate", 60000), ("garbage", 30000)):
        rows = C.parse_stream(stream, seed + 2, n)
        model = C.model_parse([r[0] for r in rows])
        evals += len(rows)
        for (h, impl, _), m in zip(rows, model):
            if impl != m:
                raise C.Violation(PROP, "correspondence parse model vs Response::from_bytes fails (model stale; the implementation-side oracle found no stalled line)",
                                  "stream %s\ninput %s\nimplementation: %s\nmodel:          %s" % (stream, C.show_input(h), impl[:400], m[:400]), False)
    fn_cases, fn_count = C.fn_correspondence(PROP, tier)   # every callable parser function on its own inputs, model vs code
    C.write_evidence(PROP, tier, seed, t0, obligations=proof["obligations"] + 1, discharged=proof["discharged"] + 1,
                     checker_cmd="tools/rs2coq /repo coq/gen && make -C coq Properties/C09.vo (coqc 8.16.1) + harness parse {valid,follow,mutate,garbage} vs an independent lexical framer and vs ocaml/driver parse",
                     evaluations=total + evals, distinct_nontrivial=distinct,
                     rule="search oracle (implementation only): an independent Python transcription of the framing rule (scan to CRLF; a line ending in {n} skips n bytes) decides which generated buffers hold a complete frame (valid responses, responses followed by more, token/byte mutations, garbage lines); on those the parser must not answer Incomplete, and an accepted response whose first line has no literal must end at the first CRLF. distinct_nontrivial = distinct lexically complete buffers.",
                     samples=samples,
                     extra=dict(theorems=proof["names"], lexically_complete=complete, correspondence_cases=evals, per_function_cases=fn_cases, per_function_fns=fn_count),
                     assumptions=["proved: never Incomplete on a complete frame (c09_no_incomplete_on_complete_line). The clause 'an accepted response without literals ends exactly at the first CRLF' is checked by the oracle on every run but is not yet a pinned theorem",
                                  "nom primitives/combinators modelled (Nom.v, Interp.v), validated by the correspondence"])
    print("C09 ok: %d theorems; %d/%d buffers lexically complete; correspondence %d cases" % (proof["obligations"], complete, total, evals))


def evidence_on_violation(tier, seed, t0, v):
    C.write_evidence(PROP, tier, seed, t0, obligations=1, discharged=0, checker_cmd="make -C coq Properties/C09.vo",
                     evaluations=1, distinct_nontrivial=0, rule="violation run", samples=[v.what], violations=1)


def replay(path):
    print(open(path).read())
    return 0
