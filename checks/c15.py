"""C15 — taking ownership of a response preserves its value."""
from . import common as C

PROP = "C15"
PROPFILE = "Properties/C15.v"


def owned_stream(stream, seed, n, stdin=None):
    rc, out = C.run_harness(["owned", stream, str(seed), str(n)], inp=stdin)
    if rc != 0:
        raise RuntimeError("harness owned %s failed: %s" % (stream, out[-2000:]))
    rows = []
    for l in out.split("\n"):
        if l:
            p = l.split("\t")
            rows.append((p[0], p[1], p[2] if len(p) > 2 else ""))
    return rows


def model_owned(hexes):
    rc, mout = C.run_driver(["owned"], "\n".join(hexes) + "\n")
    model = mout.split("\n")
    if model and model[-1] == "":
        model.pop()
    if rc != 0 or len(model) != len(hexes):
        raise RuntimeError("driver owned failed (rc=%s, %d results for %d cases): %s" % (rc, len(model), len(hexes), mout[-2000:]))
    return model


def search(tier, seed):
    n = 4000 if tier == "quick" else 150000
    total = 0
    kinds = {}
    samples = []
    corpus = C.corpus_lines(PROP)
    if corpus:
        rows = owned_stream("corpus", seed, 0, stdin="\n".join(l.split()[0] for l in corpus) + "\n")
        for h, res, verdict in rows:
            total += 1
            if verdict != "SAME" or not res.startswith("OK"):
                return total, "corpus case %s: %s / %s" % (C.show_input(h), res[:200], verdict[:600]), samples, kinds
    sents = C.grammar_sentences()
    for stream, cnt in (("parsed", n), ("generated", n // 2), ("deep", 0), ("grammar", 0)):
        if stream == "grammar":
            # responses read off the translated grammar (every alternative of every rule the code has now)
            if not sents:
                continue
            rows = owned_stream("corpus", seed, 0, stdin="\n".join(sents) + "\n")
        else:
            rows = owned_stream(stream, seed, cnt)
        for h, res, verdict in rows:
            total += 1
            k = res.split(" ", 3)[2][:24] if res.startswith("OK") else res
            kinds[k] = kinds.get(k, 0) + 1
            if stream in ("deep", "grammar") and not res.startswith("OK"):
                continue        # nesting beyond the parser's bound: refused, nothing to own
            if not res.startswith("OK"):
                return total, "a generated response does not parse (%s): %s" % (res, C.show_input(h)), samples, kinds
            if verdict != "SAME":
                return total, "stream %s: into_owned does not preserve the value\ninput %s\n%s" % (stream, C.show_input(h), verdict[:1500]), samples, kinds
        samples.append("%s: %s -> %s" % (stream, C.show_input(rows[0][0], 80), rows[0][1][:80]))
    return total, None, samples, kinds


def run(tier, seed, t0):
    okr, problems = C.regen()
    proof = C.proof_stage(PROP, PROPFILE, extra_targets=["Extract.vo"]) if okr else dict(ok=False, failure=problems, obligations=0, discharged=0, names=[])
    okh, outh = C.build_harness()
    if not okh:
        raise RuntimeError("harness build failed:\n" + outh[-3000:])
    total, bad, samples, kinds = search(tier, seed)
    if bad:
        raise C.Violation(PROP, "into_owned changes the value of a response", bad + "\nreplay: harness owned {parsed,generated,deep} %d" % seed, True)
    if not proof["ok"]:
        raise C.Violation(PROP, proof["failure"], "search: into_owned preserved the value of all %d generated / parsed responses on the implementation" % total, False)
    C.ensure_built(PROP)
    evals = 0
    n = 1500 if tier == "quick" else 40000
    rows = owned_stream("parsed", seed + 5, n)
    model = model_owned([r[0] for r in rows])
    for (h, impl, _), m in zip(rows, model):
        evals += 1
        mres, _, wf = m.rpartition(" ")
        if wf != "wf=1":
            raise C.Violation(PROP, "the parser model returned a record with a repeated field name (hypothesis wf_val of the C15 theorems not met)",
                              "input %s\nmodel: %s" % (C.show_input(h), m[:400]), False)
        if impl != mres:
            raise C.Violation(PROP, "correspondence into_owned model vs Response::into_owned fails (model stale; the implementation-side oracle found no changed value)",
                              "input %s\nimplementation: %s\nmodel:          %s" % (C.show_input(h), impl[:600], mres[:600]), False)
    C.write_evidence(PROP, tier, seed, t0, obligations=proof["obligations"] + 1, discharged=proof["discharged"] + 1,
                     checker_cmd="tools/rs2coq /repo coq/gen && make -C coq Properties/C15.vo (coqc 8.16.1) + harness owned {parsed,generated,corpus} vs ocaml/driver owned",
                     evaluations=total + evals, distinct_nontrivial=len(kinds),
                     rule="search oracle (implementation only): a generated response of every kind is encoded, parsed out of a heap buffer, converted with into_owned; the buffer is overwritten with 0xAA, freed, and 8 blocks of the same size are allocated and filled; then the canonical dump of the owned value must equal the dump of the borrowed value taken before, the owned value must be == a second parse and == the generated value, and AttributeValue / ResponseCode / MailboxDatum / Capability::into_owned applied to the parts must give the parts of a second parse. Generated (already owning) values must be unchanged by into_owned. distinct = distinct response constructors seen.",
                     samples=samples,
                     extra=dict(theorems=proof["names"], correspondence_cases=evals, kinds=kinds),
                     assumptions=["value model: a Cow / Box / Vec is its content, so 'still equal after the buffer is freed' is the absence of unsafe code in imap-proto (c15_no_unsafe_in_imap_proto, from the translator's site inventory) plus the clobber-and-churn runs, not a theorem about the allocator",
                                  "wf_val (distinct field names in every record value) is a hypothesis only for arbitrary values; for every value the parser returns it is proved (c15_parsed_values_well_formed) and the correspondence also reports it per case",
                                  "Option::map, Iterator::map/collect, Box::new, Cow::into_owned have their library meaning (OOptMap, OIterMap, OCollect, OBox, OCow in Owned.v)"])
    print("C15 ok: %d theorems; search %d cases; correspondence %d cases" % (proof["obligations"], total, evals))


def evidence_on_violation(tier, seed, t0, v):
    C.write_evidence(PROP, tier, seed, t0, obligations=1, discharged=0, checker_cmd="make -C coq Properties/C15.vo",
                     evaluations=1, distinct_nontrivial=0, rule="violation run", samples=[v.what], violations=1)


def replay(path):
    print(open(path).read())
    return 0
