"""C17 — body-structure search returns the IMAP part specifier of the matching part."""
import re
from . import common as C

PROP = "C17"
PROPFILE = "Properties/C17.v"


def parse_tree(s):
    pos = 0

    def tree():
        nonlocal pos
        kind = s[pos]
        pos += 1
        m = re.match(r"\d+", s[pos:])
        lbl = int(m.group(0))
        pos += len(m.group(0))
        if kind == "L":
            return (lbl, None)
        pos += 1
        cs = []
        while s[pos] != ")":
            if s[pos] == " ":
                pos += 1
            cs.append(tree())
        pos += 1
        return (lbl, cs)
    return tree()


def spec_paths(t, prefix=()):
    """The property's own definition: the specifier of a part is the 1-based child indices from the root."""
    out = [(t[0], prefix)]          # labels need not be unique: identical siblings are different parts
    if t[1] is not None:
        for i, c in enumerate(t[1]):
            out.extend(spec_paths(c, prefix + (i + 1,)))
    return out


def oracle(case, impl):
    tree_s, _, labels_s = case.partition("|")
    labels = [int(x) for x in labels_s.split(",") if x]
    paths = spec_paths(parse_tree(tree_s))
    want = {p for (l, p) in paths if l in labels}
    if impl == "PANIC":
        return "search panicked"
    if impl == "NONE":
        return None if not want else "search returned None although parts %s match" % sorted(want)
    got = () if impl == "ROOT" else tuple(int(x) for x in impl.split("."))
    if got not in want:
        return "search returned %s, the matching parts are at %s" % (list(got), sorted(want))
    return None


def same(case, impl, model):
    if model == "NONE" or impl == "NONE":
        return impl == model
    return impl in model.split(";")


def run(tier, seed, t0):
    proof = C.proof_stage(PROP, PROPFILE, extra_targets=["Extract.vo"])
    okh, outh = C.build_harness()
    if not okh:
        raise RuntimeError("harness build failed:\n" + outh[-3000:])
    hargs = ["bodystruct", str(seed), "7" if tier == "quick" else "10", "300" if tier == "quick" else "5000"]
    # the search oracle runs on the implementation alone, always
    rc, out = C.run_harness(hargs)
    lines = [l for l in out.split("\n") if l]
    for l in lines:
        case, _, impl = l.partition("\t")
        bad = oracle(case, impl)
        if bad:
            raise C.Violation(PROP, "BodyStructParser::search violates the property on a generated tree", "case: %s\nimplementation: %s\n%s\nreplay: harness %s" % (case, impl, bad, " ".join(hargs)), True)
    if not proof["ok"]:
        raise C.Violation(PROP, proof["failure"], "search: %d generated (tree, predicate) cases satisfy the property's oracle on the implementation" % len(lines), False)
    C.ensure_built(PROP)
    cases, impl, model, diffs = C.differential(hargs, "bodystruct", same)
    if diffs:
        raise C.Violation(PROP, "correspondence BodyStruct.candidates vs BodyStructParser::search fails (model stale; the implementation-side oracle found no violating case)",
                          "\n".join("case %s: impl %s model %s" % (c, i, m) for _, c, i, m in diffs), False)
    nontriv = C.distinct_count([c for c, i in zip(cases, impl) if i not in ("NONE", "ROOT")])
    C.write_evidence(PROP, tier, seed, t0, obligations=proof["obligations"] + 1, discharged=proof["discharged"] + 1,
                     checker_cmd="make -C coq Properties/C17.vo (coqc 8.16.1) + harness %s vs ocaml/driver bodystruct" % " ".join(hargs),
                     evaluations=len(cases), distinct_nontrivial=nontriv,
                     rule="all ordered tree shapes with up to %s nodes (leaf kinds basic/text/message by label) plus random wide/deep trees; per tree: each node selected alone, none, all, random pairs, and the body enclosed in a message leaf; non-trivial = the search returns a non-root path; distinct by (tree, predicate)" % hargs[2],
                     samples=[cases[i] + " -> impl " + impl[i] + " / model " + model[i] for i in (0, len(cases) // 3, len(cases) // 2, len(cases) - 2)],
                     extra=dict(theorems=proof["names"]),
                     assumptions=["HashMap iteration order treated as arbitrary: the implementation's answer must be one of the model's candidates",
                                  "message/rfc822 parts are leaves for the walker, as in the code"])
    print("C17 ok: %d theorems, %d cases agree (%d non-trivial)" % (proof["obligations"], len(cases), nontriv))


def evidence_on_violation(tier, seed, t0, v):
    C.write_evidence(PROP, tier, seed, t0, obligations=1, discharged=0, checker_cmd="make -C coq Properties/C17.vo",
                     evaluations=1, distinct_nontrivial=0, rule="violation run", samples=[v.what], violations=1)


def replay(path):
    txt = open(path).read()
    print(txt)
    m = re.search(r"^case: (.*)$", txt, re.M)
    if m:
        print("oracle on the recorded case (re-run the harness to regenerate the implementation's answer)")
    return 0
