"""Shared by C03 / C08 / C12 / C16: the round-trip family (Spec.v + RoundTripRules.v)."""
from . import common as C

PARTIAL = ("PARTIAL: the round-trip theorems reach every rule of the response grammar through Spec.enc_response; spellings outside the Spec relations "
           "(more than one trailing body-extension, METADATA entry names containing SP/CR) are decided by the implementation-side oracle and the model/implementation correspondence only")


def generic_run(prop, propfile, tier, seed, t0, search, rule, what, corr_streams, assumptions, extra_evidence=None):
    okr, problems = C.regen()
    proof = C.proof_stage(prop, propfile, extra_targets=["Extract.vo"]) if okr else dict(ok=False, failure=problems, obligations=0, discharged=0, names=[])
    okh, outh = C.build_harness()
    if not okh:
        raise RuntimeError("harness build failed:\n" + outh[-3000:])
    total, bad, samples, distinct = search(tier, seed)
    if bad:
        raise C.Violation(prop, what, bad, True)
    if problems and okr:
        raise C.Violation(prop, "translator could not translate part of the parser: " + problems, "search: %d cases satisfy the oracle on the implementation" % total, False)
    if not proof["ok"]:
        raise C.Violation(prop, proof["failure"], "search: %d cases satisfy the oracle on the implementation" % total, False)
    C.ensure_built(prop)
    evals = 0
    for stream, nq, nt in corr_streams:
        rows = C.parse_stream(stream, seed + 11, nq if tier == "quick" else nt)
        model = C.model_parse([r[0] for r in rows])
        for (h, impl, _), m in zip(rows, model):
            evals += 1
            if impl[:400] != m[:400] and impl != m:
                raise C.Violation(prop, "correspondence parse model vs Response::from_bytes fails (model stale; the implementation-side oracle found nothing)",
                                  "stream %s\ninput %s\nimplementation: %s\nmodel:          %s" % (stream, C.show_input(h), impl[:500], m[:500]), False)
    # the members of the relation built piece by piece in Examples_RT.v, through the real parser
    ex = C.corpus_lines("RT")
    if ex:
        rows = C.parse_stream("corpus", seed, 0, stdin="\n".join(l.split()[0] for l in ex) + "\n")
        model = C.model_parse([r[0] for r in rows])
        for (h, impl, _), m in zip(rows, model):
            evals += 1
            if impl != m or not impl.startswith("OK %d " % (len(h) // 2)):
                raise C.Violation(prop, "a member of Spec.enc_response (Examples_RT.v) is not parsed whole and alike by the implementation and the model",
                                  "input %s\nimplementation: %s\nmodel:          %s" % (C.show_input(h), impl[:500], m[:500]), True)
    ev = dict(theorems=proof["names"], correspondence_cases=evals)
    if extra_evidence:
        ev.update(extra_evidence)
    fn_cases, fn_count = C.fn_correspondence(prop, tier)   # every callable parser function on its own inputs, model vs code
    ev.update(per_function_cases=fn_cases, per_function_fns=fn_count)
    C.write_evidence(prop, tier, seed, t0, obligations=proof["obligations"] + 1, discharged=proof["discharged"] + 1,
                     checker_cmd="tools/rs2coq /repo coq/gen && make -C coq %s (coqc 8.16.1) + harness vs ocaml/driver parse" % propfile.replace(".v", ".vo"),
                     evaluations=total + evals, distinct_nontrivial=distinct, rule=rule, samples=samples, extra=ev,
                     assumptions=[PARTIAL] + assumptions)
    print("%s ok: %d theorems; search %d cases; correspondence %d cases" % (prop, proof["obligations"], total, evals))


def range_metamorphic(seed):
    """C03's set-semantics clause ("a range written high:low denotes the same messages as low:high") and C12 on whatever
    the grammar has today: in every response read off the translated grammar that the implementation accepts, each
    `a:b` outside a quoted string is rewritten to `2:4` and to `4:2`; the two must get the same answer, value included.
    Returns (pairs tried, description of a failing pair or None)."""
    import re
    pairs = []
    for h in C.grammar_sentences():
        b = bytes.fromhex(h)
        for m in re.finditer(rb"(?<![0-9:.])([0-9]+):([0-9]+)(?![0-9:.])", b):
            if b[:m.start()].replace(b'\\\\', b'').replace(b'\\"', b'').count(b'"') % 2 == 1:
                continue
            pairs.append(((b[:m.start()] + b"2:4" + b[m.end():]).hex(), (b[:m.start()] + b"4:2" + b[m.end():]).hex()))
    if not pairs:
        return 0, None
    flat = [x for p in pairs for x in p]
    rows = C.parse_stream("corpus", seed, 0, stdin="\n".join(flat) + "\n")
    for k in range(0, len(rows) - 1, 2):
        (h1, r1, _), (h2, r2, _) = rows[k], rows[k + 1]
        if r1 != r2 and (r1.startswith("OK") or r2.startswith("OK")):
            return len(pairs), ("a range written high:low does not denote the same messages as low:high:\ninput %s\nparsed %s\ninput %s\nparsed %s"
                                % (C.show_input(h1), r1[:400], C.show_input(h2), r2[:400]))
    return len(pairs), None


def on_violation(prop, propfile):
    def f(tier, seed, t0, v):
        C.write_evidence(prop, tier, seed, t0, obligations=1, discharged=0, checker_cmd="make -C coq " + propfile.replace(".v", ".vo"),
                         evaluations=1, distinct_nontrivial=0, rule="violation run", samples=[v.what], violations=1)
    return f
