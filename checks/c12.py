"""C12 — equivalent wire encodings parse to equal values."""
from . import common as C
from . import rtlib

PROP = "C12"
PROPFILE = "Properties/C12.v"


def search(tier, seed):
    n = 4000 if tier == "quick" else 150000
    total = 0
    differing = 0
    samples = []
    for l in C.corpus_lines(PROP):
        a, b = l.split()[:2]
        rows = C.parse_stream("corpus", seed, 0, stdin=a + "\n" + b + "\n")
        total += 1
        va, vb = rows[0][1].split(" ", 2), rows[1][1].split(" ", 2)
        if va[0] != "OK" or vb[0] != "OK" or va[2] != vb[2]:
            return total, "corpus pair: two spellings of one response parse differently:\n%s -> %s\n%s -> %s" % (
                C.show_input(a), rows[0][1][:300], C.show_input(b), rows[1][1][:300]), samples, differing
    rows = C.parse_stream("second", seed, n)
    for k in range(0, len(rows) - 1, 2):
        (ha, ra, ex), (hb, rb, _) = rows[k], rows[k + 1]
        total += 1
        if ha != hb:
            differing += 1
        if not ex.endswith("SAME"):
            return total, "two spellings of the same value parse to different values (or one is refused):\n%s\n -> %s\n%s\n -> %s" % (
                C.show_input(ha), ra[:500], C.show_input(hb), rb[:500]), samples, differing
    samples.append("pair: %s | %s" % (C.show_input(rows[0][0], 70), C.show_input(rows[1][0], 70)))
    npairs, bad = rtlib.range_metamorphic(seed)
    total += npairs
    if bad:
        return total, bad, samples, differing
    return total, None, samples, differing


def run(tier, seed, t0):
    rtlib.generic_run(PROP, PROPFILE, tier, seed, t0, search,
        rule="search oracle (implementation only): each generated value is printed twice by the independent RFC-derived printer with independent spelling choices (keyword and NIL case upper / lower / as written / random per letter; atom, quoted or literal wherever the grammar allows; up to 30 leading zeros; tolerated deviations on or off: trailing space after SEARCH / SORT / STATUS lines, double space after RFC822.HEADER, adjacent addresses with or without space, `+` with or without space, space before the closing parenthesis of ID, double spaces in QUOTA, empty STATUS list, INBOX in any case); both must be accepted and their values must be equal. distinct = pairs whose two spellings differ.",
        what="two spellings of the same response parse to different values",
        corr_streams=[("second", 1200, 30000)],
        assumptions=["the pairwise oracle compares canonical dumps of the two parses; it does not need the expected value"])


evidence_on_violation = rtlib.on_violation(PROP, PROPFILE)


def replay(path):
    print(open(path).read())
    return 0
