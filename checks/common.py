"""Shared machinery for the /verif checks: building the Coq development, the harness and the OCaml
model driver; running differential batches; evidence and replay files."""
import hashlib
import json
import os
import re
import shutil
import subprocess
import sys
import time

ROOT = os.path.dirname(os.path.dirname(os.path.abspath(__file__)))
REPO = os.environ.get("VERIF_REPO", "/repo")
COQ = os.path.join(ROOT, "coq")
HARNESS = os.path.join(ROOT, "harness")
OCAML = os.path.join(ROOT, "ocaml")
RS2COQ = os.path.join(ROOT, "tools", "rs2coq")
WORK = os.path.join(ROOT, "work")
EVID = os.path.join(ROOT, "evidence")
ENV = dict(os.environ, CARGO_NET_OFFLINE="true", CARGO_TERM_COLOR="never")

ALLOWED_AXIOMS = set()  # the development is expected to be closed under the global context

TRUSTED_BASE = [
    "Coq 8.16.1 kernel (coqc); vm_compute used for reflection obligations; native_compute not used",
    "axioms: none declared; every pinned theorem must print 'Closed under the global context'",
    "rs2coq translator (unverified Rust, syn 2) where a property uses generated files",
    "extraction: ExtrOcamlBasic only (bool, option, unit, list, prod, sumbool, sumor mapped to OCaml's); no Extract Constant; OCaml 4.13.1; ocaml/driver.ml",
    "harness (generators, canonical dump, MockIo), rustc/cargo",
]


class Violation(Exception):
    def __init__(self, prop, what, detail, found_input):
        super().__init__(what)
        self.prop, self.what, self.detail, self.found_input = prop, what, detail, found_input


class ImplHang(Exception):
    """The real code, run by the harness, did not come back from one input (the harness's watchdog gave up after its
    limit, or the whole run exceeded its time budget)."""
    def __init__(self, cmd, what, last_output):
        super().__init__("implementation hang")
        self.cmd, self.what, self.last_output = cmd, what, last_output


def log(*a):
    print(*a, file=sys.stderr, flush=True)


def run(cmd, cwd=None, timeout=3600, inp=None, env=None, check=False):
    t0 = time.time()
    p = subprocess.run(cmd, cwd=cwd, timeout=timeout, input=inp, env=env or ENV,
                       stdout=subprocess.PIPE, stderr=subprocess.STDOUT, text=isinstance(inp, str) or inp is None)
    if check and p.returncode != 0:
        raise RuntimeError("command failed: %s\n%s" % (cmd, p.stdout[-4000:] if p.stdout else ""))
    return p.returncode, p.stdout, time.time() - t0


def write_if_changed(path, content):
    try:
        if open(path).read() == content:
            return False
    except FileNotFoundError:
        pass
    os.makedirs(os.path.dirname(path), exist_ok=True)
    with open(path, "w") as f:
        f.write(content)
    return True


# ---------------------------------------------------------------- Coq

def coq_makefile():
    mk = os.path.join(COQ, "Makefile")
    proj = os.path.join(COQ, "_CoqProject")
    if (not os.path.exists(mk)) or os.path.getmtime(mk) < os.path.getmtime(proj):
        run(["coq_makefile", "-f", "_CoqProject", "-o", "Makefile"], cwd=COQ, check=True)
    os.makedirs(os.path.join(COQ, "extracted"), exist_ok=True)


FORBIDDEN = re.compile(r"\b(Admitted|admit|Axiom|Parameter|Conjecture|Unset Guard|bypass_check|type-in-type|impredicative-set|Admit Obligations|native_compute)\b")


def strip_coq_comments(src):
    out, depth, i = [], 0, 0
    while i < len(src):
        if src.startswith("(*", i):
            depth += 1
            i += 2
        elif src.startswith("*)", i) and depth > 0:
            depth -= 1
            i += 2
        else:
            if depth == 0:
                out.append(src[i])
            i += 1
    return "".join(out)


def forbidden_scan():
    """No Admitted/admit/Axiom/Parameter/... anywhere in the development (comments excluded)."""
    bad = []
    for d, _, fs in os.walk(COQ):
        for f in fs:
            if f.endswith(".v"):
                p = os.path.join(d, f)
                src = strip_coq_comments(open(p).read())
                for m in FORBIDDEN.finditer(src):
                    bad.append("%s: %s" % (os.path.relpath(p, ROOT), m.group(0)))
                if re.search(r"^\s*(Variable|Hypothesis|Variables|Hypotheses)\b", src, re.M) and not re.search(r"^\s*Section\b", src, re.M):
                    bad.append("%s: Variable/Hypothesis outside a section" % os.path.relpath(p, ROOT))
    return bad


def coq_build(targets, timeout=3000, force=()):
    """make the given .vo targets (full .vo build). `force` targets are recompiled so that their
    output (Check / Print Assumptions) is captured. Returns (ok, output)."""
    coq_makefile()
    for t in force:
        for ext in (".vo", ".vok", ".vos", ".glob"):
            try:
                os.remove(os.path.join(COQ, t[:-3] + ext))
            except FileNotFoundError:
                pass
    rc, out, _ = run(["timeout", str(timeout), "make", "-j16", "-k"] + list(targets), cwd=COQ, timeout=timeout + 60)
    return rc == 0, out


def parse_property_output(out, propfile):
    """From the compile output of Properties/Cxx.v: the names Print Assumptions was asked about,
    how many are closed, and any axioms listed."""
    src = strip_coq_comments(open(os.path.join(COQ, propfile)).read())
    theorems = re.findall(r"^\s*(?:Theorem|Corollary)\s+(\w+)", src, re.M)
    pa = re.findall(r"^\s*Print Assumptions\s+(\w+)\s*\.", src, re.M)
    checks = re.findall(r"^\s*Check\s+(\w+)\s*:", src, re.M)
    closed = len(re.findall(r"Closed under the global context", out))
    axioms = []
    for m in re.finditer(r"Axioms:\n((?:.+\n)+?)(?=\S+\n\s+:|\Z|Closed)", out):
        for line in m.group(1).splitlines():
            mm = re.match(r"^(\S+)\s*:", line)
            if mm:
                axioms.append(mm.group(1))
    if "Axioms:" in out and not axioms:
        axioms.append("<unparsed Axioms block>")
    return dict(theorems=theorems, print_assumptions=pa, checks=checks, closed=closed, axioms=axioms)


# ---------------------------------------------------------------- Rust harness / OCaml driver / translator

def cargo_build(crate_dir, release=False, timeout=3000):
    lock = os.path.join(REPO, "Cargo.lock")
    dst = os.path.join(crate_dir, "Cargo.lock")
    if not os.path.exists(dst):
        shutil.copy(lock, dst)
    cmd = ["timeout", str(timeout), "cargo", "build", "--offline"] + (["--profile", "stack"] if release == "stack" else ["--release"] if release else [])
    rc, out, _ = run(cmd, cwd=crate_dir, timeout=timeout + 60)
    if rc != 0:
        # a stale lock (dependency set of /repo changed): retry from /repo's lock
        shutil.copy(lock, dst)
        rc, out, _ = run(cmd, cwd=crate_dir, timeout=timeout + 60)
    return rc == 0, out


def harness_bin(release=False):
    return os.path.join(HARNESS, "target", "stack" if release == "stack" else "release" if release else "debug", "harness")


def build_harness(release=False):
    ok, out = cargo_build(HARNESS, release)
    return ok, out


def build_driver():
    """extracted/model.ml must exist (coq_build(['Extract.vo']))."""
    drv = os.path.join(OCAML, "driver")
    srcs = [os.path.join(COQ, "extracted", "model.ml"), os.path.join(OCAML, "driver.ml")]
    if os.path.exists(drv) and all(os.path.getmtime(s) <= os.path.getmtime(drv) for s in srcs):
        return True, ""
    rc, out, _ = run(["sh", os.path.join(OCAML, "build.sh")], cwd=OCAML, timeout=1200)
    return rc == 0, out


def run_harness(args, inp=None, release=False, timeout=3000):
    cmd = "harness " + " ".join(args) + (" (release build)" if release else "")
    try:
        rc, out, dt = run([harness_bin(release)] + args, inp=inp, timeout=timeout)
    except subprocess.TimeoutExpired as e:
        o = e.stdout or ""
        if isinstance(o, bytes):
            o = o.decode("latin1")
        raise ImplHang(cmd, "the run did not finish within %d s" % timeout, o[-600:])
    if rc == 99 and "\nHANG " in out:
        h = out.rsplit("\nHANG ", 1)[1].split("\n", 1)[0].strip()
        raise ImplHang(cmd, "no answer within 30 s on the input (%d bytes) %s" % (len(h) // 2, show_input(h, 400)), out[-300:])
    return rc, out


def _run_driver_one(args, inp, timeout):
    env = dict(ENV)
    rc, out, dt = run(["sh", "-c", "ulimit -s unlimited 2>/dev/null; exec %s %s" % (os.path.join(OCAML, "driver"), " ".join(args))],
                      inp=inp, timeout=timeout, env=env)
    return rc, out


JOBS = os.cpu_count() or 16
SHARDED_MODES = ("frames", "chains", "owned", "client", "framed", "parse", "builder", "bodystruct", "fnrun")


def run_driver(args, inp, timeout=3000):
    """Run the extracted model.  The line-per-case modes (one output line per input line, cases independent) are
    split over the cores; the outputs are concatenated in input order."""
    lines = inp.split("\n")
    if lines and lines[-1] == "":
        lines.pop()
    if args[0] not in SHARDED_MODES or len(lines) < 400:
        return _run_driver_one(args, inp, timeout)
    from concurrent.futures import ThreadPoolExecutor
    k = min(JOBS, max(1, len(lines) // 100))
    size = (len(lines) + k - 1) // k
    chunks = [lines[i:i + size] for i in range(0, len(lines), size)]
    with ThreadPoolExecutor(max_workers=len(chunks)) as ex:
        res = list(ex.map(lambda c: _run_driver_one(args, "\n".join(c) + "\n", timeout), chunks))
    rc = 0
    outs = []
    for r, o in res:
        if r != 0 and rc == 0:
            rc = r
        if o and not o.endswith("\n"):
            o += "\n"
        outs.append(o)
    return rc, "".join(outs)


# ---------------------------------------------------------------- evidence / replay / findings

def known_findings():
    known, fixed = [], []
    for line in open(os.path.join(ROOT, "known_findings.txt")):
        line = line.strip()
        if line.startswith("known:"):
            known.append(line[6:].strip())
        elif line.startswith("fixed:"):
            fixed.append(line[6:].strip())
    return known, fixed


def replay_path(prop, tag="violation"):
    d = os.path.join(WORK, "replay")
    os.makedirs(d, exist_ok=True)
    return os.path.join(d, "%s-%s-%d.txt" % (prop, tag, int(time.time())))


def report_violation(prop, what, detail, found_input):
    """Print the VIOLATION line (exit code is decided by the caller)."""
    p = replay_path(prop)
    with open(p, "w") as f:
        f.write("property: %s\n%s\n\n%s\n" % (prop, what, detail))
    suffix = "" if found_input else " no-failing-input-found"
    print("VIOLATION property=%s replay=%s%s" % (prop, p, suffix), flush=True)
    return p


def distinct_count(lines, trivial=None):
    seen = set()
    for l in lines:
        if trivial and trivial(l):
            continue
        seen.add(hashlib.sha1(l.encode() if isinstance(l, str) else l).digest()[:8])
    return len(seen)


def write_evidence(prop, tier, seed, t0, obligations, discharged, checker_cmd, evaluations, distinct_nontrivial,
                   rule, samples, violations=0, extra=None, assumptions=None, level="proof"):
    cov = dict(obligations=obligations, discharged=discharged, checker_cmd=checker_cmd,
               trusted_base=TRUSTED_BASE, evaluations=evaluations, distinct_nontrivial=distinct_nontrivial,
               rule=rule, samples=samples)
    if extra:
        cov.update(extra)
    if COQCHK and tier == "thorough":
        cov["coqchk"] = COQCHK
    ev = dict(property_id=prop, tier=tier, seed=seed, level=level, coverage=cov,
              assumptions=assumptions or [], wall_s=round(time.time() - t0, 2), violations=violations)
    os.makedirs(EVID, exist_ok=True)
    with open(os.path.join(EVID, prop + ".json"), "w") as f:
        json.dump(ev, f, indent=1)
        f.write("\n")


def diff_lines(a_lines, b_lines, cases=None, limit=5):
    """Compare two lists of result lines; return list of (index, case, a, b) for the first `limit` differences."""
    diffs = []
    n = max(len(a_lines), len(b_lines))
    for i in range(n):
        a = a_lines[i] if i < len(a_lines) else "<missing>"
        b = b_lines[i] if i < len(b_lines) else "<missing>"
        if a != b:
            diffs.append((i, cases[i] if cases and i < len(cases) else None, a, b))
            if len(diffs) >= limit:
                break
    return diffs


# ---------------------------------------------------------------- the proof stage shared by all properties

def first_coq_error(out):
    m = re.search(r'File "([^"]+)", line (\d+), characters [^\n]*\n(Error:?[^\n]*(?:\n(?!make)[^\n]*){0,12})', out)
    if m:
        return "%s:%s %s" % (m.group(1), m.group(2), m.group(3))
    return out[-1500:]


def proof_stage(prop, propfile, extra_targets=()):
    """Rebuild and re-check the pinned theorems of one property. Returns a dict:
       ok, obligations, discharged, failure (str or None), names."""
    res = dict(ok=False, obligations=0, discharged=0, failure=None, names=[])
    bad = forbidden_scan()
    if bad:
        res["failure"] = "forbidden constructs in the development: " + "; ".join(bad[:10])
        return res
    target = propfile[:-2] + ".vo"
    ok, out = coq_build(list(extra_targets) + [target], force=[target])
    info = parse_property_output(out, propfile) if os.path.exists(os.path.join(COQ, propfile)) else None
    if info:
        res["names"] = info["theorems"]
        res["obligations"] = len(info["theorems"])
    if not ok:
        res["failure"] = "proof obligation no longer checks: " + first_coq_error(out)
        return res
    if set(info["theorems"]) != set(info["print_assumptions"]) or set(info["theorems"]) != set(info["checks"]):
        res["failure"] = "property file must pin (Check) and Print Assumptions every theorem: %s" % info
        return res
    bad_ax = [a for a in info["axioms"] if a not in ALLOWED_AXIOMS]
    blocks = info["closed"] + out.count("Axioms:")
    if bad_ax or blocks != len(info["print_assumptions"]):
        res["failure"] = "axioms outside the allow-list, or a Print Assumptions result is missing: %s (closed=%d, axiom blocks=%d, expected %d)" % (
            bad_ax, info["closed"], out.count("Axioms:"), len(info["print_assumptions"]))
        return res
    if TIER == "thorough":
        bad_chk = coqchk_stage(propfile)
        if bad_chk:
            res["failure"] = bad_chk
            return res
    res["ok"] = True
    res["discharged"] = res["obligations"]
    return res


def coqchk(prop_vo, timeout=1500):
    rc, out, dt = run(["timeout", str(timeout), "coqchk", "-o", "-silent", "-Q", ".", "TI", prop_vo], cwd=COQ, timeout=timeout + 60)
    return rc == 0, out


TIER = "quick"          # set by ./check before a run
COQCHK = None           # summary of the last coqchk run (thorough tier), copied into the evidence


def coqchk_stage(propfile):
    """Thorough tier: re-check the compiled property file and everything it depends on with Coq's independent
    checker; the context summary must list no axiom, no type-in-type, no unsafe fixpoint, no assumed positivity."""
    global COQCHK
    mod = "TI." + propfile[:-2].replace("/", ".")
    t0 = time.time()
    ok, out = coqchk(mod)
    want = ["Axioms", "Constants/Inductives relying on type-in-type", "Constants/Inductives relying on unsafe (co)fixpoints",
            "Inductives whose positivity is assumed"]
    got = {}
    for w in want:
        m = re.search(r"\* " + re.escape(w) + r":\s*(.*?)\n\s*\n", out + "\n\n", re.S)
        got[w] = m.group(1).strip() if m else "<missing>"
    COQCHK = dict(module=mod, seconds=round(time.time() - t0, 1), summary=got)
    if not ok:
        return "coqchk rejects %s: %s" % (mod, out[-1500:])
    bad = {w: v for w, v in got.items() if v != "<none>"}
    if bad:
        return "coqchk context summary of %s is not clean: %s" % (mod, bad)
    return None


def extra_setup_steps():
    # the builds the C01 stack sweep runs on: imap-proto without optimisation (what a user's debug build is) and release
    return [lambda: build_harness("stack"), lambda: build_harness(True)]


def differential(harness_args, driver_cmd, same=None, release=False, limit=5):
    """Run the harness (lines `case<TAB>impl-result`), feed the cases to the model driver, compare.
    Returns (cases, impl, model, diffs) with diffs = [(index, case, impl, model)]."""
    rc, out = run_harness(harness_args, release=release)
    lines = [l for l in out.split("\n") if l]
    cases, impl = [], []
    for l in lines:
        c, _, r = l.partition("\t")
        cases.append(c)
        impl.append(r)
    if rc != 0:
        raise RuntimeError("harness %s failed (rc=%s): %s" % (harness_args, rc, out[-2000:]))
    rc, mout = run_driver([driver_cmd], "\n".join(cases) + "\n")
    model = [l for l in mout.split("\n")]
    if model and model[-1] == "":
        model.pop()
    if rc != 0 or len(model) != len(cases):
        raise RuntimeError("driver %s failed (rc=%s, %d results for %d cases): %s" % (driver_cmd, rc, len(model), len(cases), mout[-2000:]))
    same = same or (lambda case, i, m: i == m)
    diffs = []
    for k, (c, i, m) in enumerate(zip(cases, impl, model)):
        if not same(c, i, m):
            diffs.append((k, c, i, m))
            if len(diffs) >= limit:
                break
    return cases, impl, model, diffs


def ensure_built(prop, extract=True, release=False):
    okh, outh = build_harness(release)
    if not okh:
        raise RuntimeError("harness build failed:\n" + outh[-3000:])
    okd, outd = build_driver()
    if not okd:
        raise RuntimeError("driver build failed:\n" + outd[-3000:])


# ---------------------------------------------------------------- translator + parse differential

def regen():
    """Tie A: re-run the translator over /repo's working tree (gen/*.v rewritten only when changed)."""
    ok, out = cargo_build(RS2COQ)
    if not ok:
        raise RuntimeError("rs2coq build failed:\n" + out[-3000:])
    rc, out, _ = run([os.path.join(RS2COQ, "target", "debug", "rs2coq"), REPO, os.path.join(COQ, "gen")], timeout=600)
    if rc != 0:
        return False, "rs2coq failed on the working tree: " + out[-3000:]
    rep = open(os.path.join(COQ, "gen", "grammar_report.txt")).read()
    problems = [l for l in rep.splitlines() if l.startswith("PROBLEM")]
    return True, "\n".join(problems)


def parse_stream(stream, seed, n, stdin=None, release=False):
    """Run one harness parse stream; returns rows (hex, impl, extra)."""
    rc, out = run_harness(["parse", stream, str(seed), str(n)], inp=stdin, release=release)
    if rc != 0:
        raise RuntimeError("harness parse %s failed: %s" % (stream, out[-2000:]))
    rows = []
    for l in out.split("\n"):
        if not l:
            continue
        p = l.split("\t")
        rows.append((p[0], p[1], p[2] if len(p) > 2 else ""))
    return rows


def model_parse(hexes):
    rc, mout = run_driver(["parse"], "\n".join(hexes) + "\n")
    model = mout.split("\n")
    if model and model[-1] == "":
        model.pop()
    if rc != 0 or len(model) != len(hexes):
        raise RuntimeError("driver parse failed (rc=%s, %d results for %d cases): %s" % (rc, len(model), len(hexes), mout[-2000:]))
    return model


def fn_correspondence(prop, tier):
    """Per-function correspondence (Tie B at the level of single parser functions).  The functions of the parser that
    are `pub` all the way (the table coq/gen/gen_fns.rs is regenerated from the source: all of core.rs -- number,
    number_64, literal, quoted and the string / atom / text helpers, i.e. every hand-modelled leaf -- the section
    parsers of rfc3501/body.rs and parse_response) are called one by one on inputs read off the translated grammar:
    standalone sentences of each function, each with several followers, every proper prefix, and one-byte
    substitutions.  The model runs the same function (Synth.run_fn on the regenerated term) on the same buffer;
    verdict and consumed length must agree, for plain value types (bytes, str, numbers, Option, Vec) the value too.
    Returns (cases compared, functions compared); raises Violation(found_input=False) on a disagreement."""
    cap = 120 if tier == "quick" else 1500
    rc, out = _run_driver_one(["fninputs", str(cap)], "", 900)
    if rc != 0:
        raise RuntimeError("driver fninputs failed: " + out[-1500:])
    rc, names = run_harness(["fns", "list"])
    if rc != 0:
        raise RuntimeError("harness fns list failed: " + names[-1500:])
    callable_fns = set(names.split())
    lines = [l for l in out.split("\n") if l and l.split("\t", 1)[0] in callable_fns]
    if not lines:
        return 0, 0
    inp = "\n".join(lines) + "\n"
    rc, iout = run_harness(["fns"], inp=inp)
    if rc != 0:
        raise RuntimeError("harness fns failed: " + iout[-1500:])
    rc, mout = run_driver(["fnrun"], inp)
    impl = [l for l in iout.split("\n") if l]
    model = [l for l in mout.split("\n") if l]
    if rc != 0 or len(impl) != len(lines) or len(model) != len(lines):
        raise RuntimeError("per-function runs: %d inputs, %d implementation lines, %d model lines (rc=%s)" % (len(lines), len(impl), len(model), rc))
    fns = set()
    for l, a, b in zip(lines, impl, model):
        name, h = l.split("\t", 1)
        fns.add(name)
        same = (a == b) if len(a.split(" ")) > 2 or not a.startswith("OK") else (a.split(" ")[:2] == b.split(" ")[:2])
        if not same:
            raise Violation(prop, "per-function correspondence fails: the model of the parser function %s and the function itself disagree (model stale; the implementation-side oracle found nothing)" % name,
                            "function %s\ninput %s\nimplementation: %s\nmodel:          %s" % (name, show_input(h), a[:400], b[:400]), False)
    return len(lines), len(fns)


_SENT = None


def grammar_sentences():
    """The responses read off the current translation (grammar_sentences_live) together with the fixed set computed on
    the pinned tree (corpus/SENT/sentences.txt): a change that makes part of the grammar untranslatable takes the live
    sentences through that part away, the fixed ones stay."""
    live = grammar_sentences_live()
    static = []
    try:
        static = [l.strip() for l in open(os.path.join(ROOT, "corpus", "SENT", "sentences.txt")) if l.strip()]
    except FileNotFoundError:
        pass
    return sorted(set(live) | set(static))


def grammar_sentences_live():
    """Whole responses read off the grammar as it is translated now (coq/Synth.v, extracted into the driver): for every
    parser function reachable from the top, sentences that between them take every alternative and repetition shape
    written in that function.  They follow the code, so they also reach rules the harness's generators have never
    heard of.  A search aid only: returns [] when the extracted driver is not available."""
    global _SENT
    if _SENT is None:
        _SENT = []
        try:
            okd, _ = build_driver()
            if okd:
                rc, out = _run_driver_one(["sentences"], "", 600)
                if rc == 0:
                    _SENT = sorted(set(l for l in out.split("\n") if l and len(l) % 2 == 0))
        except Exception:
            _SENT = []
    return _SENT


def corpus_lines(prop):
    d = os.path.join(ROOT, "corpus", prop)
    lines = []
    if os.path.isdir(d):
        for f in sorted(os.listdir(d)):
            for l in open(os.path.join(d, f)):
                l = l.strip()
                if l and not l.startswith("#"):
                    lines.append(l)
    return lines


def show_input(h, limit=200):
    b = bytes.fromhex(h)
    return repr(b[:limit]) + ("..." if len(b) > limit else "")
