"""C03 — parse fidelity: the value returned is exactly what the server sent."""
from . import common as C
from . import rtlib

PROP = "C03"
PROPFILE = "Properties/C03.v"


def search(tier, seed):
    n = 6000 if tier == "quick" else 200000
    total = 0
    kinds = {}
    samples = []
    for l in C.corpus_lines(PROP):
        h, exp = l.split(None, 1)
        rows = C.parse_stream("corpus", seed, 0, stdin=h + "\n")
        total += 1
        if rows[0][1] != exp:
            return total, "corpus case %s:\nparsed   %s\nexpected %s" % (C.show_input(h), rows[0][1][:400], exp[:400]), samples, len(kinds)
    rows = C.parse_stream("valid", seed, n)
    for h, impl, extra in rows:
        total += 1
        kind, _, exp = extra.partition(" ")
        kinds[kind] = kinds.get(kind, 0) + 1
        if impl != exp:
            return total, ("a generated %s response does not parse to the value that was sent (independent RFC-derived printer, every spelling choice):\n"
                           "input %s\nparsed   %s\nexpected %s") % (kind, C.show_input(h), impl[:600], exp[:600]), samples, len(kinds)
    samples.append("valid: %s -> %s" % (C.show_input(rows[0][0], 80), rows[0][1][:80]))
    npairs, bad = rtlib.range_metamorphic(seed)
    total += npairs
    if bad:
        return total, bad, samples, len(kinds)
    samples.append("ranges: %d pairs (a:b written 2:4 and 4:2) in responses read off the grammar" % npairs)
    return total, None, samples, len(kinds)


def run(tier, seed, t0):
    rtlib.generic_run(PROP, PROPFILE, tier, seed, t0, search,
        rule="search oracle (implementation only): values of every response kind (34 generator branches: capability, continue, done/data with every response code, expunge, vanished, fetch with all 13 attribute kinds incl. body structures nested to depth 4 and envelopes, mailbox data incl. LIST/LSUB/STATUS/SEARCH/SORT/METADATA/Gmail, quota, quotaroot, ID, ACL, LISTRIGHTS, MYRIGHTS, ENABLED) with numerics at 0, 1, 2^31, 2^32-1, 2^63, 2^64-1 and strings over each position's alphabet are printed by an independent RFC-derived printer with every spelling choice; Response::from_bytes must consume exactly the encoding and the canonical dump of the result must equal the dump of the generated value. distinct = response kinds seen.",
        what="the parsed value is not the value the server sent",
        corr_streams=[("valid", 2500, 60000)],
        assumptions=["quoted strings are generated without backslash or double quote (those contents go in literal form): the crate returns quoted contents without unescaping",
                     "record values are compared with their fields in the order of the source's struct literal (Spec.v follows it)"])


evidence_on_violation = rtlib.on_violation(PROP, PROPFILE)


def replay(path):
    print(open(path).read())
    return 0
