"""C16 — whatever the FETCH builder can request, the parser can read."""
from . import common as C
from . import rtlib

PROP = "C16"
PROPFILE = "Properties/C16.v"


def search(tier, seed):
    depth, per = (3, 2) if tier == "quick" else (40, 12)
    rc, out = C.run_harness(["chains", "fetchreply", str(seed), str(depth), str(per)])
    if rc != 0:
        raise RuntimeError("harness chains fetchreply failed: %s" % out[-2000:])
    total = 0
    combos = set()
    samples = []
    rows = []
    for l in out.split("\n"):
        if not l:
            continue
        p = l.split("\t")
        while len(p) < 4:
            p.append("")
        rows.append(p)
        total += 1
        combos.add(p[2])
        if p[3] != "OK":
            try:
                reply = repr(bytes.fromhex(p[1]))[:700]
            except ValueError:
                reply = p[1][:200]
            return total, "a request the builder offers gets a conformant reply that the parser does not turn into a value per item:\nrequest %s\nitems   %s\nreply   %s\n%s" % (
                p[0], p[2], reply, p[3][:500]), samples, len(combos), rows
    if rows:
        samples.append("%s -> items %s" % (rows[-1][0], rows[-1][2]))
    return total, None, samples, len(combos), rows


def run(tier, seed, t0):
    hold = {}

    def s(tier_, seed_):
        total, bad, samples, distinct, rows = search(tier_, seed_)
        hold["rows"] = rows
        return total, bad, samples, distinct

    rtlib.generic_run(PROP, PROPFILE, tier, seed, t0, s,
        rule="search oracle (implementation only): every attribute, every macro, every ordered pair of attributes and random larger sets, each with and without CHANGEDSINCE, on FETCH and UID FETCH, are built with the real builder (through the wrapper regenerated from the source); the command is read back by the independent reader to learn what was asked (macros expanded per RFC 3501 6.4.5, MODSEQ added for CHANGEDSINCE per RFC 4551, UID added for UID FETCH); a reference server renders one generated value per requested item per RFC 3501 7.4.2 (BODY in the non-extensible form, envelopes, body structures, flags, dates, sizes, literals, every spelling choice); Response::from_bytes must accept the reply, consume it exactly, and return for each requested item exactly the value sent. distinct = distinct item combinations.",
        what="a legal request gets a reply the parser reports as a protocol error or loses an item of",
        corr_streams=[("valid", 800, 20000)],
        assumptions=["the reference server is the harness's RFC-derived printer (genresp.rs), not a real IMAP server",
                     "proved (c16_reply_parses) for ENVELOPE, FLAGS, INTERNALDATE, MODSEQ, RFC822, RFC822.SIZE, RFC822.TEXT, UID, X-GM-MSGID and their combinations; BODY, X-GM-LABELS by reflection on the dispatch (c16_every_requestable_item_is_dispatched) and by the oracle"])


evidence_on_violation = rtlib.on_violation(PROP, PROPFILE)


def replay(path):
    print(open(path).read())
    return 0
