"""C13 — numbers are converted exactly or rejected, never wrapped."""
from . import common as C

PROP = "C13"
PROPFILE = "Properties/C13.v"


def verdict(r):
    return r.split(" ", 1)[0]


def search(tier, seed):
    n_num = 1500 if tier == "quick" else 60000
    n_valid = 3000 if tier == "quick" else 80000
    total = 0
    seen = set()
    samples = []
    for l in C.corpus_lines(PROP):
        h, exp = l.split()
        rows = C.parse_stream("corpus", seed, 0, stdin=h + "\n")
        total += 1
        if verdict(rows[0][1]) != exp:
            return total, "corpus case %s: verdict %s, expected %s" % (C.show_input(h), rows[0][1][:100], exp), samples, len(seen)
    # in range (boundary values, leading zeros): the value returned is the value sent, at every numeric position
    rows = C.parse_stream("valid", seed, n_valid)
    for h, impl, extra in rows:
        total += 1
        kind, _, exp = extra.partition(" ")
        if any(ch.isdigit() for ch in exp):
            seen.add(h)
        if impl != exp:
            return total, "a generated %s response does not parse to the value that was sent (numerals at the boundaries 0, 2^31, 2^32-1, 2^63, 2^64-1, up to 30 leading zeros):\ninput %s\nparsed   %s\nexpected %s" % (
                kind, C.show_input(h), impl[:400], exp[:400]), samples, len(seen)
    # out of range: parse error, or -- inside a bracketed response code -- the code left unparsed and handed over as text
    rows = C.parse_stream("numeric", seed, n_num)
    for h, impl, extra in rows:
        total += 1
        seen.add(h)
        _, bits, in_code, numeral = extra.split(" ")
        v = verdict(impl)
        if v == "ERR":
            continue
        if v == "OK" and in_code == "1" and "code=None" in impl and ("x" in impl and numeral.encode().hex() in impl):
            continue
        # a literal inside the unparsed code ends the fallback text at the literal's CRLF (the C08 known finding): the
        # numeral then lies behind the consumed bytes and was never read as a number -- nothing was converted
        if v == "OK" and in_code == "1" and "code=None" in impl:
            consumed = int(impl.split(" ")[1])
            pos = bytes.fromhex(h).find(numeral.encode())
            if pos >= consumed:
                continue
        return total, "a numeral beyond the %s-bit range of its field was not rejected:\ninput %s\nnumeral %s (inside a response code: %s)\nresult %s" % (
            bits, C.show_input(h), numeral, in_code, impl[:400]), samples, len(seen)
    samples.append("numeric: %s -> %s" % (C.show_input(rows[0][0], 80), rows[0][1][:60]))
    samples.append("numeric: %s -> %s" % (C.show_input(rows[-1][0], 80), rows[-1][1][:60]))
    return total, None, samples, len(seen)


def run(tier, seed, t0):
    okr, problems = C.regen()
    proof = C.proof_stage(PROP, PROPFILE, extra_targets=["Extract.vo"]) if okr else dict(ok=False, failure=problems, obligations=0, discharged=0, names=[])
    okh, outh = C.build_harness()
    if not okh:
        raise RuntimeError("harness build failed:\n" + outh[-3000:])
    total, bad, samples, distinct = search(tier, seed)
    if bad:
        raise C.Violation(PROP, "a numeric field is not converted exactly / not rejected", bad + "\nreplay: harness parse {valid,numeric} %d" % seed, True)
    if problems and okr:
        raise C.Violation(PROP, "translator could not translate part of the parser: " + problems, "search: %d numeric cases satisfy the oracle on the implementation" % total, False)
    if not proof["ok"]:
        raise C.Violation(PROP, proof["failure"], "search: %d numeric cases satisfy the oracle on the implementation" % total, False)
    C.ensure_built(PROP)
    evals = 0
    for stream, n in (("numeric", 1200), ("valid", 1200)) if tier == "quick" else (("numeric", 40000), ("valid", 40000)):
        rows = C.parse_stream(stream, seed + 3, n)
        model = C.model_parse([r[0] for r in rows])
        evals += len(rows)
        for (h, impl, _), m in zip(rows, model):
            if impl != m:
                raise C.Violation(PROP, "correspondence parse model vs Response::from_bytes fails on numeric input (model stale; the implementation-side oracle found no wrapped or unrejected number)",
                                  "stream %s\ninput %s\nimplementation: %s\nmodel:          %s" % (stream, C.show_input(h), impl[:400], m[:400]), False)
    fn_cases, fn_count = C.fn_correspondence(PROP, tier)   # every callable parser function on its own inputs, model vs code
    C.write_evidence(PROP, tier, seed, t0, obligations=proof["obligations"] + 1, discharged=proof["discharged"] + 1,
                     checker_cmd="tools/rs2coq /repo coq/gen && make -C coq Properties/C13.vo (coqc 8.16.1) + harness parse {valid,numeric,corpus} vs ocaml/driver parse",
                     evaluations=total + evals, distinct_nontrivial=distinct,
                     rule="search oracle (implementation only): (1) generated values with numerics at 0, 1, 2^31-1, 2^31, 2^32-2, 2^32-1, 2^63, 2^64-2, 2^64-1 and random, printed with up to 30 leading zeros at every numeric position of every response kind (the RFC-derived printer knows each field's width), must parse back to exactly the value; (2) each numeral overwritten by 2^32, 2^32+1, 2^32+4, 2^64-1 (32-bit fields), 2^64, 2^64+1, 2^64+4, 2^128, 41 digits, with and without leading zeros: the response must be a parse error, or inside a response code the code must be None and the text must contain the numeral verbatim. distinct = distinct inputs containing a numeral.",
                     samples=samples,
                     extra=dict(theorems=proof["names"], correspondence_cases=evals, per_function_cases=fn_cases, per_function_fns=fn_count),
                     assumptions=["u32::from_str / u64::from_str on a digit string modelled as `dec ds < 2^bits` (Nom.number_p); validated on the boundary set by the correspondence",
                                  "which width applies at which position is taken from the RFC-derived printer on the implementation side, not proved against types.rs"])
    print("C13 ok: %d theorems; search %d cases; correspondence %d cases" % (proof["obligations"], total, evals))


def evidence_on_violation(tier, seed, t0, v):
    C.write_evidence(PROP, tier, seed, t0, obligations=1, discharged=0, checker_cmd="make -C coq Properties/C13.vo",
                     evaluations=1, distinct_nontrivial=0, rule="violation run", samples=[v.what], violations=1)


def replay(path):
    print(open(path).read())
    return 0
