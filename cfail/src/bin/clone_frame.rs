// must NOT compile: frames cannot be cloned (a clone could outlive the bytes' owner only if it shared them correctly)
use tokio_imap::ResponseData;
pub fn f(frame: &ResponseData) -> ResponseData {
    frame.clone()
}
fn main() {}
