// must NOT compile: copying the Cow out of the view as Cow<'static, str> and keeping it past the frame
use std::borrow::Cow;
use tokio_imap::types::Response;
use tokio_imap::ResponseData;
pub fn f(frame: ResponseData) -> Cow<'static, str> {
    let c: Cow<'static, str> = match frame.parsed() {
        Response::Data { information: Some(s), .. } => s.clone(),
        _ => Cow::Borrowed(""),
    };
    drop(frame);
    c
}
fn main() {}
