// must NOT compile: (verification hook) the raw bytes outlive the frame
use tokio_imap::ResponseData;
pub fn f(frame: ResponseData) -> usize {
    let raw = frame.raw_bytes();
    drop(frame);
    raw.len()
}
fn main() {}
