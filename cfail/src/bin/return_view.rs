// must NOT compile: a reference to the parsed view is returned out of the frame's scope
use tokio_imap::types::Response;
use tokio_imap::ResponseData;
pub fn f(frame: ResponseData) -> &'static Response<'static> {
    frame.parsed()
}
fn main() {}
