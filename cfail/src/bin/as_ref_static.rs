// must NOT compile: no AsRef / Borrow / Into conversions to the 'static-typed response
use tokio_imap::types::Response;
use tokio_imap::ResponseData;
pub fn f(frame: ResponseData) -> usize {
    let r: &Response<'static> = frame.as_ref();
    format!("{:?}", r).len()
}
fn main() {}
