// must NOT compile: views collected into a vector that outlives the frames
use tokio_imap::types::Response;
use tokio_imap::ResponseData;
pub fn f(frames: Vec<ResponseData>) -> Vec<&'static Response<'static>> {
    let mut out = vec![];
    for fr in frames {
        out.push(fr.parsed());
    }
    out
}
fn main() {}
