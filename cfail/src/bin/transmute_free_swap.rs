// must NOT compile: moving the view out of a frame by mem::take / replace needs &mut access to a private field
use tokio_imap::ResponseData;
pub fn f(mut frame: ResponseData) -> usize {
    let r = std::mem::replace(&mut frame.response, unreachable!());
    format!("{:?}", r).len()
}
fn main() {}
