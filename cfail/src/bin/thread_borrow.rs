// must NOT compile: a borrowed view sent to a thread that may outlive the frame
use tokio_imap::ResponseData;
pub fn f(frame: ResponseData) {
    let view = frame.parsed();
    std::thread::spawn(move || {
        println!("{:?}", view);
    });
}
fn main() {}
