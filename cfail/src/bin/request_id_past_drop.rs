// must NOT compile: the tag reference outlives the frame
use tokio_imap::ResponseData;
pub fn f(frame: ResponseData) -> usize {
    let id = frame.request_id();
    drop(frame);
    format!("{:?}", id).len()
}
fn main() {}
