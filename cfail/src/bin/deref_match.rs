// must NOT compile: matching on *frame
use tokio_imap::types::Response;
use tokio_imap::ResponseData;
pub fn f(frame: &ResponseData) -> bool {
    matches!(**frame, Response::Done { .. })
}
fn main() {}
