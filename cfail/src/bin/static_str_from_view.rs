// must NOT compile: a string borrowed from the view is given the 'static lifetime
use tokio_imap::types::Response;
use tokio_imap::ResponseData;
pub fn f(frame: &ResponseData) -> &'static str {
    match frame.parsed() {
        Response::Data { information: Some(s), .. } => s.as_ref(),
        _ => "",
    }
}
fn main() {}
