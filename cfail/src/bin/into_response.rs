// must NOT compile: a frame cannot be converted into the response it holds
use tokio_imap::types::Response;
use tokio_imap::ResponseData;
pub fn f(frame: ResponseData) -> Response<'static> {
    frame.into()
}
fn main() {}
