// must NOT compile: reaching the 'static-typed response through deref
use tokio_imap::types::Response;
use tokio_imap::ResponseData;
pub fn f(frame: ResponseData) -> String {
    let r: &Response<'static> = &*frame;
    let copy: Option<&'static str> = match r {
        Response::Data { information: Some(std::borrow::Cow::Borrowed(s)), .. } => Some(*s),
        _ => None,
    };
    drop(frame);
    format!("{:?}", copy)
}
fn main() {}
