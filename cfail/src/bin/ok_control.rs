// CONTROL: must compile. The ordinary way to use a frame.
use tokio_imap::types::Response;
use tokio_imap::ResponseData;
pub fn info_len(frame: &ResponseData) -> usize {
    match frame.parsed() {
        Response::Data { information: Some(s), .. } => s.len(),
        _ => 0,
    }
}
pub fn owned_copy(frame: ResponseData) -> String {
    let s = format!("{:?}", frame.parsed());
    drop(frame);
    s
}
fn main() {}
