// must NOT compile: the parsed view is used after the frame is dropped
use tokio_imap::ResponseData;
pub fn f(frame: ResponseData) -> String {
    let view = frame.parsed();
    drop(frame);
    format!("{:?}", view)
}
fn main() {}
