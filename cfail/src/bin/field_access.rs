// must NOT compile: the fields are private
use tokio_imap::ResponseData;
pub fn f(frame: ResponseData) -> usize {
    let r = frame.response;
    drop(frame.raw);
    format!("{:?}", r).len()
}
fn main() {}
