(* Search aid (not part of any theorem): sentences read off the translated grammar.

   When a proof obligation about the grammar breaks (a new rule, a recursion without a depth guard), the generators
   of the harness know nothing about the new syntax.  This file computes, from the deep embedding itself, for every
   parser function t that can call itself:
     - a byte string that leads the top-level parser to the first call of t        (reach)
     - the bytes consumed along one cycle t -> ... -> t                             (the cycle word)
   and from them the probe  prefix ++ cycle^n.  The probes are fed to the real parser on a small stack.
   Everything here is heuristic: actions (map_res) are ignored, alternatives are chosen by length.  A probe that does
   not do what was hoped is harmless: the oracle only asks for one of the three verdicts. *)
From TI Require Import Bytes Grammar Nom Interp Natives.
From TI.gen Require Import ImapGrammar.
From Coq Require Import List NArith.
Import ListNotations.
Local Open Scope N_scope.

Definition candidates : list byte :=
  [65; 97; 49; 92; 47; 46; 32; 40; 34; 13; 10] ++ map N.of_nat (seq 0 256).

Definition first_in (c : cls) : option byte := find c candidates.

(* rich = false: the shortest word; rich = true: a word that shows more of the leaf (an escape pair, a numeral at the
   top of its range, a literal whose content looks like syntax) *)
Definition leaf_word (rich : bool) (l : leaf) : option (list byte) :=
  match l with
  | LTag s | LTagNC s => Some s
  | LTakeWhile c => if rich then Some (match first_in c with Some b => [b] | None => [] end) else Some []
  | LTakeWhile1 c => option_map (fun b => if rich then [b; b] else [b]) (first_in c)
  | LEscaped normal ctl escs =>
    if rich then match escs with e :: _ => Some [ctl; e] | [] => option_map (fun b => [b]) (first_in normal) end
    else option_map (fun b => [b]) (first_in normal)
  | LNumber bits => if rich then Some (if bits =? 32 then bs "4294967295" else bs "18446744073709551615") else Some [49]
  | LLiteral => if rich then Some (bs "{3}" ++ [13; 10; 41; 13; 10]) else Some [123; 49; 125; 13; 10; 120]
  | LComplete _ => None
  end.

Definition tbl := list (option (list byte)).

Definition lookup (t : tbl) (f : N) : option (list byte) :=
  match nth_error t (N.to_nat f) with Some (Some w) => Some w | _ => None end.

Definition shorter (a b : option (list byte)) : option (list byte) :=
  match a, b with
  | Some x, Some y => if Nat.leb (length x) (length y) then Some x else Some y
  | Some x, None => Some x
  | None, _ => b
  end.

(* a short complete sentence of g, given one for every function *)
Fixpoint word (rich : bool) (W : tbl) (g : G) : option (list byte) :=
  match g with
  | Leaf l => leaf_word rich l
  | Ref f _ => lookup W f
  | Guard _ g' => word rich W g'
  | Seq gs =>
    (fix ws (l : list G) : option (list byte) :=
       match l with
       | [] => Some []
       | x :: l' => match word rich W x, ws l' with Some a, Some b => Some (a ++ b) | _, _ => None end
       end) gs
  | Alt gs =>
    (fix wa (l : list G) : option (list byte) :=
       match l with [] => None | x :: l' => shorter (word rich W x) (wa l') end) gs
  | Opt g' | OptOpt g' | Many0 g' | SepList0 _ g' =>
    if rich then match word rich W g' with Some w => Some w | None => Some [] end else Some []
  | Many1 g' | SepList1 _ g' | Recognize g' | Map _ g' | MapRes _ g' => word rich W g'
  | Unsupported _ => None
  end.

Fixpoint iter_tbl (n : nat) (step : tbl -> tbl) (t : tbl) : tbl :=
  match n with O => t | S n' => iter_tbl n' step (step t) end.

Definition empty_tbl : tbl := map (fun _ => None) all_defs.

Definition words (rich : bool) : tbl :=
  iter_tbl 24 (fun W => map (fun og => match og with Some g => word rich W g | None => None end) all_defs) empty_tbl.

(* bytes after which g is about to call function t, given such prefixes for every function *)
Fixpoint reach (rich : bool) (W R : tbl) (t : N) (g : G) : option (list byte) :=
  match g with
  | Leaf _ | Unsupported _ => None
  | Ref f _ => if f =? t then Some [] else lookup R f
  | Guard _ g' | Opt g' | OptOpt g' | Many0 g' | Many1 g' | Recognize g' | Map _ g' | MapRes _ g' => reach rich W R t g'
  | SepList0 _ g' | SepList1 _ g' => reach rich W R t g'
  | Seq gs =>
    (fix rs (l : list G) : option (list byte) :=
       match l with
       | [] => None
       | x :: l' =>
         match reach rich W R t x with
         | Some p => Some p
         | None => match word rich W x, rs l' with Some a, Some b => Some (a ++ b) | _, _ => None end
         end
       end) gs
  | Alt gs =>
    (fix ra (l : list G) : option (list byte) :=
       match l with [] => None | x :: l' => shorter (reach rich W R t x) (ra l') end) gs
  end.

Definition reach_tbl (W : tbl) (t : N) : tbl :=
  iter_tbl 24 (fun R => map (fun og => match og with Some g => reach false W R t g | None => None end) all_defs) empty_tbl.

Definition probe_of (W : tbl) (t : N) (ns : list N) : list (list byte) :=
  let R := reach_tbl W t in
  match lookup R t, lookup R f_parser_x_parse_response with
  | Some c, Some p =>
    match c with
    | [] => [p]
    | _ => map (fun n => p ++ N.iter n (fun acc => c ++ acc) []) ns
    end
  | _, _ => []
  end.

(* one family of probes per parser function that can call itself *)
Definition probes (ns : list N) : list (list byte) :=
  let W := words false in flat_map (fun k => probe_of W (N.of_nat k) ns) (seq 0 (length all_defs)).

(* ---------------------------------------------------------------- sentences covering every written alternative *)

Definition opt_list (o : option (list byte)) : list (list byte) := match o with Some w => [w] | None => [] end.

(* sentences of g that between them take every alternative and repetition shape written in g itself
   (a call is filled with the one word of the callee) *)
Fixpoint variants (rich : bool) (W : tbl) (g : G) : list (list byte) :=
  match g with
  | Leaf l => opt_list (leaf_word rich l) ++ (if rich then opt_list (leaf_word false l) else [])
  | Ref f _ => opt_list (lookup W f)
  | Guard _ g' | Recognize g' | Map _ g' | MapRes _ g' => variants rich W g'
  | Seq gs =>
    (fix vs (l : list G) (pre : list byte) : list (list byte) :=
       match l with
       | [] => []
       | x :: l' =>
         match word rich W (Seq l') with
         | Some suf => map (fun v => pre ++ v ++ suf) (variants rich W x)
         | None => []
         end ++
         match word rich W x with Some w => vs l' (pre ++ w) | None => [] end
       end) gs []
  | Alt gs => (fix va (l : list G) : list (list byte) := match l with [] => [] | x :: l' => variants rich W x ++ va l' end) gs
  | Opt g' | OptOpt g' => [] :: variants rich W g'
  | Many0 g' => [] :: variants rich W g' ++ match word rich W g' with Some w => [w ++ w] | None => [] end
  | Many1 g' => variants rich W g' ++ match word rich W g' with Some w => [w ++ w] | None => [] end
  | SepList0 s g' =>
    [] :: variants rich W g' ++ match word rich W g', word rich W s with Some w, Some ws => [w ++ ws ++ w] | _, _ => [] end
  | SepList1 s g' =>
    variants rich W g' ++ match word rich W g', word rich W s with Some w, Some ws => [w ++ ws ++ w] | _, _ => [] end
  | Unsupported _ => []
  end.

Definition ctbl := list (option (list byte * list byte)).

Definition clookup (t : ctbl) (f : N) : option (list byte * list byte) :=
  match nth_error t (N.to_nat f) with Some (Some w) => Some w | _ => None end.

Definition cshorter (a b : option (list byte * list byte)) : option (list byte * list byte) :=
  match a, b with
  | Some (p, s), Some (p', s') => if Nat.leb (length p + length s) (length p' + length s') then a else b
  | Some _, None => a
  | None, _ => b
  end.

(* (prefix, suffix) around one call of t inside g *)
Fixpoint ctx (rich : bool) (W : tbl) (C : ctbl) (t : N) (g : G) : option (list byte * list byte) :=
  match g with
  | Leaf _ | Unsupported _ => None
  | Ref f _ => if f =? t then Some ([], []) else clookup C f
  | Guard _ g' | Opt g' | OptOpt g' | Many0 g' | Many1 g' | Recognize g' | Map _ g' | MapRes _ g' => ctx rich W C t g'
  | SepList0 _ g' | SepList1 _ g' => ctx rich W C t g'
  | Seq gs =>
    (fix cs (l : list G) : option (list byte * list byte) :=
       match l with
       | [] => None
       | x :: l' =>
         match ctx rich W C t x, word rich W (Seq l') with
         | Some (p, s), Some suf => Some (p, s ++ suf)
         | _, _ => match word rich W x, cs l' with Some a, Some (p, s) => Some (a ++ p, s) | _, _ => None end
         end
       end) gs
  | Alt gs =>
    (fix ca (l : list G) : option (list byte * list byte) :=
       match l with [] => None | x :: l' => cshorter (ctx rich W C t x) (ca l') end) gs
  end.

Fixpoint iter_ctbl (n : nat) (step : ctbl -> ctbl) (t : ctbl) : ctbl :=
  match n with O => t | S n' => iter_ctbl n' step (step t) end.

Definition ctx_tbl (rich : bool) (W : tbl) (t : N) : ctbl :=
  iter_ctbl 24 (fun C => map (fun og => match og with Some g => ctx rich W C t g | None => None end) all_defs)
    (map (fun _ => None) all_defs).

Definition sentences_of (rich : bool) (W : tbl) (t : N) : list (list byte) :=
  match env t with
  | None => []
  | Some g =>
    let around := if t =? f_parser_x_parse_response then Some ([], []) else clookup (ctx_tbl rich W t) f_parser_x_parse_response in
    match around with
    | Some (p, s) => map (fun v => p ++ v ++ s) (variants rich W g)
    | None => []
    end
  end.

(* for every parser function reachable from the top: whole responses that between them take every alternative
   written in that function *)
Definition sentences (u : unit) : list (list byte) :=
  let W := words false in
  let Wr := words true in
  flat_map (fun k => sentences_of false W (N.of_nat k)) (seq 0 (length all_defs)) ++
  flat_map (fun k => sentences_of true Wr (N.of_nat k)) (seq 0 (length all_defs)).

(* ---- per-function runs (the per-function correspondence): every parser function by its source name, the model's
   answer for it on a buffer, and standalone sentences of it (no surrounding response) that between them take every
   alternative and repetition shape written in it *)
Definition fn_names (u : unit) : list string := map fst gen_defs.

Definition run_fn (k : N) (i : list byte) : res :=
  match env k with
  | Some g => run native_call env (S (length i)) FUEL g 0%nat i
  | None => RFail
  end.

Definition fn_sentences (u : unit) : list (N * list (list byte)) :=
  let W := words false in
  let Wr := words true in
  flat_map (fun k => match env (N.of_nat k) with
                     | Some g => [(N.of_nat k, variants false W g ++ variants true Wr g)]
                     | None => []
                     end) (seq 0 (length all_defs)).
