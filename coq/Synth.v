(* Search aid (not part of any theorem): sentences read off the translated grammar.

   When a proof obligation about the grammar breaks (a new rule, a recursion without a depth guard), the generators
   of the harness know nothing about the new syntax.  This file computes, from the deep embedding itself, for every
   parser function t that can call itself:
     - a byte string that leads the top-level parser to the first call of t        (reach)
     - the bytes consumed along one cycle t -> ... -> t                             (the cycle word)
   and from them the probe  prefix ++ cycle^n.  The probes are fed to the real parser on a small stack.
   Everything here is heuristic: actions (map_res) are ignored, alternatives are chosen by length.  A probe that does
   not do what was hoped is harmless: the oracle only asks for one of the three verdicts. *)
From TI Require Import Bytes Grammar Nom Interp Natives.
From TI.gen Require Import ImapGrammar.
From Coq Require Import List NArith.
Import ListNotations.
Local Open Scope N_scope.

Definition candidates : list byte :=
  [65; 97; 49; 92; 47; 46; 32; 40; 34; 13; 10] ++ map N.of_nat (seq 0 256).

Definition first_in (c : cls) : option byte := find c candidates.

Definition leaf_word (l : leaf) : option (list byte) :=
  match l with
  | LTag s | LTagNC s => Some s
  | LTakeWhile _ => Some []
  | LTakeWhile1 c => option_map (fun b => [b]) (first_in c)
  | LEscaped normal _ _ => option_map (fun b => [b]) (first_in normal)
  | LNumber _ => Some [49]
  | LLiteral => Some [123; 49; 125; 13; 10; 120]
  | LComplete _ => None
  end.

Definition tbl := list (option (list byte)).

Definition lookup (t : tbl) (f : N) : option (list byte) :=
  match nth_error t (N.to_nat f) with Some (Some w) => Some w | _ => None end.

Definition shorter (a b : option (list byte)) : option (list byte) :=
  match a, b with
  | Some x, Some y => if Nat.leb (length x) (length y) then Some x else Some y
  | Some x, None => Some x
  | None, _ => b
  end.

(* a short complete sentence of g, given one for every function *)
Fixpoint word (W : tbl) (g : G) : option (list byte) :=
  match g with
  | Leaf l => leaf_word l
  | Ref f _ => lookup W f
  | Guard _ g' => word W g'
  | Seq gs =>
    (fix ws (l : list G) : option (list byte) :=
       match l with
       | [] => Some []
       | x :: l' => match word W x, ws l' with Some a, Some b => Some (a ++ b) | _, _ => None end
       end) gs
  | Alt gs =>
    (fix wa (l : list G) : option (list byte) :=
       match l with [] => None | x :: l' => shorter (word W x) (wa l') end) gs
  | Opt _ | OptOpt _ | Many0 _ | SepList0 _ _ => Some []
  | Many1 g' | SepList1 _ g' | Recognize g' | Map _ g' | MapRes _ g' => word W g'
  | Unsupported _ => None
  end.

Fixpoint iter_tbl (n : nat) (step : tbl -> tbl) (t : tbl) : tbl :=
  match n with O => t | S n' => iter_tbl n' step (step t) end.

Definition empty_tbl : tbl := map (fun _ => None) all_defs.

Definition words (u : unit) : tbl :=
  iter_tbl 24 (fun W => map (fun og => match og with Some g => word W g | None => None end) all_defs) empty_tbl.

(* bytes after which g is about to call function t, given such prefixes for every function *)
Fixpoint reach (W R : tbl) (t : N) (g : G) : option (list byte) :=
  match g with
  | Leaf _ | Unsupported _ => None
  | Ref f _ => if f =? t then Some [] else lookup R f
  | Guard _ g' | Opt g' | OptOpt g' | Many0 g' | Many1 g' | Recognize g' | Map _ g' | MapRes _ g' => reach W R t g'
  | SepList0 _ g' | SepList1 _ g' => reach W R t g'
  | Seq gs =>
    (fix rs (l : list G) : option (list byte) :=
       match l with
       | [] => None
       | x :: l' =>
         match reach W R t x with
         | Some p => Some p
         | None => match word W x, rs l' with Some a, Some b => Some (a ++ b) | _, _ => None end
         end
       end) gs
  | Alt gs =>
    (fix ra (l : list G) : option (list byte) :=
       match l with [] => None | x :: l' => shorter (reach W R t x) (ra l') end) gs
  end.

Definition reach_tbl (W : tbl) (t : N) : tbl :=
  iter_tbl 24 (fun R => map (fun og => match og with Some g => reach W R t g | None => None end) all_defs) empty_tbl.

Definition probe_of (W : tbl) (t : N) (ns : list N) : list (list byte) :=
  let R := reach_tbl W t in
  match lookup R t, lookup R f_parser_x_parse_response with
  | Some c, Some p =>
    match c with
    | [] => [p]
    | _ => map (fun n => p ++ N.iter n (fun acc => c ++ acc) []) ns
    end
  | _, _ => []
  end.

(* one family of probes per parser function that can call itself *)
Definition probes (ns : list N) : list (list byte) :=
  let W := words tt in flat_map (fun k => probe_of W (N.of_nat k) ns) (seq 0 (length all_defs)).

(* ---------------------------------------------------------------- sentences covering every written alternative *)

Definition opt_list (o : option (list byte)) : list (list byte) := match o with Some w => [w] | None => [] end.

(* sentences of g that between them take every alternative and repetition shape written in g itself
   (a call is filled with the one word of the callee) *)
Fixpoint variants (W : tbl) (g : G) : list (list byte) :=
  match g with
  | Leaf l => opt_list (leaf_word l)
  | Ref f _ => opt_list (lookup W f)
  | Guard _ g' | Recognize g' | Map _ g' | MapRes _ g' => variants W g'
  | Seq gs =>
    (fix vs (l : list G) (pre : list byte) : list (list byte) :=
       match l with
       | [] => []
       | x :: l' =>
         match word W (Seq l') with
         | Some suf => map (fun v => pre ++ v ++ suf) (variants W x)
         | None => []
         end ++
         match word W x with Some w => vs l' (pre ++ w) | None => [] end
       end) gs []
  | Alt gs => (fix va (l : list G) : list (list byte) := match l with [] => [] | x :: l' => variants W x ++ va l' end) gs
  | Opt g' | OptOpt g' => [] :: variants W g'
  | Many0 g' => [] :: variants W g' ++ match word W g' with Some w => [w ++ w] | None => [] end
  | Many1 g' => variants W g' ++ match word W g' with Some w => [w ++ w] | None => [] end
  | SepList0 s g' =>
    [] :: variants W g' ++ match word W g', word W s with Some w, Some ws => [w ++ ws ++ w] | _, _ => [] end
  | SepList1 s g' =>
    variants W g' ++ match word W g', word W s with Some w, Some ws => [w ++ ws ++ w] | _, _ => [] end
  | Unsupported _ => []
  end.

Definition ctbl := list (option (list byte * list byte)).

Definition clookup (t : ctbl) (f : N) : option (list byte * list byte) :=
  match nth_error t (N.to_nat f) with Some (Some w) => Some w | _ => None end.

Definition cshorter (a b : option (list byte * list byte)) : option (list byte * list byte) :=
  match a, b with
  | Some (p, s), Some (p', s') => if Nat.leb (length p + length s) (length p' + length s') then a else b
  | Some _, None => a
  | None, _ => b
  end.

(* (prefix, suffix) around one call of t inside g *)
Fixpoint ctx (W : tbl) (C : ctbl) (t : N) (g : G) : option (list byte * list byte) :=
  match g with
  | Leaf _ | Unsupported _ => None
  | Ref f _ => if f =? t then Some ([], []) else clookup C f
  | Guard _ g' | Opt g' | OptOpt g' | Many0 g' | Many1 g' | Recognize g' | Map _ g' | MapRes _ g' => ctx W C t g'
  | SepList0 _ g' | SepList1 _ g' => ctx W C t g'
  | Seq gs =>
    (fix cs (l : list G) : option (list byte * list byte) :=
       match l with
       | [] => None
       | x :: l' =>
         match ctx W C t x, word W (Seq l') with
         | Some (p, s), Some suf => Some (p, s ++ suf)
         | _, _ => match word W x, cs l' with Some a, Some (p, s) => Some (a ++ p, s) | _, _ => None end
         end
       end) gs
  | Alt gs =>
    (fix ca (l : list G) : option (list byte * list byte) :=
       match l with [] => None | x :: l' => cshorter (ctx W C t x) (ca l') end) gs
  end.

Fixpoint iter_ctbl (n : nat) (step : ctbl -> ctbl) (t : ctbl) : ctbl :=
  match n with O => t | S n' => iter_ctbl n' step (step t) end.

Definition ctx_tbl (W : tbl) (t : N) : ctbl :=
  iter_ctbl 24 (fun C => map (fun og => match og with Some g => ctx W C t g | None => None end) all_defs)
    (map (fun _ => None) all_defs).

Definition sentences_of (W : tbl) (t : N) : list (list byte) :=
  match env t with
  | None => []
  | Some g =>
    let around := if t =? f_parser_x_parse_response then Some ([], []) else clookup (ctx_tbl W t) f_parser_x_parse_response in
    match around with
    | Some (p, s) => map (fun v => p ++ v ++ s) (variants W g)
    | None => []
    end
  end.

(* for every parser function reachable from the top: whole responses that between them take every alternative
   written in that function *)
Definition sentences (u : unit) : list (list byte) :=
  let W := words u in flat_map (fun k => sentences_of W (N.of_nat k)) (seq 0 (length all_defs)).
