(* The hand models in Natives.v (number, literal, opt_opt, the METADATA entry-name stages, the irregular closures) were
   written against a particular source text.  The translator reports, for every function and closure it hands over to
   a hand model, a hash of its token stream (comments and layout do not count; closure parameters are renamed by
   position first, see tools/rs2coq/src/canon.rs).  These are the hashes of the text the models were written for: an
   edit of one of those functions or closures -- which the theorems would otherwise not see, the hand model standing
   in for the code -- breaks this obligation. *)
From Coq Require Import String List Bool.
From TI.gen Require Import ImapGrammar.
Import ListNotations.
Local Open Scope string_scope.

Definition modelled_fn_sources : list (string * string) :=
  [("core::number", "4e13a0e041e7f2aa");
   ("core::number_64", "1a87432a184e328b");
   ("core::literal", "c0e24e91d05c39a4");
   ("core::opt_opt", "12c94bf00526f21f");
   ("rfc3501::ensure_capabilities_contains_imap4rev", "ada537846d8f9b02");
   ("body::section_part", "c8335fd06c410b17");
   ("body_structure::nesting_too_deep", "e980df8c4ff3a160");
   ("rfc4314::map_text_to_rights", "5636aed3de1f6a6c");
   ("rfc5464::check_private_shared", "cf365da65de60d6b");
   ("rfc5464::check_admin", "16251dfb80b089cf");
   ("rfc5464::check_vendor_comment", "967bee1f49e8342b");
   ("rfc5464::check_path", "56140acb36cdece3");
   ("rfc5464::check_entry_name", "5443503293a84861");
   ("rfc5464::entry_name", "76a0c1ad940ddfce");
   ("rfc5464::slice_to_str", "9741f38542fee738")].

Definition modelled_action_sources : list (string * string) :=
  [("core::sequence_range#1", "836c77ee233b1774");
   ("rfc2087::quota_resource_name#1", "91927c296679eac2");
   ("rfc2971::id_param_list_not_nil#1", "89ed0c0f32dcc47b");
   ("rfc2971::resp_id#1", "5c372e687f29c325");
   ("rfc3501::capability#1", "7a2d10b7cf8ac5ad");
   ("rfc3501::ensure_capabilities_contains_imap4rev", "");
   ("rfc3501::mailbox#1", "b413533ed1bb5866");
   ("rfc3501::name_attribute#1", "72f4d8a8752da5a1");
   ("rfc3501::resp_text#1", "f288dcd4a4d253a8");
   ("rfc3501::trailing_resp_text#1", "50fdf7c7cf1c9d47");
   ("rfc4314::list_rights_optional#1", "37a6c0567c30ef33");
   ("rfc4314::map_text_to_rights", "");
   ("rfc4315::uid_range#1", "4b39305dce4532ea");
   ("rfc4315::uid_set#1", "edbae23b2cbdfcad");
   ("rfc5464::slice_to_str", "");
   ("rfc5464::string_value#1", "e446b0251ecfb26a")].

Fixpoint same_table (a b : list (string * string)) : bool :=
  match a, b with
  | [], [] => true
  | (x, h) :: a', (y, k) :: b' => String.eqb x y && String.eqb h k && same_table a' b'
  | _, _ => false
  end.

Lemma same_table_eq a : forall b, same_table a b = true -> a = b.
Proof.
  induction a as [|[x h] a IH]; intros [|[y k] b] H; cbn [same_table] in H; try discriminate; [reflexivity|].
  apply andb_true_iff in H. destruct H as [H Hr]. apply andb_true_iff in H. destruct H as [Hx Hh].
  apply String.eqb_eq in Hx. apply String.eqb_eq in Hh. subst. f_equal. apply IH. exact Hr.
Qed.

Lemma hand_models_match_source_lemma :
  gen_native_fns = modelled_fn_sources /\ gen_native_actions = modelled_action_sources.
Proof. split; apply same_table_eq; vm_compute; reflexivity. Qed.
