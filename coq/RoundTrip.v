(* M11: compositional "this spelling parses to this value" lemmas for the interpreter (C03 / C08 / C12 / C16).
   Ok g d n w v F : on input w ++ rest, for every rest allowed by the follow condition F, every loop bound large
   enough and every fuel >= n, parser g at nesting depth d consumes exactly w and returns v.
   Rej g d n i    : on input i the parser answers Error (so an enclosing alt moves on).
   One lemma per combinator, proved once against Interp.step; rule-level lemmas (RoundTripRules.v) are then
   compositions over the terms of the grammar regenerated from the source. *)
From TI Require Import Bytes Grammar Nom Interp InterpFacts Thm_Fuel.
From Coq Require Import Lia Arith PeanoNat.
Local Open Scope N_scope.

Section RT.
Variable natf : string -> list val -> ares.
Variable env : N -> option G.
Variable rk : N -> nat -> N.
Hypothesis rank_ok : forall f g d, env f = Some g -> need rk g d <= rk f d.

(* fuel: whatever the static call-depth bound of Thm_Fuel asks for (need rk g d); no numbers appear in the statements *)
Definition Ok (g : G) (d : nat) (w : list byte) (v : val) (F : list byte -> Prop) : Prop :=
  forall b f rest, need rk g d <= N.of_nat f -> (length (w ++ rest) < b)%nat -> F rest ->
    run natf env b f g d (w ++ rest) = ROk rest v (nlen w).

Definition Rej (g : G) (d : nat) (i : list byte) : Prop :=
  forall b f, need rk g d <= N.of_nat f -> (length i < b)%nat -> run natf env b f g d i = RErr.

Definition any : list byte -> Prop := fun _ => True.
(* the continuation is non-empty and starts with a byte outside the class (streaming take_while stops there) *)
Definition stops_at (c : cls) : list byte -> Prop := fun rest => match rest with x :: _ => c x = false | [] => False end.

Lemma Ok_follow g d w v (F F' : list byte -> Prop) : Ok g d w v F -> (forall r, F' r -> F r) -> Ok g d w v F'.
Proof. intros H HF b f rest Hf Hb Hr. apply H; [exact Hf | exact Hb | apply HF; exact Hr]. Qed.

Ltac fuel_S f Hf := destruct f as [|f]; [exfalso; cbn [need] in Hf; lia|]; rewrite run_S; cbn [step].

(* ---------------------------------------------------------------- leaves *)
Lemma tag_scan_exact eq s rest : (forall a, eq a a = true) -> tag_scan eq s (s ++ rest) = SOk s rest.
Proof. intro Hr. induction s as [|a s IH]; cbn [tag_scan app]; [reflexivity|]. rewrite Hr, IH. reflexivity. Qed.

Lemma ok_tag s d : Ok (Leaf (LTag s)) d s (VBytes s) any.
Proof.
  intros b f rest Hf _ _. fuel_S f Hf. cbn [leaf_run]. rewrite tag_scan_exact; [reflexivity|].
  intro a. unfold eq_case. apply N.eqb_refl.
Qed.

Fixpoint same_nocase (s w : list byte) : bool :=
  match s, w with
  | [], [] => true
  | a :: s', b :: w' => eq_nocase1 a b && same_nocase s' w'
  | _, _ => false
  end.

Lemma tag_scan_nocase s w rest : same_nocase s w = true -> tag_scan eq_nocase1 s (w ++ rest) = SOk w rest.
Proof.
  revert w; induction s as [|a s IH]; intros [|b w] H; try discriminate; cbn [tag_scan app]; [reflexivity|].
  cbn [same_nocase] in H. apply andb_true_iff in H. destruct H as [H1 H2]. rewrite H1, (IH w H2). reflexivity.
Qed.

(* a keyword in any letter case *)
Lemma ok_tag_nc s w d : same_nocase s w = true -> Ok (Leaf (LTagNC s)) d w (VBytes w) any.
Proof.
  intros H b f rest Hf _ _. fuel_S f Hf. cbn [leaf_run]. rewrite (tag_scan_nocase s w rest H). reflexivity.
Qed.

Lemma rej_tag a s b i d : (a =? b) = false -> Rej (Leaf (LTag (a :: s))) d (b :: i).
Proof.
  intros H bb f Hf _. fuel_S f Hf. cbn [leaf_run tag_scan]. unfold eq_case. rewrite H. reflexivity.
Qed.
Lemma rej_tag_nc a s b i d : eq_nocase1 a b = false -> Rej (Leaf (LTagNC (a :: s))) d (b :: i).
Proof.
  intros H bb f Hf _. fuel_S f Hf. cbn [leaf_run tag_scan]. rewrite H. reflexivity.
Qed.

Lemma span_all c w rest : forallb c w = true -> stops_at c rest -> span c (w ++ rest) = Some (w, rest).
Proof.
  intros Hw Hr. induction w as [|x w IH]; cbn [app].
  - destruct rest as [|y r]; [destruct Hr|]. cbn [span]. cbn in Hr. rewrite Hr. reflexivity.
  - cbn [forallb] in Hw. apply andb_true_iff in Hw. destruct Hw as [Hx Hw]. cbn [span]. rewrite Hx, (IH Hw). reflexivity.
Qed.

Lemma ok_take_while1 c w d : forallb c w = true -> w <> [] -> Ok (Leaf (LTakeWhile1 c)) d w (VBytes w) (stops_at c).
Proof.
  intros Hw Hne b f rest Hf _ Hr. fuel_S f Hf. cbn [leaf_run]. rewrite (span_all c w rest Hw Hr).
  destruct w; [contradiction|reflexivity].
Qed.
Lemma ok_take_while c w d : forallb c w = true -> Ok (Leaf (LTakeWhile c)) d w (VBytes w) (stops_at c).
Proof.
  intros Hw b f rest Hf _ Hr. fuel_S f Hf. cbn [leaf_run]. rewrite (span_all c w rest Hw Hr). reflexivity.
Qed.
Lemma rej_take_while1 c x i d : c x = false -> Rej (Leaf (LTakeWhile1 c)) d (x :: i).
Proof. intros H b f Hf _. fuel_S f Hf. cbn [leaf_run span]. rewrite H. reflexivity. Qed.

(* a leaf whose behaviour on this input is known *)
Lemma ok_leaf l d w v (F : list byte -> Prop) :
  (forall rest, F rest -> leaf_run l (w ++ rest) = ROk rest v (nlen w)) -> Ok (Leaf l) d w v F.
Proof. intros H b f rest Hf _ Hr. fuel_S f Hf. apply H, Hr. Qed.

(* ---------------------------------------------------------------- structure *)
Lemma ok_ref f da g' d w v F : env f = Some g' -> Ok g' (apply_darg da d) w v F -> Ok (Ref f da) d w v F.
Proof.
  intros He H b fu rest Hf Hb Hr. pose proof (rank_ok _ _ (apply_darg da d) He) as Hrk.
  cbn [need] in Hf. destruct fu as [|fu]; [exfalso; lia|]. rewrite run_S. cbn [step]. rewrite He.
  apply H; [lia | exact Hb | exact Hr].
Qed.
Lemma rej_ref f da g' d i : env f = Some g' -> Rej g' (apply_darg da d) i -> Rej (Ref f da) d i.
Proof.
  intros He H b fu Hf Hb. pose proof (rank_ok _ _ (apply_darg da d) He) as Hrk.
  cbn [need] in Hf. destruct fu as [|fu]; [exfalso; lia|]. rewrite run_S. cbn [step]. rewrite He.
  apply H; [lia | exact Hb].
Qed.

Lemma pos_fuel g d f : need rk g d <= N.of_nat f -> exists f', f = S f'.
Proof. intro H. pose proof (need_pos rk g d). destruct f as [|f']; [exfalso; lia | exists f'; reflexivity]. Qed.

Ltac sub_S f Hf := let f' := fresh "f" in destruct (pos_fuel _ _ _ Hf) as [f' ->]; rewrite run_S; cbn [step].

Lemma ok_guard max g d w v F : (d < max)%nat -> Ok g d w v F -> Ok (Guard max g) d w v F.
Proof.
  intros Hd H b f rest Hf Hb Hr.
  assert (Hl : Nat.leb max d = false) by (apply Nat.leb_gt; exact Hd).
  cbn [need] in Hf. rewrite Hl in Hf. sub_S f Hf. rewrite Hl. apply H; [exact Hf | exact Hb | exact Hr].
Qed.

Lemma ok_map a g d w v v' F : Ok g d w v F -> act natf a v = AVal v' -> Ok (Map a g) d w v' F.
Proof.
  intros H Ha b f rest Hf Hb Hr. cbn [need] in Hf. pose proof (H b f rest Hf Hb Hr) as H'.
  sub_S f Hf. rewrite H', Ha. reflexivity.
Qed.
Lemma ok_mapres a g d w v v' F : Ok g d w v F -> act natf a v = AVal v' -> Ok (MapRes a g) d w v' F.
Proof.
  intros H Ha b f rest Hf Hb Hr. cbn [need] in Hf. pose proof (H b f rest Hf Hb Hr) as H'.
  sub_S f Hf. rewrite H', Ha. reflexivity.
Qed.
Lemma rej_map a g d i : Rej g d i -> Rej (Map a g) d i.
Proof. intros H b f Hf Hb. cbn [need] in Hf. pose proof (H b f Hf Hb) as H'. sub_S f Hf. rewrite H'. reflexivity. Qed.
Lemma rej_mapres a g d i : Rej g d i -> Rej (MapRes a g) d i.
Proof. intros H b f Hf Hb. cbn [need] in Hf. pose proof (H b f Hf Hb) as H'. sub_S f Hf. rewrite H'. reflexivity. Qed.
(* the inner parser accepts but the fallible conversion refuses *)
Lemma rej_mapres_act a g d w v (F : list byte -> Prop) rest : Ok g d w v F -> F rest -> act natf a v = AErr -> Rej (MapRes a g) d (w ++ rest).
Proof.
  intros H Hr Ha b f Hf Hb. cbn [need] in Hf. pose proof (H b f rest Hf Hb Hr) as H'. sub_S f Hf. rewrite H', Ha. reflexivity.
Qed.

Lemma take_used_app (w rest : list byte) : take_used (N.of_nat (length w)) (w ++ rest) = w.
Proof.
  induction w as [|x w IH]; [destruct rest; reflexivity|].
  cbn [length app]. replace (N.of_nat (S (length w))) with (N.succ (N.of_nat (length w))) by lia.
  cbn [take_used]. destruct (N.succ (N.of_nat (length w)) =? 0) eqn:E; [apply N.eqb_eq in E; lia|].
  rewrite N.pred_succ, IH. reflexivity.
Qed.

Lemma ok_recognize g d w v F : Ok g d w v F -> Ok (Recognize g) d w (VBytes w) F.
Proof.
  intros H b f rest Hf Hb Hr. cbn [need] in Hf. pose proof (H b f rest Hf Hb Hr) as H'. sub_S f Hf. rewrite H'.
  f_equal. f_equal. rewrite nlen_spec. apply take_used_app.
Qed.

Lemma rej_recognize g d i : Rej g d i -> Rej (Recognize g) d i.
Proof. intros H b f Hf Hb. cbn [need] in Hf. pose proof (H b f Hf Hb) as H'. sub_S f Hf. rewrite H'. reflexivity. Qed.

(* alternatives *)
Lemma need_alt_cons g gs d : need rk (Alt (g :: gs)) d = N.max (need rk g d) (need rk (Alt gs) d).
Proof. reflexivity. Qed.
Lemma need_seq_cons g gs d : need rk (Seq (g :: gs)) d = N.max (need rk g d) (need rk (Seq gs) d).
Proof. reflexivity. Qed.

Lemma ok_alt_here g gs d w v F : Ok g d w v F -> Ok (Alt (g :: gs)) d w v F.
Proof.
  intros H b f rest Hf Hb Hr. destruct (pos_fuel _ _ _ Hf) as [f' ->]. rewrite need_alt_cons in Hf.
  pose proof (H b (S f') rest ltac:(lia) Hb Hr) as H'.
  rewrite run_S. cbn [step alt_run]. rewrite H'. reflexivity.
Qed.
Lemma ok_alt_skip g gs d w v (F : list byte -> Prop) :
  (forall rest, F rest -> Rej g d (w ++ rest)) -> Ok (Alt gs) d w v F -> Ok (Alt (g :: gs)) d w v F.
Proof.
  intros Hrej H b f rest Hf Hb Hr. destruct (pos_fuel _ _ _ Hf) as [f' ->]. rewrite need_alt_cons in Hf.
  pose proof (H b (S f') rest ltac:(lia) Hb Hr) as H'. pose proof (Hrej rest Hr b (S f') ltac:(lia) Hb) as R'.
  rewrite run_S. rewrite (run_S _ _ _ _ (Alt gs)) in H'. cbn [step] in H' |- *. cbn [alt_run]. rewrite R'. exact H'.
Qed.
Lemma rej_alt_nil d i : Rej (Alt []) d i.
Proof. intros b f Hf _. sub_S f Hf. reflexivity. Qed.
Lemma rej_alt_cons g gs d i : Rej g d i -> Rej (Alt gs) d i -> Rej (Alt (g :: gs)) d i.
Proof.
  intros H1 H2 b f Hf Hb. destruct (pos_fuel _ _ _ Hf) as [f' ->]. rewrite need_alt_cons in Hf.
  pose proof (H1 b (S f') ltac:(lia) Hb) as R1. pose proof (H2 b (S f') ltac:(lia) Hb) as R2.
  rewrite run_S. rewrite (run_S _ _ _ _ (Alt gs)) in R2. cbn [step] in R2 |- *. cbn [alt_run]. rewrite R1. exact R2.
Qed.

(* optional parts *)
Lemma ok_opt_some g d w v F : Ok g d w v F -> Ok (Opt g) d w (VSome v) F.
Proof. intros H b f rest Hf Hb Hr. cbn [need] in Hf. pose proof (H b f rest Hf Hb Hr) as H'. sub_S f Hf. rewrite H'. reflexivity. Qed.
Lemma ok_opt_none g d (F : list byte -> Prop) : (forall rest, F rest -> Rej g d rest) -> Ok (Opt g) d [] VNone F.
Proof.
  intros H b f rest Hf Hb Hr. cbn [need] in Hf. cbn [app] in *. pose proof (H rest Hr b f Hf Hb) as H'. sub_S f Hf. rewrite H'. reflexivity.
Qed.

Lemma ok_optopt_some g d w v F : Ok g d w v F -> Ok (OptOpt g) d w v F.
Proof. intros H b f rest Hf Hb Hr. cbn [need] in Hf. pose proof (H b f rest Hf Hb Hr) as H'. sub_S f Hf. rewrite H'. reflexivity. Qed.
Lemma ok_optopt_none g d (F : list byte -> Prop) : (forall rest, F rest -> Rej g d rest) -> Ok (OptOpt g) d [] VNone F.
Proof.
  intros H b f rest Hf Hb Hr. cbn [need] in Hf. cbn [app] in *. pose proof (H rest Hr b f Hf Hb) as H'. sub_S f Hf. rewrite H'. reflexivity.
Qed.

(* sequences: an auxiliary statement about seq_run with accumulators, then the interface *)
Definition OkSeq (gs : list G) (d : nat) (w : list byte) (vs : list val) (F : list byte -> Prop) : Prop :=
  forall b f rest acc used, need rk (Seq gs) d <= N.of_nat f -> (length (w ++ rest) < b)%nat -> F rest ->
    seq_run (run natf env b f) gs d (w ++ rest) acc used = ROk rest (VTuple (rev acc ++ vs)) (used + nlen w).

Lemma okseq_nil d (F : list byte -> Prop) : OkSeq [] d [] [] F.
Proof.
  intros b f rest acc used _ _ _. cbn [seq_run app]. rewrite app_nil_r. f_equal. unfold nlen. cbn. lia.
Qed.

Lemma okseq_cons g gs d w1 w2 v vs (F1 F2 : list byte -> Prop) :
  Ok g d w1 v F1 -> OkSeq gs d w2 vs F2 -> (forall rest, F2 rest -> F1 (w2 ++ rest)) ->
  OkSeq (g :: gs) d (w1 ++ w2) (v :: vs) F2.
Proof.
  intros H1 H2 HF b f rest acc used Hf Hb Hr. rewrite need_seq_cons in Hf. cbn [seq_run]. rewrite <- app_assoc in *.
  rewrite (H1 b f (w2 ++ rest) ltac:(lia) Hb (HF rest Hr)).
  rewrite (H2 b f rest (v :: acc) (used + nlen w1) ltac:(lia)); [| rewrite ?app_length in *; lia | exact Hr].
  cbn [rev]. rewrite <- app_assoc. cbn [app]. f_equal. rewrite nlen_app. lia.
Qed.

Lemma rej_seq_head g gs d i : Rej g d i -> Rej (Seq (g :: gs)) d i.
Proof.
  intros H b f Hf Hb. destruct (pos_fuel _ _ _ Hf) as [f' ->]. rewrite need_seq_cons in Hf.
  pose proof (H b (S f') ltac:(lia) Hb) as R. rewrite run_S. cbn [step seq_run]. rewrite R. reflexivity.
Qed.

Lemma ok_seq gs d w vs F : OkSeq gs d w vs F -> Ok (Seq gs) d w (VTuple vs) F.
Proof.
  intros H b f rest Hf Hb Hr. pose proof (H b f rest [] 0 Hf Hb Hr) as H'. sub_S f Hf. exact H'.
Qed.

(* many0 / many1: the elements one after the other, then a continuation on which the element parser says Error *)
Definition OkMany (g : G) (d : nat) (w : list byte) (vs : list val) (F : list byte -> Prop) : Prop :=
  forall b f rest acc used k, need rk g d <= N.of_nat f -> (length (w ++ rest) < k)%nat -> (length (w ++ rest) < b)%nat -> F rest ->
    many_loop (run natf env b f g d) k (w ++ rest) acc used = ROk rest (VList (rev acc ++ vs)) (used + nlen w).

Lemma okmany_nil g d (F : list byte -> Prop) : (forall rest, F rest -> Rej g d rest) -> OkMany g d [] [] F.
Proof.
  intros H b f rest acc used k Hf Hk Hb Hr. cbn [app] in *. destruct k as [|k]; [lia|]. cbn [many_loop].
  rewrite (H rest Hr b f Hf Hb). rewrite app_nil_r. f_equal. unfold nlen. cbn. lia.
Qed.

Lemma okmany_cons g d w1 w2 v vs (F1 F2 : list byte -> Prop) :
  Ok g d w1 v F1 -> w1 <> [] -> OkMany g d w2 vs F2 -> (forall rest, F2 rest -> F1 (w2 ++ rest)) ->
  OkMany g d (w1 ++ w2) (v :: vs) F2.
Proof.
  intros H1 Hne H2 HF b f rest acc used k Hf Hk Hb Hr. rewrite <- app_assoc in *.
  destruct k as [|k]; [lia|]. cbn [many_loop].
  rewrite (H1 b f (w2 ++ rest) Hf Hb (HF rest Hr)).
  assert (Hz : (nlen w1 =? 0) = false).
  { apply N.eqb_neq. intro E. apply nlen_zero in E. contradiction. }
  rewrite Hz.
  assert (Hl : (0 < length w1)%nat) by (destruct w1; [contradiction | cbn; lia]).
  rewrite (H2 b f rest (v :: acc) (used + nlen w1) k Hf); [| rewrite ?app_length in *; lia | rewrite ?app_length in *; lia | exact Hr].
  cbn [rev]. rewrite <- app_assoc. cbn [app]. f_equal. rewrite nlen_app. lia.
Qed.

Lemma ok_many0 g d w vs F : OkMany g d w vs F -> Ok (Many0 g) d w (VList vs) F.
Proof.
  intros H b f rest Hf Hb Hr. cbn [need] in Hf. pose proof (H b f rest [] 0 b Hf Hb Hb Hr) as H'. sub_S f Hf. exact H'.
Qed.

Lemma ok_many1 g d w1 w2 v vs (F1 F2 : list byte -> Prop) :
  Ok g d w1 v F1 -> OkMany g d w2 vs F2 -> (forall rest, F2 rest -> F1 (w2 ++ rest)) ->
  Ok (Many1 g) d (w1 ++ w2) (VList (v :: vs)) F2.
Proof.
  intros H1 H2 HF b f rest Hf Hb Hr. cbn [need] in Hf. rewrite <- app_assoc in *.
  pose proof (H1 b f (w2 ++ rest) Hf Hb (HF rest Hr)) as A.
  pose proof (H2 b f rest [v] (nlen w1) b Hf) as B.
  sub_S f Hf. rewrite A, B; [| rewrite ?app_length in *; lia | rewrite ?app_length in *; lia | exact Hr].
  cbn [rev app]. f_equal. rewrite nlen_app. reflexivity.
Qed.

(* separated lists: after the first element, (separator element)*, then a continuation where the separator says Error *)
Definition OkSep (s g : G) (d : nat) (w : list byte) (vs : list val) (F : list byte -> Prop) : Prop :=
  forall b f rest acc used k, N.max (need rk s d) (need rk g d) <= N.of_nat f -> (length (w ++ rest) < k)%nat -> (length (w ++ rest) < b)%nat -> F rest ->
    sep_loop (run natf env b f s d) (run natf env b f g d) k (w ++ rest) acc used = ROk rest (VList (rev acc ++ vs)) (used + nlen w).

Lemma oksep_nil s g d (F : list byte -> Prop) : (forall rest, F rest -> Rej s d rest) -> OkSep s g d [] [] F.
Proof.
  intros H b f rest acc used k Hf Hk Hb Hr. cbn [app] in *. destruct k as [|k]; [lia|]. cbn [sep_loop].
  rewrite (H rest Hr b f ltac:(lia) Hb). rewrite app_nil_r. f_equal. unfold nlen. cbn. lia.
Qed.

(* the list also ends where a separator is present but no element follows it: the separator is given back *)
Lemma oksep_nil_elem s g d (F : list byte -> Prop) :
  (forall rest, F rest -> Rej s d rest \/
     exists ws sv r2 (Fs : list byte -> Prop), rest = ws ++ r2 /\ Ok s d ws sv Fs /\ Fs r2 /\ ws <> [] /\ Rej g d r2) ->
  OkSep s g d [] [] F.
Proof.
  intros H b f rest acc used k Hf Hk Hb Hr. cbn [app] in *. destruct k as [|k]; [lia|]. cbn [sep_loop].
  destruct (H rest Hr) as [R | (ws & sv & r2 & Fs & -> & Hs & HFs & Hne & Rg)].
  - rewrite (R b f ltac:(lia) Hb). rewrite app_nil_r. f_equal. unfold nlen. cbn. lia.
  - rewrite (Hs b f r2 ltac:(lia) Hb HFs).
    assert (Hz : (nlen ws =? 0) = false).
    { apply N.eqb_neq. intro E. apply nlen_zero in E. contradiction. }
    rewrite Hz. rewrite (Rg b f ltac:(lia)); [| rewrite app_length in Hb; lia].
    rewrite app_nil_r. f_equal. unfold nlen. cbn. lia.
Qed.

Lemma oksep_cons s g d ws sv w1 w2 v vs (Fs F1 F2 : list byte -> Prop) :
  Ok s d ws sv Fs -> ws <> [] -> Ok g d w1 v F1 -> OkSep s g d w2 vs F2 ->
  (forall rest, F2 rest -> F1 (w2 ++ rest)) -> (forall rest, F2 rest -> Fs (w1 ++ w2 ++ rest)) ->
  OkSep s g d (ws ++ w1 ++ w2) (v :: vs) F2.
Proof.
  intros Hs Hne H1 H2 HF1 HFs b f rest acc used k Hf Hk Hb Hr. repeat rewrite <- app_assoc in *.
  destruct k as [|k]; [lia|]. cbn [sep_loop].
  rewrite (Hs b f (w1 ++ w2 ++ rest) ltac:(lia) Hb (HFs rest Hr)).
  assert (Hz : (nlen ws =? 0) = false).
  { apply N.eqb_neq. intro E. apply nlen_zero in E. contradiction. }
  rewrite Hz.
  assert (Hl : (0 < length ws)%nat) by (destruct ws; [contradiction | cbn; lia]).
  rewrite (H1 b f (w2 ++ rest) ltac:(lia)); [| rewrite ?app_length in *; lia | exact (HF1 rest Hr)].
  rewrite (H2 b f rest (v :: acc) (used + nlen ws + nlen w1) k Hf); [| rewrite ?app_length in *; lia | rewrite ?app_length in *; lia | exact Hr].
  cbn [rev]. rewrite <- app_assoc. cbn [app]. f_equal. rewrite !nlen_app. lia.
Qed.

Lemma ok_seplist0_empty s g d (F : list byte -> Prop) : (forall rest, F rest -> Rej g d rest) -> Ok (SepList0 s g) d [] (VList []) F.
Proof.
  intros H b f rest Hf Hb Hr. destruct (pos_fuel _ _ _ Hf) as [f' ->]. cbn [need] in Hf. cbn [app] in *. pose proof (H rest Hr b (S f') ltac:(lia) Hb) as R.
  rewrite run_S; cbn [step]. rewrite R. reflexivity.
Qed.

Lemma ok_seplist0 s g d w1 w2 v vs (F1 F2 : list byte -> Prop) :
  Ok g d w1 v F1 -> OkSep s g d w2 vs F2 -> (forall rest, F2 rest -> F1 (w2 ++ rest)) ->
  Ok (SepList0 s g) d (w1 ++ w2) (VList (v :: vs)) F2.
Proof.
  intros H1 H2 HF b f rest Hf Hb Hr. destruct (pos_fuel _ _ _ Hf) as [f' ->]. cbn [need] in Hf. rewrite <- app_assoc in *.
  pose proof (H1 b (S f') (w2 ++ rest) ltac:(lia) Hb (HF rest Hr)) as A.
  pose proof (H2 b (S f') rest [v] (nlen w1) b Hf) as B.
  rewrite run_S; cbn [step]. rewrite A, B; [| rewrite ?app_length in *; lia | rewrite ?app_length in *; lia | exact Hr].
  cbn [rev app]. f_equal. rewrite nlen_app. reflexivity.
Qed.

Lemma ok_seplist1 s g d w1 w2 v vs (F1 F2 : list byte -> Prop) :
  Ok g d w1 v F1 -> OkSep s g d w2 vs F2 -> (forall rest, F2 rest -> F1 (w2 ++ rest)) ->
  Ok (SepList1 s g) d (w1 ++ w2) (VList (v :: vs)) F2.
Proof.
  intros H1 H2 HF b f rest Hf Hb Hr. destruct (pos_fuel _ _ _ Hf) as [f' ->]. cbn [need] in Hf. rewrite <- app_assoc in *.
  pose proof (H1 b (S f') (w2 ++ rest) ltac:(lia) Hb (HF rest Hr)) as A.
  pose proof (H2 b (S f') rest [v] (nlen w1) b Hf) as B.
  rewrite run_S; cbn [step]. rewrite A, B; [| rewrite ?app_length in *; lia | rewrite ?app_length in *; lia | exact Hr].
  cbn [rev app]. f_equal. rewrite nlen_app. reflexivity.
Qed.

(* ---------------------------------------------------------------- rejection by the leading keyword / punctuation
   fails_on n g k = true: on any input that starts (letter case aside) with the bytes k, parser g answers Error
   before anything else can happen -- its first leaf is a tag, class or number that cannot match.  Computed
   over the grammar term (n bounds the unfolding of references); used to skip the alternatives of an alt. *)
Fixpoint nocase_mismatch (s k : list byte) : bool :=
  match s, k with
  | a :: s', b :: k' => if eq_nocase1 a b then nocase_mismatch s' k' else true
  | _, _ => false
  end.

Definition variants (b : byte) : list byte :=
  let l := lower b in if (97 <=? l) && (l <=? 122) then [l; l - 32] else [l].

Definition class_rejects (c : cls) (k : list byte) : bool :=
  match k with b :: _ => forallb (fun x => negb (c x)) (variants b) | [] => false end.

Fixpoint fails_on (n : nat) (g : G) (k : list byte) {struct n} : bool :=
  match n with
  | O => false
  | S n' =>
    (fix go (g : G) : bool :=
       match g with
       | Leaf (LTag s) | Leaf (LTagNC s) => nocase_mismatch s k
       | Leaf (LTakeWhile1 c) => class_rejects c k
       | Leaf (LNumber _) => class_rejects nom_is_digit k
       | Leaf LLiteral => class_rejects (fun b => b =? 123) k
       | Leaf _ => false
       | Ref f _ => match env f with Some g' => fails_on n' g' k | None => false end
       | Guard _ g' | Recognize g' | Map _ g' | MapRes _ g' | Many1 g' | SepList1 _ g' => go g'
       | Seq (g' :: _) => go g'
       | Alt gs => (fix all (l : list G) : bool := match l with [] => true | x :: l' => go x && all l' end) gs
       | _ => false
       end) g
  end.

Lemma lower_variants a b : eq_nocase1 a b = true -> In b (variants a).
Proof.
  unfold eq_nocase1, variants, lower, is_upper. intro H. apply N.eqb_eq in H.
  destruct ((65 <=? a) && (a <=? 90)) eqn:Ea; destruct ((65 <=? b) && (b <=? 90)) eqn:Eb;
    repeat match goal with E : (_ && _) = true |- _ => apply andb_true_iff in E; destruct E as [? ?] end;
    repeat match goal with E : (_ <=? _) = true |- _ => apply N.leb_le in E end.
  - assert (a = b) by lia. subst. replace ((97 <=? b + 32) && (b + 32 <=? 122)) with true by (symmetry; apply andb_true_iff; split; apply N.leb_le; lia).
    right. left. lia.
  - subst b. replace ((97 <=? a + 32) && (a + 32 <=? 122)) with true by (symmetry; apply andb_true_iff; split; apply N.leb_le; lia).
    left. reflexivity.
  - subst a. replace ((97 <=? b + 32) && (b + 32 <=? 122)) with true by (symmetry; apply andb_true_iff; split; apply N.leb_le; lia).
    right. left. lia.
  - subst b. destruct ((97 <=? a) && (a <=? 122)); left; reflexivity.
Qed.

Lemma nocase_mismatch_scan eqf s k w rest : eqf = eq_case \/ eqf = eq_nocase1 ->
  nocase_mismatch s k = true -> same_nocase k w = true -> tag_scan eqf s (w ++ rest) = SErr.
Proof.
  intros He. revert k w. induction s as [|a s IH]; intros [|b k] [|c w] Hm Hs; try discriminate.
  cbn [nocase_mismatch] in Hm. cbn [same_nocase] in Hs. apply andb_true_iff in Hs. destruct Hs as [Hbc Hs].
  cbn [app tag_scan].
  assert (Hlow : lower b = lower c) by (unfold eq_nocase1 in Hbc; apply N.eqb_eq in Hbc; exact Hbc).
  destruct (eq_nocase1 a b) eqn:Eab.
  - (* equal here up to case: the scan either fails here (exact comparison) or goes on *)
    destruct (eqf a c) eqn:Eac; [|reflexivity]. rewrite (IH k w Hm Hs). reflexivity.
  - (* different letters: neither comparison can succeed *)
    assert (Hne : lower a <> lower c).
    { unfold eq_nocase1 in Eab. apply N.eqb_neq in Eab. rewrite <- Hlow. exact Eab. }
    assert (Eac : eqf a c = false).
    { destruct He as [-> | ->].
      - unfold eq_case. apply N.eqb_neq. intros ->. apply Hne. reflexivity.
      - unfold eq_nocase1. apply N.eqb_neq. exact Hne. }
    rewrite Eac. reflexivity.
Qed.

Lemma class_rejects_first c k w : class_rejects c k = true -> same_nocase k w = true ->
  exists b w', w = b :: w' /\ c b = false.
Proof.
  destruct k as [|a k]; [discriminate|]. destruct w as [|b w]; [discriminate|]. cbn [class_rejects same_nocase].
  intros Hc Hs. apply andb_true_iff in Hs. destruct Hs as [Hab _]. exists b, w. split; [reflexivity|].
  rewrite forallb_forall in Hc. specialize (Hc b (lower_variants a b Hab)). apply negb_true_iff in Hc. exact Hc.
Qed.

Lemma same_nocase_refl w : same_nocase w w = true.
Proof. induction w as [|a w IH]; [reflexivity|]. cbn [same_nocase]. unfold eq_nocase1. rewrite N.eqb_refl. exact IH. Qed.

(* a keyword that differs from the input at some position both still have *)
Lemma rej_tag_nc_mismatch s w rest d : nocase_mismatch s w = true -> Rej (Leaf (LTagNC s)) d (w ++ rest).
Proof.
  intros Hm b f Hf _. fuel_S f Hf. cbn [leaf_run].
  rewrite (nocase_mismatch_scan eq_nocase1 s w w rest (or_intror eq_refl) Hm (same_nocase_refl w)). reflexivity.
Qed.

Lemma fails_on_sound : forall n g k, fails_on n g k = true ->
  forall d ww rest, same_nocase k ww = true -> Rej g d (ww ++ rest).
Proof.
  induction n as [|n IHn]; intros g k Hf; [discriminate|].
  induction g using G_ind'; intros dp ww rest Hs; cbn [fails_on] in Hf; try discriminate.
  - (* Leaf *)
    intros b f Hfu Hb. sub_S f Hfu. destruct l; try discriminate; cbn [leaf_run].
    + rewrite (nocase_mismatch_scan eq_case s k ww rest (or_introl eq_refl) Hf Hs). reflexivity.
    + rewrite (nocase_mismatch_scan eq_nocase1 s k ww rest (or_intror eq_refl) Hf Hs). reflexivity.
    + destruct (class_rejects_first c k ww Hf Hs) as (x & w' & -> & Hx). cbn [app span]. rewrite Hx. reflexivity.
    + destruct (class_rejects_first _ k ww Hf Hs) as (x & w' & -> & Hx). cbn [app]. unfold number_p. cbn [span]. rewrite Hx. reflexivity.
    + destruct (class_rejects_first _ k ww Hf Hs) as (x & w' & -> & Hx). cbn [app]. unfold literal_p. cbn [tag_scan].
      unfold eq_case. rewrite N.eqb_sym. rewrite Hx. reflexivity.
  - (* Ref *)
    destruct (env f) as [g'|] eqn:E; [|discriminate]. apply (rej_ref _ _ _ _ _ E). apply (IHn g' k Hf). exact Hs.
  - (* Guard *)
    intros b f Hfu Hb. destruct (pos_fuel _ _ _ Hfu) as [f' ->]. rewrite run_S. cbn [step].
    destruct (Nat.leb m dp) eqn:El; [reflexivity|]. cbn [need] in Hfu. rewrite El in Hfu.
    exact (IHg Hf dp ww rest Hs b (S f') Hfu Hb).
  - (* Seq *)
    destruct gs as [|x gs]; [discriminate|]. inversion H as [|? ? Hx _]; subst. apply rej_seq_head. apply (Hx Hf dp ww rest Hs).
  - (* Alt *)
    induction gs as [|x gs IHgs]; [apply rej_alt_nil|].
    inversion H as [|? ? Hx Hgs]; subst. apply andb_true_iff in Hf. destruct Hf as [Hfx Hfgs].
    apply rej_alt_cons; [apply (Hx Hfx dp ww rest Hs) | apply IHgs; assumption].
  - (* Many1 *)
    intros b f Hfu Hb. cbn [need] in Hfu. pose proof (IHg Hf dp ww rest Hs b f Hfu Hb) as R. sub_S f Hfu. rewrite R. reflexivity.
  - (* SepList1 *)
    intros b f Hfu Hb. destruct (pos_fuel _ _ _ Hfu) as [f' ->]. cbn [need] in Hfu.
    pose proof (IHg2 Hf dp ww rest Hs b (S f') ltac:(lia) Hb) as R. rewrite run_S. cbn [step]. rewrite R. reflexivity.
  - (* Recognize *)
    intros b f Hfu Hb. cbn [need] in Hfu. pose proof (IHg Hf dp ww rest Hs b f Hfu Hb) as R. sub_S f Hfu. rewrite R. reflexivity.
  - apply rej_map. apply (IHg Hf dp ww rest Hs).
  - apply rej_mapres. apply (IHg Hf dp ww rest Hs).
Qed.

Lemma fails_on_byte n g b d i : fails_on n g [b] = true -> Rej g d (b :: i).
Proof.
  intro H. change (b :: i) with ([b] ++ i). apply (fails_on_sound n g [b] H).
  cbn [same_nocase]. unfold eq_nocase1. rewrite N.eqb_refl. reflexivity.
Qed.

(* a sequence whose first part parses but whose remainder is rejected *)
Lemma rej_seq_after g gs d w1 v (F1 : list byte -> Prop) i2 :
  Ok g d w1 v F1 -> F1 i2 -> (forall b f acc used, need rk (Seq gs) d <= N.of_nat f -> (length i2 < b)%nat ->
                               seq_run (run natf env b f) gs d i2 acc used = RErr) ->
  Rej (Seq (g :: gs)) d (w1 ++ i2).
Proof.
  intros H1 HF H2 b f Hf Hb. destruct (pos_fuel _ _ _ Hf) as [f' ->]. rewrite need_seq_cons in Hf.
  rewrite run_S. cbn [step seq_run]. rewrite (H1 b (S f') i2 ltac:(lia) Hb HF).
  apply H2; [lia | rewrite app_length in Hb; lia].
Qed.
Lemma rejseq_after g gs d w1 v (F1 : list byte -> Prop) i2 :
  Ok g d w1 v F1 -> F1 i2 -> (forall b f acc used, need rk (Seq gs) d <= N.of_nat f -> (length i2 < b)%nat ->
                               seq_run (run natf env b f) gs d i2 acc used = RErr) ->
  forall b f acc used, need rk (Seq (g :: gs)) d <= N.of_nat f -> (length (w1 ++ i2) < b)%nat ->
    seq_run (run natf env b f) (g :: gs) d (w1 ++ i2) acc used = RErr.
Proof.
  intros H1 HF H2 b f acc used Hf Hb. rewrite need_seq_cons in Hf. cbn [seq_run].
  rewrite (H1 b f i2 ltac:(lia) Hb HF). apply H2; [lia | rewrite app_length in Hb; lia].
Qed.
Lemma rejseq_head g gs d i : Rej g d i ->
  forall b f acc used, need rk (Seq (g :: gs)) d <= N.of_nat f -> (length i < b)%nat ->
    seq_run (run natf env b f) (g :: gs) d i acc used = RErr.
Proof.
  intros H b f acc used Hf Hb. rewrite need_seq_cons in Hf. cbn [seq_run]. rewrite (H b f ltac:(lia) Hb). reflexivity.
Qed.

End RT.
