(* C09 instantiated on the generated grammar. *)
From TI Require Import Bytes Grammar Nom Interp InterpFacts Thm_Sfx Thm_Crlf Thm_Line Natives.
From TI.gen Require Import ImapGrammar.
From Coq Require Import Lia.

(* parse_response and its three top rules end in the terminating CRLF; every other function is CR-free *)
Definition is_tail_def (f : N) : bool :=
  (f =? f_parser_x_parse_response) || (f =? f_rfc3501_x_continue_req) || (f =? f_rfc3501_x_response_data) || (f =? f_rfc3501_x_response_tagged).

Fixpoint defs_ok (k : N) (defs : list (option G)) : bool :=
  match defs with
  | [] => true
  | og :: rest =>
    match og with
    | Some g => if is_tail_def k then tailok is_tail_def g else all_nodes (node_inner is_tail_def) g
    | None => true
    end && defs_ok (N.succ k) rest
  end.

(* reflection: no class, tag or char of the grammar admits CR, except the terminating CRLF of the
   three top rules and the CRLF inside `literal` *)
Lemma crlf_ok_holds : defs_ok 0 all_defs = true.
Proof. vm_compute. reflexivity. Qed.

Lemma defs_ok_nth : forall defs k j g, defs_ok k defs = true -> nth_error defs j = Some (Some g) ->
  if is_tail_def (k + N.of_nat j) then tailok is_tail_def g = true else all_nodes (node_inner is_tail_def) g = true.
Proof.
  induction defs as [|og defs IH]; intros k j g H Hn; [destruct j; discriminate|].
  cbn [defs_ok] in H. apply andb_true_iff in H. destruct H as [H1 H2]. destruct j as [|j].
  - cbn in Hn. injection Hn as ->. replace (k + N.of_nat 0) with k by lia. destruct (is_tail_def k); exact H1.
  - cbn [nth_error] in Hn. replace (k + N.of_nat (S j)) with (N.succ k + N.of_nat j) by lia. eapply IH; eauto.
Qed.

Lemma env_crlf_ok : forall f g, env f = Some g ->
  if is_tail_def f then tailok is_tail_def g = true else all_nodes (node_inner is_tail_def) g = true.
Proof.
  intros f g H. unfold env in H. destruct (nth_error all_defs (N.to_nat f)) as [[g'|]|] eqn:E; try discriminate.
  injection H as <-. pose proof (defs_ok_nth all_defs 0 (N.to_nat f) g' crlf_ok_holds E) as Hk.
  replace (0 + N.of_nat (N.to_nat f)) with f in Hk by lia. exact Hk.
Qed.

Lemma response_tailok : tailok is_tail_def def_parser_x_parse_response = true.
Proof. vm_compute. reflexivity. Qed.

Theorem no_incomplete_on_complete_line_lemma : forall i, safe i -> parse i <> RInc.
Proof.
  intros i Hi. unfold parse.
  apply (run_good0 native_call env (S (length i)) is_tail_def env_crlf_ok FUEL _ 0%nat response_tailok i Hi).
Qed.

(* every non-top parser function, on any buffer holding a complete frame: never Incomplete, and what
   it leaves still starts a complete frame *)
Theorem inner_parsers_never_incomplete_lemma : forall f g fuel bound dp i, env f = Some g -> is_tail_def f = false ->
  safe i -> run native_call env bound fuel g dp i <> RInc.
Proof.
  intros f g fuel bound dp i Hf Ht Hi. pose proof (env_crlf_ok f g Hf) as Hk. rewrite Ht in Hk.
  apply (run_good native_call env bound is_tail_def env_crlf_ok fuel g dp Hk i Hi).
Qed.

(* non-vacuity: complete frames, with and without literals *)
Example safe_examples :
  safe (bs "* 1 EXISTS" ++ [13; 10]) /\
  safe (bs "* 1 FETCH (BODY[] {3}" ++ [13; 10] ++ bs "a" ++ [13; 10] ++ bs ")" ++ [13; 10] ++ bs "junk").
Proof.
  split.
  - eapply safe_plain; vm_compute; reflexivity.
  - eapply safe_lit; [vm_compute; reflexivity|vm_compute; reflexivity|vm_compute; reflexivity|].
    eapply safe_plain; vm_compute; reflexivity.
Qed.

(* ---------------------------------------------------------------- second clause: an accepted response without
   literals ends exactly at the first CRLF *)
Fixpoint sdefs_ok (k : N) (defs : list (option G)) : bool :=
  match defs with
  | [] => true
  | og :: rest =>
    match og with
    | Some g => if is_tail_def k then stail is_tail_def g else all_nodes (node_inner is_tail_def) g
    | None => true
    end && sdefs_ok (N.succ k) rest
  end.

(* reflection: each of the top rules reads the terminating CRLF as the last thing on every accepting path *)
Lemma strict_tail_holds : sdefs_ok 0 all_defs = true.
Proof. vm_compute. reflexivity. Qed.

Lemma sdefs_ok_nth : forall defs k j g, sdefs_ok k defs = true -> nth_error defs j = Some (Some g) ->
  if is_tail_def (k + N.of_nat j) then stail is_tail_def g = true else all_nodes (node_inner is_tail_def) g = true.
Proof.
  induction defs as [|og defs IH]; intros k j g H Hn; [destruct j; discriminate|].
  cbn [sdefs_ok] in H. apply andb_true_iff in H. destruct H as [H1 H2]. destruct j as [|j].
  - cbn in Hn. injection Hn as ->. replace (k + N.of_nat 0) with k by lia. destruct (is_tail_def k); exact H1.
  - cbn [nth_error] in Hn. replace (k + N.of_nat (S j)) with (N.succ k + N.of_nat j) by lia. eapply IH; eauto.
Qed.

Lemma env_line_ok : forall f g, env f = Some g ->
  if is_tail_def f then stail is_tail_def g = true else all_nodes (node_inner is_tail_def) g = true.
Proof.
  intros f g H. unfold env in H. destruct (nth_error all_defs (N.to_nat f)) as [[g'|]|] eqn:E; try discriminate.
  injection H as <-. pose proof (sdefs_ok_nth all_defs 0 (N.to_nat f) g' strict_tail_holds E) as Hk.
  replace (0 + N.of_nat (N.to_nat f)) with f in Hk by lia. exact Hk.
Qed.

Lemma response_stail : stail is_tail_def def_parser_x_parse_response = true.
Proof. vm_compute. reflexivity. Qed.

Theorem accepted_line_ends_at_first_crlf_lemma : forall i a after r v u,
  split_crlf i = Some (a, after) -> ends_brace a = false -> parse i = ROk r v u -> r = after /\ u = nlen a + 2.
Proof.
  intros i a after r v u Hs Hb H. unfold parse in H.
  exact (accepted_line_ends_at_first_crlf native_call env (S (length i)) is_tail_def env_line_ok FUEL _ 0%nat response_stail i a after r v u Hs Hb H).
Qed.

Theorem accepted_response_ends_with_crlf_lemma : forall i r v u, parse i = ROk r v u -> exists w0, i = w0 ++ 13 :: 10 :: r.
Proof.
  intros i r v u H. unfold parse in H.
  exact (run_ends_crlf native_call env (S (length i)) is_tail_def env_line_ok FUEL _ 0%nat response_stail i r v u H).
Qed.

(* non-vacuity: an accepted line followed by another one; the theorem's premises hold and the parse is an accept *)
Example ends_at_first_crlf_example :
  let i := bs "* 1 EXISTS" ++ [13; 10] ++ bs "* 2 EXISTS" ++ [13; 10] in
  split_crlf i = Some (bs "* 1 EXISTS", bs "* 2 EXISTS" ++ [13; 10]) /\ ends_brace (bs "* 1 EXISTS") = false /\
  exists v, parse i = ROk (bs "* 2 EXISTS" ++ [13; 10]) v 12.
Proof. split; [vm_compute; reflexivity|]. split; [reflexivity|]. eexists. vm_compute. reflexivity. Qed.
