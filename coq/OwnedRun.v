(* M8 instance: into_owned on the values the parser model returns (executable; used by the correspondence). *)
From TI Require Import Bytes Grammar Interp Owned Natives.
From TI.gen Require Import Tables.

(* nesting depth of a value: enough fuel for into_owned_val to reach every sub-value *)
Fixpoint val_depth (v : val) : nat :=
  match v with
  | VSome v1 => S (val_depth v1)
  | VList l | VTuple l | VCon _ l =>
    S ((fix mx (l : list val) : nat := match l with [] => O | x :: l' => Nat.max (val_depth x) (mx l') end) l)
  | VRec _ fs =>
    S ((fix mx (l : list (string * val)) : nat := match l with [] => O | kv :: l' => Nat.max (val_depth (snd kv)) (mx l') end) fs)
  | _ => O
  end.

Definition into_owned (v : val) : val := into_owned_val (S (val_depth v)) gen_into_owned gen_own_helpers v.

(* parse, then take ownership; the flag says whether the parsed value has distinct field names in every record *)
Definition owned_parse (i : list byte) : res * bool :=
  match parse i with
  | ROk rest v used => (ROk rest (into_owned v) used, wf_val v)
  | r => (r, true)
  end.
