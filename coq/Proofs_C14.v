(* C14 instance: the tables regenerated from builders/command.rs are the reference tables. *)
From TI Require Import Bytes Builders BuildersProofs DecFacts Machine MachineProofs.
From TI.gen Require Import BuilderTables.
Local Open Scope N_scope.

Lemma gen_is_ref : gen_machine = ref_machine.
Proof. reflexivity. Qed.

Lemma gen_builder_no_problems : gen_builder_problems = [].
Proof. reflexivity. Qed.

Lemma gen_fetch_chain_exact uid cs :
  run_chain gen_machine (fetch_ctor uid) [] (map generic cs) =
  option_map (fun r => (render_fetch r, "None"%string)) (denote uid cs).
Proof. rewrite gen_is_ref. apply fetch_chain_exact. Qed.

Lemma denote_ok uid cs r : denote uid cs = Some r ->
  (forall c, In c cs -> match c with CNum n => 0 < n | CRange a b => 0 < a /\ 0 < b | CRangeFrom a => 0 < a | _ => True end) ->
  req_ok r = true.
Proof.
  unfold denote. intros H Hpos.
  (* invariant over the abstract machine: everything collected so far is well-formed *)
  set (st_ok := fun s => match s with
    | FEmpty => true
    | FMsgs f more => item_ok f && forallb item_ok more
    | FAttrs f more a attrs => item_ok f && forallb item_ok more && (known "Attribute" a && forallb (known "Attribute") attrs)
    | FMods f more m => item_ok f && forallb item_ok more && known "AttrMacro" m
    | FCS f more it _ => item_ok f && forallb item_ok more &&
        match it with IMacro m => known "AttrMacro" m | IAttrs a more' => known "Attribute" a && forallb (known "Attribute") more' end
    end).
  assert (Hstep : forall s c s', st_ok s = true -> astep s c = Some s' ->
            match c with CNum n => 0 < n | CRange a b => 0 < a /\ 0 < b | CRangeFrom a => 0 < a | _ => True end -> st_ok s' = true).
  { intros s c s' Hs Hst Hc. destruct s, c; cbn [astep] in Hst; try discriminate.
    all: try match type of Hst with (if ?k then _ else _) = _ => destruct k eqn:Ek; [|discriminate] end.
    all: injection Hst as <-; cbn [st_ok] in *.
    all: rewrite ?forallb_app; cbn [forallb item_ok].
    all: repeat match goal with H : _ && _ = true |- _ => apply andb_true_iff in H; destruct H end.
    all: repeat match goal with H : _ /\ _ |- _ => destruct H end.
    all: repeat match goal with H : 0 < _ |- _ => apply N.ltb_lt in H end.
    all: repeat match goal with H : ?x = true |- context [?x] => rewrite H end.
    all: try reflexivity. }
  assert (Hsteps : forall cs0 s s', st_ok s = true -> asteps s cs0 = Some s' ->
            (forall c, In c cs0 -> match c with CNum n => 0 < n | CRange a b => 0 < a /\ 0 < b | CRangeFrom a => 0 < a | _ => True end) -> st_ok s' = true).
  { induction cs0 as [|c cs0 IH]; intros s s' Hs Hst Hp; cbn [asteps] in Hst.
    - injection Hst as <-. exact Hs.
    - destruct (astep s c) as [s1|] eqn:E; [|discriminate].
      apply (IH s1 s'); [apply (Hstep s c s1 Hs E); apply Hp; left; reflexivity | exact Hst | intros c' Hc'; apply Hp; right; exact Hc']. }
  destruct (asteps FEmpty cs) as [s|] eqn:E; [|discriminate].
  pose proof (Hsteps cs FEmpty s eq_refl E Hpos) as Hs.
  destruct s; cbn [afinish] in H; try discriminate; injection H as <-; unfold req_ok; cbn [fr_first fr_more fr_items st_ok] in *.
  - rewrite <- andb_assoc in Hs. rewrite andb_assoc in Hs. exact Hs.
  - exact Hs.
  - exact Hs.
Qed.

(* non-vacuity: a seven-call chain with every kind of call *)
Definition c14_sample : list call :=
  [CNum 1; CRange 2 4294967295; CRangeFrom 2147483648; CAttr "Attribute::Rfc822Size"; CAttr "Attribute::GmailLabels"; CAttr "Attribute::Body";
   CChangedSince 18446744073709551615].
Lemma c14_sample_ok :
  option_map fst (run_chain gen_machine "uid_fetch" [] (map generic c14_sample)) =
  Some (bs "UID FETCH 1,2:4294967295,2147483648:* (RFC822.SIZE X-GM-LABELS BODY) (CHANGEDSINCE 18446744073709551615)").
Proof. vm_compute. reflexivity. Qed.
Lemma c14_rejected :
  run_chain gen_machine "fetch" [] (map generic [CNum 1; CMacro "AttrMacro::All"; CChangedSince 1; CChangedSince 2]) = None /\
  run_chain gen_machine "fetch" [] (map generic [CNum 1]) = None /\
  run_chain gen_machine "fetch" [] (map generic [CAttr "Attribute::Uid"]) = None.
Proof. vm_compute. repeat split. Qed.
