(* C04 — framing is independent of how the byte stream is chunked.
   fr_poll / fr_drain: the model of tokio_util's FramedImpl::poll_next over ImapCodec::decode (Client.v).
   Frames S fs st rem: parsing the whole stream S in one piece yields the frames fs and then stops on rem,
   incomplete (StopInc) or malformed (StopErr).  Scripts are arbitrary lists of chunks and not-ready results. *)
From TI Require Import Bytes Grammar Nom Interp Natives Tags Builders Client ClientProofs SessionProofs.

Theorem c04_frames_chunking_invariant : forall fuel rd fs o st' rd',
  data_only rd -> fr_drain fuel rf_init rd = (fs, o, st', rd') ->
  exists used, rd = used ++ rd' /\
    ((o = PPending /\ Frames (bytes_of used) fs StopInc (rf_buf st')) \/
     (o = PItem IErrDecode /\ Frames (bytes_of used) fs StopErr (rf_buf st')) \/
     o = PNone).
Proof. exact frames_chunking_invariant_lemma. Qed.
Check c04_frames_chunking_invariant : forall fuel rd fs o st' rd',
  data_only rd -> fr_drain fuel rf_init rd = (fs, o, st', rd') ->
  exists used, rd = used ++ rd' /\
    ((o = PPending /\ Frames (bytes_of used) fs StopInc (rf_buf st')) \/
     (o = PItem IErrDecode /\ Frames (bytes_of used) fs StopErr (rf_buf st')) \/
     o = PNone).
Print Assumptions c04_frames_chunking_invariant.

Theorem c04_same_bytes_same_frames : forall f1 f2 rd1 rd2 fs1 fs2 st1 st2,
  data_only rd1 -> data_only rd2 -> bytes_of rd1 = bytes_of rd2 ->
  fr_drain f1 rf_init rd1 = (fs1, PPending, st1, []) -> fr_drain f2 rf_init rd2 = (fs2, PPending, st2, []) ->
  fs1 = fs2 /\ rf_buf st1 = rf_buf st2.
Proof. exact same_bytes_same_frames_lemma. Qed.
Check c04_same_bytes_same_frames : forall f1 f2 rd1 rd2 fs1 fs2 st1 st2,
  data_only rd1 -> data_only rd2 -> bytes_of rd1 = bytes_of rd2 ->
  fr_drain f1 rf_init rd1 = (fs1, PPending, st1, []) -> fr_drain f2 rf_init rd2 = (fs2, PPending, st2, []) ->
  fs1 = fs2 /\ rf_buf st1 = rf_buf st2.
Print Assumptions c04_same_bytes_same_frames.

(* nothing is withheld: when the bytes received end exactly at the end of a response, all are delivered *)
Theorem c04_no_withholding : forall fuel rd fs st' all_frames,
  data_only rd -> fr_drain fuel rf_init rd = (fs, PPending, st', []) ->
  Frames (bytes_of rd) all_frames StopInc [] -> fs = all_frames /\ rf_buf st' = [].
Proof. exact no_withholding_lemma. Qed.
Check c04_no_withholding : forall fuel rd fs st' all_frames,
  data_only rd -> fr_drain fuel rf_init rd = (fs, PPending, st', []) ->
  Frames (bytes_of rd) all_frames StopInc [] -> fs = all_frames /\ rf_buf st' = [].
Print Assumptions c04_no_withholding.

(* ... at every moment the transport has nothing more to give, after any number of drains *)
Theorem c04_reachable_states : forall st D R, reach st D R -> Frames R D StopInc (rf_buf st).
Proof. exact reach_frames_lemma. Qed.
Check c04_reachable_states : forall st D R, reach st D R -> Frames R D StopInc (rf_buf st).
Print Assumptions c04_reachable_states.

Theorem c04_eof_verdict : forall st rd, rf_eof st = false -> rf_errored st = false -> rf_readable st = false ->
  decode (rf_buf st) = DNone ->
  fr_poll st (REof :: rd) =
    match rf_buf st with
    | [] => (mk_rf true false false [], PNone, rd)
    | _ => (mk_rf true true true (rf_buf st), PItem IErrRemaining, rd)
    end.
Proof. exact eof_verdict_lemma. Qed.
Check c04_eof_verdict : forall st rd, rf_eof st = false -> rf_errored st = false -> rf_readable st = false ->
  decode (rf_buf st) = DNone ->
  fr_poll st (REof :: rd) =
    match rf_buf st with
    | [] => (mk_rf true false false [], PNone, rd)
    | _ => (mk_rf true true true (rf_buf st), PItem IErrRemaining, rd)
    end.
Print Assumptions c04_eof_verdict.

Theorem c04_malformed_reported : forall st rd, rf_eof st = false -> rf_errored st = false -> rf_readable st = true ->
  decode (rf_buf st) = DErr ->
  fr_poll st rd = (mk_rf false true true (rf_buf st), PItem IErrDecode, rd) /\
  fr_poll (mk_rf false true true (rf_buf st)) rd = (mk_rf false false false (rf_buf st), PNone, rd).
Proof. exact malformed_reported_lemma. Qed.
Check c04_malformed_reported : forall st rd, rf_eof st = false -> rf_errored st = false -> rf_readable st = true ->
  decode (rf_buf st) = DErr ->
  fr_poll st rd = (mk_rf false true true (rf_buf st), PItem IErrDecode, rd) /\
  fr_poll (mk_rf false true true (rf_buf st)) rd = (mk_rf false false false (rf_buf st), PNone, rd).
Print Assumptions c04_malformed_reported.

(* C01 through the codec: decode's length arithmetic and split_to cannot go wrong *)
Theorem c04_decode_no_panic : forall buf, decode buf <> DPanic.
Proof. exact decode_no_panic_lemma. Qed.
Check c04_decode_no_panic : forall buf, decode buf <> DPanic.
Print Assumptions c04_decode_no_panic.

(* the frames of a stream are uniquely determined *)
Theorem c04_frames_deterministic : forall S fs st rem, Frames S fs st rem ->
  forall fs' st' rem', Frames S fs' st' rem' -> fs = fs' /\ st = st' /\ rem = rem'.
Proof. exact Frames_det. Qed.
Check c04_frames_deterministic : forall S fs st rem, Frames S fs st rem ->
  forall fs' st' rem', Frames S fs' st' rem' -> fs = fs' /\ st = st' /\ rem = rem'.
Print Assumptions c04_frames_deterministic.

(* a frame never ends inside a line: whatever the codec cuts off ends with CR LF *)
Theorem c04_frames_end_with_crlf : forall buf raw v rest, decode buf = DFrame raw v rest -> exists w0, raw = w0 ++ [13; 10].
Proof. exact frame_ends_with_crlf_lemma. Qed.
Check c04_frames_end_with_crlf : forall buf raw v rest, decode buf = DFrame raw v rest -> exists w0, raw = w0 ++ [13; 10].
Print Assumptions c04_frames_end_with_crlf.

(* ---- end to end (E2EGen.v), for ANY language of responses that the parser round-trips (enc; Properties/C03.v instantiates
   it with the RFC spellings): a server sends the values of s in any of their spellings, then a piece P of a further
   response (any buffer the codec calls incomplete; P = [] for none), then closes.  Whatever the chunking and the
   not-ready results: the frames are exactly the responses sent, and the end is clean iff P is empty, the error
   "bytes remaining on stream" otherwise -- frames and ending depend on the bytes alone *)
From TI Require Import E2EGen.
Theorem c04_conformant_then_eof : forall (enc : val -> list byte -> Prop),
  (forall v w, enc v w -> forall rest, parse (w ++ rest) = ROk rest v (nlen w)) ->
  forall s P fuel rd fs st' more,
  E2EGen.conformant enc s -> decode P = DNone -> data_only rd -> bytes_of rd = wire s ++ P ->
  fr_drain fuel rf_init rd = (fs, PPending, st', []) ->
  fs = expected s /\
  fr_poll st' (REof :: more) =
    match P with
    | [] => (mk_rf true false false [], PNone, more)
    | _ => (mk_rf true true true P, PItem IErrRemaining, more)
    end.
Proof. exact E2EGen.conformant_then_eof_lemma. Qed.
Check c04_conformant_then_eof : forall (enc : val -> list byte -> Prop),
  (forall v w, enc v w -> forall rest, parse (w ++ rest) = ROk rest v (nlen w)) ->
  forall s P fuel rd fs st' more,
  E2EGen.conformant enc s -> decode P = DNone -> data_only rd -> bytes_of rd = wire s ++ P ->
  fr_drain fuel rf_init rd = (fs, PPending, st', []) ->
  fs = expected s /\
  fr_poll st' (REof :: more) =
    match P with
    | [] => (mk_rf true false false [], PNone, more)
    | _ => (mk_rf true true true P, PItem IErrRemaining, more)
    end.
Print Assumptions c04_conformant_then_eof.

