(* C12 — equivalent wire encodings parse to equal values. *)
From TI Require Import Bytes Grammar Nom Interp InterpFacts Thm_Fuel Natives Proofs_C01 RoundTrip Spec RoundTripRules Proofs_RT.
From TI.gen Require Import ImapGrammar.
Local Open Scope N_scope.

(* any two spellings of one value (Spec.v relates a value to ALL its spellings: keyword and NIL in any letter case,
   leading zeros, quoted or literal strings, optional space between addresses, doubled space after RFC822.HEADER,
   trailing spaces before CRLF) parse to that same value *)
Theorem c12_same_value_same_parse : forall v w1 w2 r1 r2, enc_fetch v w1 -> enc_fetch v w2 ->
  exists u1 u2, parse (w1 ++ r1) = ROk r1 v u1 /\ parse (w2 ++ r2) = ROk r2 v u2.
Proof. exact same_value_same_parse. Qed.
Check c12_same_value_same_parse : forall v w1 w2 r1 r2, enc_fetch v w1 -> enc_fetch v w2 ->
  exists u1 u2, parse (w1 ++ r1) = ROk r1 v u1 /\ parse (w2 ++ r2) = ROk r2 v u2.
Print Assumptions c12_same_value_same_parse.

Theorem c12_same_value_same_parse_data : forall v w1 w2 r1 r2,
  (enc_data_response v w1 \/ enc_status_response v w1 \/ enc_tagged_response v w1) ->
  (enc_data_response v w2 \/ enc_status_response v w2 \/ enc_tagged_response v w2) ->
  exists u1 u2, parse (w1 ++ r1) = ROk r1 v u1 /\ parse (w2 ++ r2) = ROk r2 v u2.
Proof.
  intros v w1 w2 r1 r2 H1 H2. eexists _, _. split.
  - destruct H1 as [H | [H | H]]; [apply data_roundtrip | apply status_roundtrip | apply tagged_roundtrip]; exact H.
  - destruct H2 as [H | [H | H]]; [apply data_roundtrip | apply status_roundtrip | apply tagged_roundtrip]; exact H.
Qed.
Check c12_same_value_same_parse_data : forall v w1 w2 r1 r2,
  (enc_data_response v w1 \/ enc_status_response v w1 \/ enc_tagged_response v w1) ->
  (enc_data_response v w2 \/ enc_status_response v w2 \/ enc_tagged_response v w2) ->
  exists u1 u2, parse (w1 ++ r1) = ROk r1 v u1 /\ parse (w2 ++ r2) = ROk r2 v u2.
Print Assumptions c12_same_value_same_parse_data.

(* the same for every response kind the round-trip theorem reaches (Spec.enc_response: FETCH, numeric data, VANISHED,
   QUOTA, STATUS, LIST/LSUB, SEARCH/SORT, CAPABILITY, ENABLED, QUOTAROOT, MYRIGHTS, ACL, LISTRIGHTS, status responses,
   tagged completions, continuation requests) *)
Theorem c12_same_value_same_parse_any : forall v w1 w2 r1 r2, enc_response v w1 -> enc_response v w2 ->
  parse (w1 ++ r1) = ROk r1 v (nlen w1) /\ parse (w2 ++ r2) = ROk r2 v (nlen w2).
Proof. exact same_value_same_parse_any. Qed.
Check c12_same_value_same_parse_any : forall v w1 w2 r1 r2, enc_response v w1 -> enc_response v w2 ->
  parse (w1 ++ r1) = ROk r1 v (nlen w1) /\ parse (w2 ++ r2) = ROk r2 v (nlen w2).
Print Assumptions c12_same_value_same_parse_any.

(* the relation read the other way round: one wire form denotes one value only, and no spelling is a proper prefix of
   another (so "equivalent encodings" is an equivalence relation on wire forms whose classes are the values) *)
Theorem c12_spellings_unambiguous : forall v1 v2 w, enc_response v1 w -> enc_response v2 w -> v1 = v2.
Proof. exact spellings_unambiguous. Qed.
Check c12_spellings_unambiguous : forall v1 v2 w, enc_response v1 w -> enc_response v2 w -> v1 = v2.
Print Assumptions c12_spellings_unambiguous.

Theorem c12_spellings_prefix_free : forall v1 v2 w x, enc_response v1 w -> enc_response v2 (w ++ x) -> x = [] /\ v1 = v2.
Proof. exact spellings_prefix_free. Qed.
Check c12_spellings_prefix_free : forall v1 v2 w x, enc_response v1 w -> enc_response v2 (w ++ x) -> x = [] /\ v1 = v2.
Print Assumptions c12_spellings_prefix_free.

(* the individual freedoms, at the parser functions where they arise *)
Theorem c12_keyword_case : forall s w d, same_nocase s w = true -> Ok native_call env rk (Leaf (LTagNC s)) d w (VBytes w) any.
Proof. intros s w d H. apply ok_tag_nc, H. Qed.
Check c12_keyword_case : forall s w d, same_nocase s w = true -> Ok native_call env rk (Leaf (LTagNC s)) d w (VBytes w) any.
Print Assumptions c12_keyword_case.

Theorem c12_nil_case_and_string_forms : forall v w1 w2 d, enc_nstring v w1 -> enc_nstring v w2 ->
  Ok native_call env rk (Ref f_core_x_nstring DSame) d w1 v any /\ Ok native_call env rk (Ref f_core_x_nstring DSame) d w2 v any.
Proof. intros v w1 w2 d H1 H2. split; apply ok_nstring; assumption. Qed.
Check c12_nil_case_and_string_forms : forall v w1 w2 d, enc_nstring v w1 -> enc_nstring v w2 ->
  Ok native_call env rk (Ref f_core_x_nstring DSame) d w1 v any /\ Ok native_call env rk (Ref f_core_x_nstring DSame) d w2 v any.
Print Assumptions c12_nil_case_and_string_forms.

Theorem c12_atom_quoted_literal : forall s w1 w2 d, enc_astring s w1 -> enc_astring s w2 ->
  Ok native_call env rk (Ref f_core_x_astring DSame) d w1 (VBytes s) (stops_at cls_core_x_is_astring_char) /\
  Ok native_call env rk (Ref f_core_x_astring DSame) d w2 (VBytes s) (stops_at cls_core_x_is_astring_char).
Proof. intros s w1 w2 d H1 H2. split; apply ok_astring; assumption. Qed.
Check c12_atom_quoted_literal : forall s w1 w2 d, enc_astring s w1 -> enc_astring s w2 ->
  Ok native_call env rk (Ref f_core_x_astring DSame) d w1 (VBytes s) (stops_at cls_core_x_is_astring_char) /\
  Ok native_call env rk (Ref f_core_x_astring DSame) d w2 (VBytes s) (stops_at cls_core_x_is_astring_char).
Print Assumptions c12_atom_quoted_literal.

(* leading zeros: enc_number relates n to every digit string with that value *)
Theorem c12_leading_zeros : forall k ds, dec (repeat 48 k ++ ds) = dec ds.
Proof. exact Thm_Number.dec_leading_zeros_lemma. Qed.
Check c12_leading_zeros : forall k ds, dec (repeat 48 k ++ ds) = dec ds.
Print Assumptions c12_leading_zeros.

Theorem c12_tolerated_address_spacing : forall v w d, enc_addr_list v w -> Ok native_call env rk (Ref f_rfc3501_x_opt_addresses DSame) d w v any.
Proof. exact ok_opt_addresses. Qed.
Check c12_tolerated_address_spacing : forall v w d, enc_addr_list v w -> Ok native_call env rk (Ref f_rfc3501_x_opt_addresses DSame) d w v any.
Print Assumptions c12_tolerated_address_spacing.

(* the functions and closures that Natives.v models by hand are, token for token, the ones the models were written for *)
From TI Require NativeSources.
Theorem c12_hand_models_match_source :
  gen_native_fns = NativeSources.modelled_fn_sources /\ gen_native_actions = NativeSources.modelled_action_sources.
Proof. exact NativeSources.hand_models_match_source_lemma. Qed.
Check c12_hand_models_match_source :
  gen_native_fns = NativeSources.modelled_fn_sources /\ gen_native_actions = NativeSources.modelled_action_sources.
Print Assumptions c12_hand_models_match_source.
