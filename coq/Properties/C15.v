(* C15 — taking ownership of a response preserves its value. *)
From TI Require Import Bytes Grammar Interp Owned OwnedProofs Natives OwnedRun Proofs_Wf Proofs_C15.
From TI.gen Require Import Tables PanicSites.

(* generic: any table of into_owned bodies that passes the computable check denotes the identity on values
   (a Cow is its bytes on the value model, so the owned copy must be the same value) *)
Theorem into_owned_table_identity : forall tbl helpers, table_ok tbl helpers = true ->
  forall fuel v, wf_val v = true -> into_owned_val fuel tbl helpers v = v.
Proof. exact into_owned_identity. Qed.
Check into_owned_table_identity : forall tbl helpers, table_ok tbl helpers = true ->
  forall fuel v, wf_val v = true -> into_owned_val fuel tbl helpers v = v.
Print Assumptions into_owned_table_identity.

(* the instance regenerated from types.rs and types/acls.rs: every into_owned body, for every value *)
Theorem c15_into_owned_preserves_value : forall fuel v, wf_val v = true ->
  into_owned_val fuel gen_into_owned gen_own_helpers v = v.
Proof. exact into_owned_identity_gen. Qed.
Check c15_into_owned_preserves_value : forall fuel v, wf_val v = true ->
  into_owned_val fuel gen_into_owned gen_own_helpers v = v.
Print Assumptions c15_into_owned_preserves_value.

(* every constructor of every borrowing type that has an into_owned is handled, with exactly its declared fields;
   the translator recognised every body *)
Theorem c15_every_constructor_covered : covered gen_types gen_into_owned = true /\ gen_own_problems = [].
Proof. exact (conj covered_gen no_problems_gen). Qed.
Check c15_every_constructor_covered : covered gen_types gen_into_owned = true /\ gen_own_problems = [].
Print Assumptions c15_every_constructor_covered.

(* composed with the parser model *)
Theorem c15_parse_then_own : forall i rest v used,
  parse i = ROk rest v used -> wf_val v = true -> fst (owned_parse i) = ROk rest v used.
Proof. exact owned_parse_identity. Qed.
Check c15_parse_then_own : forall i rest v used,
  parse i = ROk rest v used -> wf_val v = true -> fst (owned_parse i) = ROk rest v used.
Print Assumptions c15_parse_then_own.

(* every value the parser returns has distinct field names in every record, so for parsed responses (the whole
   type tree, whatever the input) taking ownership is the identity without any side condition *)
Theorem c15_parsed_values_well_formed : forall i rest v used, parse i = ROk rest v used -> wf_val v = true.
Proof. exact parse_wf. Qed.
Check c15_parsed_values_well_formed : forall i rest v used, parse i = ROk rest v used -> wf_val v = true.
Print Assumptions c15_parsed_values_well_formed.

Theorem c15_parse_then_own_unconditional : forall i rest v used,
  parse i = ROk rest v used -> owned_parse i = (ROk rest v used, true).
Proof. exact owned_parse_identity_all. Qed.
Check c15_parse_then_own_unconditional : forall i rest v used,
  parse i = ROk rest v used -> owned_parse i = (ROk rest v used, true).
Print Assumptions c15_parse_then_own_unconditional.

(* an owned value cannot alias the buffer: imap-proto has no unsafe code at all *)
Theorem c15_no_unsafe_in_imap_proto : proto_unsafe_sites = [].
Proof. exact no_unsafe_in_proto. Qed.
Check c15_no_unsafe_in_imap_proto : proto_unsafe_sites = [].
Print Assumptions c15_no_unsafe_in_imap_proto.

Theorem c15_non_vacuous :
  match owned_parse c15_sample with
  | (ROk rest v _, wf) => rest = [] /\ wf = true /\ fst (owned_parse c15_sample) = parse c15_sample /\
                          match v with VCon name [_; VList (_ :: _ :: _)] => name = "Response::Fetch"%string | _ => False end
  | _ => False
  end.
Proof. exact c15_sample_ok. Qed.
Check c15_non_vacuous :
  match owned_parse c15_sample with
  | (ROk rest v _, wf) => rest = [] /\ wf = true /\ fst (owned_parse c15_sample) = parse c15_sample /\
                          match v with VCon name [_; VList (_ :: _ :: _)] => name = "Response::Fetch"%string | _ => False end
  | _ => False
  end.
Print Assumptions c15_non_vacuous.
