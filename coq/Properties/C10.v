(* C10 — command arguments are quoted injectively; no argument can inject protocol.
   All statements quantify over ALL byte lists (a superset of all &str), of any length. *)
From TI Require Import Bytes Builders BuildersProofs.

(* the imperative loop (start/new/slices, borrowed fast path) computes exactly this *)
Theorem quoted_string_characterised : forall s,
  quoted_string s =
    if existsb is_crlf s then QRefused
    else if existsb is_qspecial s then (if utf8_valid s then QOk (escape s) else QPanic)
    else QOk (escape s).
Proof. exact quoted_string_char. Qed.
Check quoted_string_characterised : forall s,
  quoted_string s =
    if existsb is_crlf s then QRefused
    else if existsb is_qspecial s then (if utf8_valid s then QOk (escape s) else QPanic)
    else QOk (escape s).
Print Assumptions quoted_string_characterised.

(* text containing CR or LF is refused, and only such text *)
Theorem quoted_string_spec : forall s, quoted_string s = QRefused <-> (In 13 s \/ In 10 s).
Proof. exact quoted_string_refused_lemma. Qed.
Check quoted_string_spec : forall s, quoted_string s = QRefused <-> (In 13 s \/ In 10 s).
Print Assumptions quoted_string_spec.

(* the inner String::from_utf8(..).unwrap() cannot fail on a &str *)
Theorem c10_no_panic : forall s, utf8_valid s = true -> quoted_string s <> QPanic.
Proof. exact no_panic_lemma. Qed.
Check c10_no_panic : forall s, utf8_valid s = true -> quoted_string s <> QPanic.
Print Assumptions c10_no_panic.

Theorem c10_utf8_preserved : forall s, utf8_valid (escape s) = utf8_valid s.
Proof. exact utf8_escape_lemma. Qed.
Check c10_utf8_preserved : forall s, utf8_valid (escape s) = utf8_valid s.
Print Assumptions c10_utf8_preserved.

Theorem c10_single_line : forall s q, quoted_string s = QOk q -> ~ In 13 q /\ ~ In 10 q.
Proof. exact single_line_lemma. Qed.
Check c10_single_line : forall s q, quoted_string s = QOk q -> ~ In 13 q /\ ~ In 10 q.
Print Assumptions c10_single_line.

(* an independent quoted-string lexer reads back exactly the text given, and stops at the closing quote *)
Theorem c10_unescape_inverse : forall s q rest, quoted_string s = QOk q ->
  lex_quoted (dq q ++ rest) = Some (s, rest).
Proof. exact lex_quoted_inverse_lemma. Qed.
Check c10_unescape_inverse : forall s q rest, quoted_string s = QOk q ->
  lex_quoted (dq q ++ rest) = Some (s, rest).
Print Assumptions c10_unescape_inverse.

(* whole commands: two-argument builders (login, list), one-argument builders (select, examine) *)
Theorem c10_lexes_to_args2 : forall verb a b cmd, forallb is_upper verb = true ->
  build2 verb a b = BOk cmd -> lex_command 2 cmd = Some (verb, [a; b]).
Proof. exact build2_lexes_lemma. Qed.
Check c10_lexes_to_args2 : forall verb a b cmd, forallb is_upper verb = true ->
  build2 verb a b = BOk cmd -> lex_command 2 cmd = Some (verb, [a; b]).
Print Assumptions c10_lexes_to_args2.

Theorem c10_lexes_to_args1 : forall verb a cmd, forallb is_upper verb = true ->
  build1 verb a = BOk cmd -> lex_command 1 cmd = Some (verb, [a]).
Proof. exact build1_lexes_lemma. Qed.
Check c10_lexes_to_args1 : forall verb a cmd, forallb is_upper verb = true ->
  build1 verb a = BOk cmd -> lex_command 1 cmd = Some (verb, [a]).
Print Assumptions c10_lexes_to_args1.

Theorem c10_injective2 : forall verb a b a' b' cmd, forallb is_upper verb = true ->
  build2 verb a b = BOk cmd -> build2 verb a' b' = BOk cmd -> a = a' /\ b = b'.
Proof. exact build2_injective_lemma. Qed.
Check c10_injective2 : forall verb a b a' b' cmd, forallb is_upper verb = true ->
  build2 verb a b = BOk cmd -> build2 verb a' b' = BOk cmd -> a = a' /\ b = b'.
Print Assumptions c10_injective2.

Theorem c10_injective1 : forall verb a a' cmd, forallb is_upper verb = true ->
  build1 verb a = BOk cmd -> build1 verb a' = BOk cmd -> a = a'.
Proof. exact build1_injective_lemma. Qed.
Check c10_injective1 : forall verb a a' cmd, forallb is_upper verb = true ->
  build1 verb a = BOk cmd -> build1 verb a' = BOk cmd -> a = a'.
Print Assumptions c10_injective1.

Theorem c10_command_single_line2 : forall verb a b cmd, ~ In 13 verb -> ~ In 10 verb ->
  build2 verb a b = BOk cmd -> ~ In 13 cmd /\ ~ In 10 cmd.
Proof. exact build2_single_line_lemma. Qed.
Check c10_command_single_line2 : forall verb a b cmd, ~ In 13 verb -> ~ In 10 verb ->
  build2 verb a b = BOk cmd -> ~ In 13 cmd /\ ~ In 10 cmd.
Print Assumptions c10_command_single_line2.

Theorem c10_command_single_line1 : forall verb a cmd, ~ In 13 verb -> ~ In 10 verb ->
  build1 verb a = BOk cmd -> ~ In 13 cmd /\ ~ In 10 cmd.
Proof. exact build1_single_line_lemma. Qed.
Check c10_command_single_line1 : forall verb a cmd, ~ In 13 verb -> ~ In 10 verb ->
  build1 verb a = BOk cmd -> ~ In 13 cmd /\ ~ In 10 cmd.
Print Assumptions c10_command_single_line1.

Theorem c10_refused2 : forall verb a b,
  build2 verb a b = BRefused <->
  (quoted_string a = QRefused \/ ((exists qa, quoted_string a = QOk qa) /\ quoted_string b = QRefused)).
Proof. exact build2_refused_lemma. Qed.
Check c10_refused2 : forall verb a b,
  build2 verb a b = BRefused <->
  (quoted_string a = QRefused \/ ((exists qa, quoted_string a = QOk qa) /\ quoted_string b = QRefused)).
Print Assumptions c10_refused2.

Theorem c10_total2 : forall verb a b, utf8_valid a = true -> utf8_valid b = true ->
  (exists cmd, build2 verb a b = BOk cmd) \/ build2 verb a b = BRefused.
Proof. exact build2_total_lemma. Qed.
Check c10_total2 : forall verb a b, utf8_valid a = true -> utf8_valid b = true ->
  (exists cmd, build2 verb a b = BOk cmd) \/ build2 verb a b = BRefused.
Print Assumptions c10_total2.

(* on the wire: tag SP args CRLF, the only CR/LF being the terminator *)
Theorem c10_wire : forall tag args, ~ In 13 tag -> ~ In 10 tag -> ~ In 13 args -> ~ In 10 args ->
  exists body, encode_request tag args = body ++ [13; 10] /\ ~ In 13 body /\ ~ In 10 body.
Proof. exact encode_one_line_lemma. Qed.
Check c10_wire : forall tag args, ~ In 13 tag -> ~ In 10 tag -> ~ In 13 args -> ~ In 10 args ->
  exists body, encode_request tag args = body ++ [13; 10] /\ ~ In 13 body /\ ~ In 10 body.
Print Assumptions c10_wire.

(* ---- every builder at once (BuilderLines.v): a command is a concatenation of pieces; for ANY typestate tables whose
   literal pieces and keyword tables hold no CR / LF (machine_ok, a computable condition), no chain of calls -- whatever
   the constructor, the methods, the numbers, the keywords and the text arguments -- emits a CR or LF *)
From TI Require Import Machine BuilderLines E2EWrite.
From TI.gen Require Import BuilderTables.
Theorem c10_every_chain_single_line : forall m, machine_ok m = true -> forall name cargs calls out next,
  run_chain m name cargs calls = Some (out, next) -> ~ In 13 out /\ ~ In 10 out.
Proof. exact chain_single_line_lemma. Qed.
Check c10_every_chain_single_line : forall m, machine_ok m = true -> forall name cargs calls out next,
  run_chain m name cargs calls = Some (out, next) -> ~ In 13 out /\ ~ In 10 out.
Print Assumptions c10_every_chain_single_line.

(* reflection: the tables regenerated from builders/command.rs satisfy the condition *)
Theorem c10_regenerated_tables_hold_no_line_break : machine_ok gen_machine = true.
Proof. exact gen_machine_ok. Qed.
Check c10_regenerated_tables_hold_no_line_break : machine_ok gen_machine = true.
Print Assumptions c10_regenerated_tables_hold_no_line_break.

