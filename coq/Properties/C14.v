(* C14 — typed builders emit exactly the command requested, and only grammatical ones. *)
From TI Require Import Bytes Builders BuildersProofs DecFacts Machine MachineProofs Proofs_C14.
From TI.gen Require Import BuilderTables.
Local Open Scope N_scope.

(* the tables regenerated from builders/command.rs are the reference typestate machine; nothing was untranslatable *)
Theorem c14_tables_are_reference : gen_machine = ref_machine /\ gen_builder_problems = [].
Proof. exact (conj gen_is_ref gen_builder_no_problems). Qed.
Check c14_tables_are_reference : gen_machine = ref_machine /\ gen_builder_problems = [].
Print Assumptions c14_tables_are_reference.

(* every chain of calls on the FETCH / UID FETCH builder, of any length: the typestates admit it iff it denotes a
   request (message set, then a macro or attributes, then at most one CHANGEDSINCE), and then the bytes of the
   command are exactly the rendering of that request: verb, message set, items and modifier as passed, in order *)
Theorem c14_fetch_chain_exact : forall uid cs,
  run_chain gen_machine (fetch_ctor uid) [] (map generic cs) =
  option_map (fun r => (render_fetch r, "None"%string)) (denote uid cs).
Proof. exact gen_fetch_chain_exact. Qed.
Check c14_fetch_chain_exact : forall uid cs,
  run_chain gen_machine (fetch_ctor uid) [] (map generic cs) =
  option_map (fun r => (render_fetch r, "None"%string)) (denote uid cs).
Print Assumptions c14_fetch_chain_exact.

(* what an admitted chain denotes is well-formed when the message numbers are non-zero *)
Theorem c14_denoted_request_ok : forall uid cs r, denote uid cs = Some r ->
  (forall c, In c cs -> match c with CNum n => 0 < n | CRange a b => 0 < a /\ 0 < b | CRangeFrom a => 0 < a | _ => True end) ->
  req_ok r = true.
Proof. exact denote_ok. Qed.
Check c14_denoted_request_ok : forall uid cs r, denote uid cs = Some r ->
  (forall c, In c cs -> match c with CNum n => 0 < n | CRange a b => 0 < a /\ 0 < b | CRangeFrom a => 0 < a | _ => True end) ->
  req_ok r = true.
Print Assumptions c14_denoted_request_ok.

(* the rendering of a well-formed request is derivable from the RFC 3501 / 4466 / 4551 grammar (relations in Machine.v) *)
Theorem c14_fetch_grammatical : forall r, req_ok r = true -> uid_or_fetch_cmd (render_fetch r).
Proof. exact render_fetch_grammatical. Qed.
Check c14_fetch_grammatical : forall r, req_ok r = true -> uid_or_fetch_cmd (render_fetch r).
Print Assumptions c14_fetch_grammatical.

(* and an independent reader recovers exactly the request: numbers of any size, every attribute and macro *)
Theorem c14_fetch_read_back : forall r, req_ok r = true -> read_fetch (render_fetch r) = Some r.
Proof. exact read_fetch_render. Qed.
Check c14_fetch_read_back : forall r, req_ok r = true -> read_fetch (render_fetch r) = Some r.
Print Assumptions c14_fetch_read_back.

Theorem c14_fetch_injective : forall r1 r2, req_ok r1 = true -> req_ok r2 = true -> render_fetch r1 = render_fetch r2 -> r1 = r2.
Proof. exact render_fetch_injective. Qed.
Check c14_fetch_injective : forall r1 r2, req_ok r1 = true -> req_ok r2 = true -> render_fetch r1 = render_fetch r2 -> r1 = r2.
Print Assumptions c14_fetch_injective.

(* SELECT / EXAMINE: every chain (any method names, any arguments): only `[]` and `[cond_store]` are admitted *)
Theorem c14_select_chain_exact : forall m calls,
  run_chain ref_machine "select" [AStr m] calls = select_spec (bs "SELECT") m calls /\
  run_chain ref_machine "examine" [AStr m] calls = select_spec (bs "EXAMINE") m calls.
Proof. exact select_chain_exact. Qed.
Check c14_select_chain_exact : forall m calls,
  run_chain ref_machine "select" [AStr m] calls = select_spec (bs "SELECT") m calls /\
  run_chain ref_machine "examine" [AStr m] calls = select_spec (bs "EXAMINE") m calls.
Print Assumptions c14_select_chain_exact.

Theorem c14_select_grammatical : forall verb m calls out next,
  verb = bs "SELECT" \/ verb = bs "EXAMINE" -> forallb is_text_char m = true ->
  select_spec verb m calls = Some (out, next) -> select_cmd out.
Proof. exact select_chain_grammatical. Qed.
Check c14_select_grammatical : forall verb m calls out next,
  verb = bs "SELECT" \/ verb = bs "EXAMINE" -> forallb is_text_char m = true ->
  select_spec verb m calls = Some (out, next) -> select_cmd out.
Print Assumptions c14_select_grammatical.

(* LOGIN / LIST / CHECK / CLOSE: the machine is the C10 model (whose theorems give read-back and injectivity) *)
Theorem c14_login_list_exact : forall u p,
  run_chain ref_machine "login" [AStr u; AStr p] [] = of_bres (login u p) "Some(State::Authenticated)" /\
  run_chain ref_machine "list" [AStr u; AStr p] [] = of_bres (list_cmd u p) "None".
Proof. exact login_list_exact. Qed.
Check c14_login_list_exact : forall u p,
  run_chain ref_machine "login" [AStr u; AStr p] [] = of_bres (login u p) "Some(State::Authenticated)" /\
  run_chain ref_machine "list" [AStr u; AStr p] [] = of_bres (list_cmd u p) "None".
Print Assumptions c14_login_list_exact.

Theorem c14_login_list_grammatical : forall verb a b out,
  forallb is_text_char a = true -> forallb is_text_char b = true ->
  build2 verb a b = BOk out -> two_string_cmd verb out.
Proof. exact login_list_grammatical. Qed.
Check c14_login_list_grammatical : forall verb a b out,
  forallb is_text_char a = true -> forallb is_text_char b = true ->
  build2 verb a b = BOk out -> two_string_cmd verb out.
Print Assumptions c14_login_list_grammatical.

Theorem c14_simple_commands :
  run_chain ref_machine "check" [] [] = Some (bs "CHECK", "None"%string) /\
  run_chain ref_machine "close" [] [] = Some (bs "CLOSE", "Some(State::Authenticated)"%string).
Proof. exact simple_commands_exact. Qed.
Check c14_simple_commands :
  run_chain ref_machine "check" [] [] = Some (bs "CHECK", "None"%string) /\
  run_chain ref_machine "close" [] [] = Some (bs "CLOSE", "Some(State::Authenticated)"%string).
Print Assumptions c14_simple_commands.

(* non-vacuity: a seven-call chain is admitted and gives the expected line; chains the types reject give None *)
Theorem c14_non_vacuous :
  option_map fst (run_chain gen_machine "uid_fetch" [] (map generic c14_sample)) =
  Some (bs "UID FETCH 1,2:4294967295,2147483648:* (RFC822.SIZE X-GM-LABELS BODY) (CHANGEDSINCE 18446744073709551615)") /\
  run_chain gen_machine "fetch" [] (map generic [CNum 1; CMacro "AttrMacro::All"; CChangedSince 1; CChangedSince 2]) = None.
Proof. exact (conj c14_sample_ok (proj1 c14_rejected)). Qed.
Check c14_non_vacuous :
  option_map fst (run_chain gen_machine "uid_fetch" [] (map generic c14_sample)) =
  Some (bs "UID FETCH 1,2:4294967295,2147483648:* (RFC822.SIZE X-GM-LABELS BODY) (CHANGEDSINCE 18446744073709551615)") /\
  run_chain gen_machine "fetch" [] (map generic [CNum 1; CMacro "AttrMacro::All"; CChangedSince 1; CChangedSince 2]) = None.
Print Assumptions c14_non_vacuous.
