(* C17 — body-structure search returns the IMAP part specifier of the matching part. *)
From TI Require Import Bytes BodyStruct BodyStructProofs.

(* the map built by BodyStructParser::new holds exactly (part specifier -> part), for all trees *)
Theorem map_matches_spec : forall t p n, In (p, n) (build_map t) <-> node_at t p = Some n.
Proof. exact map_matches_spec_lemma. Qed.
Check map_matches_spec : forall t p n, In (p, n) (build_map t) <-> node_at t p = Some n.
Print Assumptions map_matches_spec.

Theorem map_keys_nodup : forall t, NoDup (map fst (build_map t)).
Proof. exact walk_keys_nodup_lemma. Qed.
Check map_keys_nodup : forall t, NoDup (map fst (build_map t)).
Print Assumptions map_keys_nodup.

(* whatever key search() returns (any candidate, HashMap order is arbitrary) leads to a part satisfying the predicate *)
Theorem search_sound : forall t pred p, In p (candidates pred t) ->
  exists n, node_at t p = Some n /\ pred n = true.
Proof. exact search_sound_lemma. Qed.
Check search_sound : forall t pred p, In p (candidates pred t) ->
  exists n, node_at t p = Some n /\ pred n = true.
Print Assumptions search_sound.

(* search() returns a path iff some part satisfies the predicate *)
Theorem search_complete : forall t pred,
  (exists p n, node_at t p = Some n /\ pred n = true) <-> candidates pred t <> [].
Proof. exact search_complete_lemma. Qed.
Check search_complete : forall t pred,
  (exists p n, node_at t p = Some n /\ pred n = true) <-> candidates pred t <> [].
Print Assumptions search_complete.

Theorem path_indices_bounded : forall p t n, node_at t p = Some n ->
  Forall (fun k => 1 <= k <= max_width t) p.
Proof. exact path_indices_bounded_lemma. Qed.
Check path_indices_bounded : forall p t n, node_at t p = Some n ->
  Forall (fun k => 1 <= k <= max_width t) p.
Print Assumptions path_indices_bounded.
