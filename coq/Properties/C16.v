(* C16 — whatever the FETCH builder can request, the parser can read. *)
From TI Require Import Bytes Grammar Nom Interp InterpFacts Thm_Fuel Natives Proofs_C01 RoundTrip Spec RoundTripRules Builders Machine Proofs_C16.
From TI.gen Require Import ImapGrammar BuilderTables.
Local Open Scope N_scope.

(* reflection over the two regenerated tables: for every attribute (and every item of every macro) the builder
   offers, the reply keyword of RFC 3501 7.4.2 is taken up by some alternative of the parser's msg_att *)
Theorem c16_every_requestable_item_is_dispatched :
  forallb dispatched builder_attrs = true /\
  forallb (fun m => match assoc m macro_items with Some its => forallb dispatched its | None => false end) builder_macros = true.
Proof. exact every_item_dispatched. Qed.
Check c16_every_requestable_item_is_dispatched :
  forallb dispatched builder_attrs = true /\
  forallb (fun m => match assoc m macro_items with Some its => forallb dispatched its | None => false end) builder_macros = true.
Print Assumptions c16_every_requestable_item_is_dispatched.

(* for the items in proved_items (ENVELOPE, FLAGS, INTERNALDATE, MODSEQ, RFC822, RFC822.SIZE, RFC822.TEXT, UID, X-GM-MSGID, X-GM-LABELS, BODY with body structures nested below 32 levels; also BODYSTRUCTURE and BODY[section]<origin>, which the builder does not request) and every
   combination of them: every conformant reply, with any message data, parses and returns exactly the values sent *)
Theorem c16_reply_parses : forall v w, enc_fetch v w -> forall rest, parse (w ++ rest) = ROk rest v (nlen w).
Proof. exact reply_parses. Qed.
Check c16_reply_parses : forall v w, enc_fetch v w -> forall rest, parse (w ++ rest) = ROk rest v (nlen w).
Print Assumptions c16_reply_parses.

(* every attribute of the builder is covered by that theorem (not_yet_proved is empty) *)
Theorem c16_items_partition :
  forallb (fun a => existsb (String.eqb a) (map fst proved_items ++ not_yet_proved)) builder_attrs = true.
Proof. exact items_partition. Qed.
Check c16_items_partition :
  forallb (fun a => existsb (String.eqb a) (map fst proved_items ++ not_yet_proved)) builder_attrs = true.
Print Assumptions c16_items_partition.

(* the functions and closures that Natives.v models by hand are, token for token, the ones the models were written for *)
From TI Require NativeSources.
Theorem c16_hand_models_match_source :
  gen_native_fns = NativeSources.modelled_fn_sources /\ gen_native_actions = NativeSources.modelled_action_sources.
Proof. exact NativeSources.hand_models_match_source_lemma. Qed.
Check c16_hand_models_match_source :
  gen_native_fns = NativeSources.modelled_fn_sources /\ gen_native_actions = NativeSources.modelled_action_sources.
Print Assumptions c16_hand_models_match_source.
