(* C05 — a command's response stream is delimited by its own tagged completion.
   rs_step / stream_poll: the model of ResponseStream::poll_next (Client.v). *)
From TI Require Import Bytes Grammar Nom Interp Natives Tags Builders Client ClientProofs SessionProofs.

(* while receiving, the stream hands through exactly what the framed connection delivers (order kept,
   nothing dropped or invented), and it finishes on a frame iff that frame is a tagged completion whose
   tag is byte-for-byte the command's own; the end of the connection before that is an error item *)
Theorem c05_stream_is_a_window : forall c s c' s' r, s_state s = RsReceiving -> rs_step c s = (c', s', r) ->
  exists rf' o rd', fr_poll (c_rf c) (io_rd (c_io c)) = (rf', o, rd') /\ c_rf c' = rf' /\ io_rd (c_io c') = rd' /\
    (forall raw v, o = PItem (IFrame raw v) ->
       r = Some o /\ (s_state s' = RsDone <-> exists t, done_tag v = Some t /\ t = s_tag s)) /\
    (o = PNone -> r = Some (PItem IErrEnded) /\ s_state s' = RsReceiving) /\
    (forall e, o = PItem e -> (forall raw v, e <> IFrame raw v) -> r = Some o /\ s_state s' = RsReceiving) /\
    (o = PPending -> r = Some PPending /\ s_state s' = RsReceiving).
Proof. exact exact_match_lemma. Qed.
Check c05_stream_is_a_window : forall c s c' s' r, s_state s = RsReceiving -> rs_step c s = (c', s', r) ->
  exists rf' o rd', fr_poll (c_rf c) (io_rd (c_io c)) = (rf', o, rd') /\ c_rf c' = rf' /\ io_rd (c_io c') = rd' /\
    (forall raw v, o = PItem (IFrame raw v) ->
       r = Some o /\ (s_state s' = RsDone <-> exists t, done_tag v = Some t /\ t = s_tag s)) /\
    (o = PNone -> r = Some (PItem IErrEnded) /\ s_state s' = RsReceiving) /\
    (forall e, o = PItem e -> (forall raw v, e <> IFrame raw v) -> r = Some o /\ s_state s' = RsReceiving) /\
    (o = PPending -> r = Some PPending /\ s_state s' = RsReceiving).
Print Assumptions c05_stream_is_a_window.

(* never silent: None only after the own completion was delivered, and from then on always, leaving
   every later byte (the client's read buffer and transport) untouched for the next command *)
Theorem c05_never_silent : forall c s c' s' o, stream_poll c s = (c', s', o) ->
  (o = PNone -> s_state s = RsDone) /\ (s_state s = RsDone -> o = PNone /\ c' = c /\ s' = s).
Proof. exact never_silent_lemma. Qed.
Check c05_never_silent : forall c s c' s' o, stream_poll c s = (c', s', o) ->
  (o = PNone -> s_state s = RsDone) /\ (s_state s = RsDone -> o = PNone /\ c' = c /\ s' = s).
Print Assumptions c05_never_silent.

(* the read side is only touched while receiving *)
Theorem c05_reads_only_when_receiving : forall c s c' s' r, rs_step c s = (c', s', r) ->
  s_state s <> RsReceiving -> c_rf c' = c_rf c.
Proof. intros c s c' s' r H. exact (proj1 (proj2 (proj2 (proj2 (proj2 (proj2 (proj2 (proj2 (proj2 (proj2 (proj2 (rs_step_props c s c' s' r H)))))))))))). Qed.
Check c05_reads_only_when_receiving : forall c s c' s' r, rs_step c s = (c', s', r) ->
  s_state s <> RsReceiving -> c_rf c' = c_rf c.
Print Assumptions c05_reads_only_when_receiving.

(* Pending is only ever propagated from the transport *)
Theorem c05_read_pending_from_transport : forall rd st st' rd', fr_poll st rd = (st', PPending, rd') ->
  (rd' = [] /\ Forall (fun e => match e with RChunk _ | REof => True | _ => False end) rd) \/
  (exists used, rd = used ++ RNotReady :: rd').
Proof. exact read_pending_from_transport_lemma. Qed.
Check c05_read_pending_from_transport : forall rd st st' rd', fr_poll st rd = (st', PPending, rd') ->
  (rd' = [] /\ Forall (fun e => match e with RChunk _ | REof => True | _ => False end) rd) \/
  (exists used, rd = used ++ RNotReady :: rd').
Print Assumptions c05_read_pending_from_transport.

Theorem c05_write_pending_from_transport : forall fuel wbuf t wbuf' t', (length wbuf < fuel)%nat ->
  flush_loop fuel wbuf t = (wbuf', t', WPending) ->
  (exists used, io_wr t = used ++ WNotReady :: io_wr t') \/ (exists fl', io_fl t = FNotReady :: fl' /\ io_fl t' = fl').
Proof. exact write_pending_from_transport_lemma. Qed.
Check c05_write_pending_from_transport : forall fuel wbuf t wbuf' t', (length wbuf < fuel)%nat ->
  flush_loop fuel wbuf t = (wbuf', t', WPending) ->
  (exists used, io_wr t = used ++ WNotReady :: io_wr t') \/ (exists fl', io_fl t = FNotReady :: fl' /\ io_fl t' = fl').
Print Assumptions c05_write_pending_from_transport.

(* over a whole session -- any commands, any numbers of polls per stream, any abandonment points, any read / write /
   flush schedule: the frames handed to the streams, in order, are exactly the frames that n successive polls of the
   framed read side (fr_trace; C04 says what those are for a given byte stream) yield from the session's initial
   read state, and the read side is left in the state after those n polls.  Exactly once, in order, and every
   later byte is left for the next command. *)
Theorem c05_session_exactly_once : forall ops c c' started outs, session ops c = (c', started, outs) ->
  exists n os, fr_trace n (c_rf c) (io_rd (c_io c)) = (os, c_rf c', io_rd (c_io c')) /\
               frames_of (List.concat outs) = frames_of os.
Proof. exact session_exactly_once_lemma. Qed.
Check c05_session_exactly_once : forall ops c c' started outs, session ops c = (c', started, outs) ->
  exists n os, fr_trace n (c_rf c) (io_rd (c_io c)) = (os, c_rf c', io_rd (c_io c')) /\
               frames_of (List.concat outs) = frames_of os.
Print Assumptions c05_session_exactly_once.

(* the outputs of a stream polled any number of times from its creation: other items, then at most once its own
   tagged completion, then at most one None and nothing behind it; None never comes before the own completion *)
Theorem c05_stream_delimited : forall n c args c1 s0 c' s' os, call c args = Some (c1, s0) -> polls n c1 s0 = (c', s', os) ->
  Delim (s_tag s0) false os.
Proof. exact stream_delimited_lemma. Qed.
Check c05_stream_delimited : forall n c args c1 s0 c' s' os, call c args = Some (c1, s0) -> polls n c1 s0 = (c', s', os) ->
  Delim (s_tag s0) false os.
Print Assumptions c05_stream_delimited.

Theorem c05_delimited_in_words : forall tag os, Delim tag false os ->
  (forall pre o post, os = pre ++ o :: post -> own tag o -> post = [] \/ post = [PNone]) /\
  (forall pre post, os = pre ++ PNone :: post -> post = [] /\ exists pre' o, pre = pre' ++ [o] /\ own tag o).
Proof. exact Delim_shape. Qed.
Check c05_delimited_in_words : forall tag os, Delim tag false os ->
  (forall pre o post, os = pre ++ o :: post -> own tag o -> post = [] \/ post = [PNone]) /\
  (forall pre post, os = pre ++ PNone :: post -> post = [] /\ exists pre' o, pre = pre' ++ [o] /\ own tag o).
Print Assumptions c05_delimited_in_words.

(* the checks drive the client through the hook (`call_generic` over `from_transport`); it is `TlsClient::call` over
   `TlsClient::connect` token for token, so what is established through the hook is established for `call` *)
From TI Require HookSource.
From TI.gen Require ClientTables.
Theorem c05_hook_is_call_verbatim :
  ClientTables.gen_call_body = ClientTables.gen_call_generic_body /\ ClientTables.gen_connect_client = ClientTables.gen_hook_client /\
  ClientTables.gen_call_body <> "<missing>"%string /\ ClientTables.gen_connect_client <> nil.
Proof. exact HookSource.hook_is_call_verbatim_lemma. Qed.
Check c05_hook_is_call_verbatim :
  ClientTables.gen_call_body = ClientTables.gen_call_generic_body /\ ClientTables.gen_connect_client = ClientTables.gen_hook_client /\
  ClientTables.gen_call_body <> "<missing>"%string /\ ClientTables.gen_connect_client <> nil.
Print Assumptions c05_hook_is_call_verbatim.

(* ---- the property's first sentence, end to end (E2EGen.v), for ANY language of server responses that the parser round-trips
   (enc: any relation between values and byte strings with parse (w ++ rest) = Ok rest v |w|; Properties/C03.v instantiates
   it with the RFC spellings of every response kind, Spec.enc_response).  The k-th command is answered by responses that
   are not a completion carrying its tag, followed by one that is; the transport cuts the bytes anywhere and answers
   not-ready whenever it likes, with any write / flush schedule; the streams are polled until they end.  Then the k-th
   stream hands out exactly the k-th answer -- in wire order, value for value and byte for byte, ending with its own
   completion -- and every later byte was left for the later commands; at the end nothing is left in the buffer. *)
From TI Require Import E2EGen.
Theorem c05_conversation : forall (enc : val -> list byte -> Prop),
  (forall v w, enc v w -> forall rest, parse (w ++ rest) = ROk rest v (nlen w)) ->
  forall answers ops c c' started outs,
  session ops c = (c', started, outs) ->
  c_rf c = rf_init -> data_only (io_rd (c_io c)) -> bytes_of (io_rd (c_io c)) = wire (List.concat answers) ->
  E2EGen.conformant enc (List.concat answers) ->
  c_next c + N.of_nat (length ops) <= Tags.U64_MAX ->
  Forall2 answer_for (tags_from (c_next c) (length ops)) answers ->
  Forall (In PNone) outs ->
  map frames_of outs = map expected answers /\ rf_buf (c_rf c') = [].
Proof. exact E2EGen.conversation_lemma. Qed.
Check c05_conversation : forall (enc : val -> list byte -> Prop),
  (forall v w, enc v w -> forall rest, parse (w ++ rest) = ROk rest v (nlen w)) ->
  forall answers ops c c' started outs,
  session ops c = (c', started, outs) ->
  c_rf c = rf_init -> data_only (io_rd (c_io c)) -> bytes_of (io_rd (c_io c)) = wire (List.concat answers) ->
  E2EGen.conformant enc (List.concat answers) ->
  c_next c + N.of_nat (length ops) <= Tags.U64_MAX ->
  Forall2 answer_for (tags_from (c_next c) (length ops)) answers ->
  Forall (In PNone) outs ->
  map frames_of outs = map expected answers /\ rf_buf (c_rf c') = [].
Print Assumptions c05_conversation.

(* whole sessions, streams abandoned anywhere: all frames handed out, in order, are exactly the first responses sent *)
Theorem c05_conformant_session : forall (enc : val -> list byte -> Prop),
  (forall v w, enc v w -> forall rest, parse (w ++ rest) = ROk rest v (nlen w)) ->
  forall s ops c c' started outs,
  E2EGen.conformant enc s -> c_rf c = rf_init -> data_only (io_rd (c_io c)) -> bytes_of (io_rd (c_io c)) = wire s ->
  session ops c = (c', started, outs) ->
  exists s1 s2, s = s1 ++ s2 /\ frames_of (List.concat outs) = expected s1 /\
                rf_buf (c_rf c') ++ bytes_of (io_rd (c_io c')) = wire s2.
Proof. exact E2EGen.conformant_session_lemma. Qed.
Check c05_conformant_session : forall (enc : val -> list byte -> Prop),
  (forall v w, enc v w -> forall rest, parse (w ++ rest) = ROk rest v (nlen w)) ->
  forall s ops c c' started outs,
  E2EGen.conformant enc s -> c_rf c = rf_init -> data_only (io_rd (c_io c)) -> bytes_of (io_rd (c_io c)) = wire s ->
  session ops c = (c', started, outs) ->
  exists s1 s2, s = s1 ++ s2 /\ frames_of (List.concat outs) = expected s1 /\
                rf_buf (c_rf c') ++ bytes_of (io_rd (c_io c')) = wire s2.
Print Assumptions c05_conformant_session.

