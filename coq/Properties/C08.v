(* C08 — literal content is opaque: message bytes cannot forge or break protocol framing. *)
From TI Require Import Bytes Grammar Nom Interp InterpFacts Thm_Number Thm_Fuel Natives Proofs_C01 Proofs_C13 RoundTrip Spec RoundTripRules Proofs_RT.
From TI.gen Require Import ImapGrammar.
Local Open Scope N_scope.

(* the literal leaf: exactly the announced number of bytes, verbatim, whatever they are (no NUL), and the rest of the
   input is handed on untouched *)
Theorem c08_literal_verbatim : forall ds data post, ds <> [] -> all_digits ds -> dec ds = nlen data -> dec ds < 2 ^ 32 ->
  Forall (fun b => b <> 0) data ->
  literal_p (lit_header ds ++ data ++ post) = ROk post (VBytes data) (nlen ds + 4 + nlen data).
Proof. exact literal_exact_lemma. Qed.
Check c08_literal_verbatim : forall ds data post, ds <> [] -> all_digits ds -> dec ds = nlen data -> dec ds < 2 ^ 32 ->
  Forall (fun b => b <> 0) data ->
  literal_p (lit_header ds ++ data ++ post) = ROk post (VBytes data) (nlen ds + 4 + nlen data).
Print Assumptions c08_literal_verbatim.

(* in context, through the entry point: a FETCH whose RFC822 item is a literal with ANY content (CR, LF, quotes,
   parentheses, braces, text that looks like a tagged completion or another literal header ...) returns exactly that
   content as the item's value, ends exactly after its own CRLF, and leaves whatever follows untouched *)
Theorem c08_fetch_literal_opaque : forall n wn k kf ds content sp rest,
  enc_number 32 n wn -> kw " FETCH " k -> kw "RFC822 " kf -> enc_spaces sp ->
  ds <> [] -> forallb rfc_DIGIT ds = true -> dec ds = nlen content -> dec ds < 2 ^ 32 -> forallb rfc_CHAR8 content = true ->
  parse ((bs "* " ++ wn ++ k ++ [40] ++ (kf ++ ([123] ++ ds ++ [125; 13; 10] ++ content)) ++ [] ++ [41] ++ sp ++ [13; 10]) ++ rest)
  = ROk rest (VCon "Response::Fetch" [VNum n; VList [VCon "AttributeValue::Rfc822" [VSome (VBytes content)]]])
        (nlen (bs "* " ++ wn ++ k ++ [40] ++ (kf ++ ([123] ++ ds ++ [125; 13; 10] ++ content)) ++ [] ++ [41] ++ sp ++ [13; 10])).
Proof. exact fetch_literal_opaque. Qed.
Check c08_fetch_literal_opaque : forall n wn k kf ds content sp rest,
  enc_number 32 n wn -> kw " FETCH " k -> kw "RFC822 " kf -> enc_spaces sp ->
  ds <> [] -> forallb rfc_DIGIT ds = true -> dec ds = nlen content -> dec ds < 2 ^ 32 -> forallb rfc_CHAR8 content = true ->
  parse ((bs "* " ++ wn ++ k ++ [40] ++ (kf ++ ([123] ++ ds ++ [125; 13; 10] ++ content)) ++ [] ++ [41] ++ sp ++ [13; 10]) ++ rest)
  = ROk rest (VCon "Response::Fetch" [VNum n; VList [VCon "AttributeValue::Rfc822" [VSome (VBytes content)]]])
        (nlen (bs "* " ++ wn ++ k ++ [40] ++ (kf ++ ([123] ++ ds ++ [125; 13; 10] ++ content)) ++ [] ++ [41] ++ sp ++ [13; 10])).
Print Assumptions c08_fetch_literal_opaque.

(* the same for BODY[section]<origin>, every section form (empty, HEADER, HEADER.FIELDS[.NOT] (names), TEXT, part paths
   with or without .HEADER / .TEXT / .MIME) and with or without an origin octet *)
Theorem c08_body_section_literal_opaque : forall n wn k kb sec wsec idx widx ds content sp rest,
  enc_number 32 n wn -> kw " FETCH " k -> kw "BODY" kb -> enc_section sec wsec -> enc_origin idx widx -> enc_spaces sp ->
  ds <> [] -> forallb rfc_DIGIT ds = true -> dec ds = nlen content -> dec ds < 2 ^ 32 -> forallb rfc_CHAR8 content = true ->
  parse ((bs "* " ++ wn ++ k ++ [40] ++ (kb ++ wsec ++ widx ++ SPb ++ ([123] ++ ds ++ [125; 13; 10] ++ content)) ++ [] ++ [41] ++ sp ++ [13; 10]) ++ rest)
  = ROk rest (VCon "Response::Fetch" [VNum n; VList [VRec "AttributeValue::BodySection"
                 [("section"%string, sec); ("index"%string, idx); ("data"%string, VSome (VBytes content))]]])
        (nlen (bs "* " ++ wn ++ k ++ [40] ++ (kb ++ wsec ++ widx ++ SPb ++ ([123] ++ ds ++ [125; 13; 10] ++ content)) ++ [] ++ [41] ++ sp ++ [13; 10])).
Proof. exact body_section_literal_opaque. Qed.
Check c08_body_section_literal_opaque : forall n wn k kb sec wsec idx widx ds content sp rest,
  enc_number 32 n wn -> kw " FETCH " k -> kw "BODY" kb -> enc_section sec wsec -> enc_origin idx widx -> enc_spaces sp ->
  ds <> [] -> forallb rfc_DIGIT ds = true -> dec ds = nlen content -> dec ds < 2 ^ 32 -> forallb rfc_CHAR8 content = true ->
  parse ((bs "* " ++ wn ++ k ++ [40] ++ (kb ++ wsec ++ widx ++ SPb ++ ([123] ++ ds ++ [125; 13; 10] ++ content)) ++ [] ++ [41] ++ sp ++ [13; 10]) ++ rest)
  = ROk rest (VCon "Response::Fetch" [VNum n; VList [VRec "AttributeValue::BodySection"
                 [("section"%string, sec); ("index"%string, idx); ("data"%string, VSome (VBytes content))]]])
        (nlen (bs "* " ++ wn ++ k ++ [40] ++ (kb ++ wsec ++ widx ++ SPb ++ ([123] ++ ds ++ [125; 13; 10] ++ content)) ++ [] ++ [41] ++ sp ++ [13; 10])).
Print Assumptions c08_body_section_literal_opaque.

(* every literal-capable position covered by the round-trip theorem (envelope and address strings, the RFC822 items):
   the general statement is c03_fetch_roundtrip with enc_literal at that position; enc_literal admits every content *)
Theorem c08_any_content_is_a_literal : forall content, nlen content < 2 ^ 32 -> forallb rfc_CHAR8 content = true ->
  enc_literal content ([123] ++ to_dec (nlen content) ++ [125; 13; 10] ++ content).
Proof. exact canonical_literal. Qed.
Check c08_any_content_is_a_literal : forall content, nlen content < 2 ^ 32 -> forallb rfc_CHAR8 content = true ->
  enc_literal content ([123] ++ to_dec (nlen content) ++ [125; 13; 10] ++ content).
Print Assumptions c08_any_content_is_a_literal.

Theorem c08_positions_with_literals : forall v w, enc_fetch v w -> forall rest, parse (w ++ rest) = ROk rest v (nlen w).
Proof. exact fetch_roundtrip. Qed.
Check c08_positions_with_literals : forall v w, enc_fetch v w -> forall rest, parse (w ++ rest) = ROk rest v (nlen w).
Print Assumptions c08_positions_with_literals.

(* and outside FETCH: every string position of the other response kinds of Spec.enc_response (mailbox names in STATUS /
   LIST / LSUB / ACL / LISTRIGHTS / MYRIGHTS, quota roots and resource names, ACL identifiers and rights, header-field
   names) admits enc_literal with any content *)
Theorem c08_positions_with_literals_any : forall v w, enc_response v w -> forall rest, parse (w ++ rest) = ROk rest v (nlen w).
Proof. exact response_roundtrip. Qed.
Check c08_positions_with_literals_any : forall v w, enc_response v w -> forall rest, parse (w ++ rest) = ROk rest v (nlen w).
Print Assumptions c08_positions_with_literals_any.

(* LISTED FINDING (known_findings.txt, class resp-code-literal-fallback): the statement of C08 fails at one kind of
   position -- a literal inside a bracketed response code whose content is not UTF-8.  The witness, on the model
   (and, replayed by the check, on the implementation): 23 bytes are consumed, the literal's bytes are left over as
   the beginning of the "next response".  The positions covered by the theorems above are not affected. *)
Theorem c08_response_code_literal_refuted :
  exists rest v, parse c08_witness = ROk rest v 23 /\ rest = [255; 254] ++ bs ")] x" ++ [13; 10].
Proof. exact c08_code_literal_fallback. Qed.
Check c08_response_code_literal_refuted :
  exists rest v, parse c08_witness = ROk rest v 23 /\ rest = [255; 254] ++ bs ")] x" ++ [13; 10].
Print Assumptions c08_response_code_literal_refuted.

(* the functions and closures that Natives.v models by hand are, token for token, the ones the models were written for *)
From TI Require NativeSources.
Theorem c08_hand_models_match_source :
  gen_native_fns = NativeSources.modelled_fn_sources /\ gen_native_actions = NativeSources.modelled_action_sources.
Proof. exact NativeSources.hand_models_match_source_lemma. Qed.
Check c08_hand_models_match_source :
  gen_native_fns = NativeSources.modelled_fn_sources /\ gen_native_actions = NativeSources.modelled_action_sources.
Print Assumptions c08_hand_models_match_source.
