(* C02 — streaming verdicts are final; prefixes of a response are 'incomplete'.
   parse is the model of imap_proto::Response::from_bytes over the grammar regenerated from /repo. *)
From TI Require Import Bytes Grammar Nom Interp InterpFacts Thm_Stable Natives Proofs_C02.
From TI.gen Require Import Tables ImapGrammar.

(* reflection obligation over the regenerated grammar: only streaming nom primitives are used *)
Theorem c02_streaming_only : env_all node_streaming all_defs = true.
Proof. exact streaming_only_holds. Qed.
Check c02_streaming_only : env_all node_streaming all_defs = true.
Print Assumptions c02_streaming_only.

(* accept (same value, same consumed length) and reject verdicts are unchanged by appending any bytes *)
Theorem c02_verdicts_final : forall B X, final (parse B) (parse (B ++ X)) X.
Proof. exact verdicts_final_lemma. Qed.
Check c02_verdicts_final : forall B X,
  match parse B with
  | ROk rest v u => parse (B ++ X) = ROk (rest ++ X) v u
  | RErr => parse (B ++ X) = RErr
  | RFail => parse (B ++ X) = RFail
  | _ => True
  end.
Print Assumptions c02_verdicts_final.

(* every proper prefix of an accepted response is neither accepted nor rejected
   (RPanic / RFuel are excluded by C01's theorems) *)
Theorem c02_prefix_incomplete : forall A v u, parse A = ROk [] v u ->
  forall P Q, A = P ++ Q -> Q <> [] -> parse P = RInc \/ parse P = RPanic \/ parse P = RFuel.
Proof. exact prefix_incomplete_lemma. Qed.
Check c02_prefix_incomplete : forall A v u, parse A = ROk [] v u ->
  forall P Q, A = P ++ Q -> Q <> [] -> parse P = RInc \/ parse P = RPanic \/ parse P = RFuel.
Print Assumptions c02_prefix_incomplete.

(* the generic theorem: any grammar without complete-mode leaves, any actions, any fuel and loop bounds *)
Theorem c02_generic_stable : forall natf env, (forall f g, env f = Some g -> all_nodes node_streaming g = true) ->
  forall b b' fuel g dp, all_nodes node_streaming g = true ->
  stabB b b' (run natf env b fuel g dp) (run natf env b' fuel g dp).
Proof. exact run_stab. Qed.
Check c02_generic_stable : forall natf env, (forall f g, env f = Some g -> all_nodes node_streaming g = true) ->
  forall b b' fuel g dp, all_nodes node_streaming g = true ->
  stabB b b' (run natf env b fuel g dp) (run natf env b' fuel g dp).
Print Assumptions c02_generic_stable.

Theorem c02_every_parser_stable : forall f g fuel dp i X r v u,
  env f = Some g ->
  run native_call env (S (length i)) fuel g dp i = ROk r v u ->
  run native_call env (S (length (i ++ X))) fuel g dp (i ++ X) = ROk (r ++ X) v u.
Proof. exact every_parser_stable_lemma. Qed.
Check c02_every_parser_stable : forall f g fuel dp i X r v u,
  env f = Some g ->
  run native_call env (S (length i)) fuel g dp i = ROk r v u ->
  run native_call env (S (length (i ++ X))) fuel g dp (i ++ X) = ROk (r ++ X) v u.
Print Assumptions c02_every_parser_stable.

(* the public entry point Response::from_bytes is exactly the modelled parser: its body is the call and nothing else *)
Theorem c02_entry_point_is_parse_response : gen_from_bytes_body = "crate::parser::parse_response(buf)"%string.
Proof. reflexivity. Qed.
Check c02_entry_point_is_parse_response : gen_from_bytes_body = "crate::parser::parse_response(buf)"%string.
Print Assumptions c02_entry_point_is_parse_response.

(* the functions and closures that Natives.v models by hand are, token for token, the ones the models were written for *)
From TI Require NativeSources.
Theorem c02_hand_models_match_source :
  gen_native_fns = NativeSources.modelled_fn_sources /\ gen_native_actions = NativeSources.modelled_action_sources.
Proof. exact NativeSources.hand_models_match_source_lemma. Qed.
Check c02_hand_models_match_source :
  gen_native_fns = NativeSources.modelled_fn_sources /\ gen_native_actions = NativeSources.modelled_action_sources.
Print Assumptions c02_hand_models_match_source.
