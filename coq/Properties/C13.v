(* C13 — numbers are converted exactly or rejected, never wrapped. *)
From TI Require Import Bytes Grammar Nom Interp InterpFacts Thm_Number Natives Proofs_C13.
From TI.gen Require Import ImapGrammar.

(* for numerals of any length: the exact decimal value when it is below 2^bits, otherwise an error *)
Theorem number_exact_or_error : forall bits ds rest, ds <> [] -> all_digits ds -> stops rest ->
  number_p bits (ds ++ rest) = if dec ds <? 2 ^ bits then ROk rest (VNum (dec ds)) (nlen ds) else RErr.
Proof. exact number_exact_or_error_lemma. Qed.
Check number_exact_or_error : forall bits ds rest, ds <> [] -> all_digits ds -> stops rest ->
  number_p bits (ds ++ rest) = if dec ds <? 2 ^ bits then ROk rest (VNum (dec ds)) (nlen ds) else RErr.
Print Assumptions number_exact_or_error.

Theorem dec_leading_zeros : forall k ds, dec (repeat 48 k ++ ds) = dec ds.
Proof. exact dec_leading_zeros_lemma. Qed.
Check dec_leading_zeros : forall k ds, dec (repeat 48 k ++ ds) = dec ds.
Print Assumptions dec_leading_zeros.

Theorem dec_snoc : forall ds d, dec (ds ++ [d]) = dec ds * 10 + (d - 48).
Proof. exact dec_snoc_lemma. Qed.
Check dec_snoc : forall ds d, dec (ds ++ [d]) = dec ds * 10 + (d - 48).
Print Assumptions dec_snoc.

Theorem number_needs_terminator : forall bits ds, all_digits ds -> number_p bits ds = RInc.
Proof. exact number_needs_terminator_lemma. Qed.
Check number_needs_terminator : forall bits ds, all_digits ds -> number_p bits ds = RInc.
Print Assumptions number_needs_terminator.

(* the length of a literal is taken exactly: the announced number of bytes, or an error beyond 2^32 *)
Theorem literal_length_exact : forall ds data post, ds <> [] -> all_digits ds -> dec ds = nlen data -> dec ds < 2 ^ 32 ->
  Forall (fun b => b <> 0) data ->
  literal_p (lit_header ds ++ data ++ post) = ROk post (VBytes data) (nlen ds + 4 + nlen data).
Proof. exact literal_exact_lemma. Qed.
Check literal_length_exact : forall ds data post, ds <> [] -> all_digits ds -> dec ds = nlen data -> dec ds < 2 ^ 32 ->
  Forall (fun b => b <> 0) data ->
  literal_p (lit_header ds ++ data ++ post) = ROk post (VBytes data) (nlen ds + 4 + nlen data).
Print Assumptions literal_length_exact.

Theorem literal_length_out_of_range : forall ds tail, ds <> [] -> all_digits ds -> 2 ^ 32 <= dec ds ->
  literal_p (lit_header ds ++ tail) = RErr.
Proof. exact literal_length_out_of_range_lemma. Qed.
Check literal_length_out_of_range : forall ds tail, ds <> [] -> all_digits ds -> 2 ^ 32 <= dec ds ->
  literal_p (lit_header ds ++ tail) = RErr.
Print Assumptions literal_length_out_of_range.

Theorem literal_short_incomplete : forall ds have, ds <> [] -> all_digits ds -> dec ds < 2 ^ 32 ->
  nlen have < dec ds -> literal_p (lit_header ds ++ have) = RInc.
Proof. exact literal_short_incomplete_lemma. Qed.
Check literal_short_incomplete : forall ds have, ds <> [] -> all_digits ds -> dec ds < 2 ^ 32 ->
  nlen have < dec ds -> literal_p (lit_header ds ++ have) = RInc.
Print Assumptions literal_short_incomplete.

(* reflection over the regenerated grammar: every number in a result comes unchanged from a
   number / number_64 leaf -- no translated action builds or computes a number, every numeric leaf is
   32 or 64 bits wide, and every irregular closure the translator found is one of the hand-modelled ones *)
Theorem c13_numeric_provenance : env_all node_no_numlit all_defs = true.
Proof. exact numbers_only_from_number_leaves. Qed.
Check c13_numeric_provenance : env_all node_no_numlit all_defs = true.
Print Assumptions c13_numeric_provenance.

Theorem c13_native_actions_modelled : forallb (fun e => mem_str (fst e) modelled_actions) gen_native_actions = true.
Proof. exact native_actions_all_modelled. Qed.
Check c13_native_actions_modelled : forallb (fun e => mem_str (fst e) modelled_actions) gen_native_actions = true.
Print Assumptions c13_native_actions_modelled.

Theorem c13_range_normalised : forall a b, range_norm a b = VCon "RangeInclusive" [VNum (N.min a b); VNum (N.max a b)].
Proof. exact range_norm_members. Qed.
Check c13_range_normalised : forall a b, range_norm a b = VCon "RangeInclusive" [VNum (N.min a b); VNum (N.max a b)].
Print Assumptions c13_range_normalised.

(* the functions and closures that Natives.v models by hand are, token for token, the ones the models were written for *)
From TI Require NativeSources.
Theorem c13_hand_models_match_source :
  gen_native_fns = NativeSources.modelled_fn_sources /\ gen_native_actions = NativeSources.modelled_action_sources.
Proof. exact NativeSources.hand_models_match_source_lemma. Qed.
Check c13_hand_models_match_source :
  gen_native_fns = NativeSources.modelled_fn_sources /\ gen_native_actions = NativeSources.modelled_action_sources.
Print Assumptions c13_hand_models_match_source.
