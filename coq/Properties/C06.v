(* C06 — each command goes on the wire exactly once, whole, and before any waiting. *)
From TI Require Import Bytes Grammar Nom Interp Natives Builders Client ClientProofs.
From TI Require Import TagsProofs HookSource.
From TI.gen Require Import ClientTables.
From Coq Require Import String List.
Import ListNotations.

(* over a whole session (any commands, any number of polls per stream, any abandonment point, any
   write / flush / read schedule): bytes accepted by the transport ++ bytes still buffered
   = the lines `tag SP args CRLF` of the commands whose start_send happened, in issue order, each once *)
Theorem c06_wire_is_prefix_of_lines : forall ops t c' started outs, session ops (client_init t) = (c', started, outs) ->
  io_wire (c_io c') ++ c_wbuf c' = io_wire t ++ List.concat started.
Proof. exact wire_is_prefix_lemma. Qed.
Check c06_wire_is_prefix_of_lines : forall ops t c' started outs, session ops (client_init t) = (c', started, outs) ->
  io_wire (c_io c') ++ c_wbuf c' = io_wire t ++ List.concat started.
Print Assumptions c06_wire_is_prefix_of_lines.

(* a stream is in Receiving / Done only with an empty write buffer, and no read is ever attempted
   while anything is buffered: the command is completely flushed before its stream waits *)
Theorem c06_flushed_before_receiving : forall c s c' s' o, wf c s -> stream_poll c s = (c', s', o) ->
  wf c' s' /\ (io_rd (c_io c') <> io_rd (c_io c) -> c_wbuf c' = [] /\ (s_state s' = RsReceiving \/ s_state s' = RsDone)).
Proof. exact flushed_before_receiving_lemma. Qed.
Check c06_flushed_before_receiving : forall c s c' s' o, wf c s -> stream_poll c s = (c', s', o) ->
  wf c' s' /\ (io_rd (c_io c') <> io_rd (c_io c) -> c_wbuf c' = [] /\ (s_state s' = RsReceiving \/ s_state s' = RsDone)).
Print Assumptions c06_flushed_before_receiving.

(* the flush loop moves bytes from the buffer to the wire in order, losing and duplicating nothing *)
Theorem c06_flush_conserves : forall fuel wbuf t wbuf' t' o, flush_loop fuel wbuf t = (wbuf', t', o) ->
  io_wire t' ++ wbuf' = io_wire t ++ wbuf /\ io_rd t' = io_rd t /\ (o = WReady -> wbuf' = []).
Proof. exact flush_loop_inv. Qed.
Check c06_flush_conserves : forall fuel wbuf t wbuf' t' o, flush_loop fuel wbuf t = (wbuf', t', o) ->
  io_wire t' ++ wbuf' = io_wire t ++ wbuf /\ io_rd t' = io_rd t /\ (o = WReady -> wbuf' = []).
Print Assumptions c06_flush_conserves.

(* one poll: the written-or-buffered bytes grow by this command's whole line exactly when it leaves Start *)
Theorem c06_one_poll : forall fuel c s c' s' o, rs_poll fuel c s = (c', s', o) ->
  s_tag s' = s_tag s /\ s_args s' = s_args s /\ c_next c' = c_next c /\
  on_wire c' = on_wire c ++ appended s s' /\
  (wf c s -> wf c' s') /\
  (left_start s = true -> left_start s' = true) /\
  (wf c s -> io_rd (c_io c') <> io_rd (c_io c) -> c_wbuf c' = [] /\ (s_state s' = RsReceiving \/ s_state s' = RsDone)) /\
  (o = PNone -> s_state s = RsDone) /\
  (s_state s = RsDone -> (0 < fuel)%nat -> o = PNone /\ c' = c /\ s' = s).
Proof. exact rs_poll_props. Qed.
Check c06_one_poll : forall fuel c s c' s' o, rs_poll fuel c s = (c', s', o) ->
  s_tag s' = s_tag s /\ s_args s' = s_args s /\ c_next c' = c_next c /\
  on_wire c' = on_wire c ++ appended s s' /\
  (wf c s -> wf c' s') /\
  (left_start s = true -> left_start s' = true) /\
  (wf c s -> io_rd (c_io c') <> io_rd (c_io c) -> c_wbuf c' = [] /\ (s_state s' = RsReceiving \/ s_state s' = RsDone)) /\
  (o = PNone -> s_state s = RsDone) /\
  (s_state s = RsDone -> (0 < fuel)%nat -> o = PNone /\ c' = c /\ s' = s).
Print Assumptions c06_one_poll.

(* reflection over the regenerated source text: the entry point the checks drive (the hook call_generic over
   from_transport) is TlsClient::call over TlsClient::connect token for token, TLS transport aside *)
Theorem c06_hook_is_call_verbatim :
  gen_call_body = gen_call_generic_body /\ gen_connect_client = gen_hook_client /\
  gen_call_body <> "<missing>"%string /\ gen_connect_client <> [].
Proof. exact hook_is_call_verbatim_lemma. Qed.
Check c06_hook_is_call_verbatim :
  gen_call_body = gen_call_generic_body /\ gen_connect_client = gen_hook_client /\
  gen_call_body <> "<missing>"%string /\ gen_connect_client <> [].
Print Assumptions c06_hook_is_call_verbatim.

(* ---- the wire of a whole session, end to end (E2EWrite.v: the theorem above composed with C11's tag theorems and
   C10's single-line theorems).  issue 0 args = the commands with the tags A0001, A0002, ... of their own calls;
   sub = "is a subsequence of" (a stream dropped before its command reached the codec leaves a gap in the tags). *)
From TI Require Import Machine BuilderLines E2EWrite.
From TI.gen Require Import BuilderTables.
Theorem c06_session_commands : forall ops t c' started outs,
  session ops (client_init t) = (c', started, outs) ->
  N.of_nat (length ops) <= 10000 ->
  Forall (fun a => ~ In 13 a /\ ~ In 10 a) (map fst ops) ->
  exists issued,
    io_wire (c_io c') ++ c_wbuf c' = io_wire t ++ List.concat (map line issued) /\
    sub issued (issue 0 (map fst ops)) /\
    NoDup (map fst issued) /\
    Forall (fun p => exists body, line p = body ++ [13; 10] /\ ~ In 13 body /\ ~ In 10 body) issued.
Proof. exact session_commands_lemma. Qed.
Check c06_session_commands : forall ops t c' started outs,
  session ops (client_init t) = (c', started, outs) ->
  N.of_nat (length ops) <= 10000 ->
  Forall (fun a => ~ In 13 a /\ ~ In 10 a) (map fst ops) ->
  exists issued,
    io_wire (c_io c') ++ c_wbuf c' = io_wire t ++ List.concat (map line issued) /\
    sub issued (issue 0 (map fst ops)) /\
    NoDup (map fst issued) /\
    Forall (fun p => exists body, line p = body ++ [13; 10] /\ ~ In 13 body /\ ~ In 10 body) issued.
Print Assumptions c06_session_commands.

(* the same with nothing assumed about the arguments when every command comes out of a builder chain of typestate tables
   whose literal pieces and keywords hold no CR / LF -- which the tables regenerated from the source do
   (c06_regenerated_tables_ok; C14 shows them equal to the reference tables the example below runs on) *)
Theorem c06_regenerated_tables_ok : machine_ok gen_machine = true.
Proof. exact gen_machine_ok. Qed.
Check c06_regenerated_tables_ok : machine_ok gen_machine = true.
Print Assumptions c06_regenerated_tables_ok.

Theorem c06_built_session : forall m, machine_ok m = true -> forall ops t c' started outs,
  session ops (client_init t) = (c', started, outs) ->
  N.of_nat (length ops) <= 10000 ->
  Forall (built m) (map fst ops) ->
  exists issued,
    io_wire (c_io c') ++ c_wbuf c' = io_wire t ++ List.concat (map line issued) /\
    sub issued (issue 0 (map fst ops)) /\
    NoDup (map fst issued) /\
    Forall (fun p => exists body, line p = body ++ [13; 10] /\ ~ In 13 body /\ ~ In 10 body) issued.
Proof. exact built_session_lemma. Qed.
Check c06_built_session : forall m, machine_ok m = true -> forall ops t c' started outs,
  session ops (client_init t) = (c', started, outs) ->
  N.of_nat (length ops) <= 10000 ->
  Forall (built m) (map fst ops) ->
  exists issued,
    io_wire (c_io c') ++ c_wbuf c' = io_wire t ++ List.concat (map line issued) /\
    sub issued (issue 0 (map fst ops)) /\
    NoDup (map fst issued) /\
    Forall (fun p => exists body, line p = body ++ [13; 10] /\ ~ In 13 body /\ ~ In 10 body) issued.
Print Assumptions c06_built_session.

Local Open Scope string_scope.
Local Open Scope list_scope.
Theorem c06_built_session_example :
  let a1 := run_chain ref_machine "login" [AStr (bs "u"); AStr (bs "p""\")] [] in
  let a2 := run_chain ref_machine "uid_fetch" []
              [("range", [ARange 2 4]); ("num", [ANum 7]); ("attr", [AKw "Attribute::Flags"]); ("attr", [AKw "Attribute::Uid"]);
               ("changed_since", [ANum 9])] in
  exists x1 n1 x2 n2, a1 = Some (x1, n1) /\ a2 = Some (x2, n2) /\
    let t := mk_io [] [WAccept 3; WNotReady; WAccept 10; WAccept 100; WAccept 100] [FOk; FOk; FOk] [] in
    match session [(x1, 2%nat); (x2, 4%nat)] (client_init t) with
    | (c', started, outs) =>
      length started = 2%nat /\
      io_wire (c_io c') = bs "A0001 LOGIN ""u"" ""p\""\\""" ++ [13; 10] ++ bs "A0002 UID FETCH 2:4,7 (FLAGS UID) (CHANGEDSINCE 9)" ++ [13; 10]
    end.
Proof. exact built_session_example. Qed.
Check c06_built_session_example :
  let a1 := run_chain ref_machine "login" [AStr (bs "u"); AStr (bs "p""\")] [] in
  let a2 := run_chain ref_machine "uid_fetch" []
              [("range", [ARange 2 4]); ("num", [ANum 7]); ("attr", [AKw "Attribute::Flags"]); ("attr", [AKw "Attribute::Uid"]);
               ("changed_since", [ANum 9])] in
  exists x1 n1 x2 n2, a1 = Some (x1, n1) /\ a2 = Some (x2, n2) /\
    let t := mk_io [] [WAccept 3; WNotReady; WAccept 10; WAccept 100; WAccept 100] [FOk; FOk; FOk] [] in
    match session [(x1, 2%nat); (x2, 4%nat)] (client_init t) with
    | (c', started, outs) =>
      length started = 2%nat /\
      io_wire (c_io c') = bs "A0001 LOGIN ""u"" ""p\""\\""" ++ [13; 10] ++ bs "A0002 UID FETCH 2:4,7 (FLAGS UID) (CHANGEDSINCE 9)" ++ [13; 10]
    end.
Print Assumptions c06_built_session_example.

