(* C07 — a delivered frame owns its bytes; its parsed view never dangles or changes. *)
From TI Require Import Bytes Grammar Interp Natives Frames FramesProofs.
From TI.gen Require Import CodecTables.
Local Open Scope nat_scope.

(* the storage model: under every history of arrivals, decodes, reclaims, reallocations, drops (any capacity policy),
   a frame reads the same bytes from delivery until it is dropped *)
Theorem c07_frames_keep_their_bytes : forall es s id b, inv s -> frame_bytes s id = Some b ->
  frame_bytes (fsteps s es) id = Some b \/ (In (EDrop id) es /\ frame_bytes (fsteps s es) id = None).
Proof. exact frames_keep_their_bytes. Qed.
Check c07_frames_keep_their_bytes : forall es s id b, inv s -> frame_bytes s id = Some b ->
  frame_bytes (fsteps s es) id = Some b \/ (In (EDrop id) es /\ frame_bytes (fsteps s es) id = None).
Print Assumptions c07_frames_keep_their_bytes.

Theorem c07_reachable_frames_keep_their_bytes : forall cap es1 es2 id b,
  frame_bytes (fsteps (finit cap) es1) id = Some b ->
  frame_bytes (fsteps (finit cap) (es1 ++ es2)) id = Some b \/
  (In (EDrop id) es2 /\ frame_bytes (fsteps (finit cap) (es1 ++ es2)) id = None).
Proof. exact reachable_frames_keep_their_bytes. Qed.
Check c07_reachable_frames_keep_their_bytes : forall cap es1 es2 id b,
  frame_bytes (fsteps (finit cap) es1) id = Some b ->
  frame_bytes (fsteps (finit cap) (es1 ++ es2)) id = Some b \/
  (In (EDrop id) es2 /\ frame_bytes (fsteps (finit cap) (es1 ++ es2)) id = None).
Print Assumptions c07_reachable_frames_keep_their_bytes.

(* what a frame holds is exactly the bytes the parser consumed for it: the parsed view borrows from nothing else *)
Theorem c07_frame_is_the_parsed_region : forall s w rest v used,
  rb s = Some w -> parse (read (heap s) w) = ROk rest v used -> N.to_nat used <= v_len w -> inv s ->
  frame_bytes (fstep s EDecode) (next_id s) = Some (firstn (N.to_nat used) (read (heap s) w)).
Proof. exact delivered_frame_is_parsed_prefix. Qed.
Check c07_frame_is_the_parsed_region : forall s w rest v used,
  rb s = Some w -> parse (read (heap s) w) = ROk rest v used -> N.to_nat used <= v_len w -> inv s ->
  frame_bytes (fstep s EDecode) (next_id s) = Some (firstn (N.to_nat used) (read (heap s) w)).
Print Assumptions c07_frame_is_the_parsed_region.

(* tie to codec.rs: decode touches the buffer exactly as the model's EDecode does (parse in place, then
   split_to(rsp_len).freeze(), nothing in between), the frame's fields are the two private ones, and no response
   type has drop glue that could read borrowed data late *)
Theorem c07_decode_is_the_modelled_sequence :
  gen_decode_ops = ref_decode_ops /\ gen_frame_fields = ref_frame_fields /\ gen_drop_impls = [] /\ gen_codec_problems = [].
Proof. repeat split; reflexivity. Qed.
Check c07_decode_is_the_modelled_sequence :
  gen_decode_ops = ref_decode_ops /\ gen_frame_fields = ref_frame_fields /\ gen_drop_impls = [] /\ gen_codec_problems = [].
Print Assumptions c07_decode_is_the_modelled_sequence.

(* API discipline of the frame type: private fields, no Clone / Deref / AsRef / conversion impls, every method takes
   &self and every lifetime in its result is that borrow's (no 'static escapes) *)
Theorem c07_api_discipline : api_ok gen_frame_fields gen_frame_derives gen_frame_impls = true.
Proof. vm_compute. reflexivity. Qed.
Check c07_api_discipline : api_ok gen_frame_fields gen_frame_derives gen_frame_impls = true.
Print Assumptions c07_api_discipline.

Theorem c07_non_vacuous :
  let s := fsteps (finit 20) c07_history in
  frame_bytes s 0 = None /\ frame_bytes s 1 = Some (bs "* 2 RECENT" ++ crlf) /\ frame_bytes s 2 = Some (bs "* 3 EXPUNGE" ++ crlf) /\
  List.length (heap s) = 3.
Proof. exact c07_history_ok. Qed.
Check c07_non_vacuous :
  let s := fsteps (finit 20) c07_history in
  frame_bytes s 0 = None /\ frame_bytes s 1 = Some (bs "* 2 RECENT" ++ crlf) /\ frame_bytes s 2 = Some (bs "* 3 EXPUNGE" ++ crlf) /\
  List.length (heap s) = 3.
Print Assumptions c07_non_vacuous.
