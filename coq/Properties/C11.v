(* C11 — tags are valid, unique within a window (generator half; the matching half is pinned in
   Properties/C05.v's machine once Client.v is built).  Only statements, `exact`, Check, Print Assumptions. *)
From TI Require Import Bytes Tags TagsProofs.

Theorem tag_valid : forall n,
  tag_of n <> [] /\ Forall (fun c => is_tag_char c = true) (tag_of n) /\ length (tag_of n) = 5%nat.
Proof. exact tag_valid_lemma. Qed.
Check tag_valid : forall n,
  tag_of n <> [] /\ Forall (fun c => is_tag_char c = true) (tag_of n) /\ length (tag_of n) = 5%nat.
Print Assumptions tag_valid.

(* any two of 10 000 consecutive counter values give different tags, for EVERY start s (so across
   every wrap of the 4-digit counter) *)
Theorem tags_distinct_in_window : forall s i j,
  i < j -> j < 10000 -> tag_of (s + 1 + i) <> tag_of (s + 1 + j).
Proof. exact tags_distinct_in_window_lemma. Qed.
Check tags_distinct_in_window : forall s i j,
  i < j -> j < 10000 -> tag_of (s + 1 + i) <> tag_of (s + 1 + j).
Print Assumptions tags_distinct_in_window.

(* the generator itself: k <= 10000 consecutive calls from any state s that does not overflow u64 *)
Theorem idgen_window_nodup : forall s k ts s',
  N.of_nat k <= 10000 -> s + N.of_nat k <= U64_MAX ->
  idgen_run k s = Some (s', ts) -> NoDup ts /\ length ts = k /\ Forall (fun t => length t = 5%nat) ts.
Proof. exact idgen_window_nodup_lemma. Qed.
Check idgen_window_nodup : forall s k ts s',
  N.of_nat k <= 10000 -> s + N.of_nat k <= U64_MAX ->
  idgen_run k s = Some (s', ts) -> NoDup ts /\ length ts = k /\ Forall (fun t => length t = 5%nat) ts.
Print Assumptions idgen_window_nodup.

Theorem idgen_run_total : forall k s, s + N.of_nat k <= U64_MAX ->
  idgen_run k s = Some (s + N.of_nat k, map (fun i => tag_of (s + 1 + N.of_nat i)) (seq 0 k)).
Proof. exact idgen_run_spec. Qed.
Check idgen_run_total : forall k s, s + N.of_nat k <= U64_MAX ->
  idgen_run k s = Some (s + N.of_nat k, map (fun i => tag_of (s + 1 + N.of_nat i)) (seq 0 k)).
Print Assumptions idgen_run_total.

(* the matching half, on the client machine (Client.v): a stream that is receiving finishes on a
   frame iff that frame is a tagged completion whose tag is byte-for-byte the command's own; any
   other completion (stale, case-flipped, a prefix or an extension, any other tag) is handed
   through as an ordinary item and the stream keeps receiving *)
From TI Require Import Grammar Nom Interp Natives Client ClientProofs.
Theorem c11_exact_match : forall c s c' s' r, s_state s = RsReceiving -> rs_step c s = (c', s', r) ->
  exists rf' o rd', fr_poll (c_rf c) (io_rd (c_io c)) = (rf', o, rd') /\ c_rf c' = rf' /\ io_rd (c_io c') = rd' /\
    (forall raw v, o = PItem (IFrame raw v) ->
       r = Some o /\ (s_state s' = RsDone <-> exists t, done_tag v = Some t /\ t = s_tag s)) /\
    (o = PNone -> r = Some (PItem IErrEnded) /\ s_state s' = RsReceiving) /\
    (forall e, o = PItem e -> (forall raw v, e <> IFrame raw v) -> r = Some o /\ s_state s' = RsReceiving) /\
    (o = PPending -> r = Some PPending /\ s_state s' = RsReceiving).
Proof. exact exact_match_lemma. Qed.
Check c11_exact_match : forall c s c' s' r, s_state s = RsReceiving -> rs_step c s = (c', s', r) ->
  exists rf' o rd', fr_poll (c_rf c) (io_rd (c_io c)) = (rf', o, rd') /\ c_rf c' = rf' /\ io_rd (c_io c') = rd' /\
    (forall raw v, o = PItem (IFrame raw v) ->
       r = Some o /\ (s_state s' = RsDone <-> exists t, done_tag v = Some t /\ t = s_tag s)) /\
    (o = PNone -> r = Some (PItem IErrEnded) /\ s_state s' = RsReceiving) /\
    (forall e, o = PItem e -> (forall raw v, e <> IFrame raw v) -> r = Some o /\ s_state s' = RsReceiving) /\
    (o = PPending -> r = Some PPending /\ s_state s' = RsReceiving).
Print Assumptions c11_exact_match.

(* the tag a command is issued with is the generator's next tag, and it is what goes on the wire *)
Theorem c11_call_uses_next_tag : forall c args c' s, call c args = Some (c', s) ->
  idgen_next (c_next c) = Some (c_next c', s_tag s) /\ s_args s = args /\ s_state s = RsStart.
Proof.
  intros c args c' s H. unfold call in H. destruct (idgen_next (c_next c)) as [[n' tag]|]; [|discriminate].
  injection H as <- <-. auto.
Qed.
Check c11_call_uses_next_tag : forall c args c' s, call c args = Some (c', s) ->
  idgen_next (c_next c) = Some (c_next c', s_tag s) /\ s_args s = args /\ s_state s = RsStart.
Print Assumptions c11_call_uses_next_tag.
