(* C11 — tags are valid, unique within a window (generator half; the matching half is pinned in
   Properties/C05.v's machine once Client.v is built).  Only statements, `exact`, Check, Print Assumptions. *)
From TI Require Import Bytes Tags TagsProofs.

Theorem tag_valid : forall n,
  tag_of n <> [] /\ Forall (fun c => is_tag_char c = true) (tag_of n) /\ length (tag_of n) = 5%nat.
Proof. exact tag_valid_lemma. Qed.
Check tag_valid : forall n,
  tag_of n <> [] /\ Forall (fun c => is_tag_char c = true) (tag_of n) /\ length (tag_of n) = 5%nat.
Print Assumptions tag_valid.

(* any two of 10 000 consecutive counter values give different tags, for EVERY start s (so across
   every wrap of the 4-digit counter) *)
Theorem tags_distinct_in_window : forall s i j,
  i < j -> j < 10000 -> tag_of (s + 1 + i) <> tag_of (s + 1 + j).
Proof. exact tags_distinct_in_window_lemma. Qed.
Check tags_distinct_in_window : forall s i j,
  i < j -> j < 10000 -> tag_of (s + 1 + i) <> tag_of (s + 1 + j).
Print Assumptions tags_distinct_in_window.

(* the generator itself: k <= 10000 consecutive calls from any state s that does not overflow u64 *)
Theorem idgen_window_nodup : forall s k ts s',
  N.of_nat k <= 10000 -> s + N.of_nat k <= U64_MAX ->
  idgen_run k s = Some (s', ts) -> NoDup ts /\ length ts = k /\ Forall (fun t => length t = 5%nat) ts.
Proof. exact idgen_window_nodup_lemma. Qed.
Check idgen_window_nodup : forall s k ts s',
  N.of_nat k <= 10000 -> s + N.of_nat k <= U64_MAX ->
  idgen_run k s = Some (s', ts) -> NoDup ts /\ length ts = k /\ Forall (fun t => length t = 5%nat) ts.
Print Assumptions idgen_window_nodup.

Theorem idgen_run_total : forall k s, s + N.of_nat k <= U64_MAX ->
  idgen_run k s = Some (s + N.of_nat k, map (fun i => tag_of (s + 1 + N.of_nat i)) (seq 0 k)).
Proof. exact idgen_run_spec. Qed.
Check idgen_run_total : forall k s, s + N.of_nat k <= U64_MAX ->
  idgen_run k s = Some (s + N.of_nat k, map (fun i => tag_of (s + 1 + N.of_nat i)) (seq 0 k)).
Print Assumptions idgen_run_total.
