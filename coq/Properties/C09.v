(* C09 — a complete line always gets a verdict; the parser cannot stall the connection.
   `safe i` is the property's own lexical framing rule (Thm_Crlf.v): scan to CRLF; if the line ends
   in "{n}" skip n bytes and continue. *)
From TI Require Import Bytes Grammar Nom Interp InterpFacts Thm_Crlf Thm_Line Natives Proofs_C09.
Local Open Scope N_scope.
From TI.gen Require Import ImapGrammar.

(* reflection obligation over the regenerated grammar: no class, tag or char admits CR except the
   terminating CRLF of the top rules and the CRLF inside `literal` *)
Theorem c09_crlf_discipline : defs_ok 0 all_defs = true.
Proof. exact crlf_ok_holds. Qed.
Check c09_crlf_discipline : defs_ok 0 all_defs = true.
Print Assumptions c09_crlf_discipline.

Theorem c09_no_incomplete_on_complete_line : forall i, safe i -> parse i <> RInc.
Proof. exact no_incomplete_on_complete_line_lemma. Qed.
Check c09_no_incomplete_on_complete_line : forall i, safe i -> parse i <> RInc.
Print Assumptions c09_no_incomplete_on_complete_line.

Theorem c09_inner_parsers_never_incomplete : forall f g fuel bound dp i, env f = Some g -> is_tail_def f = false ->
  safe i -> run native_call env bound fuel g dp i <> RInc.
Proof. exact inner_parsers_never_incomplete_lemma. Qed.
Check c09_inner_parsers_never_incomplete : forall f g fuel bound dp i, env f = Some g -> is_tail_def f = false ->
  safe i -> run native_call env bound fuel g dp i <> RInc.
Print Assumptions c09_inner_parsers_never_incomplete.

(* the generic theorem, for any CRLF-disciplined grammar and any actions *)
Theorem c09_generic : forall (natf : string -> list val -> ares) (env : N -> option G) (bound : nat) (is_tail : N -> bool),
  (forall f g, env f = Some g -> if is_tail f then tailok is_tail g = true else all_nodes (node_inner is_tail) g = true) ->
  forall fuel g dp, tailok is_tail g = true -> forall i, safe i -> run natf env bound fuel g dp i <> RInc.
Proof. exact run_good0. Qed.
Check c09_generic : forall (natf : string -> list val -> ares) (env : N -> option G) (bound : nat) (is_tail : N -> bool),
  (forall f g, env f = Some g -> if is_tail f then tailok is_tail g = true else all_nodes (node_inner is_tail) g = true) ->
  forall fuel g dp, tailok is_tail g = true -> forall i, safe i -> run natf env bound fuel g dp i <> RInc.
Print Assumptions c09_generic.

(* second clause: an accepted response whose first line does not end in "}" (no literal can continue it) ends
   exactly at the first CRLF of the buffer -- the rest is everything behind that CRLF, the consumed length is the
   line plus two.  `split_crlf` is the framer's scan for the first CR LF pair. *)
Theorem c09_strict_tail_discipline : sdefs_ok 0 all_defs = true.
Proof. exact strict_tail_holds. Qed.
Check c09_strict_tail_discipline : sdefs_ok 0 all_defs = true.
Print Assumptions c09_strict_tail_discipline.

Theorem c09_accepted_line_ends_at_first_crlf : forall i a after r v u,
  split_crlf i = Some (a, after) -> ends_brace a = false -> parse i = ROk r v u -> r = after /\ u = nlen a + 2.
Proof. exact accepted_line_ends_at_first_crlf_lemma. Qed.
Check c09_accepted_line_ends_at_first_crlf : forall i a after r v u,
  split_crlf i = Some (a, after) -> ends_brace a = false -> parse i = ROk r v u -> r = after /\ u = nlen a + 2.
Print Assumptions c09_accepted_line_ends_at_first_crlf.

(* and with or without literals: whatever the parser accepts ends with CR LF (so a frame never ends inside a line) *)
Theorem c09_accepted_response_ends_with_crlf : forall i r v u, parse i = ROk r v u -> exists w0, i = w0 ++ 13 :: 10 :: r.
Proof. exact accepted_response_ends_with_crlf_lemma. Qed.
Check c09_accepted_response_ends_with_crlf : forall i r v u, parse i = ROk r v u -> exists w0, i = w0 ++ 13 :: 10 :: r.
Print Assumptions c09_accepted_response_ends_with_crlf.

(* the generic theorem, for any grammar in strict tail form and any actions *)
Theorem c09_generic_first_crlf : forall (natf : string -> list val -> ares) (env : N -> option G) (bound : nat) (is_tail : N -> bool),
  (forall f g, env f = Some g -> if is_tail f then stail is_tail g = true else all_nodes (node_inner is_tail) g = true) ->
  forall fuel g dp, stail is_tail g = true -> forall i a after r v u, split_crlf i = Some (a, after) -> ends_brace a = false ->
    run natf env bound fuel g dp i = ROk r v u -> r = after /\ u = nlen a + 2.
Proof. exact accepted_line_ends_at_first_crlf. Qed.
Check c09_generic_first_crlf : forall (natf : string -> list val -> ares) (env : N -> option G) (bound : nat) (is_tail : N -> bool),
  (forall f g, env f = Some g -> if is_tail f then stail is_tail g = true else all_nodes (node_inner is_tail) g = true) ->
  forall fuel g dp, stail is_tail g = true -> forall i a after r v u, split_crlf i = Some (a, after) -> ends_brace a = false ->
    run natf env bound fuel g dp i = ROk r v u -> r = after /\ u = nlen a + 2.
Print Assumptions c09_generic_first_crlf.

(* the functions and closures that Natives.v models by hand are, token for token, the ones the models were written for *)
From TI Require NativeSources.
Theorem c09_hand_models_match_source :
  gen_native_fns = NativeSources.modelled_fn_sources /\ gen_native_actions = NativeSources.modelled_action_sources.
Proof. exact NativeSources.hand_models_match_source_lemma. Qed.
Check c09_hand_models_match_source :
  gen_native_fns = NativeSources.modelled_fn_sources /\ gen_native_actions = NativeSources.modelled_action_sources.
Print Assumptions c09_hand_models_match_source.
