(* C03 — parse fidelity: the value returned is exactly what the server sent. *)
From TI Require Import Bytes Grammar Nom Interp InterpFacts Thm_Fuel Natives Proofs_C01 RoundTrip Spec RoundTripRules Proofs_RT Examples_RT.
From TI.gen Require Import ImapGrammar.
Local Open Scope N_scope.

(* the whole way from the entry point: every RFC spelling (Spec.enc_fetch: keyword and NIL case, leading zeros,
   quoted or literal strings, optional space between addresses, doubled space after RFC822.HEADER, trailing spaces)
   of a FETCH response with ENVELOPE / FLAGS / INTERNALDATE / UID / RFC822.SIZE / RFC822 / RFC822.TEXT /
   RFC822.HEADER / MODSEQ / X-GM-MSGID items is consumed exactly and yields exactly that value -- every field in its own slot, every list
   element present and in order, every number and byte string unchanged; whatever follows is left untouched *)
Theorem c03_fetch_roundtrip : forall v w, enc_fetch v w -> forall rest, parse (w ++ rest) = ROk rest v (nlen w).
Proof. exact fetch_roundtrip. Qed.
Check c03_fetch_roundtrip : forall v w, enc_fetch v w -> forall rest, parse (w ++ rest) = ROk rest v (nlen w).
Print Assumptions c03_fetch_roundtrip.

(* other untagged data: n EXISTS / n RECENT / n EXPUNGE, VANISHED [(EARLIER)] with a sequence set in any order of
   range ends, QUOTA with its resources (name, usage, limit in their slots; one or more SP / HTAB between parts),
   STATUS mailbox (items), LIST / LSUB (name attributes classified whatever their case, delimiter or NIL, mailbox) *)
Theorem c03_data_roundtrip : forall v w, enc_data_response v w -> forall rest, parse (w ++ rest) = ROk rest v (nlen w).
Proof. exact data_roundtrip. Qed.
Check c03_data_roundtrip : forall v w, enc_data_response v w -> forall rest, parse (w ++ rest) = ROk rest v (nlen w).
Print Assumptions c03_data_roundtrip.

(* SEARCH / SORT with any number of ids and tolerated trailing spaces; STATUS (mailbox in any astring form, INBOX
   case-folded; item list) is part of c03_data_roundtrip; CAPABILITY with IMAP4rev1 / AUTH=mech / atoms *)
Theorem c03_id_list_roundtrip : forall v w, enc_id_list_response v w -> forall rest, parse (w ++ rest) = ROk rest v (nlen w).
Proof. exact id_list_roundtrip. Qed.
Check c03_id_list_roundtrip : forall v w, enc_id_list_response v w -> forall rest, parse (w ++ rest) = ROk rest v (nlen w).
Print Assumptions c03_id_list_roundtrip.

Theorem c03_capability_roundtrip : forall v body sp, enc_capability_data v body -> enc_spaces sp -> forall rest,
  parse ((bs "* " ++ body ++ sp ++ [13; 10]) ++ rest) = ROk rest v (nlen (bs "* " ++ body ++ sp ++ [13; 10])).
Proof. exact capability_roundtrip. Qed.
Check c03_capability_roundtrip : forall v body sp, enc_capability_data v body -> enc_spaces sp -> forall rest,
  parse ((bs "* " ++ body ++ sp ++ [13; 10]) ++ rest) = ROk rest v (nlen (bs "* " ++ body ++ sp ++ [13; 10])).
Print Assumptions c03_capability_roundtrip.

(* ENABLED atoms; QUOTAROOT mailbox and root names; MYRIGHTS mailbox and the rights, one value per character *)
Theorem c03_enabled_roundtrip : forall v body sp, enc_enabled_data v body -> enc_spaces sp -> forall rest,
  parse ((bs "* " ++ body ++ sp ++ [13; 10]) ++ rest) = ROk rest v (nlen (bs "* " ++ body ++ sp ++ [13; 10])).
Proof. exact enabled_roundtrip. Qed.
Check c03_enabled_roundtrip : forall v body sp, enc_enabled_data v body -> enc_spaces sp -> forall rest,
  parse ((bs "* " ++ body ++ sp ++ [13; 10]) ++ rest) = ROk rest v (nlen (bs "* " ++ body ++ sp ++ [13; 10])).
Print Assumptions c03_enabled_roundtrip.

Theorem c03_quotaroot_roundtrip : forall v body sp, enc_quotaroot v body -> enc_spaces sp -> forall rest,
  parse ((bs "* " ++ body ++ sp ++ [13; 10]) ++ rest) = ROk rest v (nlen (bs "* " ++ body ++ sp ++ [13; 10])).
Proof. exact quotaroot_roundtrip. Qed.
Check c03_quotaroot_roundtrip : forall v body sp, enc_quotaroot v body -> enc_spaces sp -> forall rest,
  parse ((bs "* " ++ body ++ sp ++ [13; 10]) ++ rest) = ROk rest v (nlen (bs "* " ++ body ++ sp ++ [13; 10])).
Print Assumptions c03_quotaroot_roundtrip.

Theorem c03_myrights_roundtrip : forall v body sp, enc_myrights v body -> enc_spaces sp -> forall rest,
  parse ((bs "* " ++ body ++ sp ++ [13; 10]) ++ rest) = ROk rest v (nlen (bs "* " ++ body ++ sp ++ [13; 10])).
Proof. exact myrights_roundtrip. Qed.
Check c03_myrights_roundtrip : forall v body sp, enc_myrights v body -> enc_spaces sp -> forall rest,
  parse ((bs "* " ++ body ++ sp ++ [13; 10]) ++ rest) = ROk rest v (nlen (bs "* " ++ body ++ sp ++ [13; 10])).
Print Assumptions c03_myrights_roundtrip.

(* ACL mailbox with any number of (identifier, rights) entries; LISTRIGHTS mailbox identifier required-rights and the
   optional rights flattened in the order sent; spaces or tabs before CRLF tolerated *)
Theorem c03_acl_roundtrip : forall v w, enc_acl_response v w -> forall rest, parse (w ++ rest) = ROk rest v (nlen w).
Proof. exact acl_roundtrip. Qed.
Check c03_acl_roundtrip : forall v w, enc_acl_response v w -> forall rest, parse (w ++ rest) = ROk rest v (nlen w).
Print Assumptions c03_acl_roundtrip.

Theorem c03_listrights_roundtrip : forall v w, enc_listrights_response v w -> forall rest, parse (w ++ rest) = ROk rest v (nlen w).
Proof. exact listrights_roundtrip. Qed.
Check c03_listrights_roundtrip : forall v w, enc_listrights_response v w -> forall rest, parse (w ++ rest) = ROk rest v (nlen w).
Print Assumptions c03_listrights_roundtrip.

(* continuation requests `+ SP resp-text CRLF` *)
Theorem c03_continue_roundtrip : forall v w, enc_continue_response v w -> forall rest, parse (w ++ rest) = ROk rest v (nlen w).
Proof. exact continue_roundtrip. Qed.
Check c03_continue_roundtrip : forall v w, enc_continue_response v w -> forall rest, parse (w ++ rest) = ROk rest v (nlen w).
Print Assumptions c03_continue_roundtrip.

(* status responses `* OK/NO/BAD/PREAUTH/BYE [code] text` (codes ALERT, PARSE, READ-ONLY, READ-WRITE, TRYCREATE,
   UIDVALIDITY, UIDNEXT, UNSEEN, HIGHESTMODSEQ): the separator after the code is cut exactly once, the text is verbatim *)
Theorem c03_status_roundtrip : forall v w, enc_status_response v w -> forall rest, parse (w ++ rest) = ROk rest v (nlen w).
Proof. exact status_roundtrip. Qed.
Check c03_status_roundtrip : forall v w, enc_status_response v w -> forall rest, parse (w ++ rest) = ROk rest v (nlen w).
Print Assumptions c03_status_roundtrip.

(* tagged completions `tag SP status [SP resp-text] CRLF` *)
Theorem c03_tagged_roundtrip : forall v w, enc_tagged_response v w -> forall rest, parse (w ++ rest) = ROk rest v (nlen w).
Proof. exact tagged_roundtrip. Qed.
Check c03_tagged_roundtrip : forall v w, enc_tagged_response v w -> forall rest, parse (w ++ rest) = ROk rest v (nlen w).
Print Assumptions c03_tagged_roundtrip.

(* the same for the parser functions below it, at any nesting depth, for every loop bound and sufficient fuel *)
Theorem c03_envelope_slots : forall v w d, enc_envelope v w -> Ok native_call env rk (Ref f_rfc3501_x_envelope DSame) d w v any.
Proof. exact ok_envelope. Qed.
Check c03_envelope_slots : forall v w d, enc_envelope v w -> Ok native_call env rk (Ref f_rfc3501_x_envelope DSame) d w v any.
Print Assumptions c03_envelope_slots.

Theorem c03_address_slots : forall v w d, enc_address v w -> Ok native_call env rk (Ref f_rfc3501_x_address DSame) d w v any.
Proof. exact ok_address. Qed.
Check c03_address_slots : forall v w d, enc_address v w -> Ok native_call env rk (Ref f_rfc3501_x_address DSame) d w v any.
Print Assumptions c03_address_slots.

Theorem c03_address_list : forall v w d, enc_addr_list v w -> Ok native_call env rk (Ref f_rfc3501_x_opt_addresses DSame) d w v any.
Proof. exact ok_opt_addresses. Qed.
Check c03_address_list : forall v w d, enc_addr_list v w -> Ok native_call env rk (Ref f_rfc3501_x_opt_addresses DSame) d w v any.
Print Assumptions c03_address_list.

Theorem c03_msg_att : forall v w d, enc_msg_att v w -> Ok native_call env rk (Ref f_rfc3501_x_msg_att DSame) d w v nodigit.
Proof. exact ok_msg_att. Qed.
Check c03_msg_att : forall v w d, enc_msg_att v w -> Ok native_call env rk (Ref f_rfc3501_x_msg_att DSame) d w v nodigit.
Print Assumptions c03_msg_att.

Theorem c03_tokens : forall d,
  (forall v w, enc_nstring v w -> Ok native_call env rk (Ref f_core_x_nstring DSame) d w v any) /\
  (forall s w, enc_astring s w -> Ok native_call env rk (Ref f_core_x_astring DSame) d w (VBytes s) (stops_at cls_core_x_is_astring_char)) /\
  (forall s w, enc_string s w -> Ok native_call env rk (Ref f_core_x_string DSame) d w (VBytes s) any) /\
  (forall n w, enc_number 32 n w -> Ok native_call env rk (Ref f_core_x_number DSame) d w (VNum n) nodigit) /\
  (forall n w, enc_number 64 n w -> Ok native_call env rk (Ref f_core_x_number_64 DSame) d w (VNum n) nodigit).
Proof. intro d. repeat split; intros; [apply ok_nstring | apply ok_astring | apply ok_string | apply ok_number | apply ok_number_64]; assumption. Qed.
Check c03_tokens : forall d,
  (forall v w, enc_nstring v w -> Ok native_call env rk (Ref f_core_x_nstring DSame) d w v any) /\
  (forall s w, enc_astring s w -> Ok native_call env rk (Ref f_core_x_astring DSame) d w (VBytes s) (stops_at cls_core_x_is_astring_char)) /\
  (forall s w, enc_string s w -> Ok native_call env rk (Ref f_core_x_string DSame) d w (VBytes s) any) /\
  (forall n w, enc_number 32 n w -> Ok native_call env rk (Ref f_core_x_number DSame) d w (VNum n) nodigit) /\
  (forall n w, enc_number 64 n w -> Ok native_call env rk (Ref f_core_x_number_64 DSame) d w (VNum n) nodigit).
Print Assumptions c03_tokens.

(* set semantics: a range written high:low denotes the same messages as low:high (sequence_range, uid_range) *)
Theorem c03_range_order_irrelevant : forall a b, range_norm a b = range_norm b a.
Proof. exact range_norm_sym. Qed.
Check c03_range_order_irrelevant : forall a b, range_norm a b = range_norm b a.
Print Assumptions c03_range_order_irrelevant.

(* non-vacuity: a FETCH in mixed spellings, with a literal containing ")CRLF", followed by another response *)
Theorem c03_non_vacuous : match parse (rt_sample ++ bs "* 1 EXISTS") with
  | ROk rest (VCon "Response::Fetch" [VNum 12; VList [VCon "AttributeValue::Uid" [VNum 7]; VCon "AttributeValue::Envelope" [VRec "Envelope" fs]; _; _]]) _ =>
      rest = bs "* 1 EXISTS" /\ lookup "subject" fs = VSome (VBytes [41; 13; 10])
  | _ => False end.
Proof. exact rt_sample_parses. Qed.
Check c03_non_vacuous : match parse (rt_sample ++ bs "* 1 EXISTS") with
  | ROk rest (VCon "Response::Fetch" [VNum 12; VList [VCon "AttributeValue::Uid" [VNum 7]; VCon "AttributeValue::Envelope" [VRec "Envelope" fs]; _; _]]) _ =>
      rest = bs "* 1 EXISTS" /\ lookup "subject" fs = VSome (VBytes [41; 13; 10])
  | _ => False end.
Print Assumptions c03_non_vacuous.

(* all of the above as one statement: Spec.enc_response is the union of the relations.  It now reaches every rule of the
   response grammar: every alternative of response_data (status responses with each of the 19 response codes, all
   mailbox data incl. FLAGS and the Gmail items, EXPUNGE, FETCH with each of the 14 message attributes incl. body
   structures, CAPABILITY, ENABLED, METADATA solicited and unsolicited with the entry names of RFC 5464, VANISHED,
   QUOTA, QUOTAROOT, ID with its map semantics, ACL, LISTRIGHTS, MYRIGHTS), tagged completions and continuation requests *)
Theorem c03_response_roundtrip : forall v w, enc_response v w -> forall rest, parse (w ++ rest) = ROk rest v (nlen w).
Proof. exact response_roundtrip. Qed.
Check c03_response_roundtrip : forall v w, enc_response v w -> forall rest, parse (w ++ rest) = ROk rest v (nlen w).
Print Assumptions c03_response_roundtrip.

(* non-vacuity: the relation has non-trivial members of different kinds (Examples_RT.v builds them piece by piece: a LIST
   with a classified and an extension attribute in odd letter case, an ID whose repeated field is overridden and whose
   NIL-valued field is dropped, a FETCH with UID, BODY[1.2.HEADER]<0> as a literal whose content imitates protocol, and
   FLAGS, a BODYSTRUCTURE with parameters, a known encoding, leading zeros and extension data) *)
Theorem c03_relation_is_inhabited : exists v1 w1 v2 w2 v3 w3 v4 w4,
  enc_response v1 w1 /\ enc_response v2 w2 /\ enc_response v3 w3 /\ enc_response v4 w4 /\
  (exists a, v1 = VCon "Response::MailboxData" [VRec "MailboxDatum::List" a]) /\
  v2 = VCon "Response::Id" [VSome (VList [VTuple [VBytes (bs "name"); VBytes (bs "b")]])] /\
  (exists n a b c, v3 = VCon "Response::Fetch" [n; VList [a; VRec "AttributeValue::BodySection" b; c]]) /\
  match v4 with
  | VCon "Response::Fetch" [VNum 1; VList [VCon "AttributeValue::BodyStructure" [VRec "BodyStructure::Text" fs]]] => lookup "lines" fs = VNum 3
  | _ => False
  end.
Proof.
  destruct ex_list as (v1 & H1 & E1). destruct ex_id as (v2 & H2 & E2). destruct ex_fetch_section as (v3 & H3 & E3).
  destruct ex_bodystructure as (v4 & H4 & E4).
  do 8 eexists. split; [exact H1|]. split; [exact H2|]. split; [exact H3|]. split; [exact H4|].
  split; [eexists; exact E1|]. split; [exact E2|]. split; [do 4 eexists; exact E3|].
  exact E4.
Qed.
Check c03_relation_is_inhabited : exists v1 w1 v2 w2 v3 w3 v4 w4,
  enc_response v1 w1 /\ enc_response v2 w2 /\ enc_response v3 w3 /\ enc_response v4 w4 /\
  (exists a, v1 = VCon "Response::MailboxData" [VRec "MailboxDatum::List" a]) /\
  v2 = VCon "Response::Id" [VSome (VList [VTuple [VBytes (bs "name"); VBytes (bs "b")]])] /\
  (exists n a b c, v3 = VCon "Response::Fetch" [n; VList [a; VRec "AttributeValue::BodySection" b; c]]) /\
  match v4 with
  | VCon "Response::Fetch" [VNum 1; VList [VCon "AttributeValue::BodyStructure" [VRec "BodyStructure::Text" fs]]] => lookup "lines" fs = VNum 3
  | _ => False
  end.
Print Assumptions c03_relation_is_inhabited.

(* the functions and closures that Natives.v models by hand are, token for token, the ones the models were written for *)
From TI Require NativeSources.
Theorem c03_hand_models_match_source :
  gen_native_fns = NativeSources.modelled_fn_sources /\ gen_native_actions = NativeSources.modelled_action_sources.
Proof. exact NativeSources.hand_models_match_source_lemma. Qed.
Check c03_hand_models_match_source :
  gen_native_fns = NativeSources.modelled_fn_sources /\ gen_native_actions = NativeSources.modelled_action_sources.
Print Assumptions c03_hand_models_match_source.

(* ---- fidelity carried through the connection (E2E.v: C03 composed with the chunking theorems of C04 and the session
   theorem of C05).  sent = the values a server means, each with one of its RFC spellings; wire = the spellings one
   after the other; expected = one frame per response, holding exactly its bytes and exactly its value. *)
From TI Require Import Client ClientProofs SessionProofs E2E.

(* every chunking, every not-ready schedule: what the framed read side delivers from a conformant stream is exactly what
   was sent -- value for value, in order, each frame in its own bytes -- and nothing stays behind *)
Theorem c03_conformant_stream_delivered : forall s fuel rd fs st',
  conformant s -> data_only rd -> bytes_of rd = wire s ->
  fr_drain fuel rf_init rd = (fs, PPending, st', []) ->
  fs = expected s /\ rf_buf st' = [].
Proof. exact conformant_stream_delivered_lemma. Qed.
Check c03_conformant_stream_delivered : forall s fuel rd fs st',
  conformant s -> data_only rd -> bytes_of rd = wire s ->
  fr_drain fuel rf_init rd = (fs, PPending, st', []) ->
  fs = expected s /\ rf_buf st' = [].
Print Assumptions c03_conformant_stream_delivered.

(* ... also while a further response has only partly arrived (P: any buffer the codec calls incomplete, e.g. a proper
   prefix of a response): everything complete has been delivered, P waits untouched *)
Theorem c03_conformant_stream_partial : forall s P fuel rd fs st',
  conformant s -> decode P = DNone -> data_only rd -> bytes_of rd = wire s ++ P ->
  fr_drain fuel rf_init rd = (fs, PPending, st', []) ->
  fs = expected s /\ rf_buf st' = P.
Proof. exact conformant_stream_partial_lemma. Qed.
Check c03_conformant_stream_partial : forall s P fuel rd fs st',
  conformant s -> decode P = DNone -> data_only rd -> bytes_of rd = wire s ++ P ->
  fr_drain fuel rf_init rd = (fs, PPending, st', []) ->
  fs = expected s /\ rf_buf st' = P.
Print Assumptions c03_conformant_stream_partial.

Theorem c03_prefix_of_encoding_incomplete : forall v w P Q, enc_response v w -> w = P ++ Q -> Q <> [] -> decode P = DNone.
Proof. exact prefix_of_encoding_incomplete. Qed.
Check c03_prefix_of_encoding_incomplete : forall v w P Q, enc_response v w -> w = P ++ Q -> Q <> [] -> decode P = DNone.
Print Assumptions c03_prefix_of_encoding_incomplete.

(* n polls by anybody, Pending results in between: never a malformed-response report, and the frames so far are exactly
   the first responses sent; the rest is still in the buffer or in the transport, byte for byte *)
Theorem c03_conformant_trace : forall s n rd os st' rd',
  conformant s -> data_only rd -> bytes_of rd = wire s ->
  fr_trace n rf_init rd = (os, st', rd') ->
  no_decode_err os = true /\
  exists s1 s2, s = s1 ++ s2 /\ frames_of os = expected s1 /\ rf_buf st' ++ bytes_of rd' = wire s2.
Proof. exact conformant_trace_lemma. Qed.
Check c03_conformant_trace : forall s n rd os st' rd',
  conformant s -> data_only rd -> bytes_of rd = wire s ->
  fr_trace n rf_init rd = (os, st', rd') ->
  no_decode_err os = true /\
  exists s1 s2, s = s1 ++ s2 /\ frames_of os = expected s1 /\ rf_buf st' ++ bytes_of rd' = wire s2.
Print Assumptions c03_conformant_trace.

(* whole sessions of a fresh client (any commands, any number of polls per stream, abandoned streams, any write / flush
   schedule) over a transport that delivers a conformant stream cut anywhere: all the frames handed to the response
   streams, in order, are exactly the first responses sent, value for value and byte for byte *)
Theorem c03_conformant_session : forall s ops c c' started outs,
  conformant s -> c_rf c = rf_init -> data_only (io_rd (c_io c)) -> bytes_of (io_rd (c_io c)) = wire s ->
  session ops c = (c', started, outs) ->
  exists s1 s2, s = s1 ++ s2 /\ frames_of (List.concat outs) = expected s1 /\
                rf_buf (c_rf c') ++ bytes_of (io_rd (c_io c')) = wire s2.
Proof. exact conformant_session_lemma. Qed.
Check c03_conformant_session : forall s ops c c' started outs,
  conformant s -> c_rf c = rf_init -> data_only (io_rd (c_io c)) -> bytes_of (io_rd (c_io c)) = wire s ->
  session ops c = (c', started, outs) ->
  exists s1 s2, s = s1 ++ s2 /\ frames_of (List.concat outs) = expected s1 /\
                rf_buf (c_rf c') ++ bytes_of (io_rd (c_io c')) = wire s2.
Print Assumptions c03_conformant_session.

(* non-vacuity: two responses of Examples_RT in six transport events (cuts inside a keyword, a literal header, between CR
   and LF; one not-ready) *)
Theorem c03_conformant_session_example : exists s rd os st,
  conformant s /\ length s = 2%nat /\ data_only rd /\ bytes_of rd = wire s /\ In RNotReady rd /\ (length rd = 6)%nat /\
  fr_trace 5 rf_init rd = (os, st, []) /\ In PPending os /\ frames_of os = expected s /\ rf_buf st = [].
Proof. exact conformant_session_example. Qed.
Check c03_conformant_session_example : exists s rd os st,
  conformant s /\ length s = 2%nat /\ data_only rd /\ bytes_of rd = wire s /\ In RNotReady rd /\ (length rd = 6)%nat /\
  fr_trace 5 rf_init rd = (os, st, []) /\ In PPending os /\ frames_of os = expected s /\ rf_buf st = [].
Print Assumptions c03_conformant_session_example.

(* the conversation: the k-th command answered by responses that are not a completion carrying its tag, followed by one
   that is (each in any RFC spelling); any chunking, any not-ready / write / flush schedule; streams polled until they
   end: the k-th stream hands out exactly the k-th answer, value for value and byte for byte, and nothing is left over
   (C05's first sentence with the RFC spellings as the server's language; the generic form is pinned with C05) *)
Theorem c03_conversation : forall answers ops c c' started outs,
  session ops c = (c', started, outs) ->
  c_rf c = rf_init -> data_only (io_rd (c_io c)) -> bytes_of (io_rd (c_io c)) = wire (List.concat answers) ->
  conformant (List.concat answers) ->
  c_next c + N.of_nat (length ops) <= Tags.U64_MAX ->
  Forall2 answer_for (tags_from (c_next c) (length ops)) answers ->
  Forall (In PNone) outs ->
  map frames_of outs = map expected answers /\ rf_buf (c_rf c') = [].
Proof. exact conversation_lemma. Qed.
Check c03_conversation : forall answers ops c c' started outs,
  session ops c = (c', started, outs) ->
  c_rf c = rf_init -> data_only (io_rd (c_io c)) -> bytes_of (io_rd (c_io c)) = wire (List.concat answers) ->
  conformant (List.concat answers) ->
  c_next c + N.of_nat (length ops) <= Tags.U64_MAX ->
  Forall2 answer_for (tags_from (c_next c) (length ops)) answers ->
  Forall (In PNone) outs ->
  map frames_of outs = map expected answers /\ rf_buf (c_rf c') = [].
Print Assumptions c03_conversation.

(* non-vacuity: two commands; STATUS (quoted mailbox with an escaped quote) + `A0001 OK`; then `a0002 OK` -- a completion that
   is not the second command's own, its tag differs in case -- + `A0002 no`; five transport events *)
Theorem c03_conversation_example : exists answers ops t,
  length answers = 2%nat /\ conformant (List.concat answers) /\ Forall2 answer_for (tags_from 0 2) answers /\
  data_only (io_rd t) /\ bytes_of (io_rd t) = wire (List.concat answers) /\ length (io_rd t) = 5%nat /\
  match session ops (client_init t) with
  | (c', started, outs) => Forall (In PNone) outs /\ map frames_of outs = map expected answers /\ rf_buf (c_rf c') = []
  end.
Proof. exact conversation_example. Qed.
Check c03_conversation_example : exists answers ops t,
  length answers = 2%nat /\ conformant (List.concat answers) /\ Forall2 answer_for (tags_from 0 2) answers /\
  data_only (io_rd t) /\ bytes_of (io_rd t) = wire (List.concat answers) /\ length (io_rd t) = 5%nat /\
  match session ops (client_init t) with
  | (c', started, outs) => Forall (In PNone) outs /\ map frames_of outs = map expected answers /\ rf_buf (c_rf c') = []
  end.
Print Assumptions c03_conversation_example.

