(* C01 — the response parser is total: no panic, no stack exhaustion (bounded call depth), no loop. *)
From TI Require Import Bytes Grammar Nom Interp InterpFacts Thm_Fuel Thm_NoPanic Natives NativesProofs PanicAllow Proofs_C01.
From TI.gen Require Import Tables ImapGrammar PanicSites.

(* every input gets one of the legitimate verdicts; RPanic (an unwrap/index/slice failed, a missing
   definition, an untranslatable node) and RFuel (call depth or loop counter exhausted) never occur *)
Theorem c01_total : forall i, match parse i with ROk _ _ _ | RInc | RErr | RFail => True | RPanic | RFuel => False end.
Proof. exact total_lemma. Qed.
Check c01_total : forall i, match parse i with ROk _ _ _ | RInc | RErr | RFail => True | RPanic | RFuel => False end.
Print Assumptions c01_total.

Theorem c01_no_panic : forall f g b n d i, env f = Some g -> run native_call env b n g d i <> RPanic.
Proof. exact every_parser_no_panic_lemma. Qed.
Check c01_no_panic : forall f g b n d i, env f = Some g -> run native_call env b n g d i <> RPanic.
Print Assumptions c01_no_panic.

(* the nesting of parser-function calls (the model's image of the native call stack) is bounded by
   the rank of the function, for every input: a constant, about 210 for parse_response *)
Theorem c01_call_depth_bounded : forall f g d b i, env f = Some g ->
  run native_call env (S (length i + b)) (N.to_nat (rk f d)) g d i <> RFuel.
Proof. exact call_depth_bounded_lemma. Qed.
Check c01_call_depth_bounded : forall f g d b i, env f = Some g ->
  run native_call env (S (length i + b)) (N.to_nat (rk f d)) g d i <> RFuel.
Print Assumptions c01_call_depth_bounded.

Theorem c01_fuel_suffices : forall i, parse i <> RFuel.
Proof. exact no_fuel_lemma. Qed.
Check c01_fuel_suffices : forall i, parse i <> RFuel.
Print Assumptions c01_fuel_suffices.

(* reflection obligations over the regenerated data *)
Theorem c01_rank_table_ok : forallb (rank_ok_defs 0 all_defs) (seq 0 (S MD)) = true.
Proof. exact rank_ok_fin. Qed.
Check c01_rank_table_ok : forallb (rank_ok_defs 0 all_defs) (seq 0 (S MD)) = true.
Print Assumptions c01_rank_table_ok.

Theorem c01_actions_panic_free : defs_np 0 all_defs = true.
Proof. exact defs_np_holds. Qed.
Check c01_actions_panic_free : defs_np 0 all_defs = true.
Print Assumptions c01_actions_panic_free.

Theorem c01_panic_sites_covered : sites_covered = true.
Proof. vm_compute. reflexivity. Qed.
Check c01_panic_sites_covered : sites_covered = true.
Print Assumptions c01_panic_sites_covered.

(* the hand-modelled natives cannot panic *)
Theorem c01_natives_total : forall n vs, total_native n = true -> native_call n vs <> APanic.
Proof. exact total_native_ok. Qed.
Check c01_natives_total : forall n vs, total_native n = true -> native_call n vs <> APanic.
Print Assumptions c01_natives_total.

Theorem c01_entry_name_check_total : forall i, check_entry_name i <> APanic.
Proof. exact check_entry_name_total. Qed.
Check c01_entry_name_check_total : forall i, check_entry_name i <> APanic.
Print Assumptions c01_entry_name_check_total.

(* the generic theorems *)
Theorem c01_generic_no_fuel : forall natf env rk, (forall f g d, env f = Some g -> need rk g d <= rk f d) ->
  forall n g d b i, need rk g d <= N.of_nat n -> (0 < n)%nat -> (length i < b)%nat -> run natf env b n g d i <> RFuel.
Proof. exact run_no_fuel. Qed.
Check c01_generic_no_fuel : forall natf env rk, (forall f g d, env f = Some g -> need rk g d <= rk f d) ->
  forall n g d b i, need rk g d <= N.of_nat n -> (0 < n)%nat -> (length i < b)%nat -> run natf env b n g d i <> RFuel.
Print Assumptions c01_generic_no_fuel.

(* the public entry point Response::from_bytes is exactly the modelled parser: its body is the call and nothing else *)
Theorem c01_entry_point_is_parse_response : gen_from_bytes_body = "crate::parser::parse_response(buf)"%string.
Proof. reflexivity. Qed.
Check c01_entry_point_is_parse_response : gen_from_bytes_body = "crate::parser::parse_response(buf)"%string.
Print Assumptions c01_entry_point_is_parse_response.

(* the functions and closures that Natives.v models by hand are, token for token, the ones the models were written for *)
From TI Require NativeSources.
Theorem c01_hand_models_match_source :
  gen_native_fns = NativeSources.modelled_fn_sources /\ gen_native_actions = NativeSources.modelled_action_sources.
Proof. exact NativeSources.hand_models_match_source_lemma. Qed.
Check c01_hand_models_match_source :
  gen_native_fns = NativeSources.modelled_fn_sources /\ gen_native_actions = NativeSources.modelled_action_sources.
Print Assumptions c01_hand_models_match_source.
