(* Proofs about the hand models of Natives.v: none of the natives used as actions can panic
   (resp_text#1 aside, which needs its argument to be ASCII -- see Proofs_C01.v). *)
From TI Require Import Bytes Grammar Nom Interp Natives.
From TI.gen Require Import ImapGrammar.
From Coq Require Import Lia Arith PeanoNat.
Local Open Scope string_scope.
Local Open Scope N_scope.

(* ---------------------------------------------------------------- check_entry_name *)
Lemma starts_with_len p : forall l, starts_with p l = true -> (length p <= length l)%nat.
Proof.
  induction p as [|a p IH]; intros l H; cbn [length]; [lia|].
  destruct l as [|b l]; cbn in H; [discriminate|]. apply andb_true_iff in H. destruct H as [_ H].
  apply IH in H. cbn [length]. lia.
Qed.

Definition inv (len : nat) (st : stage) : Prop :=
  match st with
  | StPrivateShared => True
  | StAdmin l | StVendorComment l | StPath l | StDone l => (l <= len)%nat
  | StFailErr => True
  | StFailInc | StPanic => False
  end.

Definition mu (len : nat) (st : stage) : nat :=
  match st with
  | StPrivateShared => len + 4
  | StAdmin _ => len + 3
  | StVendorComment _ => len + 2
  | StPath l => len - l + 1
  | _ => 0
  end.

Definition terminal (st : stage) : bool :=
  match st with StDone _ | StFailErr | StFailInc | StPanic => true | _ => false end.

Lemma slice_from_ok i l : (l <= length i)%nat -> slice_from i l = Some (skipn l i).
Proof. intros H. unfold slice_from. destruct (Nat.leb_spec l (length i)); [reflexivity|lia]. Qed.

Lemma cps_ok i : inv (length i) (check_private_shared i) /\ (mu (length i) (check_private_shared i) < mu (length i) StPrivateShared)%nat.
Proof.
  unfold check_private_shared. destruct (starts_with (bs "/private") i) eqn:E1.
  - apply starts_with_len in E1. cbn in E1. cbn. lia.
  - destruct (starts_with (bs "/shared") i) eqn:E2.
    + apply starts_with_len in E2. cbn in E2. cbn. lia.
    + cbn. lia.
Qed.

Lemma admin_ok i l : (l <= length i)%nat ->
  inv (length i) (check_admin i l) /\ (mu (length i) (check_admin i l) < mu (length i) (StAdmin l))%nat.
Proof.
  intros Hl. unfold check_admin. rewrite (slice_from_ok i l Hl).
  destruct (starts_with (bs "/admin") (skipn l i)) eqn:E.
  - apply starts_with_len in E. rewrite skipn_length in E. cbn in E. cbn. lia.
  - cbn. lia.
Qed.

Lemma vc_ok i l : (l <= length i)%nat ->
  inv (length i) (check_vendor_comment i l) /\ (mu (length i) (check_vendor_comment i l) < mu (length i) (StVendorComment l))%nat.
Proof.
  intros Hl. unfold check_vendor_comment. rewrite (slice_from_ok i l Hl).
  destruct (starts_with (bs "/comment") (skipn l i)) eqn:E1.
  - apply starts_with_len in E1. rewrite skipn_length in E1. cbn in E1. cbn. lia.
  - destruct (starts_with (bs "/vendor") (skipn l i)) eqn:E2; [|cbn; lia].
    destruct (Nat.ltb_spec (length i) (l + 9)); [cbn; lia|].
    destruct (nth_error i (l + 7)) as [c7|] eqn:N7; [|apply nth_error_None in N7; lia].
    destruct (negb (c7 =? 47)); [cbn; lia|].
    destruct (nth_error i (l + 8)) as [c8|] eqn:N8; [|apply nth_error_None in N8; lia].
    destruct (negb (cls_rfc5464_x_is_entry_component_char c8)); cbn; lia.
Qed.

Lemma scan_ok : forall rest pos len, (pos + length rest = len)%nat ->
  check_path_scan rest pos len = StDone len \/ exists p, check_path_scan rest pos len = StPath p /\ (pos <= p < len)%nat.
Proof.
  induction rest as [|c rest IH]; intros pos len H; cbn [check_path_scan]; [left; reflexivity|].
  cbn [length] in H. destruct (negb (cls_rfc5464_x_is_entry_component_char c)).
  - right. exists pos. split; [reflexivity|lia].
  - destruct (IH (S pos) len ltac:(lia)) as [->|[p [-> Hp]]]; [left; reflexivity|]. right. exists p. split; [reflexivity|lia].
Qed.

Lemma path_ok i l : (l <= length i)%nat ->
  inv (length i) (check_path i l) /\ (mu (length i) (check_path i l) < mu (length i) (StPath l))%nat.
Proof.
  intros Hl. unfold check_path. destruct (Nat.eqb_spec (length i) l) as [->|Hne]; [cbn; lia|].
  destruct (nth_error i l) as [c|] eqn:Nl; [|apply nth_error_None in Nl; lia].
  destruct ((c =? 32) || (c =? 13)); [cbn; lia|]. destruct (negb (c =? 47)); [cbn; lia|].
  destruct (scan_ok (skipn (S l) i) (S l) (length i)) as [->|[p [-> Hp]]].
  - rewrite skipn_length. lia.
  - cbn. lia.
  - cbn. lia.
Qed.

Lemma check_loop_ok i : forall fuel st, inv (length i) st -> (mu (length i) st <= fuel)%nat ->
  inv (length i) (check_loop fuel i st) /\ terminal (check_loop fuel i st) = true.
Proof.
  induction fuel as [|fuel IH]; intros st Hinv Hmu.
  - cbn [check_loop]. split; [exact Hinv|]. destruct st; cbn in *; try reflexivity; try lia; try contradiction.
  - cbn [check_loop]. destruct st as [|l|l|l|l| | |]; cbn [inv] in Hinv; try contradiction.
    + destruct (cps_ok i) as [H1 H2]. apply IH; [exact H1|cbn [mu] in *; lia].
    + destruct (admin_ok i l Hinv) as [H1 H2]. apply IH; [exact H1|cbn [mu] in *; lia].
    + destruct (vc_ok i l Hinv) as [H1 H2]. apply IH; [exact H1|cbn [mu] in *; lia].
    + destruct (path_ok i l Hinv) as [H1 H2]. apply IH; [exact H1|cbn [mu] in *; lia].
    + split; [exact Hinv|reflexivity].
    + split; [exact I|reflexivity].
Qed.

Theorem check_entry_name_total : forall i, check_entry_name i <> APanic.
Proof.
  intros i. unfold check_entry_name.
  destruct (check_loop_ok i (length i + 4) StPrivateShared I ltac:(cbn; lia)) as [Hinv Hterm].
  destruct (check_loop (length i + 4) i StPrivateShared) as [|l|l|l|l| | |]; cbn in Hinv, Hterm; try discriminate; try contradiction.
  destruct (Nat.leb_spec l (length i)); [discriminate|lia].
Qed.

(* check_entry_name never answers "incomplete" and returns the token unchanged *)
Theorem check_entry_name_verdicts : forall i, check_entry_name i = AVal (VBytes i) \/ check_entry_name i = AErr.
Proof.
  intros i. pose proof (check_entry_name_total i) as Hp. unfold check_entry_name in *.
  destruct (check_loop (length i + 4) i StPrivateShared); auto; try contradiction.
  destruct (Nat.leb l (length i)); auto. contradiction.
Qed.

(* ---------------------------------------------------------------- the other natives *)
Definition total_natives : list string :=
  ["from_utf8"; "rfc5464::slice_to_str"; "check_entry_name"; "section_part_cons";
   "core::sequence_range#1"; "rfc4315::uid_range#1"; "rfc4315::uid_set#1"; "rfc2087::quota_resource_name#1";
   "rfc3501::capability#1"; "rfc3501::name_attribute#1"; "rfc3501::mailbox#1";
   "rfc3501::trailing_resp_text#1"; "rfc3501::ensure_capabilities_contains_imap4rev";
   "rfc2971::id_param_list_not_nil#1"; "rfc2971::resp_id#1"; "rfc4314::map_text_to_rights";
   "rfc4314::list_rights_optional#1"; "rfc5464::string_value#1"].

Fixpoint mem_string (x : string) (l : list string) : bool :=
  match l with [] => false | y :: l' => String.eqb x y || mem_string x l' end.
Definition total_native (n : string) : bool := mem_string n total_natives.

Ltac case_args vs :=
  destruct vs as [|?v1 [|?v2 [|?v3 ?vs']]]; try discriminate.

Lemma from_utf8_np v : from_utf8 v <> APanic.
Proof. unfold from_utf8. destruct v; try discriminate. destruct (utf8_valid b); discriminate. Qed.

Ltac np := repeat match goal with
  | |- context[match ?x with _ => _ end] => destruct x
  | |- context[if ?x then _ else _] => destruct x
  end; try discriminate.

Theorem total_native_ok : forall n vs, total_native n = true -> native_call n vs <> APanic.
Proof.
  intros n vs H. unfold total_native, total_natives in H. cbn [mem_string] in H.
  repeat (apply orb_true_iff in H; destruct H as [H|H]; [apply String.eqb_eq in H; subst n|]); try discriminate H.
  - cbn. case_args vs; try solve [np]. apply from_utf8_np.
  - cbn. case_args vs; try solve [np]. apply from_utf8_np.
  - cbn. case_args vs; try solve [np]. destruct v1; try discriminate. apply check_entry_name_total.
  - cbn. case_args vs; solve [np].
  - cbn. case_args vs; solve [np].
  - cbn. case_args vs; solve [np].
  - cbn. case_args vs; solve [np].
  - cbn. case_args vs; solve [np].
  - cbn. case_args vs; solve [np].
  - cbn. case_args vs; solve [np].
  - cbn. case_args vs; solve [np].
  - cbn. case_args vs; solve [np].
  - cbn. case_args vs; solve [np].
  - cbn. case_args vs; solve [np].
  - cbn. case_args vs; solve [np].
  - cbn. case_args vs; solve [np].
  - cbn. case_args vs; solve [np].
  - cbn. case_args vs; solve [np].
Qed.
