(* Proofs about the codec / Framed / client machine (C04, C05, C06, C11). *)
From TI Require Import Bytes Grammar Nom Interp InterpFacts Thm_Sfx Thm_Stable Natives Tags TagsProofs Builders Client Proofs_C01 Proofs_C02.
From TI.gen Require Import ImapGrammar.
From Coq Require Import Lia.
Local Open Scope N_scope.

(* ================================================================ the codec *)
Lemma parse_sfx B r v u : parse B = ROk r v u -> exists c, B = c ++ r /\ u = nlen c.
Proof. unfold parse. apply run_sfx. Qed.

(* decode never panics: the subtraction buf.len() - remaining.len() cannot underflow, split_to(rsp_len)
   is within the buffer, and the parser itself neither panics nor runs out of fuel (C01) *)
Theorem decode_no_panic_lemma : forall buf, decode buf <> DPanic.
Proof.
  intros buf. unfold decode. pose proof (no_panic_lemma buf) as Hp. pose proof (no_fuel_lemma buf) as Hf.
  destruct (parse buf) as [r v u| | | | |] eqn:E; try discriminate; try congruence.
  destruct (parse_sfx _ _ _ _ E) as [c [-> ->]]. rewrite nlen_app.
  destruct (N.leb_spec (nlen c) (nlen c + nlen r)); [discriminate|lia].
Qed.

Lemma decode_frame_shape buf raw v rest : decode buf = DFrame raw v rest -> buf = raw ++ rest.
Proof.
  unfold decode. destruct (parse buf) as [r v' u| | | | |] eqn:E; try discriminate.
  destruct (parse_sfx _ _ _ _ E) as [c [-> ->]]. destruct (_ <=? _); [|discriminate].
  intros H. injection H as <- <- <-. now rewrite take_used_prefix.
Qed.

(* C02 through the codec: a frame or an error decoded from a buffer is decoded from every extension of it *)
Lemma decode_stable B raw v rest : decode B = DFrame raw v rest -> forall X, decode (B ++ X) = DFrame raw v (rest ++ X).
Proof.
  intros H X. unfold decode in *. pose proof (verdicts_final_lemma B X) as F. unfold final in F.
  destruct (parse B) as [r v' u| | | | |] eqn:E; try discriminate. rewrite F.
  destruct (parse_sfx _ _ _ _ E) as [c [-> ->]].
  destruct (nlen c <=? nlen (c ++ r)) eqn:L1; [|discriminate]. injection H as <- <- <-.
  rewrite <- app_assoc. rewrite !take_used_prefix.
  replace (nlen c <=? nlen (c ++ r ++ X)) with true; [reflexivity|].
  symmetry. apply N.leb_le. rewrite nlen_app. lia.
Qed.

Lemma decode_err_stable B : decode B = DErr -> forall X, decode (B ++ X) = DErr.
Proof.
  intros H X. unfold decode in *. pose proof (verdicts_final_lemma B X) as F. unfold final in F.
  destruct (parse B) as [r v' u| | | | |] eqn:E; try discriminate; rewrite F; try reflexivity.
  destruct (_ <=? _); discriminate.
Qed.

(* ================================================================ the one-piece reference *)
Inductive fstop := StopInc | StopErr.

(* Frames S fs st rem: parsing the stream S in one piece yields the frames fs, then stops on the
   remainder rem because it is incomplete (st = StopInc) or malformed (StopErr) *)
Inductive Frames : list byte -> list (list byte * val) -> fstop -> list byte -> Prop :=
| FInc S : decode S = DNone -> Frames S [] StopInc S
| FErr S : decode S = DErr -> Frames S [] StopErr S
| FCons S raw v rest fs st rem : decode S = DFrame raw v rest -> Frames rest fs st rem ->
    Frames S ((raw, v) :: fs) st rem.

Definition rawcat (D : list (list byte * val)) : list byte := List.concat (map fst D).

Lemma Frames_det S fs st rem : Frames S fs st rem -> forall fs' st' rem', Frames S fs' st' rem' -> fs = fs' /\ st = st' /\ rem = rem'.
Proof.
  induction 1 as [S H|S H|S raw v rest fs st rem H Hr IH]; intros fs' st' rem' H'; inversion H'; subst; try congruence; auto.
  match goal with Ha : decode S = DFrame ?a ?b ?c, Hb : decode S = DFrame raw v rest |- _ => rewrite Hb in Ha; injection Ha as <- <- <- end.
  destruct (IH _ _ _ ltac:(eassumption)) as [-> [-> ->]]. auto.
Qed.

Lemma Frames_bytes S fs st rem : Frames S fs st rem -> S = rawcat fs ++ rem.
Proof.
  induction 1 as [S H|S H|S raw v rest fs st rem H Hr IH]; try reflexivity.
  unfold rawcat in *. cbn [map List.concat fst]. rewrite <- app_assoc, <- IH. now apply decode_frame_shape in H.
Qed.

(* D is a chain of frames already delivered, buf the bytes after them: whatever bytes X arrive later,
   the one-piece parse of everything received is D followed by the one-piece parse of buf ++ X *)
Definition Chain (D : list (list byte * val)) (buf : list byte) : Prop :=
  forall X fs st rem, Frames (buf ++ X) fs st rem -> Frames (rawcat D ++ buf ++ X) (D ++ fs) st rem.

Lemma Chain_nil buf : Chain [] buf.
Proof. intros X fs st rem H. exact H. Qed.

Lemma Chain_more D buf b : Chain D buf -> Chain D (buf ++ b).
Proof. intros H X fs st rem HF. rewrite <- app_assoc in *. apply H. exact HF. Qed.

Lemma rawcat_snoc D raw v : rawcat (D ++ [(raw, v)]) = rawcat D ++ raw.
Proof. unfold rawcat. rewrite map_app, concat_app. cbn. now rewrite app_nil_r. Qed.

Lemma Chain_deliver D buf raw v rest : Chain D buf -> decode buf = DFrame raw v rest -> Chain (D ++ [(raw, v)]) rest.
Proof.
  intros H Hd X fs st rem HF. rewrite rawcat_snoc, <- !app_assoc. cbn [app].
  pose proof (decode_frame_shape _ _ _ _ Hd) as ->.
  specialize (H X ((raw, v) :: fs) st rem). rewrite <- !app_assoc in H. apply H.
  eapply FCons; [|exact HF]. rewrite app_assoc. apply decode_stable. exact Hd.
Qed.

(* ================================================================ Framed: the read loop *)
Definition chunk_bytes (e : rd_ev) : list byte := match e with RChunk b => b | _ => [] end.
Definition data_only (rd : list rd_ev) : Prop := Forall (fun e => match e with RChunk _ | RNotReady => True | _ => False end) rd.
Definition bytes_of (rd : list rd_ev) : list byte := List.concat (map chunk_bytes rd).
Definition delivered (o : pout) : list (list byte * val) := match o with PItem (IFrame raw v) => [(raw, v)] | _ => [] end.

(* state invariant while no EOF / IO error has been seen *)
Definition rinv (st : rframe) : Prop :=
  rf_eof st = false /\ (rf_errored st = false -> rf_readable st = false -> decode (rf_buf st) = DNone).

Lemma rinv_init : rinv rf_init.
Proof. split; [reflexivity|]. intros _ _. vm_compute. reflexivity. Qed.

Definition post (D : list (list byte * val)) (st : rframe) (rd : list rd_ev) (st' : rframe) (o : pout) (rd' : list rd_ev) : Prop :=
  exists used, rd = used ++ rd' /\
    Chain (D ++ delivered o) (rf_buf st') /\
    rawcat D ++ rf_buf st ++ bytes_of used = rawcat (D ++ delivered o) ++ rf_buf st' /\
    rf_eof st' = false /\
    (o = PPending -> decode (rf_buf st') = DNone /\ rf_errored st' = false /\ rf_readable st' = false) /\
    (rf_errored st' = false -> rinv st') /\
    (rf_errored st' = true -> o = PItem IErrDecode) /\
    o <> PNone /\ o <> PPanic /\ data_only rd' /\
    (o = PPending \/ (exists raw v, o = PItem (IFrame raw v)) \/ (o = PItem IErrDecode /\ decode (rf_buf st') = DErr)).

Lemma fr_pre_cases st : rinv st -> rf_errored st = false ->
  match fr_pre st with
  | PreReturn st' o =>
    (exists raw v rest, decode (rf_buf st) = DFrame raw v rest /\ o = PItem (IFrame raw v) /\ st' = mk_rf false true false rest)
    \/ (decode (rf_buf st) = DErr /\ o = PItem IErrDecode /\ st' = mk_rf false true true (rf_buf st))
  | PreRead st' => st' = mk_rf false false false (rf_buf st) /\ decode (rf_buf st) = DNone
  end.
Proof.
  intros [Heof Hdec] Herr. unfold fr_pre. rewrite Herr, Heof. destruct (rf_readable st) eqn:Er.
  - pose proof (decode_no_panic_lemma (rf_buf st)) as Hnp.
    destruct (decode (rf_buf st)) as [raw v rest| | |] eqn:Ed; try congruence.
    + left. exists raw, v, rest. auto.
    + auto.
    + right. auto.
  - split; [destruct st; cbn in *; congruence|]. apply Hdec; auto.
Qed.

Lemma post_frame D st rd raw v rest : data_only rd -> Chain D (rf_buf st) -> decode (rf_buf st) = DFrame raw v rest ->
  post D st rd (mk_rf false true false rest) (PItem (IFrame raw v)) rd.
Proof.
  intros Hd HC Ed. exists []. cbn [app delivered bytes_of map List.concat rf_buf rf_eof rf_errored rf_readable].
  rewrite !app_nil_r. split; [reflexivity|]. split; [eapply Chain_deliver; eauto|].
  split; [rewrite rawcat_snoc, <- app_assoc; now rewrite (decode_frame_shape _ _ _ _ Ed)|].
  split; [reflexivity|]. split; [discriminate|]. split.
  - intros _. split; [reflexivity|]. cbn. intros _ H. discriminate.
  - split; [discriminate|]. split; [discriminate|]. split; [discriminate|]. split; [exact Hd|]. right. left. eauto.
Qed.

Lemma post_err D st rd : data_only rd -> Chain D (rf_buf st) -> decode (rf_buf st) = DErr ->
  post D st rd (mk_rf false true true (rf_buf st)) (PItem IErrDecode) rd.
Proof.
  intros Hd HC Hde. exists []. cbn [app delivered bytes_of map List.concat rf_buf rf_eof rf_errored rf_readable].
  rewrite !app_nil_r. split; [reflexivity|]. split; [exact HC|]. split; [reflexivity|].
  split; [reflexivity|]. split; [discriminate|]. split; [discriminate|]. split; [reflexivity|].
  split; [discriminate|]. split; [discriminate|]. split; [exact Hd|]. right. right. auto.
Qed.

(* one poll: the frames delivered so far keep forming a chain, the bytes are conserved, and a Pending
   answer means the buffer holds no complete response *)
Lemma fr_poll_inv : forall rd st D, data_only rd -> rinv st -> rf_errored st = false -> Chain D (rf_buf st) ->
  forall st' o rd', fr_poll st rd = (st', o, rd') -> post D st rd st' o rd'.
Proof.
  induction rd as [|e rd IH]; intros st D Hdata Hinv Herr HC st' o rd' Hp;
    pose proof (fr_pre_cases st Hinv Herr) as Hpre; cbn [fr_poll] in Hp; destruct (fr_pre st) as [st1 o1|st1].
  - injection Hp as <- <- <-. destruct Hpre as [[raw [v [rest [Ed [-> ->]]]]]|[Ed [-> ->]]].
    + apply post_frame; auto.
    + apply post_err; auto.
  - destruct Hpre as [-> Hdn]. injection Hp as <- <- <-. exists []. cbn [app delivered bytes_of map List.concat rf_buf].
    rewrite !app_nil_r. repeat split; auto; try discriminate.
    all: try (intros; exact Hdn).
  - injection Hp as <- <- <-. destruct Hpre as [[raw [v [rest [Ed [-> ->]]]]]|[Ed [-> ->]]].
    + apply post_frame; auto.
    + apply post_err; auto.
  - destruct Hpre as [-> Hdn]. inversion Hdata as [|? ? He Hdata']; subst.
    destruct e as [b| | |]; try contradiction.
    + (* a chunk arrives: decode again *)
      cbn [rf_buf] in Hp.
      destruct (IH (mk_rf false true false (rf_buf st ++ b)) D Hdata') with (st' := st') (o := o) (rd' := rd') as [used H].
      * split; [reflexivity|]. cbn. intros _ H; discriminate.
      * reflexivity.
      * cbn [rf_buf]. apply Chain_more. exact HC.
      * exact Hp.
      * destruct H as [Hu [HC' [Hby rest]]]. exists (RChunk b :: used). split; [cbn; now rewrite Hu|].
        split; [exact HC'|]. split; [|exact rest].
        cbn [rf_buf] in Hby. unfold bytes_of in *. cbn [map List.concat chunk_bytes].
        rewrite <- Hby. now rewrite <- !app_assoc.
    + (* not ready *)
      injection Hp as <- <- <-. exists [RNotReady]. cbn [app delivered bytes_of map List.concat chunk_bytes rf_buf].
      rewrite !app_nil_r. repeat split; auto; try discriminate.
    all: try (intros; exact Hdn).
Qed.


(* ================================================================ C04: framing is independent of chunking *)
Lemma fr_drain_inv : forall fuel st rd D, data_only rd -> rinv st -> rf_errored st = false -> Chain D (rf_buf st) ->
  forall fs o st' rd', fr_drain fuel st rd = (fs, o, st', rd') ->
  exists used, rd = used ++ rd' /\
    rawcat D ++ rf_buf st ++ bytes_of used = rawcat (D ++ fs) ++ rf_buf st' /\
    Chain (D ++ fs) (rf_buf st') /\
    (o = PNone \/ (o = PPending /\ decode (rf_buf st') = DNone /\ rinv st' /\ rf_errored st' = false) \/ (o = PItem IErrDecode /\ decode (rf_buf st') = DErr)).
Proof.
  induction fuel as [|fuel IH]; intros st rd D Hdata Hinv Herr HC fs o st' rd' H.
  - cbn in H. injection H as <- <- <- <-. exists []. cbn. rewrite !app_nil_r. auto.
  - cbn [fr_drain] in H. destruct (fr_poll st rd) as [[st1 o1] rd1] eqn:Ep.
    destruct (fr_poll_inv rd st D Hdata Hinv Herr HC _ _ _ Ep) as [used [Hu [HC1 [Hby [Heof1 [Hpend [Hok [Herr1 [Hnn [Hnp [Hd1 Hcls]]]]]]]]]]].
    destruct Hcls as [->|[[raw [v ->]]|[-> Hde]]].
    + injection H as <- <- <- <-. exists used. cbn [delivered] in *. rewrite app_nil_r in *.
      destruct (Hpend eq_refl) as [Hdn [He1 _]]. split; [exact Hu|]. split; [exact Hby|]. split; [exact HC1|]. right. left. auto.
    + destruct (fr_drain fuel st1 rd1) as [[[fs1 o2] st2] rd2] eqn:Ed. injection H as <- <- <- <-.
      assert (Herr1' : rf_errored st1 = false) by (destruct (rf_errored st1); [specialize (Herr1 eq_refl); discriminate|reflexivity]).
      cbn [delivered] in *.
      destruct (IH st1 rd1 (D ++ [(raw, v)]) Hd1 (Hok Herr1') Herr1' HC1 _ _ _ _ Ed) as [used2 [Hu2 [Hby2 [HC2 Hfin]]]].
      exists (used ++ used2). split; [rewrite Hu, Hu2; now rewrite app_assoc|].
      replace (D ++ (raw, v) :: fs1) with ((D ++ [(raw, v)]) ++ fs1) by (rewrite <- app_assoc; reflexivity).
      split; [|split; [exact HC2|exact Hfin]].
      unfold bytes_of in *. rewrite map_app, concat_app. rewrite <- Hby2.
      rewrite (app_assoc (rawcat (D ++ [(raw, v)]))). rewrite <- Hby. rewrite <- !app_assoc. reflexivity.
    + injection H as <- <- <- <-. exists used. cbn [delivered] in *. rewrite app_nil_r in *.
      split; [exact Hu|]. split; [exact Hby|]. split; [exact HC1|]. right. right. auto.
Qed.

(* the main statement: from a fresh connection, for ANY script of chunks and not-ready results (any
   chunking of any byte stream, not-ready injected anywhere), draining the connection delivers exactly
   the frames of the one-piece parse of the bytes consumed so far:
   - if the drain ends Pending, nothing is withheld: the undelivered buffer is an incomplete response;
   - if it ends with the decoder's error, the one-piece parse is malformed at that very remainder. *)
Theorem frames_chunking_invariant_lemma : forall fuel rd fs o st' rd',
  data_only rd -> fr_drain fuel rf_init rd = (fs, o, st', rd') ->
  exists used, rd = used ++ rd' /\
    ((o = PPending /\ Frames (bytes_of used) fs StopInc (rf_buf st')) \/
     (o = PItem IErrDecode /\ Frames (bytes_of used) fs StopErr (rf_buf st')) \/
     o = PNone).
Proof.
  intros fuel rd fs o st' rd' Hdata H.
  destruct (fr_drain_inv fuel rf_init rd [] Hdata rinv_init eq_refl (Chain_nil _) _ _ _ _ H) as [used [Hu [Hby [HC Hfin]]]].
  exists used. split; [exact Hu|]. cbn [rf_init rf_buf rawcat map List.concat app] in Hby.
  destruct Hfin as [->|[[-> [Hdn _]]|[-> Hde]]]; [right; right; reflexivity| |].
  - left. split; [reflexivity|]. rewrite Hby. specialize (HC [] [] StopInc (rf_buf st')).
    rewrite !app_nil_r in HC. cbn [app] in HC. apply HC. now apply FInc.
  - right. left. split; [reflexivity|]. rewrite Hby. specialize (HC [] [] StopErr (rf_buf st')).
    rewrite !app_nil_r in HC. cbn [app] in HC. apply HC. now apply FErr.
Qed.

(* two chunkings of the same bytes deliver the same frames *)
Theorem same_bytes_same_frames_lemma : forall f1 f2 rd1 rd2 fs1 fs2 st1 st2,
  data_only rd1 -> data_only rd2 -> bytes_of rd1 = bytes_of rd2 ->
  fr_drain f1 rf_init rd1 = (fs1, PPending, st1, []) -> fr_drain f2 rf_init rd2 = (fs2, PPending, st2, []) ->
  fs1 = fs2 /\ rf_buf st1 = rf_buf st2.
Proof.
  intros f1 f2 rd1 rd2 fs1 fs2 st1 st2 H1 H2 Hb E1 E2.
  destruct (frames_chunking_invariant_lemma _ _ _ _ _ _ H1 E1) as [u1 [Hu1 [[_ F1]|[[Hx _]|Hx]]]]; try discriminate.
  destruct (frames_chunking_invariant_lemma _ _ _ _ _ _ H2 E2) as [u2 [Hu2 [[_ F2]|[[Hx _]|Hx]]]]; try discriminate.
  rewrite app_nil_r in Hu1, Hu2. subst u1 u2. rewrite Hb in F1.
  destruct (Frames_det _ _ _ _ F1 _ _ _ F2) as [-> [_ ->]]. auto.
Qed.

(* no withholding: if the bytes received end exactly at the end of a response, everything has been delivered *)
Theorem no_withholding_lemma : forall fuel rd fs st' all_frames,
  data_only rd -> fr_drain fuel rf_init rd = (fs, PPending, st', []) ->
  Frames (bytes_of rd) all_frames StopInc [] -> fs = all_frames /\ rf_buf st' = [].
Proof.
  intros fuel rd fs st' all_frames Hd E HF.
  destruct (frames_chunking_invariant_lemma _ _ _ _ _ _ Hd E) as [u [Hu [[_ F]|[[Hx _]|Hx]]]]; try discriminate.
  rewrite app_nil_r in Hu. subst u. destruct (Frames_det _ _ _ _ F _ _ _ HF) as [-> [_ ->]]. auto.
Qed.

(* end of stream: clean iff nothing is left, "bytes remaining" iff an incomplete response is left *)
Theorem eof_verdict_lemma : forall st rd, rf_eof st = false -> rf_errored st = false -> rf_readable st = false ->
  decode (rf_buf st) = DNone ->
  fr_poll st (REof :: rd) =
    match rf_buf st with
    | [] => (mk_rf true false false [], PNone, rd)
    | _ => (mk_rf true true true (rf_buf st), PItem IErrRemaining, rd)
    end.
Proof.
  intros st rd He Hr Hrd Hdn. destruct st as [eof readable errored buf]. cbn in *. subst.
  cbn [fr_poll fr_pre rf_errored rf_readable rf_eof rf_buf]. destruct rd as [|e rd'];
    cbn [fr_poll fr_pre rf_errored rf_readable rf_eof rf_buf]; rewrite Hdn; destruct buf; reflexivity.
Qed.

(* a malformed response is reported as the decoder's error, and the stream then yields None *)
Theorem malformed_reported_lemma : forall st rd, rf_eof st = false -> rf_errored st = false -> rf_readable st = true ->
  decode (rf_buf st) = DErr ->
  fr_poll st rd = (mk_rf false true true (rf_buf st), PItem IErrDecode, rd) /\
  fr_poll (mk_rf false true true (rf_buf st)) rd = (mk_rf false false false (rf_buf st), PNone, rd).
Proof.
  intros st rd He Hr Hrd Hde. destruct st as [eof readable errored buf]. cbn in *. subst.
  split; destruct rd; cbn [fr_poll fr_pre rf_errored rf_readable rf_eof rf_buf]; rewrite ?Hde; reflexivity.
Qed.

(* non-vacuity: two responses split at awkward places (inside a keyword, between CR and LF, inside the next response) *)
Example drain_example :
  let s1 := bs "* 1 EXISTS" ++ [13; 10] in let s2 := bs "A1 OK done" ++ [13; 10] in
  exists fs st, fr_drain 10 rf_init [RChunk (bs "* 1 EX"); RChunk (bs "ISTS" ++ [13]); RChunk ([10] ++ bs "A1 OK d"); RChunk (bs "one" ++ [13; 10])]
                = (fs, PPending, st, []) /\ map fst fs = [s1; s2] /\ rf_buf st = [].
Proof. cbn zeta. eexists. eexists. split; [vm_compute; reflexivity|]. split; vm_compute; reflexivity. Qed.

(* reachable states of the read side: any number of drains, each over its own piece of script, each
   ending Pending (the transport had nothing more to give) *)
Inductive reach : rframe -> list (list byte * val) -> list byte -> Prop :=
| reach_init : reach rf_init [] []
| reach_drain st D R fuel rd fs st' rd' used :
    reach st D R -> data_only rd -> fr_drain fuel st rd = (fs, PPending, st', rd') -> rd = used ++ rd' ->
    length used = (length rd - length rd')%nat ->
    reach st' (D ++ fs) (R ++ bytes_of used).

Lemma reach_inv st D R : reach st D R ->
  rinv st /\ rf_errored st = false /\ Chain D (rf_buf st) /\ R = rawcat D ++ rf_buf st /\ decode (rf_buf st) = DNone.
Proof.
  induction 1 as [|st D R fuel rd fs st' rd' used Hr IH Hd E Hu Hl].
  - split; [exact rinv_init|]. split; [reflexivity|]. split; [apply Chain_nil|]. split; [reflexivity|]. vm_compute. reflexivity.
  - destruct IH as [Hinv [Herr [HC [HR Hdn]]]].
    destruct (fr_drain_inv fuel st rd D Hd Hinv Herr HC _ _ _ _ E) as [used' [Hu' [Hby [HC' Hfin]]]].
    assert (used' = used).
    { rewrite Hu in Hu'. assert (length used' = length used) by (apply (f_equal (@length rd_ev)) in Hu'; rewrite !app_length in Hu'; lia).
      clear -Hu' H. revert used' Hu' H. induction used as [|a u IHu]; intros [|b u'] Hq Hlen; cbn in *; try lia; auto.
      injection Hq as -> Hq. f_equal. apply IHu; auto. }
    subst used'. destruct Hfin as [Hx|[[_ [Hdn' [Hi' He']]]|[Hx _]]]; try discriminate.
    split; [exact Hi'|]. split; [exact He'|]. split; [exact HC'|]. split; [|exact Hdn'].
    rewrite HR, <- Hby. now rewrite <- !app_assoc.
Qed.

(* at every moment the transport has nothing more to give, what has been delivered is exactly the
   one-piece parse of everything received, and what is withheld is an incomplete response *)
Theorem reach_frames_lemma : forall st D R, reach st D R -> Frames R D StopInc (rf_buf st).
Proof.
  intros st D R H. destruct (reach_inv _ _ _ H) as [_ [_ [HC [-> Hdn]]]].
  specialize (HC [] [] StopInc (rf_buf st)). rewrite !app_nil_r in HC. apply HC. now apply FInc.
Qed.

(* ================================================================ the write side (C06) *)
Lemma flush_loop_inv : forall fuel wbuf t wbuf' t' o, flush_loop fuel wbuf t = (wbuf', t', o) ->
  io_wire t' ++ wbuf' = io_wire t ++ wbuf /\ io_rd t' = io_rd t /\ (o = WReady -> wbuf' = []).
Proof.
  induction fuel as [|fuel IH]; intros wbuf t wbuf' t' o H.
  - cbn [flush_loop] in H. destruct wbuf as [|b w].
    + destruct (io_fl t) as [|[| |] fl']; injection H as <- <- <-; cbn; auto.
    + injection H as <- <- <-. repeat split; auto. discriminate.
  - cbn [flush_loop] in H. destruct wbuf as [|b w].
    + destruct (io_fl t) as [|[| |] fl']; injection H as <- <- <-; cbn; auto.
    + destruct (io_wr t) as [|[k| | |] wr'].
      * apply IH in H. cbn [io_wire io_rd] in H. destruct H as [H1 [H2 H3]].
        split; [rewrite H1; now rewrite app_nil_r|split; [exact H2|exact H3]].
      * destruct (take_n (N.min (if k =? 0 then 1 else k) (nlen (b :: w))) (b :: w)) as [[sent rest]|] eqn:Et.
        -- apply IH in H. cbn [io_wire io_rd] in H. destruct H as [H1 [H2 H3]].
           apply take_n_app in Et. destruct Et as [Et _].
           split; [rewrite H1, Et; now rewrite <- app_assoc|split; [exact H2|exact H3]].
        -- injection H as <- <- <-. repeat split; auto. discriminate.
      * injection H as <- <- <-. repeat split; auto. discriminate.
      * injection H as <- <- <-. repeat split; auto. discriminate.
      * injection H as <- <- <-. repeat split; auto. discriminate.
Qed.

Lemma poll_flush_inv wbuf t wbuf' t' o : poll_flush wbuf t = (wbuf', t', o) ->
  io_wire t' ++ wbuf' = io_wire t ++ wbuf /\ io_rd t' = io_rd t /\ (o = WReady -> wbuf' = []).
Proof. apply flush_loop_inv. Qed.

Lemma poll_ready_inv wbuf t wbuf' t' o : poll_ready wbuf t = (wbuf', t', o) ->
  io_wire t' ++ wbuf' = io_wire t ++ wbuf /\ io_rd t' = io_rd t.
Proof.
  unfold poll_ready. destruct (_ <=? _).
  - intros H. apply poll_flush_inv in H. tauto.
  - intros H. injection H as <- <- <-. auto.
Qed.



(* ================================================================ the client: one loop iteration *)
Definition on_wire (c : client) : list byte := io_wire (c_io c) ++ c_wbuf c.
Definition wf (c : client) (s : stream) : Prop := (s_state s = RsReceiving \/ s_state s = RsDone) -> c_wbuf c = [].
Definition appended (s s' : stream) : list byte :=
  if left_start s then [] else if left_start s' then line_of s else [].

Lemma rs_step_props c s c' s' r : rs_step c s = (c', s', r) ->
  s_tag s' = s_tag s /\ s_args s' = s_args s /\ c_next c' = c_next c /\
  on_wire c' = on_wire c ++ appended s s' /\
  (wf c s -> wf c' s') /\
  (io_rd (c_io c') <> io_rd (c_io c) -> s_state s = RsReceiving /\ c_wbuf c' = c_wbuf c) /\
  (r = Some PNone -> s_state s = RsDone) /\
  (s_state s = RsDone -> r = Some PNone /\ c' = c /\ s' = s) /\
  (r = None -> (s_state s = RsStart /\ s_state s' = RsSending) \/ (s_state s = RsSending /\ s_state s' = RsReceiving)) /\
  (left_start s = true -> left_start s' = true) /\
  (s_state s <> RsReceiving -> c_rf c' = c_rf c) /\
  (s_state s = RsReceiving -> s_state s' = RsReceiving \/ s_state s' = RsDone).
Proof.
  unfold rs_step. destruct s as [tag args state]. cbn [s_state s_tag s_args]. destruct state.
  - (* Start *)
    destruct (poll_ready (c_wbuf c) (c_io c)) as [[wb t] w] eqn:Er. destruct (poll_ready_inv _ _ _ _ _ Er) as [Hw Hrd].
    destruct w; intros H; injection H as <- <- <-; unfold on_wire, appended, left_start, wf, line_of;
      cbn [c_io c_wbuf c_next c_rf s_state s_tag s_args]; rewrite ?app_nil_r.
    + rewrite app_assoc, Hw, <- app_assoc. repeat split; auto; try discriminate; try congruence.
      all: try solve [intros _ [Hx|Hx]; discriminate | intros Hx; congruence].
    + repeat split; auto; try discriminate; try congruence.
      all: try solve [intros _ [Hx|Hx]; discriminate | intros Hx; congruence].
    + repeat split; auto; try discriminate; try congruence.
      all: try solve [intros _ [Hx|Hx]; discriminate | intros Hx; congruence].
  - (* Sending *)
    destruct (poll_flush (c_wbuf c) (c_io c)) as [[wb t] w] eqn:Ef. destruct (poll_flush_inv _ _ _ _ _ Ef) as [Hw [Hrd Hempty]].
    destruct w; intros H; injection H as <- <- <-; unfold on_wire, appended, left_start, wf;
      cbn [c_io c_wbuf c_next c_rf s_state s_tag s_args]; rewrite app_nil_r.
    + repeat split; auto; try discriminate; try congruence.
      all: try solve [intros _ [Hx|Hx]; discriminate | intros Hx; congruence].
    + repeat split; auto; try discriminate; try congruence.
      all: try solve [intros _ [Hx|Hx]; discriminate | intros Hx; congruence].
    + repeat split; auto; try discriminate; try congruence.
      all: try solve [intros _ [Hx|Hx]; discriminate | intros Hx; congruence].
  - (* Receiving *)
    destruct (fr_poll (c_rf c) (io_rd (c_io c))) as [[rf' o] rd'] eqn:Ep.
    assert (G : forall s2 o2, (s2 = mk_stream tag args RsReceiving \/ s2 = mk_stream tag args RsDone) -> o2 <> PNone ->
      s_tag s2 = tag /\ s_args s2 = args /\ c_next c = c_next c /\
      on_wire (mk_client rf' (c_wbuf c) (mk_io rd' (io_wr (c_io c)) (io_fl (c_io c)) (io_wire (c_io c))) (c_next c)) = on_wire c ++ appended (mk_stream tag args RsReceiving) s2 /\
      (wf c (mk_stream tag args RsReceiving) -> wf (mk_client rf' (c_wbuf c) (mk_io rd' (io_wr (c_io c)) (io_fl (c_io c)) (io_wire (c_io c))) (c_next c)) s2) /\
      (rd' <> io_rd (c_io c) -> RsReceiving = RsReceiving /\ c_wbuf c = c_wbuf c) /\
      (Some o2 = Some PNone -> RsReceiving = RsDone) /\
      (RsReceiving = RsDone -> Some o2 = Some PNone /\ mk_client rf' (c_wbuf c) (mk_io rd' (io_wr (c_io c)) (io_fl (c_io c)) (io_wire (c_io c))) (c_next c) = c /\ s2 = mk_stream tag args RsReceiving) /\
      (Some o2 = None -> (RsReceiving = RsStart /\ s_state s2 = RsSending) \/ (RsReceiving = RsSending /\ s_state s2 = RsReceiving)) /\
      (left_start (mk_stream tag args RsReceiving) = true -> left_start s2 = true) /\
      (RsReceiving <> RsReceiving -> rf' = c_rf c) /\
      (RsReceiving = RsReceiving -> s_state s2 = RsReceiving \/ s_state s2 = RsDone)).
    { intros s2 o2 Hs2 Ho2. unfold on_wire, appended, wf. cbn [c_io c_wbuf io_wire left_start s_state].
      rewrite app_nil_r. destruct Hs2 as [-> | ->]; cbn [s_tag s_args s_state left_start];
        repeat split; auto; try discriminate; try congruence; try (intros Hx; injection Hx as Hx; contradiction).
      all: try (intros Hw _; apply Hw; left; reflexivity). }
    destruct o as [[raw v| | | | |]| | |]; cbn [c_next].
    + destruct (done_tag v) as [t|]; [destruct (bytes_eqb t tag)|]; intros H; injection H as <- <- <-; apply G; auto; discriminate.
    + intros H; injection H as <- <- <-; apply G; auto; discriminate.
    + intros H; injection H as <- <- <-; apply G; auto; discriminate.
    + intros H; injection H as <- <- <-; apply G; auto; discriminate.
    + intros H; injection H as <- <- <-; apply G; auto; discriminate.
    + intros H; injection H as <- <- <-; apply G; auto; discriminate.
    + intros H; injection H as <- <- <-; apply G; auto; discriminate.
    + intros H; injection H as <- <- <-; apply G; auto; discriminate.
    + intros H; injection H as <- <- <-; apply G; auto; discriminate.
  - (* Done *)
    intros H; injection H as <- <- <-. unfold on_wire, appended, left_start, wf. cbn [s_state s_tag s_args]. rewrite app_nil_r.
    repeat split; auto; try discriminate; try congruence.
Qed.

Lemma val_eq_dec_dummy : True. Proof. exact I. Qed.

Lemma byte_list_eq_dec (a b : list byte) : {a = b} + {a <> b}.
Proof. apply list_eq_dec. apply N.eq_dec. Qed.

Lemma rd_ev_eq_dec (a b : rd_ev) : {a = b} + {a <> b}.
Proof. decide equality. apply byte_list_eq_dec. Qed.

Lemma appended_trans s s' s'' : s_tag s' = s_tag s -> s_args s' = s_args s ->
  (left_start s = true -> left_start s' = true) -> (left_start s' = true -> left_start s'' = true) ->
  appended s s' ++ appended s' s'' = appended s s''.
Proof.
  intros Ht Ha H1 H2. unfold appended, line_of. rewrite Ht, Ha.
  destruct (left_start s) eqn:E0.
  - rewrite (H1 eq_refl). reflexivity.
  - destruct (left_start s') eqn:E1; [rewrite (H2 eq_refl), app_nil_r; reflexivity|reflexivity].
Qed.

(* a whole poll of a stream (any fuel) *)
Lemma rs_poll_props : forall fuel c s c' s' o, rs_poll fuel c s = (c', s', o) ->
  s_tag s' = s_tag s /\ s_args s' = s_args s /\ c_next c' = c_next c /\
  on_wire c' = on_wire c ++ appended s s' /\
  (wf c s -> wf c' s') /\
  (left_start s = true -> left_start s' = true) /\
  (wf c s -> io_rd (c_io c') <> io_rd (c_io c) -> c_wbuf c' = [] /\ (s_state s' = RsReceiving \/ s_state s' = RsDone)) /\
  (o = PNone -> s_state s = RsDone) /\
  (s_state s = RsDone -> (0 < fuel)%nat -> o = PNone /\ c' = c /\ s' = s).
Proof.
  induction fuel as [|fuel IH]; intros c s c' s' o H.
  - cbn in H. injection H as <- <- <-. unfold appended. destruct (left_start s); rewrite app_nil_r;
      repeat split; auto; try discriminate; try lia; try contradiction.
  - cbn [rs_poll] in H. destruct (rs_step c s) as [[c1 s1] r] eqn:Es.
    destruct (rs_step_props _ _ _ _ _ Es) as [T1 [A1 [N1 [W1 [F1 [R1 [P1 [D1 [C1 [L1 [X1 Y1]]]]]]]]]]].
    destruct r as [o1|].
    + injection H as <- <- <-.
      split; [exact T1|]. split; [exact A1|]. split; [exact N1|]. split; [exact W1|]. split; [exact F1|]. split; [exact L1|].
      split; [|split; [intros Ho; apply P1; congruence|intros Hd _; destruct (D1 Hd) as [Hq [Hc Hs']]; split; [congruence|auto]]].
      intros Hwf Hrd. destruct (R1 Hrd) as [Hs Hw]. split.
      * rewrite Hw. apply Hwf. left. exact Hs.
      * apply Y1. exact Hs.
    + apply IH in H. destruct H as [T2 [A2 [N2 [W2 [F2 [L2 [R2 [P2 D2]]]]]]]].
      split; [congruence|]. split; [congruence|]. split; [congruence|]. split.
      * rewrite W2, W1, <- app_assoc. f_equal. apply appended_trans; auto.
      * split; [auto|]. split; [auto|]. split.
        -- intros Hwf Hrd.
           assert (Hrd1 : io_rd (c_io c1) = io_rd (c_io c)).
           { destruct (C1 eq_refl) as [[Hs _]|[Hs _]];
               destruct (list_eq_dec (fun a b => rd_ev_eq_dec a b) (io_rd (c_io c1)) (io_rd (c_io c))) as [E|E]; auto;
               destruct (R1 E) as [Hx _]; congruence. }
           apply R2; [auto|congruence].
        -- split.
           ++ intros ->. specialize (P2 eq_refl). destruct (C1 eq_refl) as [[_ Hx]|[_ Hx]]; congruence.
           ++ intros Hd _. destruct (D1 Hd) as [Hx _]. discriminate.
Qed.

(* ================================================================ C06: the wire *)
Lemma polls_props : forall n c s c' s' os, polls n c s = (c', s', os) -> wf c s ->
  s_tag s' = s_tag s /\ s_args s' = s_args s /\ c_next c' = c_next c /\
  on_wire c' = on_wire c ++ appended s s' /\ wf c' s' /\ (left_start s = true -> left_start s' = true).
Proof.
  induction n as [|n IH]; intros c s c' s' os H Hwf.
  - cbn in H. injection H as <- <- <-. unfold appended. destruct (left_start s); rewrite app_nil_r; repeat split; auto.
  - cbn [polls] in H. unfold stream_poll in H. destruct (rs_poll 4 c s) as [[c1 s1] o1] eqn:Ep.
    destruct (rs_poll_props _ _ _ _ _ _ Ep) as [T1 [A1 [N1 [W1 [F1 [L1 _]]]]]].
    assert (Hcont : forall os1, polls n c1 s1 = (c', s', os1) ->
      s_tag s' = s_tag s /\ s_args s' = s_args s /\ c_next c' = c_next c /\
      on_wire c' = on_wire c ++ appended s s' /\ wf c' s' /\ (left_start s = true -> left_start s' = true)).
    { intros os1 Hq. destruct (IH _ _ _ _ _ Hq (F1 Hwf)) as [T2 [A2 [N2 [W2 [F2 L2]]]]].
      split; [congruence|]. split; [congruence|]. split; [congruence|]. split; [|auto].
      rewrite W2, W1, <- app_assoc. f_equal. apply appended_trans; auto. }
    destruct o1 as [it| | |].
    + destruct (polls n c1 s1) as [[c2 s2] os2] eqn:Eq. injection H as <- <- <-. eapply Hcont; eauto.
    + injection H as <- <- <-. repeat split; auto.
    + destruct (polls n c1 s1) as [[c2 s2] os2] eqn:Eq. injection H as <- <- <-. eapply Hcont; eauto.
    + destruct (polls n c1 s1) as [[c2 s2] os2] eqn:Eq. injection H as <- <- <-. eapply Hcont; eauto.
Qed.

(* over a whole session -- any commands, any numbers of polls, any abandonment points, any write /
   flush / read schedule -- what is on the wire plus what is still buffered is exactly the lines of the
   commands that were started, in issue order, each once *)
Theorem session_wire_lemma : forall ops c c' started outs, session ops c = (c', started, outs) ->
  on_wire c' = on_wire c ++ List.concat started.
Proof.
  induction ops as [|[args n] ops IH]; intros c c' started outs H.
  - cbn in H. injection H as <- <- <-. cbn. now rewrite app_nil_r.
  - cbn [session] in H. unfold call in H. destruct (idgen_next (c_next c)) as [[n' tag]|]; [|injection H as <- <- <-; cbn; now rewrite app_nil_r].
    destruct (polls n (mk_client (c_rf c) (c_wbuf c) (c_io c) n') (mk_stream tag args RsStart)) as [[c2 s2] os] eqn:Ep.
    destruct (session ops c2) as [[c3 st3] outs3] eqn:Es. injection H as <- <- <-.
    destruct (polls_props _ _ _ _ _ _ Ep) as [T [A [N [W [F L]]]]].
    { intros [Hx|Hx]; discriminate. }
    rewrite (IH _ _ _ _ Es), W.
    change (on_wire (mk_client (c_rf c) (c_wbuf c) (c_io c) n')) with (on_wire c).
    rewrite <- app_assoc. f_equal. rewrite concat_app. f_equal.
    unfold appended. cbn [left_start s_state]. destruct (left_start s2); cbn [List.concat]; [|reflexivity].
    unfold line_of. rewrite T, A. cbn [s_tag s_args]. now rewrite app_nil_r.
Qed.

(* the wire alone is always a prefix of those lines *)
Corollary wire_is_prefix_lemma : forall ops t c' started outs, session ops (client_init t) = (c', started, outs) ->
  io_wire (c_io c') ++ c_wbuf c' = io_wire t ++ List.concat started.
Proof.
  intros ops t c' started outs H. apply session_wire_lemma in H. unfold on_wire in H. cbn in H.
  now rewrite app_nil_r in H.
Qed.

(* a command is completely flushed before its stream waits for a response: no read happens while
   anything is buffered, and a stream is in Receiving / Done only with an empty write buffer *)
Theorem flushed_before_receiving_lemma : forall c s c' s' o, wf c s -> stream_poll c s = (c', s', o) ->
  wf c' s' /\ (io_rd (c_io c') <> io_rd (c_io c) -> c_wbuf c' = [] /\ (s_state s' = RsReceiving \/ s_state s' = RsDone)).
Proof.
  intros c s c' s' o Hwf H. unfold stream_poll in H.
  destruct (rs_poll_props _ _ _ _ _ _ H) as [_ [_ [_ [_ [F [_ [R _]]]]]]]. split; auto.
Qed.

(* ================================================================ C05 / C11: completion matching *)
(* while receiving, the stream hands through exactly what the framed connection delivers, and it
   finishes on a frame iff that frame is a tagged completion whose tag is byte-for-byte its own *)
Lemma bytes_eqb_eq : forall a b : list byte, bytes_eqb a b = true <-> a = b.
Proof.
  unfold bytes_eqb. induction a as [|x a IH]; intros [|y b]; cbn; split; intros H; try reflexivity; try discriminate.
  - apply andb_true_iff in H. destruct H as [H1 H2]. apply N.eqb_eq in H1. apply IH in H2. now subst.
  - injection H as -> ->. apply andb_true_iff. split; [apply N.eqb_refl|now apply IH].
Qed.

Theorem exact_match_lemma : forall c s c' s' r, s_state s = RsReceiving -> rs_step c s = (c', s', r) ->
  exists rf' o rd', fr_poll (c_rf c) (io_rd (c_io c)) = (rf', o, rd') /\ c_rf c' = rf' /\ io_rd (c_io c') = rd' /\
    (forall raw v, o = PItem (IFrame raw v) ->
       r = Some o /\ (s_state s' = RsDone <-> exists t, done_tag v = Some t /\ t = s_tag s)) /\
    (o = PNone -> r = Some (PItem IErrEnded) /\ s_state s' = RsReceiving) /\
    (forall e, o = PItem e -> (forall raw v, e <> IFrame raw v) -> r = Some o /\ s_state s' = RsReceiving) /\
    (o = PPending -> r = Some PPending /\ s_state s' = RsReceiving).
Proof.
  intros c s c' s' r Hs H. unfold rs_step in H. rewrite Hs in H.
  destruct (fr_poll (c_rf c) (io_rd (c_io c))) as [[rf' o] rd'] eqn:Ep. exists rf', o, rd'. split; [reflexivity|].
  assert (Hother : forall e, o = PItem e -> (forall raw v, e <> IFrame raw v) ->
            (mk_client rf' (c_wbuf c) (mk_io rd' (io_wr (c_io c)) (io_fl (c_io c)) (io_wire (c_io c))) (c_next c), s, Some o) = (c', s', r) ->
            c_rf c' = rf' /\ io_rd (c_io c') = rd' /\
            (forall raw v, o = PItem (IFrame raw v) -> r = Some o /\ (s_state s' = RsDone <-> exists t, done_tag v = Some t /\ t = s_tag s)) /\
            (o = PNone -> r = Some (PItem IErrEnded) /\ s_state s' = RsReceiving) /\
            (forall e0, o = PItem e0 -> (forall raw v, e0 <> IFrame raw v) -> r = Some o /\ s_state s' = RsReceiving) /\
            (o = PPending -> r = Some PPending /\ s_state s' = RsReceiving)).
  { intros e -> Hne Hq. injection Hq as <- <- <-. cbn [c_rf c_io io_rd].
    split; [reflexivity|]. split; [reflexivity|]. split; [intros raw v Hx; injection Hx as ->; exfalso; eapply Hne; reflexivity|].
    split; [discriminate|]. split; [intros e0 _ _; auto|discriminate]. }
  destruct o as [[raw v| | | | |]| | |].
  - (* a frame *)
    assert (Hfr : forall sfin, (c', s', r) = (mk_client rf' (c_wbuf c) (mk_io rd' (io_wr (c_io c)) (io_fl (c_io c)) (io_wire (c_io c))) (c_next c), sfin, Some (PItem (IFrame raw v))) ->
              (s_state sfin = RsDone <-> exists t, done_tag v = Some t /\ t = s_tag s) ->
              c_rf c' = rf' /\ io_rd (c_io c') = rd' /\
              (forall raw0 v0, PItem (IFrame raw v) = PItem (IFrame raw0 v0) -> r = Some (PItem (IFrame raw v)) /\ (s_state s' = RsDone <-> exists t, done_tag v0 = Some t /\ t = s_tag s)) /\
              (PItem (IFrame raw v) = PNone -> r = Some (PItem IErrEnded) /\ s_state s' = RsReceiving) /\
              (forall e0, PItem (IFrame raw v) = PItem e0 -> (forall raw1 v1, e0 <> IFrame raw1 v1) -> r = Some (PItem (IFrame raw v)) /\ s_state s' = RsReceiving) /\
              (PItem (IFrame raw v) = PPending -> r = Some PPending /\ s_state s' = RsReceiving)).
    { intros sfin Hq Hiff. injection Hq as -> -> ->. cbn [c_rf c_io io_rd].
      split; [reflexivity|]. split; [reflexivity|].
      split; [intros raw0 v0 Hx; injection Hx as <- <-; split; [reflexivity|exact Hiff]|].
      split; [discriminate|]. split; [|discriminate].
      intros e0 Hx Hne. injection Hx as <-. exfalso. eapply Hne. reflexivity. }
    destruct (done_tag v) as [t|] eqn:Et.
    + destruct (bytes_eqb t (s_tag s)) eqn:Eb.
      * apply (Hfr (mk_stream (s_tag s) (s_args s) RsDone)); [symmetry; exact H|]. cbn [s_state]. split; [intros _|reflexivity].
        exists t. split; [reflexivity|]. now apply bytes_eqb_eq.
      * apply (Hfr s); [symmetry; exact H|]. rewrite Hs. split; [discriminate|]. intros [t' [Ht' ->]]. injection Ht' as ->.
        assert (bytes_eqb (s_tag s) (s_tag s) = true) by (now apply bytes_eqb_eq). congruence.
    + apply (Hfr s); [symmetry; exact H|]. rewrite Hs. split; [discriminate|]. intros [t' [Ht' _]]. discriminate.
  - apply (Hother IErrDecode); auto; discriminate.
  - apply (Hother IErrRemaining); auto; discriminate.
  - apply (Hother IErrIo); auto; discriminate.
  - apply (Hother IErrWrite); auto; discriminate.
  - apply (Hother IErrEnded); auto; discriminate.
  - injection H as <- <- <-. cbn [c_rf c_io io_rd]. split; [reflexivity|]. split; [reflexivity|].
    split; [discriminate|]. split; [intros _; auto|]. split; [discriminate|discriminate].
  - injection H as <- <- <-. cbn [c_rf c_io io_rd]. split; [reflexivity|]. split; [reflexivity|].
    split; [discriminate|]. split; [discriminate|]. split; [discriminate|intros _; auto].
  - injection H as <- <- <-. cbn [c_rf c_io io_rd]. split; [reflexivity|]. split; [reflexivity|].
    split; [discriminate|]. split; [discriminate|]. split; [discriminate|discriminate].
Qed.

(* a stream never ends silently: None is answered only after its own completion was delivered, and
   from then on always; before that, the end of the connection is an error item *)
Theorem never_silent_lemma : forall c s c' s' o, stream_poll c s = (c', s', o) ->
  (o = PNone -> s_state s = RsDone) /\ (s_state s = RsDone -> o = PNone /\ c' = c /\ s' = s).
Proof.
  intros c s c' s' o H. unfold stream_poll in H.
  destruct (rs_poll_props _ _ _ _ _ _ H) as [_ [_ [_ [_ [_ [_ [_ [P D]]]]]]]]. split; [exact P|].
  intros Hd. apply D; [exact Hd|lia].
Qed.

(* ================================================================ Pending only ever comes from the transport *)
Lemma fr_pre_not_pending st s1 : fr_pre st <> PreReturn s1 PPending.
Proof.
  unfold fr_pre. destruct (rf_errored st); [discriminate|]. destruct (rf_readable st); [|discriminate].
  destruct (rf_eof st); destruct (decode (rf_buf st)); try discriminate; destruct (rf_buf st); discriminate.
Qed.

Theorem read_pending_from_transport_lemma : forall rd st st' rd', fr_poll st rd = (st', PPending, rd') ->
  (rd' = [] /\ Forall (fun e => match e with RChunk _ | REof => True | _ => False end) rd) \/
  (exists used, rd = used ++ RNotReady :: rd').
Proof.
  induction rd as [|e rd IH]; intros st st' rd' H; cbn [fr_poll] in H; destruct (fr_pre st) as [s1 o1|s1] eqn:Ef.
  - injection H as _ -> <-. exfalso. eapply fr_pre_not_pending; eauto.
  - injection H as _ <-. left. auto.
  - injection H as _ -> <-. exfalso. eapply fr_pre_not_pending; eauto.
  - destruct e as [b| | |].
    + apply IH in H. destruct H as [[-> HF]|[used ->]]; [left; split; [reflexivity|constructor; auto]|right; exists (RChunk b :: used); reflexivity].
    + injection H as _ <-. right. exists []. reflexivity.
    + destruct (rf_eof s1); [discriminate|].
      apply IH in H. destruct H as [[-> HF]|[used ->]]; [left; split; [reflexivity|constructor; auto]|right; exists (REof :: used); reflexivity].
    + discriminate.
Qed.

Theorem write_pending_from_transport_lemma : forall fuel wbuf t wbuf' t', (length wbuf < fuel)%nat ->
  flush_loop fuel wbuf t = (wbuf', t', WPending) ->
  (exists used, io_wr t = used ++ WNotReady :: io_wr t') \/ (exists fl', io_fl t = FNotReady :: fl' /\ io_fl t' = fl').
Proof.
  induction fuel as [|fuel IH]; intros wbuf t wbuf' t' Hf H; [lia|].
  cbn [flush_loop] in H. destruct wbuf as [|b w].
  - destruct (io_fl t) as [|[| |] fl'] eqn:Efl; try discriminate. injection H as _ <-. right. exists fl'. auto.
  - destruct (io_wr t) as [|[k| | |] wr'] eqn:Ew; try discriminate.
    + apply IH in H; [|cbn [length] in *; lia]. cbn [io_wr io_fl] in H. destruct H as [[used Hu]|H]; [|right; exact H].
      destruct used; discriminate.
    + destruct (take_n (N.min (if k =? 0 then 1 else k) (nlen (b :: w))) (b :: w)) as [[sent rest]|] eqn:Et; [|discriminate].
      assert (Hlen : (length rest < fuel)%nat).
      { pose proof (take_n_app _ _ _ _ Et) as [Hq Hn]. apply (f_equal (@length byte)) in Hq. rewrite app_length in Hq.
        rewrite !nlen_spec in Hn. cbn [length] in *.
        assert (Hpos : 0 < N.min (if k =? 0 then 1 else k) (N.of_nat (S (length w)))) by (destruct (N.eqb_spec k 0); lia).
        lia. }
      apply IH in H; [|exact Hlen]. cbn [io_wr io_fl] in H. destruct H as [[used Hu]|H]; [|right; exact H].
      left. exists (WAccept k :: used). cbn. now rewrite Hu.
    + injection H as _ <-. left. exists []. reflexivity.
Qed.
