(* M8: the language the `into_owned` bodies of types.rs / acls.rs are translated into (rs2coq, gen/Tables.v),
   its evaluation on universal values, and the computable "identity-like" predicate.  Definitions only.
   On the value model a Cow is its bytes, so an owned copy is the same value: into_owned must be the identity. *)
From TI Require Import Bytes Grammar Interp.
Local Open Scope string_scope.

Inductive own :=
| OField (x : string)                       (* a pattern variable / self.field *)
| OCow (e : own)                            (* to_owned_cow(e) *)
| OBox (e : own)                            (* Box::new(e) *)
| OInto (ty : string) (e : own)             (* T::into_owned(e), e.into_owned() *)
| OOptMap (p : pat) (b : own) (e : own)     (* e.map(|p| b) on an Option *)
| OIterMap (p : pat) (b : own) (e : own)    (* e.into_iter().map(|p| b) *)
| OCollect (e : own)                        (* (..).collect() *)
| OTuple (es : list own)
| OCall (fn : string) (e : own)             (* helper function, e.g. body_param_owned *)
| OUnknown (why : string).                  (* anything the translator does not recognise *)

Record own_row := mk_own_row {
  r_ty : string; r_con : string; r_named : bool; r_inputs : list string;
  r_out_con : string; r_outputs : list (string * own) }.

(* does the pattern fit the value? (closures over tuples are only ever applied to tuples of that arity;
   on anything else the closure is taken to leave the value alone) *)
Definition pat_fits (p : pat) (v : val) : bool :=
  match p with
  | PTuple ps => match v with VTuple vs => Nat.eqb (length ps) (length vs) | _ => false end
  | _ => true
  end.

Section OwnEval.
Variable rec : val -> val.                              (* into_owned of sub-values *)
Variable callf : string -> val -> val.                  (* helper functions *)

Fixpoint oeval (e : own) (env : venv) {struct e} : val :=
  match e with
  | OField x => lookup x env
  | OCow e1 | OBox e1 | OCollect e1 => oeval e1 env
  | OInto _ e1 => rec (oeval e1 env)
  | OOptMap p b e1 =>
    match oeval e1 env with
    | VSome v => VSome (if pat_fits p v then oeval b (bind p v env) else v)
    | v => v
    end
  | OIterMap p b e1 =>
    match oeval e1 env with
    | VList l => VList (map (fun v => if pat_fits p v then oeval b (bind p v env) else v) l)
    | v => v
    end
  | OTuple es => VTuple ((fix ev (l : list own) : list val := match l with [] => [] | x :: l' => oeval x env :: ev l' end) es)
  | OCall fn e1 => callf fn (oeval e1 env)
  | OUnknown _ => VUnit
  end.
End OwnEval.

Fixpoint assoc_helper (k : string) (l : list (string * (pat * own))) : option (pat * own) :=
  match l with [] => None | (k', v) :: l' => if String.eqb k k' then Some v else assoc_helper k l' end.

(* helpers do not call helpers *)
Definition own_call (rec : val -> val) (helpers : list (string * (pat * own))) (fn : string) (v : val) : val :=
  match assoc_helper fn helpers with
  | Some (p, body) => if pat_fits p v then oeval rec (fun _ _ => VUnit) body (bind p v []) else v
  | None => VUnit
  end.

Fixpoint assoc_own (k : string) (l : list (string * own)) : option own :=
  match l with [] => None | (k', v) :: l' => if String.eqb k k' then Some v else assoc_own k l' end.

Fixpoint find_row (con : string) (tbl : list own_row) : option own_row :=
  match tbl with [] => None | r :: tbl' => if String.eqb con (r_con r) then Some r else find_row con tbl' end.

Definition apply_row (rec : val -> val) (helpers : list (string * (pat * own))) (r : own_row) (v : val) : val :=
  let ev := oeval rec (own_call rec helpers) in
  match v with
  | VCon name args =>
    if r_named r then v else
    if Nat.eqb (length args) (length (r_inputs r)) then
      VCon (r_out_con r) (map (fun fe => ev (snd fe) (combine (r_inputs r) args)) (r_outputs r))
    else v
  | VRec name fields =>
    (* a struct is a labelled product: the result is listed in the order of the value's own fields *)
    if r_named r then
      VRec (r_out_con r) (map (fun kv => (fst kv, match assoc_own (fst kv) (r_outputs r) with
                                                  | Some e => ev e fields
                                                  | None => snd kv
                                                  end)) fields)
    else v
  | _ => v
  end.

(* T::into_owned on the value model: find the row of the value's constructor; values without a row
   (numbers, bytes, options, lists, types that own their data) are left alone *)
Fixpoint into_owned_val (fuel : nat) (tbl : list own_row) (helpers : list (string * (pat * own))) (v : val) : val :=
  match fuel with
  | O => v
  | S f =>
    match v with
    | VCon name _ | VRec name _ =>
      match find_row name tbl with
      | Some r => apply_row (into_owned_val f tbl helpers) helpers r v
      | None => v
      end
    | _ => v
    end
  end.

(* ---------------------------------------------------------------- the computable identity check *)
Definition pat_vars (ps : list pat) : list string :=
  flat_map (fun p => match p with PVar y => [y] | _ => [] end) ps.

Fixpoint str_nodup (l : list string) : bool :=
  match l with [] => true | x :: l' => negb (existsb (String.eqb x) l') && str_nodup l' end.

(* e denotes exactly the variable x, possibly under wrappers that are the identity on values;
   a closure |p| b is identity-like when p is a variable y and b denotes y, or p is a tuple of
   distinct variables and b the tuple of expressions each denoting the matching variable *)
Fixpoint idlike (helpers_ok : string -> bool) (x : string) (e : own) {struct e} : bool :=
  let clos (p : pat) (b : own) : bool :=
    match p with
    | PVar y => idlike helpers_ok y b
    | PTuple ps =>
      str_nodup (pat_vars ps) &&
      match b with
      | OTuple es =>
        (fix go (es : list own) (ps : list pat) {struct es} : bool :=
           match es, ps with
           | [], [] => true
           | e :: es', PVar y :: ps' => idlike helpers_ok y e && go es' ps'
           | _, _ => false
           end) es ps
      | _ => false
      end
    | PWild => false
    end in
  match e with
  | OField y => String.eqb x y
  | OCow e1 | OBox e1 | OInto _ e1 => idlike helpers_ok x e1
  | OOptMap p b e1 => idlike helpers_ok x e1 && clos p b
  | OCollect (OIterMap p b e1) => idlike helpers_ok x e1 && clos p b
  | OCall fn e1 => helpers_ok fn && idlike helpers_ok x e1
  | _ => false
  end.

(* the closure check on its own (for helper functions) *)
Definition fn_ok (helpers_ok : string -> bool) (f : pat * own) : bool :=
  idlike helpers_ok "$arg" (OOptMap (fst f) (snd f) (OField "$arg")).

Definition helper_ok (helpers : list (string * (pat * own))) (fn : string) : bool :=
  match assoc_helper fn helpers with
  | Some f => fn_ok (fun _ => false) f
  | None => false
  end.

Definition row_ok (helpers : list (string * (pat * own))) (r : own_row) : bool :=
  String.eqb (r_con r) (r_out_con r) && str_nodup (r_inputs r) &&
  if r_named r then
    list_eqb String.eqb (map fst (r_outputs r)) (r_inputs r) &&
    forallb (fun fe => idlike (helper_ok helpers) (fst fe) (snd fe)) (r_outputs r)
  else
    Nat.eqb (length (r_outputs r)) (length (r_inputs r)) &&
    forallb (fun p => idlike (helper_ok helpers) (fst p) (snd (snd p))) (combine (r_inputs r) (r_outputs r)).

Definition table_ok (tbl : list own_row) (helpers : list (string * (pat * own))) : bool :=
  forallb (row_ok helpers) tbl.

(* every constructor of every type with a lifetime parameter and an into_owned has a row, with exactly the declared fields *)
Definition covered (types : list (string * bool * list (string * bool * list string))) (tbl : list own_row) : bool :=
  forallb (fun t => let '(_, lt, vs) := t in
             negb lt || negb (existsb (fun r => String.eqb (r_ty r) (fst (fst t))) tbl) || forallb (fun v => let '(con, named, fields) := v in
                                   match find_row con tbl with
                                   | Some r => Bool.eqb (r_named r) named &&
                                               (if named then list_eqb String.eqb (r_inputs r) fields
                                                else Nat.eqb (length (r_inputs r)) (length fields))
                                   | None => false
                                   end) vs) types.

(* records with distinct field names (all the value model ever builds) *)
Fixpoint wf_val (v : val) : bool :=
  match v with
  | VSome v1 => wf_val v1
  | VList l | VTuple l | VCon _ l =>
    (fix all (l : list val) : bool := match l with [] => true | x :: l' => wf_val x && all l' end) l
  | VRec _ fs =>
    str_nodup (map fst fs) &&
    (fix all (l : list (string * val)) : bool := match l with [] => true | kv :: l' => wf_val (snd kv) && all l' end) fs
  | _ => true
  end.
