(* Non-vacuity of the round-trip theorems: concrete, non-trivial responses that meet the hypotheses (are members of
   Spec.enc_response), in spellings that use the freedoms the relations allow (letter case, literals, leading zeros,
   trailing spaces, repeated ID fields), and what the theorem then says about them. *)
From TI Require Import Bytes Grammar Nom Interp InterpFacts Thm_Fuel Natives Proofs_C01 RoundTrip IdMap EntryNames Spec RoundTripRules.
From TI.gen Require Import ImapGrammar.
From Coq Require Import Lia.
Local Open Scope N_scope.

Ltac kwt := unfold kw; reflexivity.
Ltac num ds := apply (enc_number_intro _ ds); [discriminate | reflexivity | vm_compute; reflexivity].
Ltac quoted s := apply enc_string_q; apply (enc_quoted_intro s); reflexivity.
Ltac nilt := constructor; kwt.

(* * list (\marked \X) "/" inbox<SP><CRLF> *)
Example ex_list : exists v, enc_response v
  (bs "* " ++ (bs "list " ++ ([40] ++ bs "\marked" ++ (SPb ++ ([92] ++ bs "X") ++ []) ++ [41]) ++ SPb ++ ([34] ++ bs "/" ++ [34]) ++ SPb ++ bs "inbox") ++ [32] ++ [13; 10]) /\
  v = VCon "Response::MailboxData" [VRec "MailboxDatum::List"
        [("name_attributes"%string, VList [VCon "NameAttribute::Marked" []; VCon "NameAttribute::Extension" [VBytes (bs "\X")]]);
         ("delimiter"%string, VSome (VBytes (bs "/"))); ("name"%string, VBytes (bs "INBOX"))]].
Proof.
  eexists. split.
  - apply resp_data, enc_data_intro; [|repeat constructor]. apply data_list.
    eapply (enc_mailbox_list_intro "LIST " _ _ _ _ _ (if eq_nocase (bs "inbox") (bs "INBOX") then bs "INBOX" else bs "inbox")); [left; reflexivity | kwt | | |].
    + eapply nal_some.
      * eapply (na_known "\Marked" "NameAttribute::Marked"); [cbn; tauto | kwt].
      * eapply nam_cons; [apply (na_ext (bs "X")); [discriminate | reflexivity | vm_compute; reflexivity] | constructor].
    + apply delim_quoted; [apply (enc_quoted_intro (bs "/")); reflexivity | reflexivity].
    + apply (enc_mailbox_intro (bs "inbox")); [apply enc_astring_a; [discriminate | reflexivity] | reflexivity].
  - reflexivity.
Qed.

(* * id ("name" "a" "os" nil "name" {1}<CRLF>b )<CRLF>: the later "name" wins, the NIL-valued field is dropped *)
Definition ex_id_fields : list field := [(bs "name", Some (bs "a")); (bs "os", None); (bs "name", Some (bs "b"))].
Example ex_id : exists v, enc_response v
  (bs "* " ++ (bs "id" ++ SPb ++ [40] ++ (([34] ++ bs "name" ++ [34]) ++ SPb ++ ([34] ++ bs "a" ++ [34]))
                 ++ (SPb ++ (([34] ++ bs "os" ++ [34]) ++ SPb ++ bs "nil")
                     ++ (SPb ++ (([34] ++ bs "name" ++ [34]) ++ SPb ++ ([123] ++ bs "1" ++ [125; 13; 10] ++ bs "b")) ++ []))
                 ++ [32] ++ [41]) ++ [] ++ [13; 10]) /\
  v = VCon "Response::Id" [VSome (VList [VTuple [VBytes (bs "name"); VBytes (bs "b")]])].
Proof.
  eexists. split.
  - apply resp_id; [|constructor].
    eapply (id_some _ _ (bs "name", Some (bs "a")) _ [(bs "os", None); (bs "name", Some (bs "b"))] _ _ (fold_left ins_field ex_id_fields [])); [kwt | | | | reflexivity |].
    + constructor; [discriminate | reflexivity].
    + apply idf_val; [quoted (bs "name") | reflexivity | constructor; [discriminate | reflexivity] | quoted (bs "a") | reflexivity].
    + eapply idfs_cons; [constructor; [discriminate | reflexivity] | apply idf_nil; [quoted (bs "os") | reflexivity | constructor; [discriminate | reflexivity] | nilt] |].
      eapply idfs_cons; [constructor; [discriminate | reflexivity] | | constructor].
      apply idf_val; [quoted (bs "name") | reflexivity | constructor; [discriminate | reflexivity] | | reflexivity].
      apply enc_string_l. apply (enc_literal_intro (bs "b") (bs "1")); [discriminate | reflexivity | reflexivity | vm_compute; reflexivity | reflexivity].
    + apply fold_ins_is_the_denoted_map.
  - reflexivity.
Qed.

(* * 007 fetch (uid 12 body[1.2.header]<0> {5}<CRLF>a)<CR><LF>b flags (\Seen $x))<CRLF>: a literal whose content imitates protocol *)
Example ex_fetch_section : exists v, enc_response v
  (bs "* " ++ bs "007" ++ bs " fetch " ++ [40]
     ++ (bs "uid " ++ bs "12")
     ++ (SPb ++ (bs "body" ++ ([91] ++ (bs "1" ++ ([46] ++ bs "2" ++ []) ++ [46] ++ bs "header") ++ [93]) ++ ([60] ++ bs "0" ++ [62]) ++ SPb
                 ++ ([123] ++ bs "5" ++ [125; 13; 10] ++ [97; 41; 13; 10; 98]))
          ++ (SPb ++ (bs "flags " ++ ([40] ++ ([92] ++ bs "Seen") ++ (SPb ++ bs "$x" ++ []) ++ [41])) ++ []))
     ++ [41] ++ [] ++ [13; 10]) /\
  v = VCon "Response::Fetch" [VNum 7; VList
        [VCon "AttributeValue::Uid" [VNum 12];
         VRec "AttributeValue::BodySection"
           [("section"%string, VSome (VCon "SectionPath::Part" [VList [VNum 1; VNum 2]; VSome (VCon "MessageSection::Header" [])]));
            ("index"%string, VSome (VNum 0)); ("data"%string, VSome (VBytes [97; 41; 13; 10; 98]))];
         VCon "AttributeValue::Flags" [VList [VBytes (bs "\Seen"); VBytes (bs "$x")]]]].
Proof.
  eexists. split.
  - apply resp_fetch. eapply enc_fetch_intro; [num (bs "007") | kwt | | | constructor].
    + apply att_uid; [kwt | num (bs "12")].
    + eapply att_more_cons.
      * eapply att_body_section; [kwt | | |].
        -- apply section_spec. eapply ss_part_text; [num (bs "1") | eapply part_more_cons; [num (bs "2") | constructor] | apply st_msgtext, mt_header; kwt].
        -- apply origin_some. num (bs "0").
        -- apply enc_nstring_some, enc_string_l.
           apply (enc_literal_intro [97; 41; 13; 10; 98] (bs "5")); [discriminate | reflexivity | reflexivity | vm_compute; reflexivity | reflexivity].
      * eapply att_more_cons; [|constructor]. apply att_flags; [kwt|].
        eapply flag_list_some; [apply (flag_backslash (bs "Seen")); [discriminate | reflexivity] |].
        eapply flags_more_cons; [apply (flag_keyword (bs "$x")); [discriminate | reflexivity] | constructor].
  - reflexivity.
Qed.

(* * 1 FETCH (BODYSTRUCTURE ("text" "plain" ("charset" "utf-8") NIL NIL "base64" 0012 3 "md5" NIL ("en" "de")))<CRLF> *)
Example ex_bodystructure : exists v, enc_response v
  (bs "* " ++ bs "1" ++ bs " FETCH " ++ [40]
     ++ (bs "BODYSTRUCTURE "
          ++ ([40] ++ (bs """text""" ++ SPb ++ ([34] ++ bs "plain" ++ [34]) ++ SPb
                       ++ (([40] ++ (([34] ++ bs "charset" ++ [34]) ++ SPb ++ ([34] ++ bs "utf-8" ++ [34])) ++ [] ++ [41])
                           ++ SPb ++ bs "NIL" ++ SPb ++ bs "NIL" ++ SPb ++ ([34] ++ bs "base64" ++ [34]) ++ SPb ++ bs "0012")
                       ++ SPb ++ bs "3"
                       ++ (SPb ++ ([34] ++ bs "md5" ++ [34]) ++ (SPb ++ bs "NIL" ++ SPb ++ ([40] ++ ([34] ++ bs "en" ++ [34]) ++ (SPb ++ ([34] ++ bs "de" ++ [34]) ++ []) ++ [41]))))
              ++ [41]))
     ++ [] ++ [41] ++ [] ++ [13; 10]) /\
  match v with
  | VCon "Response::Fetch" [VNum 1; VList [VCon "AttributeValue::BodyStructure" [VRec "BodyStructure::Text" fs]]] =>
      lookup "lines" fs = VNum 3
  | _ => False
  end.
Proof.
  eexists. split.
  - apply resp_fetch. eapply enc_fetch_intro; [num (bs "1") | kwt | | constructor | constructor].
    apply att_bodystructure; [kwt|].
    eapply (body_text 0 _ (bs "plain")); [lia | kwt | quoted (bs "plain") | reflexivity | | num (bs "3") |].
    + eapply bf_intro.
      * eapply bp_some; [apply param_pair; [quoted (bs "charset") | reflexivity | quoted (bs "utf-8") | reflexivity] | constructor].
      * apply nsu_nil. nilt.
      * apply nsu_nil. nilt.
      * eapply (be_known "BASE64"); [cbn; tauto | kwt].
      * num (bs "0012").
    + eapply x1_some; [apply nsu_some; [quoted (bs "md5") | reflexivity] |].
      eapply xt_2; [apply dsp_nil; nilt |]. eapply lang_list; [quoted (bs "en") | reflexivity |].
      eapply lang_more_cons; [quoted (bs "de") | reflexivity | constructor].
  - reflexivity.
Qed.

(* a STATUS response whose mailbox is the quoted string  a BACKSLASH DQUOTE b  (an escaped quote inside quotes), items
   MESSAGES 3 and UIDNEXT 04: the contents are handed out as sent, escape included *)
Example ex_status_escaped : exists v, enc_response v
  (bs "* " ++ (bs "STATUS " ++ ([34] ++ [97; 92; 34; 98] ++ [34]) ++ SPb ++ ([40] ++ (bs "MESSAGES " ++ bs "3") ++ (SPb ++ (bs "UIDNEXT " ++ bs "04") ++ []) ++ [41])) ++ [] ++ [13; 10]) /\
  v = VCon "Response::MailboxData" [VRec "MailboxDatum::Status"
        [("mailbox"%string, VBytes [97; 92; 34; 98]);
         ("status"%string, VList [VCon "StatusAttribute::Messages" [VNum 3]; VCon "StatusAttribute::UidNext" [VNum 4]])]].
Proof.
  eexists. split.
  - apply resp_data, enc_data_intro; [|constructor]. apply data_status.
    eapply (enc_mailbox_status_intro _ (if eq_nocase [97; 92; 34; 98] (bs "INBOX") then bs "INBOX" else [97; 92; 34; 98])); [kwt | |].
    + apply (enc_mailbox_intro [97; 92; 34; 98]); [|reflexivity]. apply enc_astring_s, enc_string_q. constructor.
      apply qb_plain; [reflexivity|]. apply qb_escaped; [right; reflexivity|]. apply qb_plain; [reflexivity | constructor].
    + eapply sal_some; [apply sa_messages; [kwt | num (bs "3")] |].
      eapply sam_cons; [apply sa_uidnext; [kwt | num (bs "04")] | constructor].
  - reflexivity.
Qed.

(* what the theorem says about such members: parsed from the entry point, with anything behind *)
Corollary ex_list_parses rest : exists v u, parse ((bs "* " ++ (bs "list " ++ ([40] ++ bs "\marked" ++ (SPb ++ ([92] ++ bs "X") ++ []) ++ [41]) ++ SPb ++ ([34] ++ bs "/" ++ [34]) ++ SPb ++ bs "inbox") ++ [32] ++ [13; 10]) ++ rest) = ROk rest v u.
Proof. destruct ex_list as (v & H & _). eexists _, _. apply response_roundtrip, H. Qed.
