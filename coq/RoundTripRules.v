(* M12 proofs: every RFC spelling (Spec.v) of a value is consumed exactly and parsed to exactly that value by the
   parser functions of the grammar regenerated from the source.  One lemma per parser function, composed from the
   combinator lemmas of RoundTrip.v over the generated G terms. *)
From TI Require Import Bytes Grammar Nom Interp InterpFacts Thm_Number Thm_Fuel Natives Proofs_C01 RoundTrip Spec.
From TI.gen Require Import ImapGrammar.
From Coq Require Import Lia.
Local Open Scope N_scope.

Notation OK := (Ok native_call env rk).
Notation REJ := (Rej native_call env rk).
Notation okref := (ok_ref native_call env rk rank_ok_all).
Notation rejref := (rej_ref native_call env rk rank_ok_all).

(* ---------------------------------------------------------------- the RFC classes are (contained in) the parser's *)
Definition all_bytes : list byte := map N.of_nat (seq 0 256).
Lemma in_all_bytes b : b < 256 -> In b all_bytes.
Proof.
  intro H. unfold all_bytes. apply in_map_iff. exists (N.to_nat b). split; [lia|]. apply in_seq. lia.
Qed.
Lemma sweep (P : byte -> bool) : forallb P all_bytes = true -> forall b, b < 256 -> P b = true.
Proof. intros H b Hb. rewrite forallb_forall in H. apply H, in_all_bytes, Hb. Qed.

Lemma rfc_char_small b : rfc_CHAR b = true -> b < 256.
Proof. unfold rfc_CHAR. intro H. apply andb_true_iff in H. destruct H as [_ H]. apply N.leb_le in H. lia. Qed.

Lemma astring_char_ok b : rfc_ASTRING_CHAR b = true -> cls_core_x_is_astring_char b = true.
Proof.
  intro H. assert (Hb : b < 256).
  { unfold rfc_ASTRING_CHAR, rfc_ATOM_CHAR, rfc_resp_specials in H. apply orb_true_iff in H. destruct H as [H|H].
    - apply andb_true_iff in H. destruct H as [H _]. apply rfc_char_small, H.
    - apply N.eqb_eq in H. lia. }
  revert H. apply (sweep (fun b => implb (rfc_ASTRING_CHAR b) (cls_core_x_is_astring_char b))) in Hb; [|vm_compute; reflexivity].
  destruct (rfc_ASTRING_CHAR b); [cbn in Hb; intros _; exact Hb | discriminate].
Qed.
Lemma quoted_plain_ok b : rfc_QUOTED_PLAIN b = true ->
  (cls_core_x_is_text_char b && negb (cls_core_x_is_quoted_specials b)) = true.
Proof.
  intro H. assert (Hb : b < 256).
  { unfold rfc_QUOTED_PLAIN, rfc_TEXT_CHAR in H. apply andb_true_iff in H. destruct H as [H _].
    apply andb_true_iff in H. destruct H as [H _]. apply andb_true_iff in H. destruct H as [H _]. apply rfc_char_small, H. }
  revert H. apply (sweep (fun b => implb (rfc_QUOTED_PLAIN b) (cls_core_x_is_text_char b && negb (cls_core_x_is_quoted_specials b)))) in Hb; [|vm_compute; reflexivity].
  destruct (rfc_QUOTED_PLAIN b); [cbn in Hb; intros _; exact Hb | discriminate].
Qed.
Lemma digit_ok b : rfc_DIGIT b = nom_is_digit b.
Proof. reflexivity. Qed.
Lemma char8_ok b : rfc_CHAR8 b = true -> negb (b =? 0) = true.
Proof.
  unfold rfc_CHAR8. intro H. apply andb_true_iff in H. destruct H as [H _]. apply N.leb_le in H.
  apply negb_true_iff, N.eqb_neq. lia.
Qed.

Lemma forallb_impl {A} (p q : A -> bool) l : (forall x, p x = true -> q x = true) -> forallb p l = true -> forallb q l = true.
Proof. intros H Hl. rewrite forallb_forall in *. intros x Hx. apply H, Hl, Hx. Qed.

Ltac app_norm := repeat rewrite <- app_assoc; rewrite ?app_nil_r; cbn [app]; reflexivity.
Ltac regroup t := match goal with |- OkSeq _ _ _ _ _ ?w _ _ => replace w with t by app_norm end.

(* ---------------------------------------------------------------- environment look-ups *)
Ltac env_lookup := vm_compute; reflexivity.
Lemma env_nil : env f_core_x_nil = Some def_core_x_nil. Proof. reflexivity. Qed.
Lemma env_number : env f_core_x_number = Some (Leaf (LNumber 32)). Proof. reflexivity. Qed.
Lemma env_number_64 : env f_core_x_number_64 = Some (Leaf (LNumber 64)). Proof. reflexivity. Qed.
Lemma env_literal : env f_core_x_literal = Some (Leaf LLiteral). Proof. reflexivity. Qed.
Lemma env_quoted : env f_core_x_quoted = Some def_core_x_quoted. Proof. reflexivity. Qed.
Lemma env_string : env f_core_x_string = Some def_core_x_string. Proof. reflexivity. Qed.
Lemma env_nstring : env f_core_x_nstring = Some def_core_x_nstring. Proof. reflexivity. Qed.
Lemma env_astring : env f_core_x_astring = Some def_core_x_astring. Proof. reflexivity. Qed.
Lemma env_address : env f_rfc3501_x_address = Some def_rfc3501_x_address. Proof. reflexivity. Qed.
Lemma env_opt_addresses : env f_rfc3501_x_opt_addresses = Some def_rfc3501_x_opt_addresses. Proof. reflexivity. Qed.
Lemma env_envelope : env f_rfc3501_x_envelope = Some def_rfc3501_x_envelope. Proof. reflexivity. Qed.

(* ---------------------------------------------------------------- tokens *)
Lemma ok_nil w d : enc_nil w -> OK (Ref f_core_x_nil DSame) d w (VBytes w) any.
Proof.
  intros [w' H]. apply (okref _ _ _ _ _ _ _ env_nil). unfold def_core_x_nil. apply ok_tag_nc. exact H.
Qed.

Lemma all_digits_of ds : forallb rfc_DIGIT ds = true -> all_digits ds.
Proof. intro H. unfold all_digits. apply Forall_forall. intros x Hx. rewrite forallb_forall in H. exact (H x Hx). Qed.

Lemma ok_number_leaf bits n w d : enc_number bits n w -> OK (Leaf (LNumber bits)) d w (VNum n) (stops_at nom_is_digit).
Proof.
  intros [ds Hne Hd Hlt]. apply ok_leaf. intros rest Hr. cbn [leaf_run].
  rewrite (number_exact_or_error_lemma bits ds rest Hne (all_digits_of ds Hd)).
  - apply N.ltb_lt in Hlt. rewrite Hlt. reflexivity.
  - destruct rest as [|c r]; [destruct Hr | exact Hr].
Qed.
Lemma ok_number n w d : enc_number 32 n w -> OK (Ref f_core_x_number DSame) d w (VNum n) (stops_at nom_is_digit).
Proof. intro H. apply (okref _ _ _ _ _ _ _ env_number). apply ok_number_leaf, H. Qed.
Lemma ok_number_64 n w d : enc_number 64 n w -> OK (Ref f_core_x_number_64 DSame) d w (VNum n) (stops_at nom_is_digit).
Proof. intro H. apply (okref _ _ _ _ _ _ _ env_number_64). apply ok_number_leaf, H. Qed.

(* quoted content without escapes: the escaped() scanner takes exactly the content and stops at the closing quote *)
Lemma esc_scan_plain normal ctl escs s c rest :
  forallb normal s = true -> normal c = false -> (c =? ctl) = false ->
  esc_scan normal ctl escs (s ++ c :: rest) = SOk s (c :: rest).
Proof.
  intros Hs Hc Hctl. induction s as [|x s IH]; cbn [app esc_scan].
  - rewrite Hc, Hctl. reflexivity.
  - cbn [forallb] in Hs. apply andb_true_iff in Hs. destruct Hs as [Hx Hs]. rewrite Hx, (IH Hs). reflexivity.
Qed.

Lemma ok_quoted s w d : enc_quoted s w -> OK (Ref f_core_x_quoted DSame) d w (VBytes s) any.
Proof.
  intros [s' Hs]. apply (okref _ _ _ _ _ _ _ env_quoted). unfold def_core_x_quoted.
  eapply ok_map.
  { apply ok_seq.
    (* "\"" content "\"" *)
    regroup ([34] ++ (s' ++ ([34] ++ []))).
    eapply (okseq_cons _ _ _ _ _ _ _ _ _ _ any any); [apply ok_tag | | intros; exact I].
    eapply (okseq_cons _ _ _ _ _ _ _ _ _ _ (fun rest => match rest with c :: _ => c = 34 | [] => False end) any).
    - (* the escaped leaf *)
      apply ok_leaf. intros rest Hr. cbn [leaf_run].
      destruct rest as [|c rest]; [destruct Hr|]. subst c.
      rewrite esc_scan_plain; [reflexivity | | reflexivity | reflexivity].
      apply (forallb_impl rfc_QUOTED_PLAIN); [apply quoted_plain_ok | exact Hs].
    - eapply (okseq_cons _ _ _ _ _ _ _ _ _ _ any any); [apply ok_tag | apply (okseq_nil _ _ _ _ any) | intros; exact I].
    - intros rest _. reflexivity. }
  reflexivity.
Qed.

Lemma ok_literal s w d : enc_literal s w -> OK (Ref f_core_x_literal DSame) d w (VBytes s) any.
Proof.
  intros [s' ds Hne Hd Hlen Hlt H8]. apply (okref _ _ _ _ _ _ _ env_literal).
  apply ok_leaf. intros rest _. cbn [leaf_run].
  pose proof (literal_exact_lemma ds s' rest Hne (all_digits_of ds Hd) Hlen Hlt) as L.
  assert (Hnz : Forall (fun b => b <> 0) s').
  { apply Forall_forall. intros x Hx. rewrite forallb_forall in H8. specialize (H8 x Hx). apply char8_ok in H8.
    apply negb_true_iff, N.eqb_neq in H8. exact H8. }
  specialize (L Hnz). unfold lit_header in L. cbn [app] in L |- *. repeat rewrite <- app_assoc in L |- *. cbn [app] in L |- *.
  transitivity (ROk rest (VBytes s') (nlen ds + 4 + nlen s')); [exact L|].
  f_equal. rewrite !nlen_spec. cbn [length]. rewrite !app_length. cbn [length]. lia.
Qed.

Lemma ok_string s w d : enc_string s w -> OK (Ref f_core_x_string DSame) d w (VBytes s) any.
Proof.
  intros [s' w' Hq | s' w' Hl]; apply (okref _ _ _ _ _ _ _ env_string); unfold def_core_x_string.
  - apply ok_alt_here. apply ok_quoted, Hq.
  - apply ok_alt_skip; [|apply ok_alt_here, ok_literal, Hl].
    (* quoted does not start with "{" *)
    intros rest _. destruct Hl as [s'' ds]. cbn [app].
    apply (rejref _ _ _ _ _ env_quoted). unfold def_core_x_quoted.
    apply rej_map, rej_seq_head, rej_tag. reflexivity.
Qed.

Lemma enc_string_head s w : enc_string s w -> exists c r, w = c :: r /\ (c = 34 \/ c = 123).
Proof.
  intros [s' w' [s'' H] | s' w' [s'' ds]]; cbn [app]; eexists _, _; (split; [reflexivity|]); [left | right]; reflexivity.
Qed.

Lemma ok_nstring v w d : enc_nstring v w -> OK (Ref f_core_x_nstring DSame) d w v any.
Proof.
  intros [w' Hn | s w' Hs]; apply (okref _ _ _ _ _ _ _ env_nstring); unfold def_core_x_nstring.
  - apply ok_alt_here. eapply ok_map. { apply ok_nil, Hn. } reflexivity.
  -
    apply ok_alt_skip.
    + (* NIL does not start with a quote or a brace *)
      intros rest _. destruct (enc_string_head s w' Hs) as (c & r & -> & Hc). cbn [app].
      apply rej_map. apply (rejref _ _ _ _ _ env_nil). unfold def_core_x_nil.
      destruct Hc as [-> | ->]; apply rej_tag_nc; reflexivity.
    + apply ok_alt_here. eapply ok_map. { apply ok_string, Hs. } reflexivity.
Qed.

Lemma ok_astring s w d : enc_astring s w -> OK (Ref f_core_x_astring DSame) d w (VBytes s) (stops_at cls_core_x_is_astring_char).
Proof.
  intros [s' Hne Hs | s' w' Hs]; apply (okref _ _ _ _ _ _ _ env_astring); unfold def_core_x_astring.
  - apply ok_alt_here. apply ok_take_while1; [|exact Hne].
    apply (forallb_impl rfc_ASTRING_CHAR); [apply astring_char_ok | exact Hs].
  - apply (Ok_follow _ _ _ _ _ _ _ any); [|intros; exact I]. apply ok_alt_skip; [|apply ok_alt_here, ok_string, Hs].
    intros rest _. destruct (enc_string_head s' w' Hs) as (c & r & -> & Hc). cbn [app].
    destruct Hc as [-> | ->]; apply rej_take_while1; reflexivity.
Qed.

(* ---------------------------------------------------------------- address *)
Lemma ok_address v w d : enc_address v w -> OK (Ref f_rfc3501_x_address DSame) d w v any.
Proof.
  intros [n a m h wn wa wm wh Hn Ha Hm Hh]. apply (okref _ _ _ _ _ _ _ env_address). unfold def_rfc3501_x_address.
  eapply ok_map.
  { apply ok_seq. unfold SPb.
    regroup ([40] ++ ((wn ++ ([32] ++ (wa ++ ([32] ++ (wm ++ ([32] ++ (wh ++ []))))))) ++ ([41] ++ []))).
    eapply (okseq_cons _ _ _ _ _ _ _ _ _ _ any any); [apply ok_tag | | intros; exact I].
    eapply (okseq_cons _ _ _ _ _ _ _ _ _ _ any any); [| | intros; exact I].
    - eapply ok_map.
      { apply ok_seq.
        eapply (okseq_cons _ _ _ _ _ _ _ _ _ _ any any); [apply ok_nstring, Hn | | intros; exact I].
        eapply (okseq_cons _ _ _ _ _ _ _ _ _ _ any any); [apply ok_tag | | intros; exact I].
        eapply (okseq_cons _ _ _ _ _ _ _ _ _ _ any any); [apply ok_nstring, Ha | | intros; exact I].
        eapply (okseq_cons _ _ _ _ _ _ _ _ _ _ any any); [apply ok_tag | | intros; exact I].
        eapply (okseq_cons _ _ _ _ _ _ _ _ _ _ any any); [apply ok_nstring, Hm | | intros; exact I].
        eapply (okseq_cons _ _ _ _ _ _ _ _ _ _ any any); [apply ok_tag | | intros; exact I].
        eapply (okseq_cons _ _ _ _ _ _ _ _ _ _ any any); [apply ok_nstring, Hh | apply (okseq_nil _ _ _ _ any) | intros; exact I]. }
      reflexivity.
    - eapply (okseq_cons _ _ _ _ _ _ _ _ _ _ any any); [apply ok_tag | apply (okseq_nil _ _ _ _ any) | intros; exact I]. }
  reflexivity.
Qed.

(* ---------------------------------------------------------------- address lists and the envelope *)
Lemma enc_address_head v w : enc_address v w -> exists r, w = 40 :: r.
Proof. intros [n a m h wn wa wm wh _ _ _ _]. cbn [app]. eexists. reflexivity. Qed.

Definition addr_item : G :=
  Map (mk_action (PTuple [PVar "p0"; PWild]) (AVar "p0")) (Seq [(Ref f_rfc3501_x_address DSame); (Opt (Leaf (LTag (bs " "))))]).

(* one address followed by an optional space, when what follows is "(" (next address) or ")" *)
Definition after_addr (rest : list byte) : Prop := match rest with c :: _ => c = 40 \/ c = 41 | [] => False end.

Lemma ok_addr_item_nosp v w d : enc_address v w -> OK addr_item d w v after_addr.
Proof.
  intro H. unfold addr_item. eapply ok_map.
  { apply ok_seq. regroup (w ++ ([] ++ [])).
    eapply (okseq_cons _ _ _ _ _ _ _ _ _ _ any after_addr); [apply ok_address, H | | intros; exact I].
    eapply (okseq_cons _ _ _ _ _ _ _ _ _ _ after_addr after_addr); [| apply (okseq_nil _ _ _ _ after_addr) | intros r Hr; exact Hr].
    apply ok_opt_none. intros rest Hr. destruct rest as [|c r]; [destruct Hr|].
    apply rej_tag. destruct Hr as [-> | ->]; reflexivity. }
  reflexivity.
Qed.
Lemma ok_addr_item_sp v w d : enc_address v w -> OK addr_item d (w ++ SPb) v any.
Proof.
  intro H. unfold addr_item. eapply ok_map.
  { apply ok_seq. regroup (w ++ (SPb ++ [])).
    eapply (okseq_cons _ _ _ _ _ _ _ _ _ _ any any); [apply ok_address, H | | intros; exact I].
    eapply (okseq_cons _ _ _ _ _ _ _ _ _ _ any any); [| apply (okseq_nil _ _ _ _ any) | intros; exact I].
    apply ok_opt_some. apply ok_tag. }
  reflexivity.
Qed.

Lemma rej_addr_item_close d rest : REJ addr_item d (41 :: rest).
Proof.
  unfold addr_item. apply rej_map, rej_seq_head.
  apply (fails_on_byte native_call env rk rank_ok_all 6). vm_compute. reflexivity.
Qed.

Lemma addr_seq_nonempty l w : enc_addr_seq l w -> exists r, w = 40 :: r.
Proof.
  intros [a w' H | a l' w' ws sp H _ _]; destruct (enc_address_head _ _ H) as [r ->]; cbn [app]; eexists; reflexivity.
Qed.

Lemma okmany_addrs : forall l w d, enc_addr_seq l w -> 
  OkMany native_call env rk addr_item d w l (fun rest => match rest with c :: _ => c = 41 | [] => False end).
Proof.
  intros l w d H. induction H as [a w Ha | a l w ws sp Ha Hl IH Hsp].
  - replace w with (w ++ []) by apply app_nil_r.
    eapply (okmany_cons _ _ _ _ _ _ _ _ _ after_addr).
    + apply ok_addr_item_nosp, Ha.
    + destruct (enc_address_head _ _ Ha) as [r ->]. discriminate.
    + apply okmany_nil. intros rest Hr. destruct rest as [|c r]; [destruct Hr|]. subst c. apply rej_addr_item_close.
    + intros rest Hr. destruct rest as [|c r]; [destruct Hr|]. subst c. right. reflexivity.
  - destruct Hsp as [-> | ->].
    + cbn [app]. eapply (okmany_cons _ _ _ _ _ _ _ _ _ after_addr).
      * apply ok_addr_item_nosp, Ha.
      * destruct (enc_address_head _ _ Ha) as [r ->]. discriminate.
      * exact IH.
      * intros rest _. destruct (addr_seq_nonempty _ _ Hl) as [r ->]. left. reflexivity.
    + rewrite app_assoc. eapply (okmany_cons _ _ _ _ _ _ _ _ _ any).
      * apply ok_addr_item_sp, Ha.
      * destruct (enc_address_head _ _ Ha) as [r ->]. discriminate.
      * exact IH.
      * intros; exact I.
Qed.

Definition closes (rest : list byte) : Prop := match rest with c :: _ => c = 41 | [] => False end.

Lemma ok_many1_addrs l w d : enc_addr_seq l w -> OK (Many1 addr_item) d w (VList l) closes.
Proof.
  intros [a w0 Ha | a l0 w0 ws sp Ha Hl Hsp].
  - replace w0 with (w0 ++ []) by apply app_nil_r.
    eapply (ok_many1 _ _ _ _ _ _ _ _ _ after_addr).
    + apply ok_addr_item_nosp, Ha.
    + apply okmany_nil. intros rest Hr. destruct rest as [|c r]; [destruct Hr|]. cbn in Hr. subst c. apply rej_addr_item_close.
    + intros rest Hr. destruct rest as [|c r]; [destruct Hr|]. cbn in Hr. subst c. right. reflexivity.
  - destruct Hsp as [-> | ->].
    + cbn [app]. eapply (ok_many1 _ _ _ _ _ _ _ _ _ after_addr).
      * apply ok_addr_item_nosp, Ha.
      * apply okmany_addrs, Hl.
      * intros rest _. destruct (addr_seq_nonempty _ _ Hl) as [r ->]. left. reflexivity.
    + rewrite app_assoc. eapply (ok_many1 _ _ _ _ _ _ _ _ _ any).
      * apply ok_addr_item_sp, Ha.
      * apply okmany_addrs, Hl.
      * intros; exact I.
Qed.

Lemma ok_opt_addresses v w d : enc_addr_list v w -> OK (Ref f_rfc3501_x_opt_addresses DSame) d w v any.
Proof.
  intros [w' Hn | l w' Hl]; apply (okref _ _ _ _ _ _ _ env_opt_addresses); unfold def_rfc3501_x_opt_addresses.
  - apply ok_alt_here. eapply ok_map. { apply ok_nil, Hn. } reflexivity.
  - apply ok_alt_skip.
    + intros rest _. cbn [app]. apply rej_map. apply (rejref _ _ _ _ _ env_nil). unfold def_core_x_nil. apply rej_tag_nc. reflexivity.
    + apply ok_alt_here. eapply ok_map.
      { eapply ok_map.
        { apply ok_seq. regroup ([40] ++ (w' ++ ([41] ++ []))).
          eapply (okseq_cons _ _ _ _ _ _ _ _ _ _ any any); [apply ok_tag | | intros; exact I].
          eapply (okseq_cons _ _ _ _ _ _ _ _ _ _ closes any).
          - apply (ok_many1_addrs l w' d Hl).
          - eapply (okseq_cons _ _ _ _ _ _ _ _ _ _ any any); [apply ok_tag | apply (okseq_nil _ _ _ _ any) | intros; exact I].
          - intros rest _. reflexivity. }
        reflexivity. }
      reflexivity.
Qed.

Lemma ok_envelope v w d : enc_envelope v w -> OK (Ref f_rfc3501_x_envelope DSame) d w v any.
Proof.
  intros [date subject from sender reply_to to cc bcc in_reply_to message_id w1 w2 w3 w4 w5 w6 w7 w8 w9 w10 H1 H2 H3 H4 H5 H6 H7 H8 H9 H10].
  apply (okref _ _ _ _ _ _ _ env_envelope). unfold def_rfc3501_x_envelope.
  eapply ok_map.
  { apply ok_seq. unfold SPb.
    regroup ([40] ++ ((w1 ++ ([32] ++ (w2 ++ ([32] ++ (w3 ++ ([32] ++ (w4 ++ ([32] ++ (w5 ++ ([32] ++ (w6 ++ ([32] ++ (w7 ++ ([32] ++ (w8 ++ ([32] ++ (w9 ++ ([32] ++ (w10 ++ []))))))))))))))))))) ++ ([41] ++ []))).
    eapply (okseq_cons _ _ _ _ _ _ _ _ _ _ any any); [apply ok_tag | | intros; exact I].
    eapply (okseq_cons _ _ _ _ _ _ _ _ _ _ any any); [| | intros; exact I].
    - eapply ok_map.
      { apply ok_seq.
        eapply (okseq_cons _ _ _ _ _ _ _ _ _ _ any any); [apply ok_nstring, H1 | | intros; exact I].
        eapply (okseq_cons _ _ _ _ _ _ _ _ _ _ any any); [apply ok_tag | | intros; exact I].
        eapply (okseq_cons _ _ _ _ _ _ _ _ _ _ any any); [apply ok_nstring, H2 | | intros; exact I].
        eapply (okseq_cons _ _ _ _ _ _ _ _ _ _ any any); [apply ok_tag | | intros; exact I].
        eapply (okseq_cons _ _ _ _ _ _ _ _ _ _ any any); [apply ok_opt_addresses, H3 | | intros; exact I].
        eapply (okseq_cons _ _ _ _ _ _ _ _ _ _ any any); [apply ok_tag | | intros; exact I].
        eapply (okseq_cons _ _ _ _ _ _ _ _ _ _ any any); [apply ok_opt_addresses, H4 | | intros; exact I].
        eapply (okseq_cons _ _ _ _ _ _ _ _ _ _ any any); [apply ok_tag | | intros; exact I].
        eapply (okseq_cons _ _ _ _ _ _ _ _ _ _ any any); [apply ok_opt_addresses, H5 | | intros; exact I].
        eapply (okseq_cons _ _ _ _ _ _ _ _ _ _ any any); [apply ok_tag | | intros; exact I].
        eapply (okseq_cons _ _ _ _ _ _ _ _ _ _ any any); [apply ok_opt_addresses, H6 | | intros; exact I].
        eapply (okseq_cons _ _ _ _ _ _ _ _ _ _ any any); [apply ok_tag | | intros; exact I].
        eapply (okseq_cons _ _ _ _ _ _ _ _ _ _ any any); [apply ok_opt_addresses, H7 | | intros; exact I].
        eapply (okseq_cons _ _ _ _ _ _ _ _ _ _ any any); [apply ok_tag | | intros; exact I].
        eapply (okseq_cons _ _ _ _ _ _ _ _ _ _ any any); [apply ok_opt_addresses, H8 | | intros; exact I].
        eapply (okseq_cons _ _ _ _ _ _ _ _ _ _ any any); [apply ok_tag | | intros; exact I].
        eapply (okseq_cons _ _ _ _ _ _ _ _ _ _ any any); [apply ok_nstring, H9 | | intros; exact I].
        eapply (okseq_cons _ _ _ _ _ _ _ _ _ _ any any); [apply ok_tag | | intros; exact I].
        eapply (okseq_cons _ _ _ _ _ _ _ _ _ _ any any); [apply ok_nstring, H10 | apply (okseq_nil _ _ _ _ any) | intros; exact I]. }
      reflexivity.
    - eapply (okseq_cons _ _ _ _ _ _ _ _ _ _ any any); [apply ok_tag | apply (okseq_nil _ _ _ _ any) | intros; exact I]. }
  reflexivity.
Qed.

(* ---------------------------------------------------------------- FLAGS and INTERNALDATE *)
Lemma env_flag_list : env f_rfc3501_x_flag_list = Some def_rfc3501_x_flag_list. Proof. reflexivity. Qed.
Lemma env_flag_perm : env f_rfc3501_x_flag_perm = Some def_rfc3501_x_flag_perm. Proof. reflexivity. Qed.
Lemma env_flag : env f_rfc3501_x_flag = Some def_rfc3501_x_flag. Proof. reflexivity. Qed.
Lemma env_flag_ext : env f_rfc3501_x_flag_extension = Some def_rfc3501_x_flag_extension. Proof. reflexivity. Qed.
Lemma env_att_flags : env f_rfc3501_x_msg_att_flags = Some def_rfc3501_x_msg_att_flags. Proof. reflexivity. Qed.
Lemma env_att_date : env f_rfc3501_x_msg_att_internal_date = Some def_rfc3501_x_msg_att_internal_date. Proof. reflexivity. Qed.
Lemma env_string_utf8 : env f_core_x_string_utf8 = Some def_core_x_string_utf8. Proof. reflexivity. Qed.

Lemma ascii_run : forall s, forallb (fun b => b <=? 127) s = true -> utf8_run U0 s = U0.
Proof.
  induction s as [|c s IH]; intro H; [reflexivity|]. cbn [forallb] in H. apply andb_true_iff in H. destruct H as [Hc Hs].
  unfold utf8_run. cbn [fold_left]. unfold utf8_step at 2. rewrite Hc. exact (IH Hs).
Qed.
Lemma ascii_utf8 s : forallb (fun b => b <=? 127) s = true -> utf8_valid s = true.
Proof. intro H. unfold utf8_valid. rewrite (ascii_run s H). reflexivity. Qed.

Lemma atom_char_facts b : rfc_ATOM_CHAR b = true ->
  cls_core_x_is_atom_char b = true /\ cls_core_x_is_astring_char b = true /\ (b <=? 127) = true /\ (b =? 92) = false /\ (b =? 42) = false.
Proof.
  intro H. assert (Hb : b < 256).
  { unfold rfc_ATOM_CHAR in H. apply andb_true_iff in H. destruct H as [H _]. apply rfc_char_small, H. }
  pose proof (sweep (fun b => implb (rfc_ATOM_CHAR b)
      (cls_core_x_is_atom_char b && cls_core_x_is_astring_char b && (b <=? 127) && negb (b =? 92) && negb (b =? 42))) ltac:(vm_compute; reflexivity) b Hb) as Hx.
  cbv beta in Hx. rewrite H in Hx. cbn [implb] in Hx.
  apply andb_true_iff in Hx. destruct Hx as [Hx H5]. apply andb_true_iff in Hx. destruct Hx as [Hx H4].
  apply andb_true_iff in Hx. destruct Hx as [Hx H3]. apply andb_true_iff in Hx. destruct Hx as [H1 H2].
  apply negb_true_iff in H4, H5. repeat split; assumption.
Qed.

Definition flag_follow (rest : list byte) : Prop := match rest with c :: _ => c = 32 \/ c = 41 | [] => False end.

Lemma flag_follow_stops rest : flag_follow rest ->
  stops_at cls_core_x_is_atom_char rest /\ stops_at cls_core_x_is_astring_char rest.
Proof. destruct rest as [|c r]; [intros []|]. intros [-> | ->]; split; reflexivity. Qed.

Lemma rej_tag2 a1 a2 c rest d : (a2 =? c) = false -> REJ (Leaf (LTag [a1; a2])) d (a1 :: c :: rest).
Proof.
  intros H b f Hf Hb. destruct f as [|f]; [cbn [need] in Hf; lia|]. rewrite run_S. cbn [step leaf_run tag_scan].
  unfold eq_case. rewrite N.eqb_refl, H. reflexivity.
Qed.

Definition flag_item : G := Map (mk_action (PVar "x") (AVar "x")) (Ref f_rfc3501_x_flag_perm DSame).

Lemma ok_flag f w d : enc_flag f w -> OK flag_item d w (VBytes f) flag_follow.
Proof.
  intro H. unfold flag_item. eapply ok_map; [|reflexivity].
  apply (okref _ _ _ _ _ _ _ env_flag_perm). unfold def_rfc3501_x_flag_perm.
  destruct H as [a Hne Ha | a Hne Ha].
  - (* keyword flag: an atom *)
    destruct a as [|c a]; [contradiction|]. cbn [forallb] in Ha. apply andb_true_iff in Ha. destruct Ha as [Hc Ha].
    destruct (atom_char_facts c Hc) as (_ & Hcs & _ & H92 & _).
    apply ok_alt_skip.
    { intros rest _. cbn [app]. apply rej_mapres, rej_tag. rewrite N.eqb_sym. exact H92. }
    apply ok_alt_here. apply (okref _ _ _ _ _ _ _ env_flag). unfold def_rfc3501_x_flag.
    apply ok_alt_skip.
    { intros rest _. cbn [app]. apply (rejref _ _ _ _ _ env_flag_ext). unfold def_rfc3501_x_flag_extension.
      apply rej_mapres, rej_recognize, rej_seq_head, rej_tag. rewrite N.eqb_sym. exact H92. }
    apply ok_alt_here. apply (Ok_follow _ _ _ _ _ _ _ (stops_at cls_core_x_is_astring_char)); [|intros r Hr; exact (proj2 (flag_follow_stops r Hr))].
    eapply ok_mapres.
    { apply ok_take_while1; [|discriminate]. cbn [forallb]. rewrite Hcs.
      apply (forallb_impl rfc_ATOM_CHAR); [intros x Hx; exact (proj1 (proj2 (atom_char_facts x Hx))) | exact Ha]. }
    cbn. unfold native_call. cbn. rewrite ascii_utf8; [reflexivity|].
    cbn [forallb]. rewrite (proj1 (proj2 (proj2 (atom_char_facts c Hc)))).
    apply (forallb_impl rfc_ATOM_CHAR); [intros x Hx; exact (proj1 (proj2 (proj2 (atom_char_facts x Hx)))) | exact Ha].
  - (* "\" atom *)
    destruct a as [|c a]; [contradiction|]. pose proof Ha as Ha0. cbn [forallb] in Ha. apply andb_true_iff in Ha. destruct Ha as [Hc Ha].
    destruct (atom_char_facts c Hc) as (_ & _ & _ & _ & H42).
    apply ok_alt_skip.
    { intros rest _. cbn [app]. apply rej_mapres. apply (rej_tag2 92 42). rewrite N.eqb_sym. exact H42. }
    apply ok_alt_here. apply (okref _ _ _ _ _ _ _ env_flag). unfold def_rfc3501_x_flag.
    apply ok_alt_here. apply (okref _ _ _ _ _ _ _ env_flag_ext). unfold def_rfc3501_x_flag_extension.
    apply (Ok_follow _ _ _ _ _ _ _ (stops_at cls_core_x_is_atom_char)); [|intros r Hr; exact (proj1 (flag_follow_stops r Hr))].
    eapply ok_mapres.
    { eapply ok_recognize. apply ok_seq. regroup ([92] ++ ((c :: a) ++ [])).
      eapply (okseq_cons _ _ _ _ _ _ _ _ _ _ any (stops_at cls_core_x_is_atom_char)); [apply ok_tag | | intros; exact I].
      eapply (okseq_cons _ _ _ _ _ _ _ _ _ _ (stops_at cls_core_x_is_atom_char) (stops_at cls_core_x_is_atom_char)); [| apply (okseq_nil _ _ _ _ (stops_at cls_core_x_is_atom_char)) | intros r Hr; exact Hr].
      apply ok_take_while. apply (forallb_impl rfc_ATOM_CHAR); [intros x Hx; exact (proj1 (atom_char_facts x Hx)) | exact Ha0]. }
    cbn. unfold native_call. cbn. rewrite ascii_utf8; [reflexivity|].
    change (forallb (fun b => b <=? 127) (92 :: c :: a) = true). cbn [forallb]. apply andb_true_iff. split; [reflexivity|].
    apply (forallb_impl rfc_ATOM_CHAR (fun b => b <=? 127) (c :: a)); [intros x Hx; exact (proj1 (proj2 (proj2 (atom_char_facts x Hx)))) | exact Ha0].
Qed.

Lemma oksep_flags l ws d : enc_flags_more l ws ->
  OkSep native_call env rk (Leaf (LTag (bs " "))) flag_item d ws l (fun rest => match rest with c :: _ => c = 41 | [] => False end).
Proof.
  intro H. induction H as [| f w l ws Hf Hl IH].
  - apply oksep_nil. intros rest Hr. destruct rest as [|c r]; [destruct Hr|]. subst c. apply rej_tag. reflexivity.
  - unfold SPb. eapply (oksep_cons _ _ _ _ _ _ _ _ _ _ _ _ any flag_follow).
    + apply ok_tag.
    + discriminate.
    + apply ok_flag, Hf.
    + exact IH.
    + intros rest Hr. destruct Hl; cbn [app].
      * destruct rest as [|c r]; [destruct Hr|]. subst c. right. reflexivity.
      * left. reflexivity.
    + intros; exact I.
Qed.

Lemma ok_flag_list v w d : enc_flag_list v w -> OK (Ref f_rfc3501_x_flag_list DSame) d w v any.
Proof.
  intros [| f w0 l ws Hf Hl]; apply (okref _ _ _ _ _ _ _ env_flag_list); unfold def_rfc3501_x_flag_list; fold flag_item.
  - eapply ok_map.
    { apply ok_seq. regroup ([40] ++ ([] ++ ([41] ++ []))).
      eapply (okseq_cons _ _ _ _ _ _ _ _ _ _ any any); [apply ok_tag | | intros; exact I].
      eapply (okseq_cons _ _ _ _ _ _ _ _ _ _ (fun rest => match rest with c :: _ => c = 41 | [] => False end) any).
      - apply ok_seplist0_empty. intros rest Hr. destruct rest as [|c r]; [destruct Hr|]. subst c.
        apply (fails_on_byte native_call env rk rank_ok_all 8). vm_compute. reflexivity.
      - eapply (okseq_cons _ _ _ _ _ _ _ _ _ _ any any); [apply ok_tag | apply (okseq_nil _ _ _ _ any) | intros; exact I].
      - intros rest _. reflexivity. }
    reflexivity.
  - eapply ok_map.
    { apply ok_seq. regroup ([40] ++ ((w0 ++ ws) ++ ([41] ++ []))).
      eapply (okseq_cons _ _ _ _ _ _ _ _ _ _ any any); [apply ok_tag | | intros; exact I].
      eapply (okseq_cons _ _ _ _ _ _ _ _ _ _ (fun rest => match rest with c :: _ => c = 41 | [] => False end) any).
      - eapply (ok_seplist0 _ _ _ _ _ _ _ _ _ _ flag_follow).
        + apply ok_flag, Hf.
        + apply oksep_flags, Hl.
        + intros rest Hr. destruct Hl; cbn [app].
          * destruct rest as [|c r]; [destruct Hr|]. subst c. right. reflexivity.
          * left. reflexivity.
      - eapply (okseq_cons _ _ _ _ _ _ _ _ _ _ any any); [apply ok_tag | apply (okseq_nil _ _ _ _ any) | intros; exact I].
      - intros rest _. reflexivity. }
    reflexivity.
Qed.

Lemma ok_string_utf8 s w d : enc_string s w -> utf8_valid s = true -> OK (Ref f_core_x_string_utf8 DSame) d w (VBytes s) any.
Proof.
  intros Hs Hu. apply (okref _ _ _ _ _ _ _ env_string_utf8). unfold def_core_x_string_utf8.
  eapply ok_mapres. { apply ok_string, Hs. } cbn. unfold native_call. cbn. rewrite Hu. reflexivity.
Qed.

(* ---------------------------------------------------------------- FETCH data items *)
Lemma env_msg_att : env f_rfc3501_x_msg_att = Some def_rfc3501_x_msg_att. Proof. reflexivity. Qed.
Lemma env_att_envelope : env f_rfc3501_x_msg_att_envelope = Some def_rfc3501_x_msg_att_envelope. Proof. reflexivity. Qed.
Lemma env_att_uid : env f_rfc3501_x_msg_att_uid = Some def_rfc3501_x_msg_att_uid. Proof. reflexivity. Qed.
Lemma env_att_size : env f_rfc3501_x_msg_att_rfc822_size = Some def_rfc3501_x_msg_att_rfc822_size. Proof. reflexivity. Qed.
Lemma env_att_rfc822 : env f_rfc3501_x_msg_att_rfc822 = Some def_rfc3501_x_msg_att_rfc822. Proof. reflexivity. Qed.
Lemma env_att_text : env f_rfc3501_x_msg_att_rfc822_text = Some def_rfc3501_x_msg_att_rfc822_text. Proof. reflexivity. Qed.
Lemma env_att_header : env f_rfc3501_x_msg_att_rfc822_header = Some def_rfc3501_x_msg_att_rfc822_header. Proof. reflexivity. Qed.
Lemma env_att_modseq : env f_rfc4551_x_msg_att_mod_seq = Some def_rfc4551_x_msg_att_mod_seq. Proof. reflexivity. Qed.
Lemma env_att_msgid : env f_gmail_x_msg_att_gmail_msgid = Some def_gmail_x_msg_att_gmail_msgid. Proof. reflexivity. Qed.
Lemma env_gmail_msgid : env f_gmail_x_gmail_msgid = Some def_gmail_x_gmail_msgid. Proof. reflexivity. Qed.
Lemma env_att_list : env f_rfc3501_x_msg_att_list = Some def_rfc3501_x_msg_att_list. Proof. reflexivity. Qed.
Lemma env_fetch : env f_rfc3501_x_message_data_fetch = Some def_rfc3501_x_message_data_fetch. Proof. reflexivity. Qed.
Lemma env_response_data : env f_rfc3501_x_response_data = Some def_rfc3501_x_response_data. Proof. reflexivity. Qed.

Definition proj12 : action := mk_action (PTuple [PWild; PVar "p1"]) (AVar "p1").

(* keyword (any case) followed by one parser: the common shape of data items *)
Lemma ok_kw2 s k X d w v (F : list byte -> Prop) : same_nocase s k = true -> OK X d w v F ->
  OK (Map proj12 (Seq [Leaf (LTagNC s); X])) d (k ++ w) v F.
Proof.
  intros Hk HX. eapply ok_map.
  { apply ok_seq. regroup (k ++ (w ++ [])).
    eapply (okseq_cons _ _ _ _ _ _ _ _ _ _ any F); [apply ok_tag_nc, Hk | | intros; exact I].
    eapply (okseq_cons _ _ _ _ _ _ _ _ _ _ F F); [exact HX | apply (okseq_nil _ _ _ _ F) | intros r Hr; exact Hr]. }
  reflexivity.
Qed.

Definition nodigit : list byte -> Prop := stops_at nom_is_digit.

Lemma enc_nstring_head v w : enc_nstring v w -> exists c r, w = c :: r /\ (c =? 32) = false.
Proof.
  intros [w' [w'' Hk] | s w' Hs].
  - unfold kw in Hk. destruct w'' as [|c r]; [discriminate|]. exists c, r. split; [reflexivity|].
    cbn [bs same_nocase] in Hk. apply andb_true_iff in Hk. destruct Hk as [Hc _].
    destruct (lower_variants _ _ Hc) as [<- | [<- | []]]; reflexivity.
  - destruct (enc_string_head s w' Hs) as (c & r & -> & [-> | ->]); eexists _, _; (split; [reflexivity|]); reflexivity.
Qed.

(* the alternatives of msg_att in front of the one that matches are rejected by their leading keyword *)
Lemma skip_kw g gs K k w v (F : list byte -> Prop) d :
  same_nocase K k = true -> fails_on env 8 g K = true -> OK (Alt gs) d (k ++ w) v F -> OK (Alt (g :: gs)) d (k ++ w) v F.
Proof.
  intros Hk Hf H. apply ok_alt_skip; [|exact H]. intros rest _. rewrite <- app_assoc.
  apply (fails_on_sound native_call env rk rank_ok_all 8 g K Hf). exact Hk.
Qed.

Ltac skip K Hk := apply (skip_kw _ _ (bs K) _ _ _ _ _ Hk); [vm_compute; reflexivity|].

Lemma ok_msg_att v w d : enc_msg_att v w -> OK (Ref f_rfc3501_x_msg_att DSame) d w v nodigit.
Proof.
  intro H. apply (okref _ _ _ _ _ _ _ env_msg_att). unfold def_rfc3501_x_msg_att.
  destruct H as [k e w Hk He | k n w Hk Hn | k n w Hk Hn | k v w Hk Hv | k v w Hk Hv | k v w sp Hk Hv Hsp | k n w Hk Hn | k n w Hk Hn
                 | k v w Hk Hv | k s w Hk Hs Hu];
    unfold kw in Hk.
  - (* ENVELOPE *)
    do 3 skip "ENVELOPE "%string Hk. apply ok_alt_here. apply (Ok_follow _ _ _ _ _ _ _ any); [|intros; exact I].
    apply (okref _ _ _ _ _ _ _ env_att_envelope). unfold def_rfc3501_x_msg_att_envelope.
    eapply ok_map. { apply (ok_kw2 _ _ _ _ _ _ any Hk). apply ok_envelope, He. } reflexivity.
  - (* UID *)
    do 11 skip "UID "%string Hk. apply ok_alt_here.
    apply (okref _ _ _ _ _ _ _ env_att_uid). unfold def_rfc3501_x_msg_att_uid.
    eapply ok_map. { apply (ok_kw2 _ _ _ _ _ _ nodigit Hk). apply ok_number, Hn. } reflexivity.
  - (* RFC822.SIZE *)
    do 9 skip "RFC822.SIZE "%string Hk. apply ok_alt_here.
    apply (okref _ _ _ _ _ _ _ env_att_size). unfold def_rfc3501_x_msg_att_rfc822_size.
    eapply ok_map. { apply (ok_kw2 _ _ _ _ _ _ nodigit Hk). apply ok_number, Hn. } reflexivity.
  - (* RFC822 *)
    do 7 skip "RFC822 "%string Hk. apply ok_alt_here. apply (Ok_follow _ _ _ _ _ _ _ any); [|intros; exact I].
    apply (okref _ _ _ _ _ _ _ env_att_rfc822). unfold def_rfc3501_x_msg_att_rfc822.
    eapply ok_map. { apply (ok_kw2 _ _ _ _ _ _ any Hk). apply ok_nstring, Hv. } reflexivity.
  - (* RFC822.TEXT *)
    do 10 skip "RFC822.TEXT "%string Hk. apply ok_alt_here. apply (Ok_follow _ _ _ _ _ _ _ any); [|intros; exact I].
    apply (okref _ _ _ _ _ _ _ env_att_text). unfold def_rfc3501_x_msg_att_rfc822_text.
    eapply ok_map. { apply (ok_kw2 _ _ _ _ _ _ any Hk). apply ok_nstring, Hv. } reflexivity.
  - (* RFC822.HEADER, with or without the doubled space *)
    do 8 skip "RFC822.HEADER "%string Hk. apply ok_alt_here. apply (Ok_follow _ _ _ _ _ _ _ any); [|intros; exact I].
    apply (okref _ _ _ _ _ _ _ env_att_header). unfold def_rfc3501_x_msg_att_rfc822_header.
    destruct Hsp as [-> | ->].
    + destruct (enc_nstring_head _ _ Hv) as (c & r & Ew & Hc).
      eapply ok_map.
      { apply ok_seq. regroup (k ++ ([] ++ (w ++ []))).
        eapply (okseq_cons _ _ _ _ _ _ _ _ _ _ any any); [apply ok_tag_nc, Hk | | intros; exact I].
        eapply (okseq_cons _ _ _ _ _ _ _ _ _ _ (fun rest => match rest with x :: _ => (x =? 32) = false | [] => False end) any).
        - apply ok_opt_none. intros rest Hr. destruct rest as [|x rr]; [destruct Hr|]. apply rej_tag. rewrite N.eqb_sym. exact Hr.
        - eapply (okseq_cons _ _ _ _ _ _ _ _ _ _ any any); [apply ok_nstring, Hv | apply (okseq_nil _ _ _ _ any) | intros; exact I].
        - intros rest _. rewrite Ew. cbn [app]. exact Hc. }
      reflexivity.
    + eapply ok_map.
      { apply ok_seq. regroup (k ++ (SPb ++ (w ++ []))).
        eapply (okseq_cons _ _ _ _ _ _ _ _ _ _ any any); [apply ok_tag_nc, Hk | | intros; exact I].
        eapply (okseq_cons _ _ _ _ _ _ _ _ _ _ any any); [apply ok_opt_some, ok_tag | | intros; exact I].
        eapply (okseq_cons _ _ _ _ _ _ _ _ _ _ any any); [apply ok_nstring, Hv | apply (okseq_nil _ _ _ _ any) | intros; exact I]. }
      reflexivity.
  - (* MODSEQ (n) *)
    do 6 skip "MODSEQ "%string Hk. apply ok_alt_here. apply (Ok_follow _ _ _ _ _ _ _ any); [|intros; exact I].
    apply (okref _ _ _ _ _ _ _ env_att_modseq). unfold def_rfc4551_x_msg_att_mod_seq.
    eapply ok_map.
    { apply ok_seq. regroup (k ++ (([40] ++ (w ++ ([41] ++ []))) ++ [])).
      eapply (okseq_cons _ _ _ _ _ _ _ _ _ _ any any); [apply ok_tag_nc, Hk | | intros; exact I].
      eapply (okseq_cons _ _ _ _ _ _ _ _ _ _ any any); [| apply (okseq_nil _ _ _ _ any) | intros; exact I].
      eapply ok_map.
      { apply ok_seq.
        eapply (okseq_cons _ _ _ _ _ _ _ _ _ _ any any); [apply ok_tag | | intros; exact I].
        eapply (okseq_cons _ _ _ _ _ _ _ _ _ _ nodigit any); [apply ok_number_64, Hn | | intros rest _; reflexivity].
        eapply (okseq_cons _ _ _ _ _ _ _ _ _ _ any any); [apply ok_tag | apply (okseq_nil _ _ _ _ any) | intros; exact I]. }
      reflexivity. }
    reflexivity.
  - (* X-GM-MSGID *)
    do 13 skip "X-GM-MSGID "%string Hk. apply ok_alt_here.
    apply (okref _ _ _ _ _ _ _ env_att_msgid). unfold def_gmail_x_msg_att_gmail_msgid.
    eapply ok_map.
    { apply (okref _ _ _ _ _ _ _ env_gmail_msgid). unfold def_gmail_x_gmail_msgid.
      apply (ok_kw2 _ _ _ _ _ _ nodigit Hk). apply ok_number_64, Hn. }
    reflexivity.
  - (* FLAGS *)
    do 5 skip "FLAGS "%string Hk. apply ok_alt_here. apply (Ok_follow _ _ _ _ _ _ _ any); [|intros; exact I].
    apply (okref _ _ _ _ _ _ _ env_att_flags). unfold def_rfc3501_x_msg_att_flags.
    eapply ok_map. { apply (ok_kw2 _ _ _ _ _ _ any Hk). apply ok_flag_list, Hv. } reflexivity.
  - (* INTERNALDATE *)
    do 4 skip "INTERNALDATE "%string Hk. apply ok_alt_here. apply (Ok_follow _ _ _ _ _ _ _ any); [|intros; exact I].
    apply (okref _ _ _ _ _ _ _ env_att_date). unfold def_rfc3501_x_msg_att_internal_date.
    eapply ok_map. { apply (ok_kw2 _ _ _ _ _ _ any Hk). apply (ok_string_utf8 s w _ Hs Hu). } reflexivity.
Qed.

(* ---------------------------------------------------------------- the FETCH response, up to the entry point *)
Lemma oksep_atts l ws d : enc_att_more l ws ->
  OkSep native_call env rk (Leaf (LTag (bs " "))) (Ref f_rfc3501_x_msg_att DSame) d ws l closes.
Proof.
  intro H. induction H as [| a l w ws Ha Hl IH].
  - apply oksep_nil. intros rest Hr. destruct rest as [|c r]; [destruct Hr|]. cbn in Hr. subst c. apply rej_tag. reflexivity.
  - unfold SPb. eapply (oksep_cons _ _ _ _ _ _ _ _ _ _ _ _ any nodigit closes).
    + apply ok_tag.
    + discriminate.
    + apply ok_msg_att, Ha.
    + exact IH.
    + intros rest Hr. destruct Hl; cbn [app].
      * destruct rest as [|c r]; [destruct Hr|]. cbn in Hr. subst c. reflexivity.
      * reflexivity.
    + intros; exact I.
Qed.

Lemma ok_att_list a l wa wl d : enc_msg_att a wa -> enc_att_more l wl ->
  OK (Ref f_rfc3501_x_msg_att_list DSame) d ([40] ++ wa ++ wl ++ [41]) (VList (a :: l)) any.
Proof.
  intros Ha Hl. apply (okref _ _ _ _ _ _ _ env_att_list). unfold def_rfc3501_x_msg_att_list.
  eapply ok_map.
  { apply ok_seq. regroup ([40] ++ ((wa ++ wl) ++ ([41] ++ []))).
    eapply (okseq_cons _ _ _ _ _ _ _ _ _ _ any any); [apply ok_tag | | intros; exact I].
    eapply (okseq_cons _ _ _ _ _ _ _ _ _ _ closes any).
    - eapply (ok_seplist1 _ _ _ _ _ _ _ _ _ _ nodigit closes).
      + apply ok_msg_att, Ha.
      + apply oksep_atts, Hl.
      + intros rest Hr. destruct Hl; cbn [app].
        * destruct rest as [|c r]; [destruct Hr|]. cbn in Hr. subst c. reflexivity.
        * reflexivity.
    - eapply (okseq_cons _ _ _ _ _ _ _ _ _ _ any any); [apply ok_tag | apply (okseq_nil _ _ _ _ any) | intros; exact I].
    - intros rest _. reflexivity. }
  reflexivity.
Qed.

Lemma kw_space_first K k : same_nocase (32 :: K) k = true -> exists r, k = 32 :: r.
Proof.
  destruct k as [|c r]; [discriminate|]. cbn [same_nocase]. intro H. apply andb_true_iff in H. destruct H as [H _].
  destruct (lower_variants _ _ H) as [<- | []]. exists r. reflexivity.
Qed.

Lemma ok_fetch_data n wn k a wa l wl d :
  enc_number 32 n wn -> kw " FETCH " k -> enc_msg_att a wa -> enc_att_more l wl ->
  OK (Ref f_rfc3501_x_message_data_fetch DSame) d (wn ++ k ++ [40] ++ wa ++ wl ++ [41])
     (VCon "Response::Fetch" [VNum n; VList (a :: l)]) any.
Proof.
  intros Hn Hk Ha Hl. apply (okref _ _ _ _ _ _ _ env_fetch). unfold def_rfc3501_x_message_data_fetch.
  destruct (kw_space_first _ _ Hk) as [r Ek].
  eapply ok_map.
  { apply ok_seq. regroup (wn ++ (k ++ (([40] ++ wa ++ wl ++ [41]) ++ []))).
    eapply (okseq_cons _ _ _ _ _ _ _ _ _ _ nodigit any); [apply ok_number, Hn | | intros rest _; rewrite Ek; reflexivity].
    eapply (okseq_cons _ _ _ _ _ _ _ _ _ _ any any); [apply ok_tag_nc, Hk | | intros; exact I].
    eapply (okseq_cons _ _ _ _ _ _ _ _ _ _ any any); [apply (ok_att_list a l wa wl _ Ha Hl) | apply (okseq_nil _ _ _ _ any) | intros; exact I]. }
  reflexivity.
Qed.

(* alternatives of the shape `number KEYWORD` reject `number " FETCH "` *)
Lemma rej_num_kw s n wn K k rest d :
  enc_number 32 n wn -> same_nocase (32 :: K) k = true -> nocase_mismatch s (32 :: K) = true ->
  REJ (Seq [Ref f_core_x_number DSame; Leaf (LTagNC s)]) d (wn ++ k ++ rest).
Proof.
  intros Hn Hk Hm. destruct (kw_space_first _ _ Hk) as [r Ek].
  eapply (rej_seq_after _ _ _ _ _ _ _ _ nodigit).
  - apply ok_number, Hn.
  - rewrite Ek. reflexivity.
  - apply rejseq_head. intros b f Hf Hb. destruct f as [|f]; [cbn [need] in Hf; lia|]. rewrite run_S. cbn [step leaf_run].
    rewrite (nocase_mismatch_scan eq_nocase1 s (32 :: K) k rest (or_intror eq_refl) Hm Hk). reflexivity.
Qed.

Definition digits10 : list byte := [48; 49; 50; 51; 52; 53; 54; 55; 56; 57].
Lemma rej_on_digit g : forallb (fun c => fails_on env 8 g [c]) digits10 = true ->
  forall c i d, nom_is_digit c = true -> REJ g d (c :: i).
Proof.
  intros H c i d Hc. rewrite forallb_forall in H. apply (fails_on_byte native_call env rk rank_ok_all 8). apply H.
  unfold nom_is_digit in Hc. apply andb_true_iff in Hc. destruct Hc as [A B]. apply N.leb_le in A, B.
  assert (Hc : c = 48 \/ c = 49 \/ c = 50 \/ c = 51 \/ c = 52 \/ c = 53 \/ c = 54 \/ c = 55 \/ c = 56 \/ c = 57) by lia.
  unfold digits10. cbn [In]. intuition.
Qed.

Lemma enc_number_head bits n w : enc_number bits n w -> exists c r, w = c :: r /\ nom_is_digit c = true.
Proof.
  intros [ds Hne Hd _]. destruct ds as [|c r]; [contradiction|]. exists c, r. split; [reflexivity|].
  cbn [forallb] in Hd. apply andb_true_iff in Hd. exact (proj1 Hd).
Qed.

Lemma env_mailbox_data : env f_rfc3501_x_mailbox_data = Some def_rfc3501_x_mailbox_data. Proof. reflexivity. Qed.
Lemma env_md_exists : env f_rfc3501_x_mailbox_data_exists = Some def_rfc3501_x_mailbox_data_exists. Proof. reflexivity. Qed.
Lemma env_md_recent : env f_rfc3501_x_mailbox_data_recent = Some def_rfc3501_x_mailbox_data_recent. Proof. reflexivity. Qed.
Lemma env_expunge : env f_rfc3501_x_message_data_expunge = Some def_rfc3501_x_message_data_expunge. Proof. reflexivity. Qed.
Lemma env_parse_response : env f_parser_x_parse_response = Some def_parser_x_parse_response. Proof. reflexivity. Qed.

Lemma rej_mailbox_data_on_fetch n wn k rest d : enc_number 32 n wn -> kw " FETCH " k ->
  REJ (Ref f_rfc3501_x_mailbox_data DSame) d (wn ++ k ++ rest).
Proof.
  intros Hn Hk. apply (rejref _ _ _ _ _ env_mailbox_data). unfold def_rfc3501_x_mailbox_data.
  destruct (enc_number_head _ _ _ Hn) as (c & r & Ew & Hc).
  assert (Hdig : forall g, forallb (fun c => fails_on env 8 g [c]) digits10 = true -> REJ g (apply_darg DSame d) (wn ++ k ++ rest)).
  { intros g Hg. rewrite Ew. cbn [app]. apply rej_on_digit; assumption. }
  apply rej_alt_cons; [apply Hdig; vm_compute; reflexivity|].
  apply rej_alt_cons.
  { apply (rejref _ _ _ _ _ env_md_exists). unfold def_rfc3501_x_mailbox_data_exists. apply rej_map, rej_map.
    apply (rej_num_kw _ _ _ (bs "FETCH ") _ _ _ Hn Hk). vm_compute. reflexivity. }
  do 3 (apply rej_alt_cons; [apply Hdig; vm_compute; reflexivity|]).
  apply rej_alt_cons.
  { apply (rejref _ _ _ _ _ env_md_recent). unfold def_rfc3501_x_mailbox_data_recent. apply rej_map, rej_map.
    apply (rej_num_kw _ _ _ (bs "FETCH ") _ _ _ Hn Hk). vm_compute. reflexivity. }
  do 4 (apply rej_alt_cons; [apply Hdig; vm_compute; reflexivity|]).
  apply rej_alt_nil.
Qed.

Definition trailer : G := Map proj12 (Seq [(Many0 (Leaf (LTag (bs " ")))); (Leaf (LTag [13; 10]))]).

Lemma ok_trailer sp d : enc_spaces sp -> exists vs, OK trailer d (sp ++ [13; 10]) (VBytes [13; 10]) any /\ vs = tt.
Proof.
  intro H. exists tt. split; [|reflexivity].
  assert (Hm : exists l, OkMany native_call env rk (Leaf (LTag (bs " "))) d sp l (fun rest => match rest with c :: _ => c = 13 | [] => False end)).
  { induction H as [| w Hw [l IH]].
    - exists []. apply okmany_nil. intros rest Hr. destruct rest as [|c r]; [destruct Hr|]. subst c. apply rej_tag. reflexivity.
    - eexists. change (32 :: w) with ([32] ++ w). eapply (okmany_cons _ _ _ _ _ _ _ _ _ any).
      + apply ok_tag.
      + discriminate.
      + exact IH.
      + intros; exact I. }
  destruct Hm as [l Hm]. unfold trailer. eapply ok_map.
  { apply ok_seq. regroup (sp ++ ([13; 10] ++ [])).
    eapply (okseq_cons _ _ _ _ _ _ _ _ _ _ (fun rest => match rest with c :: _ => c = 13 | [] => False end) any).
    - apply ok_many0. exact Hm.
    - eapply (okseq_cons _ _ _ _ _ _ _ _ _ _ any any); [apply ok_tag | apply (okseq_nil _ _ _ _ any) | intros; exact I].
    - intros rest _. reflexivity. }
  reflexivity.
Qed.

Theorem fetch_roundtrip v w : enc_fetch v w -> forall rest, parse (w ++ rest) = ROk rest v (nlen w).
Proof.
  intros [n wn k a wa l wl sp Hn Hk Ha Hl Hsp] rest. unfold parse.
  assert (HOK : OK def_parser_x_parse_response 0%nat (bs "* " ++ wn ++ k ++ [40] ++ wa ++ wl ++ [41] ++ sp ++ [13; 10])
                   (VCon "Response::Fetch" [VNum n; VList (a :: l)]) any).
  { unfold def_parser_x_parse_response.
    (* "+" ... *)
    apply ok_alt_skip.
    { intros r _. cbn [bs N_of_ascii app]. apply (fails_on_byte native_call env rk rank_ok_all 8). vm_compute. reflexivity. }
    apply ok_alt_here. apply (okref _ _ _ _ _ _ _ env_response_data). unfold def_rfc3501_x_response_data.
    destruct (ok_trailer sp (apply_darg DSame 0%nat) Hsp) as (_ & Htr & _).
    destruct (enc_number_head _ _ _ Hn) as (c & r & Ew & Hc).
    eapply ok_map.
    { apply ok_seq. regroup (bs "* " ++ ((wn ++ k ++ [40] ++ wa ++ wl ++ [41]) ++ ((sp ++ [13; 10]) ++ []))).
      eapply (okseq_cons _ _ _ _ _ _ _ _ _ _ any any); [apply ok_tag | | intros; exact I].
      eapply (okseq_cons _ _ _ _ _ _ _ _ _ _ any any); [| | intros; exact I].
      - (* resp_cond, mailbox data, expunge are rejected; then FETCH *)
        apply ok_alt_skip.
        { intros r0 _. rewrite Ew. cbn [app]. apply rej_on_digit; [vm_compute; reflexivity | exact Hc]. }
        apply ok_alt_skip.
        { intros r0 _. apply rej_map. repeat rewrite <- app_assoc. apply (rej_mailbox_data_on_fetch n wn k _ _ Hn Hk). }
        apply ok_alt_skip.
        { intros r0 _. apply rej_map. apply (rejref _ _ _ _ _ env_expunge). unfold def_rfc3501_x_message_data_expunge.
          apply rej_map. repeat rewrite <- app_assoc.
          apply (rej_num_kw _ _ _ (bs "FETCH ") _ _ _ Hn Hk). vm_compute. reflexivity. }
        apply ok_alt_here. apply (ok_fetch_data n wn k a wa l wl _ Hn Hk Ha Hl).
      - eapply (okseq_cons _ _ _ _ _ _ _ _ _ _ any any); [exact Htr | apply (okseq_nil _ _ _ _ any) | intros; exact I]. }
    reflexivity. }
  apply HOK; [| rewrite ?app_length; cbn [length]; lia | exact I].
  pose proof fuel_enough as Hf. apply N.leb_le in Hf. exact Hf.
Qed.

(* ---------------------------------------------------------------- lifting any untagged data item to the entry point *)
Definition rd_alts : list G :=
  match def_rfc3501_x_response_data with Map _ (Seq [_; Alt l; _]) => l | _ => [] end.
Lemma response_data_shape :
  def_rfc3501_x_response_data = Map (mk_action (PTuple [PWild; PVar "p1"; PWild]) (AVar "p1")) (Seq [Leaf (LTag (bs "* ")); Alt rd_alts; trailer]).
Proof. reflexivity. Qed.

Definition before_trailer (rest : list byte) : Prop := match rest with c :: _ => c = 32 \/ c = 13 | [] => False end.

Lemma spaces_then_crlf sp rest : enc_spaces sp -> before_trailer (sp ++ [13; 10] ++ rest).
Proof. intros [|w H]; cbn [app]; [right | left]; reflexivity. Qed.

Theorem untagged_lift_gen body v (F : list byte -> Prop) sp : (forall d, OK (Alt rd_alts) d body v F) ->
  enc_spaces sp -> (forall rest, F (sp ++ [13; 10] ++ rest)) -> forall rest,
  parse ((bs "* " ++ body ++ sp ++ [13; 10]) ++ rest) = ROk rest v (nlen (bs "* " ++ body ++ sp ++ [13; 10])).
Proof.
  intros Hbody Hsp HF rest. unfold parse.
  assert (HOK : OK def_parser_x_parse_response 0%nat (bs "* " ++ body ++ sp ++ [13; 10]) v any).
  { unfold def_parser_x_parse_response.
    apply ok_alt_skip.
    { intros r _. cbn [bs N_of_ascii app]. apply (fails_on_byte native_call env rk rank_ok_all 8). vm_compute. reflexivity. }
    apply ok_alt_here. apply (okref _ _ _ _ _ _ _ env_response_data). rewrite response_data_shape.
    destruct (ok_trailer sp (apply_darg DSame 0%nat) Hsp) as (_ & Htr & _).
    eapply ok_map.
    { apply ok_seq. regroup (bs "* " ++ (body ++ ((sp ++ [13; 10]) ++ []))).
      eapply (okseq_cons _ _ _ _ _ _ _ _ _ _ any any); [apply ok_tag | | intros; exact I].
      eapply (okseq_cons _ _ _ _ _ _ _ _ _ _ F any); [apply Hbody | | ].
      - eapply (okseq_cons _ _ _ _ _ _ _ _ _ _ any any); [exact Htr | apply (okseq_nil _ _ _ _ any) | intros; exact I].
      - intros r _. match goal with |- F ?x => replace x with (sp ++ [13; 10] ++ r) by app_norm end. apply HF. }
    reflexivity. }
  apply HOK; [| rewrite ?app_length; cbn [length]; lia | exact I].
  pose proof fuel_enough as Hf. apply N.leb_le in Hf. exact Hf.
Qed.

Theorem untagged_lift body v : (forall d, OK (Alt rd_alts) d body v before_trailer) ->
  forall sp rest, enc_spaces sp ->
  parse ((bs "* " ++ body ++ sp ++ [13; 10]) ++ rest) = ROk rest v (nlen (bs "* " ++ body ++ sp ++ [13; 10])).
Proof.
  intros Hbody sp rest Hsp. apply (untagged_lift_gen body v before_trailer sp Hbody Hsp). intro r. apply spaces_then_crlf, Hsp.
Qed.

(* ---------------------------------------------------------------- n EXISTS / n RECENT / n EXPUNGE *)
Lemma rej_mailbox_data_num n wn K k rest d : enc_number 32 n wn -> same_nocase (32 :: K) k = true ->
  nocase_mismatch (bs " EXISTS") (32 :: K) = true -> nocase_mismatch (bs " RECENT") (32 :: K) = true ->
  REJ (Ref f_rfc3501_x_mailbox_data DSame) d (wn ++ k ++ rest).
Proof.
  intros Hn Hk M1 M2. apply (rejref _ _ _ _ _ env_mailbox_data). unfold def_rfc3501_x_mailbox_data.
  destruct (enc_number_head _ _ _ Hn) as (c & r & Ew & Hc).
  assert (Hdig : forall g, forallb (fun c => fails_on env 8 g [c]) digits10 = true -> REJ g (apply_darg DSame d) (wn ++ k ++ rest)).
  { intros g Hg. rewrite Ew. cbn [app]. apply rej_on_digit; assumption. }
  apply rej_alt_cons; [apply Hdig; vm_compute; reflexivity|].
  apply rej_alt_cons.
  { apply (rejref _ _ _ _ _ env_md_exists). unfold def_rfc3501_x_mailbox_data_exists. apply rej_map, rej_map.
    apply (rej_num_kw _ _ _ K _ _ _ Hn Hk M1). }
  do 3 (apply rej_alt_cons; [apply Hdig; vm_compute; reflexivity|]).
  apply rej_alt_cons.
  { apply (rejref _ _ _ _ _ env_md_recent). unfold def_rfc3501_x_mailbox_data_recent. apply rej_map, rej_map.
    apply (rej_num_kw _ _ _ K _ _ _ Hn Hk M2). }
  do 4 (apply rej_alt_cons; [apply Hdig; vm_compute; reflexivity|]).
  apply rej_alt_nil.
Qed.

Lemma ok_num_kw s n wn k d : enc_number 32 n wn -> same_nocase (32 :: s) k = true ->
  OK (Map (mk_action (PTuple [PVar "p0"; PWild]) (AVar "p0")) (Seq [Ref f_core_x_number DSame; Leaf (LTagNC (32 :: s))])) d (wn ++ k) (VNum n) any.
Proof.
  intros Hn Hk. destruct (kw_space_first _ _ Hk) as [r Ek]. eapply ok_map.
  { apply ok_seq. regroup (wn ++ (k ++ [])).
    eapply (okseq_cons _ _ _ _ _ _ _ _ _ _ nodigit any); [apply ok_number, Hn | | intros rest _; rewrite Ek; reflexivity].
    eapply (okseq_cons _ _ _ _ _ _ _ _ _ _ any any); [apply ok_tag_nc, Hk | apply (okseq_nil _ _ _ _ any) | intros; exact I]. }
  reflexivity.
Qed.

Lemma rd_alts_unfold : rd_alts = match def_rfc3501_x_response_data with Map _ (Seq [_; Alt l; _]) => l | _ => [] end.
Proof. reflexivity. Qed.

Lemma ok_untagged_numeric v body d : 
  (exists n w k, enc_number 32 n w /\ body = w ++ k /\
     ((kw " EXISTS" k /\ v = VCon "Response::MailboxData" [VCon "MailboxDatum::Exists" [VNum n]]) \/
      (kw " RECENT" k /\ v = VCon "Response::MailboxData" [VCon "MailboxDatum::Recent" [VNum n]]) \/
      (kw " EXPUNGE" k /\ v = VCon "Response::Expunge" [VNum n]))) ->
  OK (Alt rd_alts) d body v before_trailer.
Proof.
  intros (n & w & k & Hn & -> & Hcase). apply (Ok_follow _ _ _ _ _ _ _ any); [|intros; exact I].
  destruct (enc_number_head _ _ _ Hn) as (c & r & Ew & Hc).
  unfold rd_alts. cbn [def_rfc3501_x_response_data].
  (* resp_cond never starts with a digit *)
  apply ok_alt_skip.
  { intros r0 _. rewrite Ew. cbn [app]. apply rej_on_digit; [vm_compute; reflexivity | exact Hc]. }
  destruct Hcase as [[Hk ->] | [[Hk ->] | [Hk ->]]]; unfold kw in Hk.
  - (* EXISTS: mailbox_data, second alternative *)
    apply ok_alt_here. eapply ok_map.
    { apply (okref _ _ _ _ _ _ _ env_mailbox_data). unfold def_rfc3501_x_mailbox_data.
      apply ok_alt_skip.
      { intros r0 _. rewrite Ew. cbn [app]. apply rej_on_digit; [vm_compute; reflexivity | exact Hc]. }
      apply ok_alt_here. apply (okref _ _ _ _ _ _ _ env_md_exists). unfold def_rfc3501_x_mailbox_data_exists.
      eapply ok_map. { apply (ok_num_kw (bs "EXISTS") n w k _ Hn Hk). } reflexivity. }
    reflexivity.
  - (* RECENT *)
    apply ok_alt_here. eapply ok_map.
    { apply (okref _ _ _ _ _ _ _ env_mailbox_data). unfold def_rfc3501_x_mailbox_data.
      apply ok_alt_skip.
      { intros r0 _. rewrite Ew. cbn [app]. apply rej_on_digit; [vm_compute; reflexivity | exact Hc]. }
      apply ok_alt_skip.
      { intros r0 _. apply (rejref _ _ _ _ _ env_md_exists). unfold def_rfc3501_x_mailbox_data_exists. apply rej_map, rej_map.
        rewrite <- app_assoc. apply (rej_num_kw _ _ _ (bs "RECENT") _ _ _ Hn Hk). vm_compute. reflexivity. }
      do 3 (apply ok_alt_skip; [intros r0 _; rewrite Ew; cbn [app]; apply rej_on_digit; [vm_compute; reflexivity | exact Hc]|]).
      apply ok_alt_here. apply (okref _ _ _ _ _ _ _ env_md_recent). unfold def_rfc3501_x_mailbox_data_recent.
      eapply ok_map. { apply (ok_num_kw (bs "RECENT") n w k _ Hn Hk). } reflexivity. }
    reflexivity.
  - (* EXPUNGE *)
    apply ok_alt_skip.
    { intros r0 _. apply rej_map. rewrite <- app_assoc.
      apply (rej_mailbox_data_num n w (bs "EXPUNGE") k r0 _ Hn Hk); vm_compute; reflexivity. }
    apply ok_alt_here. eapply ok_map.
    { apply (okref _ _ _ _ _ _ _ env_expunge). unfold def_rfc3501_x_message_data_expunge. apply (ok_num_kw (bs "EXPUNGE") n w k _ Hn Hk). }
    reflexivity.
Qed.

(* ---------------------------------------------------------------- VANISHED and sequence sets (RFC 7162) *)
Lemma env_sequence_set : env f_core_x_sequence_set = Some def_core_x_sequence_set. Proof. reflexivity. Qed.
Lemma env_sequence_range : env f_core_x_sequence_range = Some def_core_x_sequence_range. Proof. reflexivity. Qed.
Lemma env_vanished : env f_rfc7162_x_resp_vanished = Some def_rfc7162_x_resp_vanished. Proof. reflexivity. Qed.

Definition seq_item_g : G :=
  Alt [(Ref f_core_x_sequence_range DSame);
       (Map (mk_action (PVar "n") (ACon "RangeInclusive" [AVar "n"; AVar "n"])) (Ref f_core_x_number DSame))].

(* after an item: not a digit and not a colon *)
Definition item_follow (rest : list byte) : Prop :=
  match rest with c :: _ => nom_is_digit c = false /\ (58 =? c) = false | [] => False end.

Lemma ok_seq_item v w d : enc_seq_item v w -> OK seq_item_g d w v item_follow.
Proof.
  intros [n w0 Hn | a b wa wb Ha Hb]; unfold seq_item_g.
  - apply ok_alt_skip.
    + intros rest Hr. apply (rejref _ _ _ _ _ env_sequence_range). unfold def_core_x_sequence_range. apply rej_map.
      destruct rest as [|c r]; [destruct Hr|]. destruct Hr as [Hd Hc].
      eapply (rej_seq_after _ _ _ _ _ _ _ _ nodigit).
      * apply ok_number, Hn.
      * exact Hd.
      * apply rejseq_head. apply rej_tag. exact Hc.
    + apply ok_alt_here. apply (Ok_follow _ _ _ _ _ _ _ nodigit).
      * eapply ok_map. { apply ok_number, Hn. } reflexivity.
      * intros r Hr. destruct r as [|c r]; [destruct Hr|]. exact (proj1 Hr).
  - apply ok_alt_here. apply (Ok_follow _ _ _ _ _ _ _ nodigit).
    + apply (okref _ _ _ _ _ _ _ env_sequence_range). unfold def_core_x_sequence_range.
      eapply ok_map.
      { apply ok_seq. regroup (wa ++ ([58] ++ (wb ++ []))).
        eapply (okseq_cons _ _ _ _ _ _ _ _ _ _ nodigit nodigit); [apply ok_number, Ha | | intros rest _; reflexivity].
        eapply (okseq_cons _ _ _ _ _ _ _ _ _ _ any nodigit); [apply ok_tag | | intros; exact I].
        eapply (okseq_cons _ _ _ _ _ _ _ _ _ _ nodigit nodigit); [apply ok_number, Hb | apply (okseq_nil _ _ _ _ nodigit) | intros r Hr; exact Hr]. }
      reflexivity.
    + intros r Hr. destruct r as [|c r]; [destruct Hr|]. exact (proj1 Hr).
Qed.

Lemma enc_seq_item_head v w : enc_seq_item v w -> exists c r, w = c :: r /\ nom_is_digit c = true.
Proof.
  intros [n w0 Hn | a b wa wb Ha Hb].
  - exact (enc_number_head _ _ _ Hn).
  - destruct (enc_number_head _ _ _ Ha) as (c & r & -> & Hc). cbn [app]. eexists _, _. split; [reflexivity | exact Hc].
Qed.

Lemma oksep_seq l ws d : enc_seq_more l ws ->
  OkSep native_call env rk (Leaf (LTag (bs ","))) seq_item_g d ws l before_trailer.
Proof.
  intro H. induction H as [| v l w ws Hv Hl IH].
  - apply oksep_nil. intros rest Hr. destruct rest as [|c r]; [destruct Hr|]. apply rej_tag. destruct Hr as [-> | ->]; reflexivity.
  - eapply (oksep_cons _ _ _ _ _ _ _ _ _ _ _ _ any item_follow before_trailer).
    + apply ok_tag.
    + discriminate.
    + apply ok_seq_item, Hv.
    + exact IH.
    + intros rest Hr. destruct Hl; cbn [app].
      * destruct rest as [|c r]; [destruct Hr|]. destruct Hr as [-> | ->]; split; reflexivity.
      * split; reflexivity.
    + intros; exact I.
Qed.

Lemma ok_sequence_set v l w wl d : enc_seq_item v w -> enc_seq_more l wl ->
  OK (Ref f_core_x_sequence_set DSame) d (w ++ wl) (VList (v :: l)) before_trailer.
Proof.
  intros Hv Hl. apply (okref _ _ _ _ _ _ _ env_sequence_set). unfold def_core_x_sequence_set. fold seq_item_g.
  eapply (ok_seplist1 _ _ _ _ _ _ _ _ _ _ item_follow before_trailer).
  - apply ok_seq_item, Hv.
  - apply oksep_seq, Hl.
  - intros rest Hr. destruct Hl; cbn [app].
    + destruct rest as [|c r]; [destruct Hr|]. destruct Hr as [-> | ->]; split; reflexivity.
    + split; reflexivity.
Qed.

Lemma ok_ws1 ws d : enc_ws1 ws -> OK (Leaf (LTakeWhile1 nom_is_space)) d ws (VBytes ws) (stops_at nom_is_space).
Proof. intros [w Hne Hw]. apply ok_take_while1; assumption. Qed.

Lemma digit_not_space c : nom_is_digit c = true -> nom_is_space c = false.
Proof.
  unfold nom_is_digit, nom_is_space. intro H. apply andb_true_iff in H. destruct H as [A B]. apply N.leb_le in A, B.
  apply orb_false_iff. split; apply N.eqb_neq; lia.
Qed.

Lemma range_val_norm a b : range_val a b = range_norm a b.
Proof. reflexivity. Qed.

Lemma ok_vanished v body d : (exists k earlier ke ws vi l w wl, body = k ++ ke ++ ws ++ w ++ wl /\
    v = VRec "Response::Vanished" [("earlier"%string, VBool earlier); ("uids"%string, VList (vi :: l))] /\ kw "VANISHED" k /\
    ((earlier = true /\ (exists s e, ke = s ++ e /\ enc_ws1 s /\ kw "(EARLIER)" e)) \/ (earlier = false /\ ke = [])) /\
    enc_ws1 ws /\ enc_seq_item vi w /\ enc_seq_more l wl) ->
  OK (Alt rd_alts) d body v before_trailer.
Proof.
  intros (k & earlier & ke & ws & vi & l & w & wl & -> & -> & Hk & Hke & Hws & Hvi & Hl). unfold kw in Hk.
  unfold rd_alts. cbn [def_rfc3501_x_response_data].
  do 8 (apply (skip_kw _ _ (bs "VANISHED") _ _ _ _ _ Hk); [vm_compute; reflexivity|]).
  apply ok_alt_here. apply (okref _ _ _ _ _ _ _ env_vanished). unfold def_rfc7162_x_resp_vanished.
  destruct (enc_seq_item_head _ _ Hvi) as (c & r & Ew & Hc).
  destruct Hke as [[-> (s & e & -> & Hs & He)] | [-> ->]].
  - (* (EARLIER) present *)
    unfold kw in He.
    assert (He1 : exists r1, e = 40 :: r1).
    { destruct e as [|x r1]; [discriminate|]. cbn [bs N_of_ascii same_nocase] in He. apply andb_true_iff in He. destruct He as [Hx _].
      destruct (lower_variants _ _ Hx) as [<- | []]. exists r1. reflexivity. }
    destruct He1 as [r1 Ee].
    eapply ok_map.
    { apply ok_seq. regroup (k ++ ((s ++ (e ++ [])) ++ (ws ++ ((w ++ wl) ++ [])))).
      eapply (okseq_cons _ _ _ _ _ _ _ _ _ _ any before_trailer); [apply ok_tag_nc, Hk | | intros; exact I].
      eapply (okseq_cons _ _ _ _ _ _ _ _ _ _ any before_trailer); [| | intros; exact I].
      - apply ok_opt_some. apply ok_seq.
        eapply (okseq_cons _ _ _ _ _ _ _ _ _ _ (stops_at nom_is_space) any); [apply ok_ws1, Hs | | intros rest _; rewrite Ee; reflexivity].
        eapply (okseq_cons _ _ _ _ _ _ _ _ _ _ any any); [apply ok_tag_nc, He | apply (okseq_nil _ _ _ _ any) | intros; exact I].
      - eapply (okseq_cons _ _ _ _ _ _ _ _ _ _ (stops_at nom_is_space) before_trailer); [apply ok_ws1, Hws | | ].
        + eapply (okseq_cons _ _ _ _ _ _ _ _ _ _ before_trailer before_trailer); [apply (ok_sequence_set vi l w wl _ Hvi Hl) | apply (okseq_nil _ _ _ _ before_trailer) | intros r0 Hr0; exact Hr0].
        + intros rest _. rewrite Ew. cbn [app]. apply digit_not_space, Hc. }
    reflexivity.
  - (* no (EARLIER): the optional group is tried (spaces are consumed) and turned down by the digit *)
    eapply ok_map.
    { apply ok_seq. regroup (k ++ ([] ++ (ws ++ ((w ++ wl) ++ [])))).
      eapply (okseq_cons _ _ _ _ _ _ _ _ _ _ any before_trailer); [apply ok_tag_nc, Hk | | intros; exact I].
      eapply (okseq_cons _ _ _ _ _ _ _ _ _ _ (fun rest => exists r2, rest = ws ++ c :: r2) before_trailer).
      - apply ok_opt_none. intros rest (r2 & ->).
        eapply (rej_seq_after _ _ _ _ _ _ _ _ (stops_at nom_is_space)).
        + apply ok_ws1, Hws.
        + cbn. apply digit_not_space, Hc.
        + apply rejseq_head. apply rej_tag_nc.
          assert (Hlt : c < 256) by (unfold nom_is_digit in Hc; apply andb_true_iff in Hc; destruct Hc as [_ B]; apply N.leb_le in B; lia).
          pose proof (sweep (fun c => implb (nom_is_digit c) (negb (eq_nocase1 40 c))) ltac:(vm_compute; reflexivity) c Hlt) as Hx.
          cbv beta in Hx. rewrite Hc in Hx. cbn [implb] in Hx. apply negb_true_iff in Hx. exact Hx.
      - eapply (okseq_cons _ _ _ _ _ _ _ _ _ _ (stops_at nom_is_space) before_trailer); [apply ok_ws1, Hws | | ].
        + eapply (okseq_cons _ _ _ _ _ _ _ _ _ _ before_trailer before_trailer); [apply (ok_sequence_set vi l w wl _ Hvi Hl) | apply (okseq_nil _ _ _ _ before_trailer) | intros r0 Hr0; exact Hr0].
        + intros rest _. rewrite Ew. cbn [app]. apply digit_not_space, Hc.
      - intros rest _. rewrite Ew. repeat rewrite <- app_assoc. cbn [app]. eexists. reflexivity. }
    reflexivity.
Qed.

Theorem untagged_roundtrip v w : enc_untagged_response v w -> forall rest, parse (w ++ rest) = ROk rest v (nlen w).
Proof.
  intros [v0 body sp Hb Hsp] rest. apply untagged_lift; [|exact Hsp]. intro d.
  destruct Hb as [n w0 k Hn Hk | n w0 k Hn Hk | n w0 k Hn Hk | k earlier ke ws vi l w0 wl Hk Hke Hws Hvi Hl].
  - apply ok_untagged_numeric. exists n, w0, k. split; [exact Hn|]. split; [reflexivity|]. left. split; [exact Hk | reflexivity].
  - apply ok_untagged_numeric. exists n, w0, k. split; [exact Hn|]. split; [reflexivity|]. right. left. split; [exact Hk | reflexivity].
  - apply ok_untagged_numeric. exists n, w0, k. split; [exact Hn|]. split; [reflexivity|]. right. right. split; [exact Hk | reflexivity].
  - apply ok_vanished. exists k, earlier, ke, ws, vi, l, w0, wl.
    split; [reflexivity|]. split; [reflexivity|]. split; [exact Hk|]. split; [exact Hke|]. split; [exact Hws|]. split; [exact Hvi | exact Hl].
Qed.


(* ---------------------------------------------------------------- QUOTA (RFC 2087): name, usage, limit in their slots *)
Lemma env_quota : env f_rfc2087_x_quota = Some def_rfc2087_x_quota. Proof. reflexivity. Qed.
Lemma env_quota_list : env f_rfc2087_x_quota_list = Some def_rfc2087_x_quota_list. Proof. reflexivity. Qed.
Lemma env_quota_resource : env f_rfc2087_x_quota_resource = Some def_rfc2087_x_quota_resource. Proof. reflexivity. Qed.
Lemma env_quota_resource_name : env f_rfc2087_x_quota_resource_name = Some def_rfc2087_x_quota_resource_name. Proof. reflexivity. Qed.
Lemma env_astring_utf8 : env f_core_x_astring_utf8 = Some def_core_x_astring_utf8. Proof. reflexivity. Qed.

Lemma ok_astring_utf8 s w d : enc_astring s w -> utf8_valid s = true ->
  OK (Ref f_core_x_astring_utf8 DSame) d w (VBytes s) (stops_at cls_core_x_is_astring_char).
Proof.
  intros Hs Hu. apply (okref _ _ _ _ _ _ _ env_astring_utf8). unfold def_core_x_astring_utf8.
  eapply ok_mapres. { apply ok_astring, Hs. } cbn. unfold native_call. cbn. rewrite Hu. reflexivity.
Qed.

Lemma same_nocase_eq_nocase s w : same_nocase s w = true -> eq_nocase w s = true.
Proof.
  revert w; induction s as [|a s IH]; intros [|b w] H; try discriminate; [reflexivity|].
  cbn [same_nocase] in H. apply andb_true_iff in H. destruct H as [H1 H2].
  unfold eq_nocase. cbn [list_eqb]. unfold eq_nocase1 in H1. rewrite N.eqb_sym, H1. exact (IH w H2).
Qed.

(* a keyword spelled in any case is still made of atom characters when the keyword is alphabetic *)
Lemma kw_alpha_chars K w : forallb (fun b => (65 <=? b) && (b <=? 90)) K = true -> same_nocase K w = true ->
  forallb cls_core_x_is_astring_char w = true /\ forallb (fun b => b <=? 127) w = true.
Proof.
  revert w; induction K as [|a K IH]; intros [|b w] HK H; try discriminate; [split; reflexivity|].
  cbn [forallb] in HK. apply andb_true_iff in HK. destruct HK as [Ha HK].
  cbn [same_nocase] in H. apply andb_true_iff in H. destruct H as [Hab H].
  destruct (IH w HK H) as [I1 I2]. cbn [forallb]. rewrite I1, I2.
  assert (Hb : b = lower a \/ b = lower a - 32).
  { pose proof (lower_variants a b Hab) as Hin. unfold variants in Hin. cbv zeta in Hin.
    destruct ((97 <=? lower a) && (lower a <=? 122)); cbn [In] in Hin.
    - destruct Hin as [E | [E | []]]; [left | right]; symmetry; exact E.
    - destruct Hin as [E | []]. left. symmetry. exact E. }
  apply andb_true_iff in Ha. destruct Ha as [A1 A2]. apply N.leb_le in A1, A2.
  assert (Hl : lower a = a + 32) by (unfold lower, is_upper; replace ((65 <=? a) && (a <=? 90)) with true by (symmetry; apply andb_true_iff; split; apply N.leb_le; lia); reflexivity).
  assert (Hlt : b < 256) by (destruct Hb as [-> | ->]; lia).
  pose proof (sweep (fun b => implb (((65 <=? b) && (b <=? 90)) || ((97 <=? b) && (b <=? 122))) (cls_core_x_is_astring_char b && (b <=? 127))) ltac:(vm_compute; reflexivity) b Hlt) as Hx.
  cbv beta in Hx.
  assert (Hrange : (((65 <=? b) && (b <=? 90)) || ((97 <=? b) && (b <=? 122))) = true).
  { apply orb_true_iff. destruct Hb as [-> | ->]; [right | left]; apply andb_true_iff; split; apply N.leb_le; lia. }
  rewrite Hrange in Hx. cbn [implb] in Hx. apply andb_true_iff in Hx. destruct Hx as [X1 X2]. rewrite X1, X2. split; reflexivity.
Qed.

Lemma ok_quota_name v w d : enc_quota_name v w -> OK (Ref f_rfc2087_x_quota_resource_name DSame) d w v (stops_at cls_core_x_is_astring_char).
Proof.
  intro H. apply (okref _ _ _ _ _ _ _ env_quota_resource_name). unfold def_rfc2087_x_quota_resource_name.
  assert (Hgen : forall a, a <> [] -> forallb cls_core_x_is_astring_char a = true -> forallb (fun b => b <=? 127) a = true ->
            OK (Ref f_core_x_astring_utf8 DSame) (apply_darg DSame d) a (VBytes a) (stops_at cls_core_x_is_astring_char)).
  { intros a Hne Hc H7. apply (okref _ _ _ _ _ _ _ env_astring_utf8). unfold def_core_x_astring_utf8.
    eapply ok_mapres.
    { apply (okref _ _ _ _ _ _ _ env_astring). unfold def_core_x_astring. apply ok_alt_here. apply ok_take_while1; assumption. }
    cbn. unfold native_call. cbn. rewrite (ascii_utf8 a H7). reflexivity. }
  destruct H as [w Hk | w Hk | a Hne Ha N1 N2]; unfold kw in *.
  - destruct (kw_alpha_chars (bs "STORAGE") w ltac:(reflexivity) Hk) as [C1 C2].
    eapply ok_map. { apply Hgen; [destruct w; [discriminate|discriminate] | exact C1 | exact C2]. }
    cbn. unfold native_call. cbn. unfold classify_quota_name. rewrite (same_nocase_eq_nocase _ _ Hk). reflexivity.
  - destruct (kw_alpha_chars (bs "MESSAGE") w ltac:(reflexivity) Hk) as [C1 C2].
    eapply ok_map. { apply Hgen; [destruct w; [discriminate|discriminate] | exact C1 | exact C2]. }
    cbn. unfold native_call. cbn. unfold classify_quota_name.
    destruct (eq_nocase w (bs "STORAGE")) eqn:E.
    + (* a word cannot be both *)
      exfalso. clear - Hk E. unfold eq_nocase in E.
      destruct w as [|c0 w]; [discriminate|]. cbn [bs N_of_ascii same_nocase list_eqb] in Hk, E.
      apply andb_true_iff in Hk. destruct Hk as [Hk _]. apply andb_true_iff in E. destruct E as [E _].
      unfold eq_nocase1 in Hk. apply N.eqb_eq in Hk, E. rewrite E in Hk. discriminate Hk.
    + rewrite (same_nocase_eq_nocase _ _ Hk). reflexivity.
  - eapply ok_map.
    { apply Hgen; [exact Hne | |].
      - apply (forallb_impl rfc_ATOM_CHAR); [intros x Hx; exact (proj1 (proj2 (atom_char_facts x Hx))) | exact Ha].
      - apply (forallb_impl rfc_ATOM_CHAR); [intros x Hx; exact (proj1 (proj2 (proj2 (atom_char_facts x Hx)))) | exact Ha]. }
    cbn. unfold native_call. cbn. unfold classify_quota_name. rewrite N1, N2. reflexivity.
Qed.

Definition ws_g : G := Leaf (LTakeWhile1 nom_is_space).
Definition notspace : list byte -> Prop := stops_at nom_is_space.

Lemma enc_quota_name_head v w : enc_quota_name v w -> exists c r, w = c :: r /\ nom_is_space c = false.
Proof.
  assert (Hkw : forall K w1, forallb (fun b => (65 <=? b) && (b <=? 90)) K = true -> K <> [] -> same_nocase K w1 = true ->
             exists c r, w1 = c :: r /\ nom_is_space c = false).
  { intros K w1 HK Hne Hs. destruct (kw_alpha_chars K w1 HK Hs) as [C _]. destruct w1 as [|c r]; [destruct K; [contradiction|discriminate]|].
    exists c, r. split; [reflexivity|]. cbn [forallb] in C. apply andb_true_iff in C. destruct C as [C _].
    destruct (nom_is_space c) eqn:E; [|reflexivity]. unfold nom_is_space in E. apply orb_true_iff in E.
    destruct E as [E | E]; apply N.eqb_eq in E; subst c; discriminate C. }
  intros [w0 Hk | w0 Hk | a Hne Ha _ _].
  - apply (Hkw (bs "STORAGE")); [reflexivity | discriminate | exact Hk].
  - apply (Hkw (bs "MESSAGE")); [reflexivity | discriminate | exact Hk].
  - destruct a as [|c r]; [contradiction|]. exists c, r. split; [reflexivity|].
    cbn [forallb] in Ha. apply andb_true_iff in Ha. destruct Ha as [Hc _]. destruct (atom_char_facts c Hc) as (_ & C & _).
    destruct (nom_is_space c) eqn:E; [|reflexivity]. unfold nom_is_space in E. apply orb_true_iff in E.
    destruct E as [E | E]; apply N.eqb_eq in E; subst c; discriminate C.
Qed.

Lemma ws1_head s : enc_ws1 s -> exists c r, s = c :: r /\ nom_is_space c = true /\ nom_is_digit c = false /\ cls_core_x_is_astring_char c = false.
Proof.
  intros [w Hne Hw]. destruct w as [|c r]; [contradiction|]. exists c, r. split; [reflexivity|].
  cbn [forallb] in Hw. apply andb_true_iff in Hw. destruct Hw as [Hc _]. split; [exact Hc|].
  apply orb_true_iff in Hc. destruct Hc as [E | E]; apply N.eqb_eq in E; subst c; split; reflexivity.
Qed.

Definition res_follow (rest : list byte) : Prop := match rest with c :: _ => nom_is_digit c = false | [] => False end.

Lemma ok_quota_resource v w d : enc_quota_resource v w -> OK (Ref f_rfc2087_x_quota_resource DSame) d w v nodigit.
Proof.
  intros [name wn s1 usage wu s2 limit wl Hn H1 Hu H2 Hl]. apply (okref _ _ _ _ _ _ _ env_quota_resource). unfold def_rfc2087_x_quota_resource.
  destruct (ws1_head _ H1) as (c1 & r1 & E1 & _ & _ & A1). destruct (ws1_head _ H2) as (c2 & r2 & E2 & _ & D2 & _).
  destruct (enc_number_head _ _ _ Hu) as (cu & ru & Eu & Du). destruct (enc_number_head _ _ _ Hl) as (cl & rl & El & Dl).
  eapply ok_map.
  { apply ok_seq. regroup (wn ++ (s1 ++ (wu ++ (s2 ++ (wl ++ []))))). fold ws_g.
    eapply (okseq_cons _ _ _ _ _ _ _ _ _ _ (stops_at cls_core_x_is_astring_char) nodigit); [apply ok_quota_name, Hn | | intros rest _; rewrite E1; exact A1].
    eapply (okseq_cons _ _ _ _ _ _ _ _ _ _ notspace nodigit); [apply ok_ws1, H1 | | intros rest _; rewrite Eu; apply digit_not_space, Du].
    eapply (okseq_cons _ _ _ _ _ _ _ _ _ _ nodigit nodigit); [apply ok_number_64, Hu | | intros rest _; rewrite E2; exact D2].
    eapply (okseq_cons _ _ _ _ _ _ _ _ _ _ notspace nodigit); [apply ok_ws1, H2 | | intros rest _; rewrite El; apply digit_not_space, Dl].
    eapply (okseq_cons _ _ _ _ _ _ _ _ _ _ nodigit nodigit); [apply ok_number_64, Hl | apply (okseq_nil _ _ _ _ nodigit) | intros r Hr; exact Hr]. }
  reflexivity.
Qed.

Lemma enc_quota_resource_head v w : enc_quota_resource v w -> exists c r, w = c :: r /\ nom_is_space c = false.
Proof.
  intros [name wn s1 usage wu s2 limit wl Hn _ _ _ _]. destruct (enc_quota_name_head _ _ Hn) as (c & r & -> & Hc).
  cbn [app]. eexists _, _. split; [reflexivity | exact Hc].
Qed.

Lemma oksep_quota l ws d : enc_quota_more l ws ->
  OkSep native_call env rk ws_g (Ref f_rfc2087_x_quota_resource DSame) d ws l closes.
Proof.
  intro H. induction H as [| r l s w ws Hs Hr Hl IH].
  - apply oksep_nil. intros rest Hr. destruct rest as [|c r]; [destruct Hr|]. cbn in Hr. subst c. apply rej_take_while1. reflexivity.
  - destruct (enc_quota_resource_head _ _ Hr) as (c & r0 & Ew & Hc).
    eapply (oksep_cons _ _ _ _ _ _ _ _ _ _ _ _ notspace nodigit closes).
    + apply ok_ws1, Hs.
    + destruct Hs as [w0 Hne _]. exact Hne.
    + apply ok_quota_resource, Hr.
    + exact IH.
    + intros rest Hr0. destruct Hl as [| r1 l1 s1 w1 ws1 Hs1 _ _]; cbn [app].
      * destruct rest as [|x rr]; [destruct Hr0|]. cbn in Hr0. subst x. reflexivity.
      * destruct (ws1_head _ Hs1) as (cs & rs & -> & _ & D & _). cbn [app]. exact D.
    + intros rest _. rewrite Ew. cbn [app]. exact Hc.
Qed.

Lemma ok_quota_list v w d : enc_quota_list v w -> OK (Ref f_rfc2087_x_quota_list DSame) d w v any.
Proof.
  intros [| r w0 l ws Hr Hl]; apply (okref _ _ _ _ _ _ _ env_quota_list); unfold def_rfc2087_x_quota_list; fold ws_g.
  - eapply ok_map.
    { apply ok_seq. regroup ([40] ++ ([] ++ ([41] ++ []))).
      eapply (okseq_cons _ _ _ _ _ _ _ _ _ _ any any); [apply ok_tag | | intros; exact I].
      eapply (okseq_cons _ _ _ _ _ _ _ _ _ _ closes any).
      - apply ok_seplist0_empty. intros rest Hr. destruct rest as [|c r]; [destruct Hr|]. cbn in Hr. subst c.
        apply (fails_on_byte native_call env rk rank_ok_all 8). vm_compute. reflexivity.
      - eapply (okseq_cons _ _ _ _ _ _ _ _ _ _ any any); [apply ok_tag | apply (okseq_nil _ _ _ _ any) | intros; exact I].
      - intros rest _. reflexivity. }
    reflexivity.
  - eapply ok_map.
    { apply ok_seq. regroup ([40] ++ ((w0 ++ ws) ++ ([41] ++ []))).
      eapply (okseq_cons _ _ _ _ _ _ _ _ _ _ any any); [apply ok_tag | | intros; exact I].
      eapply (okseq_cons _ _ _ _ _ _ _ _ _ _ closes any).
      - eapply (ok_seplist0 _ _ _ _ _ _ _ _ _ _ nodigit closes).
        + apply ok_quota_resource, Hr.
        + apply oksep_quota, Hl.
        + intros rest Hr0. destruct Hl as [| r1 l1 s1 w1 ws1 Hs1 _ _]; cbn [app].
          * destruct rest as [|x rr]; [destruct Hr0|]. cbn in Hr0. subst x. reflexivity.
          * destruct (ws1_head _ Hs1) as (cs & rs & -> & _ & D & _). cbn [app]. exact D.
      - eapply (okseq_cons _ _ _ _ _ _ _ _ _ _ any any); [apply ok_tag | apply (okseq_nil _ _ _ _ any) | intros; exact I].
      - intros rest _. reflexivity. }
    reflexivity.
Qed.

Lemma enc_astring_head s w : enc_astring s w -> exists c r, w = c :: r /\ nom_is_space c = false.
Proof.
  intros [s0 Hne Hs | s0 w0 Hs].
  - destruct s0 as [|c r]; [contradiction|]. exists c, r. split; [reflexivity|].
    cbn [forallb] in Hs. apply andb_true_iff in Hs. destruct Hs as [Hc _]. apply astring_char_ok in Hc.
    destruct (nom_is_space c) eqn:E; [|reflexivity]. unfold nom_is_space in E. apply orb_true_iff in E.
    destruct E as [E | E]; apply N.eqb_eq in E; subst c; discriminate Hc.
  - destruct (enc_string_head s0 w0 Hs) as (c & r & -> & [-> | ->]); eexists _, _; (split; [reflexivity|]); reflexivity.
Qed.

Lemma ok_quota v body d : enc_quota v body -> OK (Alt rd_alts) d body v before_trailer.
Proof.
  intros [k s1 root wr s2 res wl Hk H1 Hroot Hu H2 Hres]. unfold kw in Hk.
  apply (Ok_follow _ _ _ _ _ _ _ any); [|intros; exact I].
  unfold rd_alts. cbn [def_rfc3501_x_response_data].
  do 9 (apply (skip_kw _ _ (bs "QUOTA") _ _ _ _ _ Hk); [vm_compute; reflexivity|]).
  apply ok_alt_here. apply (okref _ _ _ _ _ _ _ env_quota). unfold def_rfc2087_x_quota. fold ws_g.
  destruct (ws1_head _ H2) as (c2 & r2 & E2 & _ & _ & A2).
  destruct (enc_astring_head _ _ Hroot) as (cr & rr & Er & Sr).
  eapply ok_map.
  { apply ok_seq. regroup (k ++ (s1 ++ (wr ++ (s2 ++ (wl ++ []))))).
    eapply (okseq_cons _ _ _ _ _ _ _ _ _ _ any any); [apply ok_tag_nc, Hk | | intros; exact I].
    eapply (okseq_cons _ _ _ _ _ _ _ _ _ _ notspace any); [apply ok_ws1, H1 | | intros rest _; rewrite Er; exact Sr].
    eapply (okseq_cons _ _ _ _ _ _ _ _ _ _ (stops_at cls_core_x_is_astring_char) any).
    - eapply ok_map. { apply ok_astring_utf8; eassumption. } reflexivity.
    - eapply (okseq_cons _ _ _ _ _ _ _ _ _ _ notspace any); [apply ok_ws1, H2 | | intros rest _; destruct Hres; reflexivity].
      eapply (okseq_cons _ _ _ _ _ _ _ _ _ _ any any); [apply ok_quota_list, Hres | apply (okseq_nil _ _ _ _ any) | intros; exact I].
    - intros rest _. rewrite E2. exact A2. }
  reflexivity.
Qed.

Lemma ok_untagged v body d : enc_untagged v body -> OK (Alt rd_alts) d body v before_trailer.
Proof.
  intros [n w0 k Hn Hk | n w0 k Hn Hk | n w0 k Hn Hk | k earlier ke ws vi l w0 wl Hk Hke Hws Hvi Hl].
  - apply ok_untagged_numeric. exists n, w0, k. split; [exact Hn|]. split; [reflexivity|]. left. split; [exact Hk | reflexivity].
  - apply ok_untagged_numeric. exists n, w0, k. split; [exact Hn|]. split; [reflexivity|]. right. left. split; [exact Hk | reflexivity].
  - apply ok_untagged_numeric. exists n, w0, k. split; [exact Hn|]. split; [reflexivity|]. right. right. split; [exact Hk | reflexivity].
  - apply ok_vanished. exists k, earlier, ke, ws, vi, l, w0, wl.
    split; [reflexivity|]. split; [reflexivity|]. split; [exact Hk|]. split; [exact Hke|]. split; [exact Hws|]. split; [exact Hvi | exact Hl].
Qed.

Theorem data_roundtrip v w : enc_data_response v w -> forall rest, parse (w ++ rest) = ROk rest v (nlen w).
Proof.
  intros [v0 body sp Hb Hsp] rest. apply untagged_lift; [|exact Hsp]. intro d.
  destruct Hb as [v1 b1 H | v1 b1 H]; [apply ok_untagged, H | apply ok_quota, H].
Qed.

(* ---------------------------------------------------------------- status responses (RFC 3501 7.1) *)
Lemma env_resp_cond : env f_rfc3501_x_resp_cond = Some def_rfc3501_x_resp_cond. Proof. reflexivity. Qed.
Lemma env_status : env f_rfc3501_x_status = Some def_rfc3501_x_status. Proof. reflexivity. Qed.
Lemma env_status_ok : env f_rfc3501_x_status_ok = Some def_rfc3501_x_status_ok. Proof. reflexivity. Qed.
Lemma env_status_no : env f_rfc3501_x_status_no = Some def_rfc3501_x_status_no. Proof. reflexivity. Qed.
Lemma env_status_bad : env f_rfc3501_x_status_bad = Some def_rfc3501_x_status_bad. Proof. reflexivity. Qed.
Lemma env_status_preauth : env f_rfc3501_x_status_preauth = Some def_rfc3501_x_status_preauth. Proof. reflexivity. Qed.
Lemma env_status_bye : env f_rfc3501_x_status_bye = Some def_rfc3501_x_status_bye. Proof. reflexivity. Qed.
Lemma env_trailing : env f_rfc3501_x_trailing_resp_text = Some def_rfc3501_x_trailing_resp_text. Proof. reflexivity. Qed.
Lemma env_resp_text' : env f_rfc3501_x_resp_text = Some def_rfc3501_x_resp_text. Proof. reflexivity. Qed.
Lemma env_resp_text_code : env f_rfc3501_x_resp_text_code = Some def_rfc3501_x_resp_text_code. Proof. reflexivity. Qed.
Lemma env_text' : env f_core_x_text = Some def_core_x_text. Proof. reflexivity. Qed.
Lemma env_code_alert : env f_rfc3501_x_resp_text_code_alert = Some def_rfc3501_x_resp_text_code_alert. Proof. reflexivity. Qed.
Lemma env_code_parse : env f_rfc3501_x_resp_text_code_parse = Some def_rfc3501_x_resp_text_code_parse. Proof. reflexivity. Qed.
Lemma env_code_ro : env f_rfc3501_x_resp_text_code_read_only = Some def_rfc3501_x_resp_text_code_read_only. Proof. reflexivity. Qed.
Lemma env_code_rw : env f_rfc3501_x_resp_text_code_read_write = Some def_rfc3501_x_resp_text_code_read_write. Proof. reflexivity. Qed.
Lemma env_code_tc : env f_rfc3501_x_resp_text_code_try_create = Some def_rfc3501_x_resp_text_code_try_create. Proof. reflexivity. Qed.
Lemma env_code_uv : env f_rfc3501_x_resp_text_code_uid_validity = Some def_rfc3501_x_resp_text_code_uid_validity. Proof. reflexivity. Qed.
Lemma env_code_un : env f_rfc3501_x_resp_text_code_uid_next = Some def_rfc3501_x_resp_text_code_uid_next. Proof. reflexivity. Qed.
Lemma env_code_us : env f_rfc3501_x_resp_text_code_unseen = Some def_rfc3501_x_resp_text_code_unseen. Proof. reflexivity. Qed.
Lemma env_code_hm : env f_rfc4551_x_resp_text_code_highest_mod_seq = Some def_rfc4551_x_resp_text_code_highest_mod_seq. Proof. reflexivity. Qed.

Lemma ok_status st w d : enc_status st w -> OK (Ref f_rfc3501_x_status DSame) d w st any.
Proof.
  intro H. apply (okref _ _ _ _ _ _ _ env_status). unfold def_rfc3501_x_status.
  replace w with (w ++ []) by apply app_nil_r.
  destruct H as [w Hk | w Hk | w Hk | w Hk | w Hk]; unfold kw in Hk.
  - apply ok_alt_here. rewrite app_nil_r. apply (okref _ _ _ _ _ _ _ env_status_ok). unfold def_rfc3501_x_status_ok.
    eapply ok_map. { apply ok_tag_nc, Hk. } reflexivity.
  - do 1 skip "NO"%string Hk. apply ok_alt_here. rewrite app_nil_r. apply (okref _ _ _ _ _ _ _ env_status_no). unfold def_rfc3501_x_status_no.
    eapply ok_map. { apply ok_tag_nc, Hk. } reflexivity.
  - do 2 skip "BAD"%string Hk. apply ok_alt_here. rewrite app_nil_r. apply (okref _ _ _ _ _ _ _ env_status_bad). unfold def_rfc3501_x_status_bad.
    eapply ok_map. { apply ok_tag_nc, Hk. } reflexivity.
  - do 3 skip "PREAUTH"%string Hk. apply ok_alt_here. rewrite app_nil_r. apply (okref _ _ _ _ _ _ _ env_status_preauth). unfold def_rfc3501_x_status_preauth.
    eapply ok_map. { apply ok_tag_nc, Hk. } reflexivity.
  - do 4 skip "BYE"%string Hk. apply ok_alt_here. rewrite app_nil_r. apply (okref _ _ _ _ _ _ _ env_status_bye). unfold def_rfc3501_x_status_bye.
    eapply ok_map. { apply ok_tag_nc, Hk. } reflexivity.
Qed.

Definition code_alts : list G :=
  match def_rfc3501_x_resp_text_code with Map _ (Seq [_; Alt l; _]) => l | _ => [] end.

Lemma ok_code_alt c w d : enc_code c w -> OK (Alt code_alts) d w c nodigit.
Proof.
  intro H. unfold code_alts. cbn [def_rfc3501_x_resp_text_code].
  destruct H as [w Hk | w Hk | w Hk | w Hk | w Hk | k n w Hk Hn | k n w Hk Hn | k n w Hk Hn | k n w Hk Hn]; unfold kw in Hk.
  - replace w with (w ++ []) by apply app_nil_r. apply ok_alt_here. rewrite app_nil_r. apply (Ok_follow _ _ _ _ _ _ _ any); [|intros; exact I].
    apply (okref _ _ _ _ _ _ _ env_code_alert). unfold def_rfc3501_x_resp_text_code_alert. eapply ok_map. { apply ok_tag_nc, Hk. } reflexivity.
  - replace w with (w ++ []) by apply app_nil_r. do 3 skip "PARSE"%string Hk. apply ok_alt_here. rewrite app_nil_r. apply (Ok_follow _ _ _ _ _ _ _ any); [|intros; exact I].
    apply (okref _ _ _ _ _ _ _ env_code_parse). unfold def_rfc3501_x_resp_text_code_parse. eapply ok_map. { apply ok_tag_nc, Hk. } reflexivity.
  - replace w with (w ++ []) by apply app_nil_r. do 8 skip "READ-ONLY"%string Hk. apply ok_alt_here. rewrite app_nil_r. apply (Ok_follow _ _ _ _ _ _ _ any); [|intros; exact I].
    apply (okref _ _ _ _ _ _ _ env_code_ro). unfold def_rfc3501_x_resp_text_code_read_only. eapply ok_map. { apply ok_tag_nc, Hk. } reflexivity.
  - replace w with (w ++ []) by apply app_nil_r. do 9 skip "READ-WRITE"%string Hk. apply ok_alt_here. rewrite app_nil_r. apply (Ok_follow _ _ _ _ _ _ _ any); [|intros; exact I].
    apply (okref _ _ _ _ _ _ _ env_code_rw). unfold def_rfc3501_x_resp_text_code_read_write. eapply ok_map. { apply ok_tag_nc, Hk. } reflexivity.
  - replace w with (w ++ []) by apply app_nil_r. do 10 skip "TRYCREATE"%string Hk. apply ok_alt_here. rewrite app_nil_r. apply (Ok_follow _ _ _ _ _ _ _ any); [|intros; exact I].
    apply (okref _ _ _ _ _ _ _ env_code_tc). unfold def_rfc3501_x_resp_text_code_try_create. eapply ok_map. { apply ok_tag_nc, Hk. } reflexivity.
  - do 5 skip "UIDVALIDITY "%string Hk. apply ok_alt_here.
    apply (okref _ _ _ _ _ _ _ env_code_uv). unfold def_rfc3501_x_resp_text_code_uid_validity.
    eapply ok_map. { apply (ok_kw2 _ _ _ _ _ _ nodigit Hk). apply ok_number, Hn. } reflexivity.
  - do 6 skip "UIDNEXT "%string Hk. apply ok_alt_here.
    apply (okref _ _ _ _ _ _ _ env_code_un). unfold def_rfc3501_x_resp_text_code_uid_next.
    eapply ok_map. { apply (ok_kw2 _ _ _ _ _ _ nodigit Hk). apply ok_number, Hn. } reflexivity.
  - do 7 skip "UNSEEN "%string Hk. apply ok_alt_here.
    apply (okref _ _ _ _ _ _ _ env_code_us). unfold def_rfc3501_x_resp_text_code_unseen.
    eapply ok_map. { apply (ok_kw2 _ _ _ _ _ _ nodigit Hk). apply ok_number, Hn. } reflexivity.
  - do 11 skip "HIGHESTMODSEQ "%string Hk. apply ok_alt_here.
    apply (okref _ _ _ _ _ _ _ env_code_hm). unfold def_rfc4551_x_resp_text_code_highest_mod_seq.
    eapply ok_map.
    { apply ok_seq. regroup (k ++ (w ++ [])).
      eapply (okseq_cons _ _ _ _ _ _ _ _ _ _ any nodigit); [apply ok_tag_nc, Hk | | intros; exact I].
      eapply (okseq_cons _ _ _ _ _ _ _ _ _ _ nodigit nodigit); [apply ok_number_64, Hn | apply (okseq_nil _ _ _ _ nodigit) | intros r Hr; exact Hr]. }
    reflexivity.
Qed.

Lemma ok_resp_text_code c w d : enc_code c w -> OK (Ref f_rfc3501_x_resp_text_code DSame) d ([91] ++ w ++ [93]) c any.
Proof.
  intro H. apply (okref _ _ _ _ _ _ _ env_resp_text_code).
  assert (Hshape : def_rfc3501_x_resp_text_code = Map (mk_action (PTuple [PWild; PVar "p1"; PWild]) (AVar "p1")) (Seq [Leaf (LTag (bs "[")); Alt code_alts; Leaf (LTag (bs "]"))])) by reflexivity.
  rewrite Hshape. eapply ok_map.
  { apply ok_seq. regroup ([91] ++ (w ++ ([93] ++ []))).
    eapply (okseq_cons _ _ _ _ _ _ _ _ _ _ any any); [apply ok_tag | | intros; exact I].
    eapply (okseq_cons _ _ _ _ _ _ _ _ _ _ nodigit any); [apply ok_code_alt, H | | intros rest _; reflexivity].
    eapply (okseq_cons _ _ _ _ _ _ _ _ _ _ any any); [apply ok_tag | apply (okseq_nil _ _ _ _ any) | intros; exact I]. }
  reflexivity.
Qed.

Definition at_cr (rest : list byte) : Prop := match rest with c :: _ => c = 13 | [] => False end.

Lemma text_char_ok b : rfc_TEXT_CHAR b = true -> cls_core_x_is_text_char b = true /\ (b <=? 127) = true /\ is_cont b = false.
Proof.
  intro H. assert (Hb : b < 256).
  { unfold rfc_TEXT_CHAR in H. apply andb_true_iff in H. destruct H as [H _]. apply andb_true_iff in H. destruct H as [H _]. apply rfc_char_small, H. }
  pose proof (sweep (fun b => implb (rfc_TEXT_CHAR b) (cls_core_x_is_text_char b && (b <=? 127) && negb (is_cont b))) ltac:(vm_compute; reflexivity) b Hb) as Hx.
  cbv beta in Hx. rewrite H in Hx. cbn [implb] in Hx. apply andb_true_iff in Hx. destruct Hx as [Hx H3]. apply andb_true_iff in Hx. destruct Hx as [H1 H2].
  apply negb_true_iff in H3. repeat split; assumption.
Qed.

Lemma ok_text t d : forallb rfc_TEXT_CHAR t = true -> OK (Ref f_core_x_text DSame) d t (VBytes t) at_cr.
Proof.
  intro H. apply (okref _ _ _ _ _ _ _ env_text'). unfold def_core_x_text.
  apply (Ok_follow _ _ _ _ _ _ _ (stops_at cls_core_x_is_text_char)); [|intros r Hr; destruct r as [|c r]; [destruct Hr|]; cbn in Hr; subst c; reflexivity].
  eapply ok_mapres.
  { apply ok_take_while. apply (forallb_impl rfc_TEXT_CHAR); [intros x Hx; exact (proj1 (text_char_ok x Hx)) | exact H]. }
  cbn. unfold native_call. cbn. rewrite ascii_utf8; [reflexivity|].
  apply (forallb_impl rfc_TEXT_CHAR); [intros x Hx; exact (proj1 (proj2 (text_char_ok x Hx))) | exact H].
Qed.

Lemma ok_resp_text code info w d : enc_resp_text code info w ->
  OK (Ref f_rfc3501_x_resp_text DSame) d w (VTuple [code; info]) at_cr.
Proof.
  intro H. apply (okref _ _ _ _ _ _ _ env_resp_text'). unfold def_rfc3501_x_resp_text.
  destruct H as [c t Ht Hc | code wc Hcode | code wc t Hcode Ht].
  - (* no code: the bracketed form is not even tried beyond its first byte *)
    eapply ok_map.
    { apply ok_seq. regroup ([] ++ ((c :: t) ++ [])).
      eapply (okseq_cons _ _ _ _ _ _ _ _ _ _ (fun rest => exists r, rest = c :: r) at_cr).
      - apply ok_opt_none. intros rest (r & ->). apply (rejref _ _ _ _ _ env_resp_text_code). unfold def_rfc3501_x_resp_text_code.
        apply rej_map, rej_seq_head, rej_tag. apply N.eqb_neq. intro E. apply Hc. symmetry. exact E.
      - eapply (okseq_cons _ _ _ _ _ _ _ _ _ _ at_cr at_cr); [apply ok_text, Ht | apply (okseq_nil _ _ _ _ at_cr) | intros r Hr; exact Hr].
      - intros rest _. cbn [app]. eexists. reflexivity. }
    cbn. unfold native_call. cbn. reflexivity.
  - eapply ok_map.
    { apply ok_seq. regroup (([91] ++ wc ++ [93]) ++ ([] ++ [])).
      eapply (okseq_cons _ _ _ _ _ _ _ _ _ _ any at_cr); [apply ok_opt_some, ok_resp_text_code, Hcode | | intros; exact I].
      eapply (okseq_cons _ _ _ _ _ _ _ _ _ _ at_cr at_cr); [apply (ok_text [] _ eq_refl) | apply (okseq_nil _ _ _ _ at_cr) | intros r Hr; exact Hr]. }
    cbn. unfold native_call. cbn. reflexivity.
  - eapply ok_map.
    { apply ok_seq. regroup (([91] ++ wc ++ [93]) ++ ((32 :: t) ++ [])).
      eapply (okseq_cons _ _ _ _ _ _ _ _ _ _ any at_cr); [apply ok_opt_some, ok_resp_text_code, Hcode | | intros; exact I].
      eapply (okseq_cons _ _ _ _ _ _ _ _ _ _ at_cr at_cr); [apply (ok_text (32 :: t)) | apply (okseq_nil _ _ _ _ at_cr) | intros r Hr; exact Hr].
      cbn [forallb]. rewrite Ht. reflexivity. }
    cbn. unfold native_call. cbn. unfold resp_text_action, str_slice_from1.
    destruct t as [|x t']; [reflexivity|]. cbn [forallb] in Ht. apply andb_true_iff in Ht. destruct Ht as [Hx _].
    rewrite (proj2 (proj2 (text_char_ok x Hx))). reflexivity.
Qed.

Lemma ok_trailing code info w d : enc_resp_text code info w ->
  OK (Ref f_rfc3501_x_trailing_resp_text DSame) d ([32] ++ w) (VTuple [code; info]) at_cr.
Proof.
  intro H. apply (okref _ _ _ _ _ _ _ env_trailing). unfold def_rfc3501_x_trailing_resp_text.
  eapply ok_map.
  { apply ok_opt_some. apply ok_seq. regroup ([32] ++ (w ++ [])).
    eapply (okseq_cons _ _ _ _ _ _ _ _ _ _ any at_cr); [apply ok_tag | | intros; exact I].
    eapply (okseq_cons _ _ _ _ _ _ _ _ _ _ at_cr at_cr); [apply ok_resp_text, H | apply (okseq_nil _ _ _ _ at_cr) | intros r Hr; exact Hr]. }
  cbn. unfold native_call. cbn. reflexivity.
Qed.
Lemma ok_trailing_none d : OK (Ref f_rfc3501_x_trailing_resp_text DSame) d [] (VTuple [VNone; VNone]) at_cr.
Proof.
  apply (okref _ _ _ _ _ _ _ env_trailing). unfold def_rfc3501_x_trailing_resp_text.
  eapply ok_map.
  { apply ok_opt_none. intros rest Hr. destruct rest as [|c r]; [destruct Hr|]. cbn in Hr. subst c. apply rej_seq_head, rej_tag. reflexivity. }
  cbn. unfold native_call. cbn. reflexivity.
Qed.

Lemma ok_status_body v body d : enc_status_body v body -> OK (Alt rd_alts) d body v at_cr.
Proof.
  intro H. unfold rd_alts. cbn [def_rfc3501_x_response_data]. apply ok_alt_here.
  apply (okref _ _ _ _ _ _ _ env_resp_cond). unfold def_rfc3501_x_resp_cond.
  destruct H as [st ws Hs | st ws code info wt Hs Ht].
  - eapply ok_map.
    { apply ok_seq. regroup (ws ++ ([] ++ [])).
      eapply (okseq_cons _ _ _ _ _ _ _ _ _ _ any at_cr); [apply ok_status, Hs | | intros; exact I].
      eapply (okseq_cons _ _ _ _ _ _ _ _ _ _ at_cr at_cr); [apply ok_trailing_none | apply (okseq_nil _ _ _ _ at_cr) | intros r Hr; exact Hr]. }
    reflexivity.
  - eapply ok_map.
    { apply ok_seq. regroup (ws ++ (([32] ++ wt) ++ [])).
      eapply (okseq_cons _ _ _ _ _ _ _ _ _ _ any at_cr); [apply ok_status, Hs | | intros; exact I].
      eapply (okseq_cons _ _ _ _ _ _ _ _ _ _ at_cr at_cr); [apply ok_trailing, Ht | apply (okseq_nil _ _ _ _ at_cr) | intros r Hr; exact Hr]. }
    reflexivity.
Qed.

Theorem status_roundtrip v w : enc_status_response v w -> forall rest, parse (w ++ rest) = ROk rest v (nlen w).
Proof.
  intros [v0 body Hb] rest.
  pose proof (untagged_lift_gen body v0 at_cr [] (fun d => ok_status_body v0 body d Hb) spaces_nil (fun r => eq_refl) rest) as H.
  cbn [app] in H. exact H.
Qed.

(* ---------------------------------------------------------------- tagged completions *)
Lemma env_tagged : env f_rfc3501_x_response_tagged = Some def_rfc3501_x_response_tagged. Proof. reflexivity. Qed.
Lemma env_imap_tag : env f_rfc3501_x_imap_tag = Some def_rfc3501_x_imap_tag. Proof. reflexivity. Qed.

Lemma tag_char_ok b : rfc_TAG_CHAR b = true ->
  cls_rfc3501_x_is_tag_char b = true /\ (b <=? 127) = true /\ (43 =? b) = false /\ (42 =? b) = false.
Proof.
  intro H. assert (Hb : b < 256).
  { unfold rfc_TAG_CHAR, rfc_ASTRING_CHAR, rfc_ATOM_CHAR, rfc_resp_specials in H. apply andb_true_iff in H. destruct H as [H _].
    apply orb_true_iff in H. destruct H as [H|H]; [apply andb_true_iff in H; destruct H as [H _]; apply rfc_char_small, H | apply N.eqb_eq in H; lia]. }
  pose proof (sweep (fun b => implb (rfc_TAG_CHAR b) (cls_rfc3501_x_is_tag_char b && (b <=? 127) && negb (43 =? b) && negb (42 =? b))) ltac:(vm_compute; reflexivity) b Hb) as Hx.
  cbv beta in Hx. rewrite H in Hx. cbn [implb] in Hx.
  apply andb_true_iff in Hx. destruct Hx as [Hx H4]. apply andb_true_iff in Hx. destruct Hx as [Hx H3]. apply andb_true_iff in Hx. destruct Hx as [H1 H2].
  apply negb_true_iff in H3, H4. repeat split; assumption.
Qed.

Lemma ok_imap_tag tag d : tag <> [] -> forallb rfc_TAG_CHAR tag = true ->
  OK (Ref f_rfc3501_x_imap_tag DSame) d tag (VCon "RequestId" [VBytes tag]) (stops_at cls_rfc3501_x_is_tag_char).
Proof.
  intros Hne Ht. apply (okref _ _ _ _ _ _ _ env_imap_tag). unfold def_rfc3501_x_imap_tag.
  eapply ok_map.
  { eapply ok_mapres.
    { apply ok_take_while1; [|exact Hne]. apply (forallb_impl rfc_TAG_CHAR); [intros x Hx; exact (proj1 (tag_char_ok x Hx)) | exact Ht]. }
    cbn. unfold native_call. cbn. rewrite ascii_utf8; [reflexivity|].
    apply (forallb_impl rfc_TAG_CHAR); [intros x Hx; exact (proj1 (proj2 (tag_char_ok x Hx))) | exact Ht]. }
  reflexivity.
Qed.

Lemma env_continue_req : env f_rfc3501_x_continue_req = Some def_rfc3501_x_continue_req. Proof. reflexivity. Qed.

Lemma skip_to_tagged c r v (F : list byte -> Prop) : rfc_TAG_CHAR c = true ->
  OK (Ref f_rfc3501_x_response_tagged DSame) 0%nat (c :: r) v F -> OK def_parser_x_parse_response 0%nat (c :: r) v F.
Proof.
  intros Hc H. destruct (tag_char_ok c Hc) as (_ & _ & H43 & H42). unfold def_parser_x_parse_response.
  apply ok_alt_skip.
  { intros x _. cbn [app]. apply (rejref _ _ _ _ _ env_continue_req). unfold def_rfc3501_x_continue_req.
    apply rej_map, rej_seq_head, rej_tag. exact H43. }
  apply ok_alt_skip.
  { intros x _. cbn [app]. apply (rejref _ _ _ _ _ env_response_data). rewrite response_data_shape.
    apply rej_map, rej_seq_head. cbn [bs N_of_ascii]. apply rej_tag. exact H42. }
  apply ok_alt_here. exact H.
Qed.

Theorem tagged_roundtrip v w : enc_tagged_response v w -> forall rest, parse (w ++ rest) = ROk rest v (nlen w).
Proof.
  intros H rest. unfold parse.
  assert (HOK : OK def_parser_x_parse_response 0%nat w v any).
  { destruct H as [tag st ws Hne Ht Hs | tag st ws code info wt Hne Ht Hs Hrt].
    - destruct tag as [|c r]; [contradiction|]. pose proof Ht as Ht0. cbn [forallb] in Ht. apply andb_true_iff in Ht. destruct Ht as [Hc _].
      change ((c :: r) ++ [32] ++ ws ++ [13; 10]) with (c :: (r ++ [32] ++ ws ++ [13; 10])). apply (skip_to_tagged _ _ _ _ Hc).
      change (c :: (r ++ [32] ++ ws ++ [13; 10])) with ((c :: r) ++ [32] ++ ws ++ [13; 10]).
      apply (okref _ _ _ _ _ _ _ env_tagged). unfold def_rfc3501_x_response_tagged.
      eapply ok_map.
      { apply ok_seq. regroup ((c :: r) ++ ([32] ++ (ws ++ ([] ++ ([13; 10] ++ []))))).
        eapply (okseq_cons _ _ _ _ _ _ _ _ _ _ (stops_at cls_rfc3501_x_is_tag_char) any); [apply (ok_imap_tag (c :: r) _ Hne Ht0) | | intros; reflexivity].
        eapply (okseq_cons _ _ _ _ _ _ _ _ _ _ any any); [apply ok_tag | | intros; exact I].
        eapply (okseq_cons _ _ _ _ _ _ _ _ _ _ any any); [apply ok_status, Hs | | intros; exact I].
        eapply (okseq_cons _ _ _ _ _ _ _ _ _ _ at_cr any); [apply ok_trailing_none | | intros; reflexivity].
        eapply (okseq_cons _ _ _ _ _ _ _ _ _ _ any any); [apply ok_tag | apply (okseq_nil _ _ _ _ any) | intros; exact I]. }
      reflexivity.
    - destruct tag as [|c r]; [contradiction|]. pose proof Ht as Ht0. cbn [forallb] in Ht. apply andb_true_iff in Ht. destruct Ht as [Hc _].
      change ((c :: r) ++ [32] ++ ws ++ [32] ++ wt ++ [13; 10]) with (c :: (r ++ [32] ++ ws ++ [32] ++ wt ++ [13; 10])). apply (skip_to_tagged _ _ _ _ Hc).
      change (c :: (r ++ [32] ++ ws ++ [32] ++ wt ++ [13; 10])) with ((c :: r) ++ [32] ++ ws ++ [32] ++ wt ++ [13; 10]).
      apply (okref _ _ _ _ _ _ _ env_tagged). unfold def_rfc3501_x_response_tagged.
      eapply ok_map.
      { apply ok_seq. regroup ((c :: r) ++ ([32] ++ (ws ++ (([32] ++ wt) ++ ([13; 10] ++ []))))).
        eapply (okseq_cons _ _ _ _ _ _ _ _ _ _ (stops_at cls_rfc3501_x_is_tag_char) any); [apply (ok_imap_tag (c :: r) _ Hne Ht0) | | intros; reflexivity].
        eapply (okseq_cons _ _ _ _ _ _ _ _ _ _ any any); [apply ok_tag | | intros; exact I].
        eapply (okseq_cons _ _ _ _ _ _ _ _ _ _ any any); [apply ok_status, Hs | | intros; exact I].
        eapply (okseq_cons _ _ _ _ _ _ _ _ _ _ at_cr any); [apply ok_trailing, Hrt | | intros; reflexivity].
        eapply (okseq_cons _ _ _ _ _ _ _ _ _ _ any any); [apply ok_tag | apply (okseq_nil _ _ _ _ any) | intros; exact I]. }
      reflexivity. }
  apply HOK; [| rewrite ?app_length; cbn [length]; lia | exact I].
  pose proof fuel_enough as Hf. apply N.leb_le in Hf. exact Hf.
Qed.
