(* M12 proofs: every RFC spelling (Spec.v) of a value is consumed exactly and parsed to exactly that value by the
   parser functions of the grammar regenerated from the source.  One lemma per parser function, composed from the
   combinator lemmas of RoundTrip.v over the generated G terms. *)
From TI Require Import Bytes Grammar Nom Interp InterpFacts Thm_Number Thm_Fuel Natives Proofs_C01 RoundTrip Spec.
From TI.gen Require Import ImapGrammar.
From Coq Require Import Lia.
Local Open Scope N_scope.

Notation OK := (Ok native_call env rk).
Notation REJ := (Rej native_call env rk).
Notation okref := (ok_ref native_call env rk rank_ok_all).
Notation rejref := (rej_ref native_call env rk rank_ok_all).

(* ---------------------------------------------------------------- the RFC classes are (contained in) the parser's *)
Definition all_bytes : list byte := map N.of_nat (seq 0 256).
Lemma in_all_bytes b : b < 256 -> In b all_bytes.
Proof.
  intro H. unfold all_bytes. apply in_map_iff. exists (N.to_nat b). split; [lia|]. apply in_seq. lia.
Qed.
Lemma sweep (P : byte -> bool) : forallb P all_bytes = true -> forall b, b < 256 -> P b = true.
Proof. intros H b Hb. rewrite forallb_forall in H. apply H, in_all_bytes, Hb. Qed.

Lemma rfc_char_small b : rfc_CHAR b = true -> b < 256.
Proof. unfold rfc_CHAR. intro H. apply andb_true_iff in H. destruct H as [_ H]. apply N.leb_le in H. lia. Qed.

Lemma astring_char_ok b : rfc_ASTRING_CHAR b = true -> cls_core_x_is_astring_char b = true.
Proof.
  intro H. assert (Hb : b < 256).
  { unfold rfc_ASTRING_CHAR, rfc_ATOM_CHAR, rfc_resp_specials in H. apply orb_true_iff in H. destruct H as [H|H].
    - apply andb_true_iff in H. destruct H as [H _]. apply rfc_char_small, H.
    - apply N.eqb_eq in H. lia. }
  revert H. apply (sweep (fun b => implb (rfc_ASTRING_CHAR b) (cls_core_x_is_astring_char b))) in Hb; [|vm_compute; reflexivity].
  destruct (rfc_ASTRING_CHAR b); [cbn in Hb; intros _; exact Hb | discriminate].
Qed.
Lemma quoted_plain_ok b : rfc_QUOTED_PLAIN b = true ->
  (cls_core_x_is_text_char b && negb (cls_core_x_is_quoted_specials b)) = true.
Proof.
  intro H. assert (Hb : b < 256).
  { unfold rfc_QUOTED_PLAIN, rfc_TEXT_CHAR in H. apply andb_true_iff in H. destruct H as [H _].
    apply andb_true_iff in H. destruct H as [H _]. apply andb_true_iff in H. destruct H as [H _]. apply rfc_char_small, H. }
  revert H. apply (sweep (fun b => implb (rfc_QUOTED_PLAIN b) (cls_core_x_is_text_char b && negb (cls_core_x_is_quoted_specials b)))) in Hb; [|vm_compute; reflexivity].
  destruct (rfc_QUOTED_PLAIN b); [cbn in Hb; intros _; exact Hb | discriminate].
Qed.
Lemma digit_ok b : rfc_DIGIT b = nom_is_digit b.
Proof. reflexivity. Qed.
Lemma char8_ok b : rfc_CHAR8 b = true -> negb (b =? 0) = true.
Proof.
  unfold rfc_CHAR8. intro H. apply andb_true_iff in H. destruct H as [H _]. apply N.leb_le in H.
  apply negb_true_iff, N.eqb_neq. lia.
Qed.

Lemma forallb_impl {A} (p q : A -> bool) l : (forall x, p x = true -> q x = true) -> forallb p l = true -> forallb q l = true.
Proof. intros H Hl. rewrite forallb_forall in *. intros x Hx. apply H, Hl, Hx. Qed.

Ltac app_norm := repeat rewrite <- app_assoc; rewrite ?app_nil_r; cbn [app]; reflexivity.
Ltac regroup t := match goal with |- OkSeq _ _ _ _ _ ?w _ _ => replace w with t by app_norm end.

(* ---------------------------------------------------------------- environment look-ups *)
Ltac env_lookup := vm_compute; reflexivity.
Lemma env_nil : env f_core_x_nil = Some def_core_x_nil. Proof. reflexivity. Qed.
Lemma env_number : env f_core_x_number = Some (Leaf (LNumber 32)). Proof. reflexivity. Qed.
Lemma env_number_64 : env f_core_x_number_64 = Some (Leaf (LNumber 64)). Proof. reflexivity. Qed.
Lemma env_literal : env f_core_x_literal = Some (Leaf LLiteral). Proof. reflexivity. Qed.
Lemma env_quoted : env f_core_x_quoted = Some def_core_x_quoted. Proof. reflexivity. Qed.
Lemma env_string : env f_core_x_string = Some def_core_x_string. Proof. reflexivity. Qed.
Lemma env_nstring : env f_core_x_nstring = Some def_core_x_nstring. Proof. reflexivity. Qed.
Lemma env_astring : env f_core_x_astring = Some def_core_x_astring. Proof. reflexivity. Qed.
Lemma env_address : env f_rfc3501_x_address = Some def_rfc3501_x_address. Proof. reflexivity. Qed.
Lemma env_opt_addresses : env f_rfc3501_x_opt_addresses = Some def_rfc3501_x_opt_addresses. Proof. reflexivity. Qed.
Lemma env_envelope : env f_rfc3501_x_envelope = Some def_rfc3501_x_envelope. Proof. reflexivity. Qed.

(* ---------------------------------------------------------------- tokens *)
Lemma ok_nil w d : enc_nil w -> OK (Ref f_core_x_nil DSame) d w (VBytes w) any.
Proof.
  intros [w' H]. apply (okref _ _ _ _ _ _ _ env_nil). unfold def_core_x_nil. apply ok_tag_nc. exact H.
Qed.

Lemma all_digits_of ds : forallb rfc_DIGIT ds = true -> all_digits ds.
Proof. intro H. unfold all_digits. apply Forall_forall. intros x Hx. rewrite forallb_forall in H. exact (H x Hx). Qed.

Lemma ok_number_leaf bits n w d : enc_number bits n w -> OK (Leaf (LNumber bits)) d w (VNum n) (stops_at nom_is_digit).
Proof.
  intros [ds Hne Hd Hlt]. apply ok_leaf. intros rest Hr. cbn [leaf_run].
  rewrite (number_exact_or_error_lemma bits ds rest Hne (all_digits_of ds Hd)).
  - apply N.ltb_lt in Hlt. rewrite Hlt. reflexivity.
  - destruct rest as [|c r]; [destruct Hr | exact Hr].
Qed.
Lemma ok_number n w d : enc_number 32 n w -> OK (Ref f_core_x_number DSame) d w (VNum n) (stops_at nom_is_digit).
Proof. intro H. apply (okref _ _ _ _ _ _ _ env_number). apply ok_number_leaf, H. Qed.
Lemma ok_number_64 n w d : enc_number 64 n w -> OK (Ref f_core_x_number_64 DSame) d w (VNum n) (stops_at nom_is_digit).
Proof. intro H. apply (okref _ _ _ _ _ _ _ env_number_64). apply ok_number_leaf, H. Qed.

(* quoted content without escapes: the escaped() scanner takes exactly the content and stops at the closing quote *)
Lemma esc_scan_plain normal ctl escs s c rest :
  forallb normal s = true -> normal c = false -> (c =? ctl) = false ->
  esc_scan normal ctl escs (s ++ c :: rest) = SOk s (c :: rest).
Proof.
  intros Hs Hc Hctl. induction s as [|x s IH]; cbn [app esc_scan].
  - rewrite Hc, Hctl. reflexivity.
  - cbn [forallb] in Hs. apply andb_true_iff in Hs. destruct Hs as [Hx Hs]. rewrite Hx, (IH Hs). reflexivity.
Qed.

Lemma ok_quoted s w d : enc_quoted s w -> OK (Ref f_core_x_quoted DSame) d w (VBytes s) any.
Proof.
  intros [s' Hs]. apply (okref _ _ _ _ _ _ _ env_quoted). unfold def_core_x_quoted.
  eapply ok_map.
  { apply ok_seq.
    (* "\"" content "\"" *)
    regroup ([34] ++ (s' ++ ([34] ++ []))).
    eapply (okseq_cons _ _ _ _ _ _ _ _ _ _ any any); [apply ok_tag | | intros; exact I].
    eapply (okseq_cons _ _ _ _ _ _ _ _ _ _ (fun rest => match rest with c :: _ => c = 34 | [] => False end) any).
    - (* the escaped leaf *)
      apply ok_leaf. intros rest Hr. cbn [leaf_run].
      destruct rest as [|c rest]; [destruct Hr|]. subst c.
      rewrite esc_scan_plain; [reflexivity | | reflexivity | reflexivity].
      apply (forallb_impl rfc_QUOTED_PLAIN); [apply quoted_plain_ok | exact Hs].
    - eapply (okseq_cons _ _ _ _ _ _ _ _ _ _ any any); [apply ok_tag | apply (okseq_nil _ _ _ _ any) | intros; exact I].
    - intros rest _. reflexivity. }
  reflexivity.
Qed.

Lemma ok_literal s w d : enc_literal s w -> OK (Ref f_core_x_literal DSame) d w (VBytes s) any.
Proof.
  intros [s' ds Hne Hd Hlen Hlt H8]. apply (okref _ _ _ _ _ _ _ env_literal).
  apply ok_leaf. intros rest _. cbn [leaf_run].
  pose proof (literal_exact_lemma ds s' rest Hne (all_digits_of ds Hd) Hlen Hlt) as L.
  assert (Hnz : Forall (fun b => b <> 0) s').
  { apply Forall_forall. intros x Hx. rewrite forallb_forall in H8. specialize (H8 x Hx). apply char8_ok in H8.
    apply negb_true_iff, N.eqb_neq in H8. exact H8. }
  specialize (L Hnz). unfold lit_header in L. cbn [app] in L |- *. repeat rewrite <- app_assoc in L |- *. cbn [app] in L |- *.
  transitivity (ROk rest (VBytes s') (nlen ds + 4 + nlen s')); [exact L|].
  f_equal. rewrite !nlen_spec. cbn [length]. rewrite !app_length. cbn [length]. lia.
Qed.

Lemma ok_string s w d : enc_string s w -> OK (Ref f_core_x_string DSame) d w (VBytes s) any.
Proof.
  intros [s' w' Hq | s' w' Hl]; apply (okref _ _ _ _ _ _ _ env_string); unfold def_core_x_string.
  - apply ok_alt_here. apply ok_quoted, Hq.
  - apply ok_alt_skip; [|apply ok_alt_here, ok_literal, Hl].
    (* quoted does not start with "{" *)
    intros rest _. destruct Hl as [s'' ds]. cbn [app].
    apply (rejref _ _ _ _ _ env_quoted). unfold def_core_x_quoted.
    apply rej_map, rej_seq_head, rej_tag. reflexivity.
Qed.

Lemma enc_string_head s w : enc_string s w -> exists c r, w = c :: r /\ (c = 34 \/ c = 123).
Proof.
  intros [s' w' [s'' H] | s' w' [s'' ds]]; cbn [app]; eexists _, _; (split; [reflexivity|]); [left | right]; reflexivity.
Qed.

Lemma ok_nstring v w d : enc_nstring v w -> OK (Ref f_core_x_nstring DSame) d w v any.
Proof.
  intros [w' Hn | s w' Hs]; apply (okref _ _ _ _ _ _ _ env_nstring); unfold def_core_x_nstring.
  - apply ok_alt_here. eapply ok_map. { apply ok_nil, Hn. } reflexivity.
  -
    apply ok_alt_skip.
    + (* NIL does not start with a quote or a brace *)
      intros rest _. destruct (enc_string_head s w' Hs) as (c & r & -> & Hc). cbn [app].
      apply rej_map. apply (rejref _ _ _ _ _ env_nil). unfold def_core_x_nil.
      destruct Hc as [-> | ->]; apply rej_tag_nc; reflexivity.
    + apply ok_alt_here. eapply ok_map. { apply ok_string, Hs. } reflexivity.
Qed.

Lemma ok_astring s w d : enc_astring s w -> OK (Ref f_core_x_astring DSame) d w (VBytes s) (stops_at cls_core_x_is_astring_char).
Proof.
  intros [s' Hne Hs | s' w' Hs]; apply (okref _ _ _ _ _ _ _ env_astring); unfold def_core_x_astring.
  - apply ok_alt_here. apply ok_take_while1; [|exact Hne].
    apply (forallb_impl rfc_ASTRING_CHAR); [apply astring_char_ok | exact Hs].
  - apply (Ok_follow _ _ _ _ _ _ _ any); [|intros; exact I]. apply ok_alt_skip; [|apply ok_alt_here, ok_string, Hs].
    intros rest _. destruct (enc_string_head s' w' Hs) as (c & r & -> & Hc). cbn [app].
    destruct Hc as [-> | ->]; apply rej_take_while1; reflexivity.
Qed.

(* ---------------------------------------------------------------- address *)
Lemma ok_address v w d : enc_address v w -> OK (Ref f_rfc3501_x_address DSame) d w v any.
Proof.
  intros [n a m h wn wa wm wh Hn Ha Hm Hh]. apply (okref _ _ _ _ _ _ _ env_address). unfold def_rfc3501_x_address.
  eapply ok_map.
  { apply ok_seq. unfold SPb.
    regroup ([40] ++ ((wn ++ ([32] ++ (wa ++ ([32] ++ (wm ++ ([32] ++ (wh ++ []))))))) ++ ([41] ++ []))).
    eapply (okseq_cons _ _ _ _ _ _ _ _ _ _ any any); [apply ok_tag | | intros; exact I].
    eapply (okseq_cons _ _ _ _ _ _ _ _ _ _ any any); [| | intros; exact I].
    - eapply ok_map.
      { apply ok_seq.
        eapply (okseq_cons _ _ _ _ _ _ _ _ _ _ any any); [apply ok_nstring, Hn | | intros; exact I].
        eapply (okseq_cons _ _ _ _ _ _ _ _ _ _ any any); [apply ok_tag | | intros; exact I].
        eapply (okseq_cons _ _ _ _ _ _ _ _ _ _ any any); [apply ok_nstring, Ha | | intros; exact I].
        eapply (okseq_cons _ _ _ _ _ _ _ _ _ _ any any); [apply ok_tag | | intros; exact I].
        eapply (okseq_cons _ _ _ _ _ _ _ _ _ _ any any); [apply ok_nstring, Hm | | intros; exact I].
        eapply (okseq_cons _ _ _ _ _ _ _ _ _ _ any any); [apply ok_tag | | intros; exact I].
        eapply (okseq_cons _ _ _ _ _ _ _ _ _ _ any any); [apply ok_nstring, Hh | apply (okseq_nil _ _ _ _ any) | intros; exact I]. }
      reflexivity.
    - eapply (okseq_cons _ _ _ _ _ _ _ _ _ _ any any); [apply ok_tag | apply (okseq_nil _ _ _ _ any) | intros; exact I]. }
  reflexivity.
Qed.

(* ---------------------------------------------------------------- address lists and the envelope *)
Lemma enc_address_head v w : enc_address v w -> exists r, w = 40 :: r.
Proof. intros [n a m h wn wa wm wh _ _ _ _]. cbn [app]. eexists. reflexivity. Qed.

Definition addr_item : G :=
  Map (mk_action (PTuple [PVar "p0"; PWild]) (AVar "p0")) (Seq [(Ref f_rfc3501_x_address DSame); (Opt (Leaf (LTag (bs " "))))]).

(* one address followed by an optional space, when what follows is "(" (next address) or ")" *)
Definition after_addr (rest : list byte) : Prop := match rest with c :: _ => c = 40 \/ c = 41 | [] => False end.

Lemma ok_addr_item_nosp v w d : enc_address v w -> OK addr_item d w v after_addr.
Proof.
  intro H. unfold addr_item. eapply ok_map.
  { apply ok_seq. regroup (w ++ ([] ++ [])).
    eapply (okseq_cons _ _ _ _ _ _ _ _ _ _ any after_addr); [apply ok_address, H | | intros; exact I].
    eapply (okseq_cons _ _ _ _ _ _ _ _ _ _ after_addr after_addr); [| apply (okseq_nil _ _ _ _ after_addr) | intros r Hr; exact Hr].
    apply ok_opt_none. intros rest Hr. destruct rest as [|c r]; [destruct Hr|].
    apply rej_tag. destruct Hr as [-> | ->]; reflexivity. }
  reflexivity.
Qed.
Lemma ok_addr_item_sp v w d : enc_address v w -> OK addr_item d (w ++ SPb) v any.
Proof.
  intro H. unfold addr_item. eapply ok_map.
  { apply ok_seq. regroup (w ++ (SPb ++ [])).
    eapply (okseq_cons _ _ _ _ _ _ _ _ _ _ any any); [apply ok_address, H | | intros; exact I].
    eapply (okseq_cons _ _ _ _ _ _ _ _ _ _ any any); [| apply (okseq_nil _ _ _ _ any) | intros; exact I].
    apply ok_opt_some. apply ok_tag. }
  reflexivity.
Qed.

Lemma rej_addr_item_close d rest : REJ addr_item d (41 :: rest).
Proof.
  unfold addr_item. apply rej_map, rej_seq_head.
  apply (fails_on_byte native_call env rk rank_ok_all 6). vm_compute. reflexivity.
Qed.

Lemma addr_seq_nonempty l w : enc_addr_seq l w -> exists r, w = 40 :: r.
Proof.
  intros [a w' H | a l' w' ws sp H _ _]; destruct (enc_address_head _ _ H) as [r ->]; cbn [app]; eexists; reflexivity.
Qed.

Lemma okmany_addrs : forall l w d, enc_addr_seq l w -> 
  OkMany native_call env rk addr_item d w l (fun rest => match rest with c :: _ => c = 41 | [] => False end).
Proof.
  intros l w d H. induction H as [a w Ha | a l w ws sp Ha Hl IH Hsp].
  - replace w with (w ++ []) by apply app_nil_r.
    eapply (okmany_cons _ _ _ _ _ _ _ _ _ after_addr).
    + apply ok_addr_item_nosp, Ha.
    + destruct (enc_address_head _ _ Ha) as [r ->]. discriminate.
    + apply okmany_nil. intros rest Hr. destruct rest as [|c r]; [destruct Hr|]. subst c. apply rej_addr_item_close.
    + intros rest Hr. destruct rest as [|c r]; [destruct Hr|]. subst c. right. reflexivity.
  - destruct Hsp as [-> | ->].
    + cbn [app]. eapply (okmany_cons _ _ _ _ _ _ _ _ _ after_addr).
      * apply ok_addr_item_nosp, Ha.
      * destruct (enc_address_head _ _ Ha) as [r ->]. discriminate.
      * exact IH.
      * intros rest _. destruct (addr_seq_nonempty _ _ Hl) as [r ->]. left. reflexivity.
    + rewrite app_assoc. eapply (okmany_cons _ _ _ _ _ _ _ _ _ any).
      * apply ok_addr_item_sp, Ha.
      * destruct (enc_address_head _ _ Ha) as [r ->]. discriminate.
      * exact IH.
      * intros; exact I.
Qed.

Definition closes (rest : list byte) : Prop := match rest with c :: _ => c = 41 | [] => False end.

Lemma ok_many1_addrs l w d : enc_addr_seq l w -> OK (Many1 addr_item) d w (VList l) closes.
Proof.
  intros [a w0 Ha | a l0 w0 ws sp Ha Hl Hsp].
  - replace w0 with (w0 ++ []) by apply app_nil_r.
    eapply (ok_many1 _ _ _ _ _ _ _ _ _ after_addr).
    + apply ok_addr_item_nosp, Ha.
    + apply okmany_nil. intros rest Hr. destruct rest as [|c r]; [destruct Hr|]. cbn in Hr. subst c. apply rej_addr_item_close.
    + intros rest Hr. destruct rest as [|c r]; [destruct Hr|]. cbn in Hr. subst c. right. reflexivity.
  - destruct Hsp as [-> | ->].
    + cbn [app]. eapply (ok_many1 _ _ _ _ _ _ _ _ _ after_addr).
      * apply ok_addr_item_nosp, Ha.
      * apply okmany_addrs, Hl.
      * intros rest _. destruct (addr_seq_nonempty _ _ Hl) as [r ->]. left. reflexivity.
    + rewrite app_assoc. eapply (ok_many1 _ _ _ _ _ _ _ _ _ any).
      * apply ok_addr_item_sp, Ha.
      * apply okmany_addrs, Hl.
      * intros; exact I.
Qed.

Lemma ok_opt_addresses v w d : enc_addr_list v w -> OK (Ref f_rfc3501_x_opt_addresses DSame) d w v any.
Proof.
  intros [w' Hn | l w' Hl]; apply (okref _ _ _ _ _ _ _ env_opt_addresses); unfold def_rfc3501_x_opt_addresses.
  - apply ok_alt_here. eapply ok_map. { apply ok_nil, Hn. } reflexivity.
  - apply ok_alt_skip.
    + intros rest _. cbn [app]. apply rej_map. apply (rejref _ _ _ _ _ env_nil). unfold def_core_x_nil. apply rej_tag_nc. reflexivity.
    + apply ok_alt_here. eapply ok_map.
      { eapply ok_map.
        { apply ok_seq. regroup ([40] ++ (w' ++ ([41] ++ []))).
          eapply (okseq_cons _ _ _ _ _ _ _ _ _ _ any any); [apply ok_tag | | intros; exact I].
          eapply (okseq_cons _ _ _ _ _ _ _ _ _ _ closes any).
          - apply (ok_many1_addrs l w' d Hl).
          - eapply (okseq_cons _ _ _ _ _ _ _ _ _ _ any any); [apply ok_tag | apply (okseq_nil _ _ _ _ any) | intros; exact I].
          - intros rest _. reflexivity. }
        reflexivity. }
      reflexivity.
Qed.

Lemma ok_envelope v w d : enc_envelope v w -> OK (Ref f_rfc3501_x_envelope DSame) d w v any.
Proof.
  intros [date subject from sender reply_to to cc bcc in_reply_to message_id w1 w2 w3 w4 w5 w6 w7 w8 w9 w10 H1 H2 H3 H4 H5 H6 H7 H8 H9 H10].
  apply (okref _ _ _ _ _ _ _ env_envelope). unfold def_rfc3501_x_envelope.
  eapply ok_map.
  { apply ok_seq. unfold SPb.
    regroup ([40] ++ ((w1 ++ ([32] ++ (w2 ++ ([32] ++ (w3 ++ ([32] ++ (w4 ++ ([32] ++ (w5 ++ ([32] ++ (w6 ++ ([32] ++ (w7 ++ ([32] ++ (w8 ++ ([32] ++ (w9 ++ ([32] ++ (w10 ++ []))))))))))))))))))) ++ ([41] ++ []))).
    eapply (okseq_cons _ _ _ _ _ _ _ _ _ _ any any); [apply ok_tag | | intros; exact I].
    eapply (okseq_cons _ _ _ _ _ _ _ _ _ _ any any); [| | intros; exact I].
    - eapply ok_map.
      { apply ok_seq.
        eapply (okseq_cons _ _ _ _ _ _ _ _ _ _ any any); [apply ok_nstring, H1 | | intros; exact I].
        eapply (okseq_cons _ _ _ _ _ _ _ _ _ _ any any); [apply ok_tag | | intros; exact I].
        eapply (okseq_cons _ _ _ _ _ _ _ _ _ _ any any); [apply ok_nstring, H2 | | intros; exact I].
        eapply (okseq_cons _ _ _ _ _ _ _ _ _ _ any any); [apply ok_tag | | intros; exact I].
        eapply (okseq_cons _ _ _ _ _ _ _ _ _ _ any any); [apply ok_opt_addresses, H3 | | intros; exact I].
        eapply (okseq_cons _ _ _ _ _ _ _ _ _ _ any any); [apply ok_tag | | intros; exact I].
        eapply (okseq_cons _ _ _ _ _ _ _ _ _ _ any any); [apply ok_opt_addresses, H4 | | intros; exact I].
        eapply (okseq_cons _ _ _ _ _ _ _ _ _ _ any any); [apply ok_tag | | intros; exact I].
        eapply (okseq_cons _ _ _ _ _ _ _ _ _ _ any any); [apply ok_opt_addresses, H5 | | intros; exact I].
        eapply (okseq_cons _ _ _ _ _ _ _ _ _ _ any any); [apply ok_tag | | intros; exact I].
        eapply (okseq_cons _ _ _ _ _ _ _ _ _ _ any any); [apply ok_opt_addresses, H6 | | intros; exact I].
        eapply (okseq_cons _ _ _ _ _ _ _ _ _ _ any any); [apply ok_tag | | intros; exact I].
        eapply (okseq_cons _ _ _ _ _ _ _ _ _ _ any any); [apply ok_opt_addresses, H7 | | intros; exact I].
        eapply (okseq_cons _ _ _ _ _ _ _ _ _ _ any any); [apply ok_tag | | intros; exact I].
        eapply (okseq_cons _ _ _ _ _ _ _ _ _ _ any any); [apply ok_opt_addresses, H8 | | intros; exact I].
        eapply (okseq_cons _ _ _ _ _ _ _ _ _ _ any any); [apply ok_tag | | intros; exact I].
        eapply (okseq_cons _ _ _ _ _ _ _ _ _ _ any any); [apply ok_nstring, H9 | | intros; exact I].
        eapply (okseq_cons _ _ _ _ _ _ _ _ _ _ any any); [apply ok_tag | | intros; exact I].
        eapply (okseq_cons _ _ _ _ _ _ _ _ _ _ any any); [apply ok_nstring, H10 | apply (okseq_nil _ _ _ _ any) | intros; exact I]. }
      reflexivity.
    - eapply (okseq_cons _ _ _ _ _ _ _ _ _ _ any any); [apply ok_tag | apply (okseq_nil _ _ _ _ any) | intros; exact I]. }
  reflexivity.
Qed.

(* ---------------------------------------------------------------- FETCH data items *)
Lemma env_msg_att : env f_rfc3501_x_msg_att = Some def_rfc3501_x_msg_att. Proof. reflexivity. Qed.
Lemma env_att_envelope : env f_rfc3501_x_msg_att_envelope = Some def_rfc3501_x_msg_att_envelope. Proof. reflexivity. Qed.
Lemma env_att_uid : env f_rfc3501_x_msg_att_uid = Some def_rfc3501_x_msg_att_uid. Proof. reflexivity. Qed.
Lemma env_att_size : env f_rfc3501_x_msg_att_rfc822_size = Some def_rfc3501_x_msg_att_rfc822_size. Proof. reflexivity. Qed.
Lemma env_att_rfc822 : env f_rfc3501_x_msg_att_rfc822 = Some def_rfc3501_x_msg_att_rfc822. Proof. reflexivity. Qed.
Lemma env_att_text : env f_rfc3501_x_msg_att_rfc822_text = Some def_rfc3501_x_msg_att_rfc822_text. Proof. reflexivity. Qed.
Lemma env_att_header : env f_rfc3501_x_msg_att_rfc822_header = Some def_rfc3501_x_msg_att_rfc822_header. Proof. reflexivity. Qed.
Lemma env_att_modseq : env f_rfc4551_x_msg_att_mod_seq = Some def_rfc4551_x_msg_att_mod_seq. Proof. reflexivity. Qed.
Lemma env_att_msgid : env f_gmail_x_msg_att_gmail_msgid = Some def_gmail_x_msg_att_gmail_msgid. Proof. reflexivity. Qed.
Lemma env_gmail_msgid : env f_gmail_x_gmail_msgid = Some def_gmail_x_gmail_msgid. Proof. reflexivity. Qed.
Lemma env_att_list : env f_rfc3501_x_msg_att_list = Some def_rfc3501_x_msg_att_list. Proof. reflexivity. Qed.
Lemma env_fetch : env f_rfc3501_x_message_data_fetch = Some def_rfc3501_x_message_data_fetch. Proof. reflexivity. Qed.
Lemma env_response_data : env f_rfc3501_x_response_data = Some def_rfc3501_x_response_data. Proof. reflexivity. Qed.

Definition proj12 : action := mk_action (PTuple [PWild; PVar "p1"]) (AVar "p1").

(* keyword (any case) followed by one parser: the common shape of data items *)
Lemma ok_kw2 s k X d w v (F : list byte -> Prop) : same_nocase s k = true -> OK X d w v F ->
  OK (Map proj12 (Seq [Leaf (LTagNC s); X])) d (k ++ w) v F.
Proof.
  intros Hk HX. eapply ok_map.
  { apply ok_seq. regroup (k ++ (w ++ [])).
    eapply (okseq_cons _ _ _ _ _ _ _ _ _ _ any F); [apply ok_tag_nc, Hk | | intros; exact I].
    eapply (okseq_cons _ _ _ _ _ _ _ _ _ _ F F); [exact HX | apply (okseq_nil _ _ _ _ F) | intros r Hr; exact Hr]. }
  reflexivity.
Qed.

Definition nodigit : list byte -> Prop := stops_at nom_is_digit.

Lemma enc_nstring_head v w : enc_nstring v w -> exists c r, w = c :: r /\ (c =? 32) = false.
Proof.
  intros [w' [w'' Hk] | s w' Hs].
  - unfold kw in Hk. destruct w'' as [|c r]; [discriminate|]. exists c, r. split; [reflexivity|].
    cbn [bs same_nocase] in Hk. apply andb_true_iff in Hk. destruct Hk as [Hc _].
    destruct (lower_variants _ _ Hc) as [<- | [<- | []]]; reflexivity.
  - destruct (enc_string_head s w' Hs) as (c & r & -> & [-> | ->]); eexists _, _; (split; [reflexivity|]); reflexivity.
Qed.

(* the alternatives of msg_att in front of the one that matches are rejected by their leading keyword *)
Lemma skip_kw g gs K k w v (F : list byte -> Prop) d :
  same_nocase K k = true -> fails_on env 8 g K = true -> OK (Alt gs) d (k ++ w) v F -> OK (Alt (g :: gs)) d (k ++ w) v F.
Proof.
  intros Hk Hf H. apply ok_alt_skip; [|exact H]. intros rest _. rewrite <- app_assoc.
  apply (fails_on_sound native_call env rk rank_ok_all 8 g K Hf). exact Hk.
Qed.

Ltac skip K Hk := apply (skip_kw _ _ (bs K) _ _ _ _ _ Hk); [vm_compute; reflexivity|].

Lemma ok_msg_att v w d : enc_msg_att v w -> OK (Ref f_rfc3501_x_msg_att DSame) d w v nodigit.
Proof.
  intro H. apply (okref _ _ _ _ _ _ _ env_msg_att). unfold def_rfc3501_x_msg_att.
  destruct H as [k e w Hk He | k n w Hk Hn | k n w Hk Hn | k v w Hk Hv | k v w Hk Hv | k v w sp Hk Hv Hsp | k n w Hk Hn | k n w Hk Hn];
    unfold kw in Hk.
  - (* ENVELOPE *)
    do 3 skip "ENVELOPE "%string Hk. apply ok_alt_here. apply (Ok_follow _ _ _ _ _ _ _ any); [|intros; exact I].
    apply (okref _ _ _ _ _ _ _ env_att_envelope). unfold def_rfc3501_x_msg_att_envelope.
    eapply ok_map. { apply (ok_kw2 _ _ _ _ _ _ any Hk). apply ok_envelope, He. } reflexivity.
  - (* UID *)
    do 11 skip "UID "%string Hk. apply ok_alt_here.
    apply (okref _ _ _ _ _ _ _ env_att_uid). unfold def_rfc3501_x_msg_att_uid.
    eapply ok_map. { apply (ok_kw2 _ _ _ _ _ _ nodigit Hk). apply ok_number, Hn. } reflexivity.
  - (* RFC822.SIZE *)
    do 9 skip "RFC822.SIZE "%string Hk. apply ok_alt_here.
    apply (okref _ _ _ _ _ _ _ env_att_size). unfold def_rfc3501_x_msg_att_rfc822_size.
    eapply ok_map. { apply (ok_kw2 _ _ _ _ _ _ nodigit Hk). apply ok_number, Hn. } reflexivity.
  - (* RFC822 *)
    do 7 skip "RFC822 "%string Hk. apply ok_alt_here. apply (Ok_follow _ _ _ _ _ _ _ any); [|intros; exact I].
    apply (okref _ _ _ _ _ _ _ env_att_rfc822). unfold def_rfc3501_x_msg_att_rfc822.
    eapply ok_map. { apply (ok_kw2 _ _ _ _ _ _ any Hk). apply ok_nstring, Hv. } reflexivity.
  - (* RFC822.TEXT *)
    do 10 skip "RFC822.TEXT "%string Hk. apply ok_alt_here. apply (Ok_follow _ _ _ _ _ _ _ any); [|intros; exact I].
    apply (okref _ _ _ _ _ _ _ env_att_text). unfold def_rfc3501_x_msg_att_rfc822_text.
    eapply ok_map. { apply (ok_kw2 _ _ _ _ _ _ any Hk). apply ok_nstring, Hv. } reflexivity.
  - (* RFC822.HEADER, with or without the doubled space *)
    do 8 skip "RFC822.HEADER "%string Hk. apply ok_alt_here. apply (Ok_follow _ _ _ _ _ _ _ any); [|intros; exact I].
    apply (okref _ _ _ _ _ _ _ env_att_header). unfold def_rfc3501_x_msg_att_rfc822_header.
    destruct Hsp as [-> | ->].
    + destruct (enc_nstring_head _ _ Hv) as (c & r & Ew & Hc).
      eapply ok_map.
      { apply ok_seq. regroup (k ++ ([] ++ (w ++ []))).
        eapply (okseq_cons _ _ _ _ _ _ _ _ _ _ any any); [apply ok_tag_nc, Hk | | intros; exact I].
        eapply (okseq_cons _ _ _ _ _ _ _ _ _ _ (fun rest => match rest with x :: _ => (x =? 32) = false | [] => False end) any).
        - apply ok_opt_none. intros rest Hr. destruct rest as [|x rr]; [destruct Hr|]. apply rej_tag. rewrite N.eqb_sym. exact Hr.
        - eapply (okseq_cons _ _ _ _ _ _ _ _ _ _ any any); [apply ok_nstring, Hv | apply (okseq_nil _ _ _ _ any) | intros; exact I].
        - intros rest _. rewrite Ew. cbn [app]. exact Hc. }
      reflexivity.
    + eapply ok_map.
      { apply ok_seq. regroup (k ++ (SPb ++ (w ++ []))).
        eapply (okseq_cons _ _ _ _ _ _ _ _ _ _ any any); [apply ok_tag_nc, Hk | | intros; exact I].
        eapply (okseq_cons _ _ _ _ _ _ _ _ _ _ any any); [apply ok_opt_some, ok_tag | | intros; exact I].
        eapply (okseq_cons _ _ _ _ _ _ _ _ _ _ any any); [apply ok_nstring, Hv | apply (okseq_nil _ _ _ _ any) | intros; exact I]. }
      reflexivity.
  - (* MODSEQ (n) *)
    do 6 skip "MODSEQ "%string Hk. apply ok_alt_here. apply (Ok_follow _ _ _ _ _ _ _ any); [|intros; exact I].
    apply (okref _ _ _ _ _ _ _ env_att_modseq). unfold def_rfc4551_x_msg_att_mod_seq.
    eapply ok_map.
    { apply ok_seq. regroup (k ++ (([40] ++ (w ++ ([41] ++ []))) ++ [])).
      eapply (okseq_cons _ _ _ _ _ _ _ _ _ _ any any); [apply ok_tag_nc, Hk | | intros; exact I].
      eapply (okseq_cons _ _ _ _ _ _ _ _ _ _ any any); [| apply (okseq_nil _ _ _ _ any) | intros; exact I].
      eapply ok_map.
      { apply ok_seq.
        eapply (okseq_cons _ _ _ _ _ _ _ _ _ _ any any); [apply ok_tag | | intros; exact I].
        eapply (okseq_cons _ _ _ _ _ _ _ _ _ _ nodigit any); [apply ok_number_64, Hn | | intros rest _; reflexivity].
        eapply (okseq_cons _ _ _ _ _ _ _ _ _ _ any any); [apply ok_tag | apply (okseq_nil _ _ _ _ any) | intros; exact I]. }
      reflexivity. }
    reflexivity.
  - (* X-GM-MSGID *)
    do 13 skip "X-GM-MSGID "%string Hk. apply ok_alt_here.
    apply (okref _ _ _ _ _ _ _ env_att_msgid). unfold def_gmail_x_msg_att_gmail_msgid.
    eapply ok_map.
    { apply (okref _ _ _ _ _ _ _ env_gmail_msgid). unfold def_gmail_x_gmail_msgid.
      apply (ok_kw2 _ _ _ _ _ _ nodigit Hk). apply ok_number_64, Hn. }
    reflexivity.
Qed.

(* ---------------------------------------------------------------- the FETCH response, up to the entry point *)
Lemma oksep_atts l ws d : enc_att_more l ws ->
  OkSep native_call env rk (Leaf (LTag (bs " "))) (Ref f_rfc3501_x_msg_att DSame) d ws l closes.
Proof.
  intro H. induction H as [| a l w ws Ha Hl IH].
  - apply oksep_nil. intros rest Hr. destruct rest as [|c r]; [destruct Hr|]. cbn in Hr. subst c. apply rej_tag. reflexivity.
  - unfold SPb. eapply (oksep_cons _ _ _ _ _ _ _ _ _ _ _ _ any nodigit closes).
    + apply ok_tag.
    + discriminate.
    + apply ok_msg_att, Ha.
    + exact IH.
    + intros rest Hr. destruct Hl; cbn [app].
      * destruct rest as [|c r]; [destruct Hr|]. cbn in Hr. subst c. reflexivity.
      * reflexivity.
    + intros; exact I.
Qed.

Lemma ok_att_list a l wa wl d : enc_msg_att a wa -> enc_att_more l wl ->
  OK (Ref f_rfc3501_x_msg_att_list DSame) d ([40] ++ wa ++ wl ++ [41]) (VList (a :: l)) any.
Proof.
  intros Ha Hl. apply (okref _ _ _ _ _ _ _ env_att_list). unfold def_rfc3501_x_msg_att_list.
  eapply ok_map.
  { apply ok_seq. regroup ([40] ++ ((wa ++ wl) ++ ([41] ++ []))).
    eapply (okseq_cons _ _ _ _ _ _ _ _ _ _ any any); [apply ok_tag | | intros; exact I].
    eapply (okseq_cons _ _ _ _ _ _ _ _ _ _ closes any).
    - eapply (ok_seplist1 _ _ _ _ _ _ _ _ _ _ nodigit closes).
      + apply ok_msg_att, Ha.
      + apply oksep_atts, Hl.
      + intros rest Hr. destruct Hl; cbn [app].
        * destruct rest as [|c r]; [destruct Hr|]. cbn in Hr. subst c. reflexivity.
        * reflexivity.
    - eapply (okseq_cons _ _ _ _ _ _ _ _ _ _ any any); [apply ok_tag | apply (okseq_nil _ _ _ _ any) | intros; exact I].
    - intros rest _. reflexivity. }
  reflexivity.
Qed.

Lemma kw_space_first K k : same_nocase (32 :: K) k = true -> exists r, k = 32 :: r.
Proof.
  destruct k as [|c r]; [discriminate|]. cbn [same_nocase]. intro H. apply andb_true_iff in H. destruct H as [H _].
  destruct (lower_variants _ _ H) as [<- | []]. exists r. reflexivity.
Qed.

Lemma ok_fetch_data n wn k a wa l wl d :
  enc_number 32 n wn -> kw " FETCH " k -> enc_msg_att a wa -> enc_att_more l wl ->
  OK (Ref f_rfc3501_x_message_data_fetch DSame) d (wn ++ k ++ [40] ++ wa ++ wl ++ [41])
     (VCon "Response::Fetch" [VNum n; VList (a :: l)]) any.
Proof.
  intros Hn Hk Ha Hl. apply (okref _ _ _ _ _ _ _ env_fetch). unfold def_rfc3501_x_message_data_fetch.
  destruct (kw_space_first _ _ Hk) as [r Ek].
  eapply ok_map.
  { apply ok_seq. regroup (wn ++ (k ++ (([40] ++ wa ++ wl ++ [41]) ++ []))).
    eapply (okseq_cons _ _ _ _ _ _ _ _ _ _ nodigit any); [apply ok_number, Hn | | intros rest _; rewrite Ek; reflexivity].
    eapply (okseq_cons _ _ _ _ _ _ _ _ _ _ any any); [apply ok_tag_nc, Hk | | intros; exact I].
    eapply (okseq_cons _ _ _ _ _ _ _ _ _ _ any any); [apply (ok_att_list a l wa wl _ Ha Hl) | apply (okseq_nil _ _ _ _ any) | intros; exact I]. }
  reflexivity.
Qed.

(* alternatives of the shape `number KEYWORD` reject `number " FETCH "` *)
Lemma rej_num_kw s n wn K k rest d :
  enc_number 32 n wn -> same_nocase (32 :: K) k = true -> nocase_mismatch s (32 :: K) = true ->
  REJ (Seq [Ref f_core_x_number DSame; Leaf (LTagNC s)]) d (wn ++ k ++ rest).
Proof.
  intros Hn Hk Hm. destruct (kw_space_first _ _ Hk) as [r Ek].
  eapply (rej_seq_after _ _ _ _ _ _ _ _ nodigit).
  - apply ok_number, Hn.
  - rewrite Ek. reflexivity.
  - apply rejseq_head. intros b f Hf Hb. destruct f as [|f]; [cbn [need] in Hf; lia|]. rewrite run_S. cbn [step leaf_run].
    rewrite (nocase_mismatch_scan eq_nocase1 s (32 :: K) k rest (or_intror eq_refl) Hm Hk). reflexivity.
Qed.

Definition digits10 : list byte := [48; 49; 50; 51; 52; 53; 54; 55; 56; 57].
Lemma rej_on_digit g : forallb (fun c => fails_on env 8 g [c]) digits10 = true ->
  forall c i d, nom_is_digit c = true -> REJ g d (c :: i).
Proof.
  intros H c i d Hc. rewrite forallb_forall in H. apply (fails_on_byte native_call env rk rank_ok_all 8). apply H.
  unfold nom_is_digit in Hc. apply andb_true_iff in Hc. destruct Hc as [A B]. apply N.leb_le in A, B.
  assert (Hc : c = 48 \/ c = 49 \/ c = 50 \/ c = 51 \/ c = 52 \/ c = 53 \/ c = 54 \/ c = 55 \/ c = 56 \/ c = 57) by lia.
  unfold digits10. cbn [In]. intuition.
Qed.

Lemma enc_number_head bits n w : enc_number bits n w -> exists c r, w = c :: r /\ nom_is_digit c = true.
Proof.
  intros [ds Hne Hd _]. destruct ds as [|c r]; [contradiction|]. exists c, r. split; [reflexivity|].
  cbn [forallb] in Hd. apply andb_true_iff in Hd. exact (proj1 Hd).
Qed.

Lemma env_mailbox_data : env f_rfc3501_x_mailbox_data = Some def_rfc3501_x_mailbox_data. Proof. reflexivity. Qed.
Lemma env_md_exists : env f_rfc3501_x_mailbox_data_exists = Some def_rfc3501_x_mailbox_data_exists. Proof. reflexivity. Qed.
Lemma env_md_recent : env f_rfc3501_x_mailbox_data_recent = Some def_rfc3501_x_mailbox_data_recent. Proof. reflexivity. Qed.
Lemma env_expunge : env f_rfc3501_x_message_data_expunge = Some def_rfc3501_x_message_data_expunge. Proof. reflexivity. Qed.
Lemma env_parse_response : env f_parser_x_parse_response = Some def_parser_x_parse_response. Proof. reflexivity. Qed.

Lemma rej_mailbox_data_on_fetch n wn k rest d : enc_number 32 n wn -> kw " FETCH " k ->
  REJ (Ref f_rfc3501_x_mailbox_data DSame) d (wn ++ k ++ rest).
Proof.
  intros Hn Hk. apply (rejref _ _ _ _ _ env_mailbox_data). unfold def_rfc3501_x_mailbox_data.
  destruct (enc_number_head _ _ _ Hn) as (c & r & Ew & Hc).
  assert (Hdig : forall g, forallb (fun c => fails_on env 8 g [c]) digits10 = true -> REJ g (apply_darg DSame d) (wn ++ k ++ rest)).
  { intros g Hg. rewrite Ew. cbn [app]. apply rej_on_digit; assumption. }
  apply rej_alt_cons; [apply Hdig; vm_compute; reflexivity|].
  apply rej_alt_cons.
  { apply (rejref _ _ _ _ _ env_md_exists). unfold def_rfc3501_x_mailbox_data_exists. apply rej_map, rej_map.
    apply (rej_num_kw _ _ _ (bs "FETCH ") _ _ _ Hn Hk). vm_compute. reflexivity. }
  do 3 (apply rej_alt_cons; [apply Hdig; vm_compute; reflexivity|]).
  apply rej_alt_cons.
  { apply (rejref _ _ _ _ _ env_md_recent). unfold def_rfc3501_x_mailbox_data_recent. apply rej_map, rej_map.
    apply (rej_num_kw _ _ _ (bs "FETCH ") _ _ _ Hn Hk). vm_compute. reflexivity. }
  do 4 (apply rej_alt_cons; [apply Hdig; vm_compute; reflexivity|]).
  apply rej_alt_nil.
Qed.

Definition trailer : G := Map proj12 (Seq [(Many0 (Leaf (LTag (bs " ")))); (Leaf (LTag [13; 10]))]).

Lemma ok_trailer sp d : enc_spaces sp -> exists vs, OK trailer d (sp ++ [13; 10]) (VBytes [13; 10]) any /\ vs = tt.
Proof.
  intro H. exists tt. split; [|reflexivity].
  assert (Hm : exists l, OkMany native_call env rk (Leaf (LTag (bs " "))) d sp l (fun rest => match rest with c :: _ => c = 13 | [] => False end)).
  { induction H as [| w Hw [l IH]].
    - exists []. apply okmany_nil. intros rest Hr. destruct rest as [|c r]; [destruct Hr|]. subst c. apply rej_tag. reflexivity.
    - eexists. change (32 :: w) with ([32] ++ w). eapply (okmany_cons _ _ _ _ _ _ _ _ _ any).
      + apply ok_tag.
      + discriminate.
      + exact IH.
      + intros; exact I. }
  destruct Hm as [l Hm]. unfold trailer. eapply ok_map.
  { apply ok_seq. regroup (sp ++ ([13; 10] ++ [])).
    eapply (okseq_cons _ _ _ _ _ _ _ _ _ _ (fun rest => match rest with c :: _ => c = 13 | [] => False end) any).
    - apply ok_many0. exact Hm.
    - eapply (okseq_cons _ _ _ _ _ _ _ _ _ _ any any); [apply ok_tag | apply (okseq_nil _ _ _ _ any) | intros; exact I].
    - intros rest _. reflexivity. }
  reflexivity.
Qed.

Theorem fetch_roundtrip v w : enc_fetch v w -> forall rest, parse (w ++ rest) = ROk rest v (nlen w).
Proof.
  intros [n wn k a wa l wl sp Hn Hk Ha Hl Hsp] rest. unfold parse.
  assert (HOK : OK def_parser_x_parse_response 0%nat (bs "* " ++ wn ++ k ++ [40] ++ wa ++ wl ++ [41] ++ sp ++ [13; 10])
                   (VCon "Response::Fetch" [VNum n; VList (a :: l)]) any).
  { unfold def_parser_x_parse_response.
    (* "+" ... *)
    apply ok_alt_skip.
    { intros r _. cbn [bs N_of_ascii app]. apply (fails_on_byte native_call env rk rank_ok_all 8). vm_compute. reflexivity. }
    apply ok_alt_here. apply (okref _ _ _ _ _ _ _ env_response_data). unfold def_rfc3501_x_response_data.
    destruct (ok_trailer sp (apply_darg DSame 0%nat) Hsp) as (_ & Htr & _).
    destruct (enc_number_head _ _ _ Hn) as (c & r & Ew & Hc).
    eapply ok_map.
    { apply ok_seq. regroup (bs "* " ++ ((wn ++ k ++ [40] ++ wa ++ wl ++ [41]) ++ ((sp ++ [13; 10]) ++ []))).
      eapply (okseq_cons _ _ _ _ _ _ _ _ _ _ any any); [apply ok_tag | | intros; exact I].
      eapply (okseq_cons _ _ _ _ _ _ _ _ _ _ any any); [| | intros; exact I].
      - (* resp_cond, mailbox data, expunge are rejected; then FETCH *)
        apply ok_alt_skip.
        { intros r0 _. rewrite Ew. cbn [app]. apply rej_on_digit; [vm_compute; reflexivity | exact Hc]. }
        apply ok_alt_skip.
        { intros r0 _. apply rej_map. repeat rewrite <- app_assoc. apply (rej_mailbox_data_on_fetch n wn k _ _ Hn Hk). }
        apply ok_alt_skip.
        { intros r0 _. apply rej_map. apply (rejref _ _ _ _ _ env_expunge). unfold def_rfc3501_x_message_data_expunge.
          apply rej_map. repeat rewrite <- app_assoc.
          apply (rej_num_kw _ _ _ (bs "FETCH ") _ _ _ Hn Hk). vm_compute. reflexivity. }
        apply ok_alt_here. apply (ok_fetch_data n wn k a wa l wl _ Hn Hk Ha Hl).
      - eapply (okseq_cons _ _ _ _ _ _ _ _ _ _ any any); [exact Htr | apply (okseq_nil _ _ _ _ any) | intros; exact I]. }
    reflexivity. }
  apply HOK; [| rewrite ?app_length; cbn [length]; lia | exact I].
  pose proof fuel_enough as Hf. apply N.leb_le in Hf. exact Hf.
Qed.
