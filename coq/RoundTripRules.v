(* M12 proofs, third part: message attributes and everything above them, up to the entry point.  The first part
   (tokens, addresses, envelope, flags) is RoundTripBase.v, the second (body structures) RoundTripBody.v. *)
From TI Require Import Bytes Grammar Nom Interp InterpFacts Thm_Number Thm_Fuel Natives Proofs_C01 RoundTrip Spec.
From TI Require Export RoundTripBase RoundTripBody.
From TI Require Import IdMap EntryNames.
From TI.gen Require Import ImapGrammar.
From Coq Require Import Lia Arith PeanoNat.
Local Open Scope N_scope.

Lemma env_msg_att : env f_rfc3501_x_msg_att = Some def_rfc3501_x_msg_att. Proof. reflexivity. Qed.
Lemma env_att_envelope : env f_rfc3501_x_msg_att_envelope = Some def_rfc3501_x_msg_att_envelope. Proof. reflexivity. Qed.
Lemma env_att_uid : env f_rfc3501_x_msg_att_uid = Some def_rfc3501_x_msg_att_uid. Proof. reflexivity. Qed.
Lemma env_att_size : env f_rfc3501_x_msg_att_rfc822_size = Some def_rfc3501_x_msg_att_rfc822_size. Proof. reflexivity. Qed.
Lemma env_att_rfc822 : env f_rfc3501_x_msg_att_rfc822 = Some def_rfc3501_x_msg_att_rfc822. Proof. reflexivity. Qed.
Lemma env_att_text : env f_rfc3501_x_msg_att_rfc822_text = Some def_rfc3501_x_msg_att_rfc822_text. Proof. reflexivity. Qed.
Lemma env_att_header : env f_rfc3501_x_msg_att_rfc822_header = Some def_rfc3501_x_msg_att_rfc822_header. Proof. reflexivity. Qed.
Lemma env_att_modseq : env f_rfc4551_x_msg_att_mod_seq = Some def_rfc4551_x_msg_att_mod_seq. Proof. reflexivity. Qed.
Lemma env_att_msgid : env f_gmail_x_msg_att_gmail_msgid = Some def_gmail_x_msg_att_gmail_msgid. Proof. reflexivity. Qed.
Lemma env_gmail_msgid : env f_gmail_x_gmail_msgid = Some def_gmail_x_gmail_msgid. Proof. reflexivity. Qed.
Lemma env_att_list : env f_rfc3501_x_msg_att_list = Some def_rfc3501_x_msg_att_list. Proof. reflexivity. Qed.
Lemma env_fetch : env f_rfc3501_x_message_data_fetch = Some def_rfc3501_x_message_data_fetch. Proof. reflexivity. Qed.
Lemma env_response_data : env f_rfc3501_x_response_data = Some def_rfc3501_x_response_data. Proof. reflexivity. Qed.

Definition proj12 : action := mk_action (PTuple [PWild; PVar "p1"]) (AVar "p1").

(* keyword (any case) followed by one parser: the common shape of data items *)
Lemma ok_kw2 s k X d w v (F : list byte -> Prop) : same_nocase s k = true -> OK X d w v F ->
  OK (Map proj12 (Seq [Leaf (LTagNC s); X])) d (k ++ w) v F.
Proof.
  intros Hk HX. eapply ok_map.
  { apply ok_seq. regroup (k ++ (w ++ [])).
    eapply (okseq_cons _ _ _ _ _ _ _ _ _ _ any F); [apply ok_tag_nc, Hk | | intros; exact I].
    eapply (okseq_cons _ _ _ _ _ _ _ _ _ _ F F); [exact HX | apply (okseq_nil _ _ _ _ F) | intros r Hr; exact Hr]. }
  reflexivity.
Qed.

Definition nodigit : list byte -> Prop := stops_at nom_is_digit.

Lemma enc_nstring_head v w : enc_nstring v w -> exists c r, w = c :: r /\ (c =? 32) = false.
Proof.
  intros [w' [w'' Hk] | s w' Hs].
  - unfold kw in Hk. destruct w'' as [|c r]; [discriminate|]. exists c, r. split; [reflexivity|].
    cbn [bs same_nocase] in Hk. apply andb_true_iff in Hk. destruct Hk as [Hc _].
    destruct (lower_variants _ _ Hc) as [<- | [<- | []]]; reflexivity.
  - destruct (enc_string_head s w' Hs) as (c & r & -> & [-> | ->]); eexists _, _; (split; [reflexivity|]); reflexivity.
Qed.

(* the alternatives of msg_att in front of the one that matches are rejected by their leading keyword *)
Lemma skip_kw g gs K k w v (F : list byte -> Prop) d :
  same_nocase K k = true -> fails_on env 8 g K = true -> OK (Alt gs) d (k ++ w) v F -> OK (Alt (g :: gs)) d (k ++ w) v F.
Proof.
  intros Hk Hf H. apply ok_alt_skip; [|exact H]. intros rest _. rewrite <- app_assoc.
  apply (fails_on_sound native_call env rk rank_ok_all 8 g K Hf). exact Hk.
Qed.

Definition digits10 : list byte := [48; 49; 50; 51; 52; 53; 54; 55; 56; 57].
Lemma rej_on_digit g : forallb (fun c => fails_on env 8 g [c]) digits10 = true ->
  forall c i d, nom_is_digit c = true -> REJ g d (c :: i).
Proof.
  intros H c i d Hc. rewrite forallb_forall in H. apply (fails_on_byte native_call env rk rank_ok_all 8). apply H.
  unfold nom_is_digit in Hc. apply andb_true_iff in Hc. destruct Hc as [A B]. apply N.leb_le in A, B.
  assert (Hc : c = 48 \/ c = 49 \/ c = 50 \/ c = 51 \/ c = 52 \/ c = 53 \/ c = 54 \/ c = 55 \/ c = 56 \/ c = 57) by lia.
  unfold digits10. cbn [In]. intuition.
Qed.

Lemma rej_number_nondigit c i d : nom_is_digit c = false -> REJ (Ref f_core_x_number DSame) d (c :: i).
Proof.
  intro H. apply (rejref _ _ _ _ _ env_number). intros b f Hf Hb. destruct f as [|f]; [cbn [need] in Hf; lia|].
  rewrite run_S. cbn [step leaf_run]. unfold number_p. cbn [span]. rewrite H. reflexivity.
Qed.


Lemma enc_number_head bits n w : enc_number bits n w -> exists c r, w = c :: r /\ nom_is_digit c = true.
Proof.
  intros [ds Hne Hd _]. destruct ds as [|c r]; [contradiction|]. exists c, r. split; [reflexivity|].
  cbn [forallb] in Hd. apply andb_true_iff in Hd. exact (proj1 Hd).
Qed.

(* ---------------------------------------------------------------- BODY[section]<origin> *)
Lemma env_att_body_section : env f_body_x_msg_att_body_section = Some def_body_x_msg_att_body_section. Proof. reflexivity. Qed.
Lemma env_section : env f_body_x_section = Some def_body_x_section. Proof. reflexivity. Qed.
Lemma env_section_spec : env f_body_x_section_spec = Some def_body_x_section_spec. Proof. reflexivity. Qed.
Lemma env_section_text : env f_body_x_section_text = Some def_body_x_section_text. Proof. reflexivity. Qed.
Lemma env_section_msgtext : env f_body_x_section_msgtext = Some def_body_x_section_msgtext. Proof. reflexivity. Qed.
Definition part_item : G := Map proj1of2 (Seq [Leaf (LTag [46]); Ref f_core_x_number DSame]).
Definition def_section_part : G :=
  Map (mk_action (PTuple [PVar "part"; PVar "rest"]) (ACall "section_part_cons" [AVar "part"; AVar "rest"]))
      (Seq [Ref f_core_x_number DSame; Many0 part_item]).
Lemma env_section_part : env f_body_x_section_part = Some def_section_part. Proof. reflexivity. Qed.

Definition closes93 (rest : list byte) : Prop := match rest with c :: _ => c = 93 | [] => False end.

Lemma same_nocase_app a b k c : same_nocase a k = true -> same_nocase b c = true -> same_nocase (a ++ b) (k ++ c) = true.
Proof.
  revert k; induction a as [|x a IH]; intros [|y k] H1 H2; try discriminate; [exact H2|].
  cbn [same_nocase app] in *. apply andb_true_iff in H1. destruct H1 as [A B]. rewrite A. exact (IH k B H2).
Qed.

(* an alternative turned away by a keyword plus the byte that follows it *)
Lemma rej_kw_then g K k c rest d : same_nocase K k = true -> fails_on env 8 g (K ++ [c]) = true -> REJ g d (k ++ c :: rest).
Proof.
  intros Hk Hf. change (k ++ c :: rest) with (k ++ [c] ++ rest). rewrite app_assoc.
  apply (fails_on_sound native_call env rk rank_ok_all 8 g (K ++ [c]) Hf). apply same_nocase_app; [exact Hk|].
  cbn [same_nocase]. unfold eq_nocase1. rewrite N.eqb_refl. reflexivity.
Qed.

Lemma rej_kw g K k rest d : same_nocase K k = true -> fails_on env 8 g K = true -> REJ g d (k ++ rest).
Proof. intros Hk Hf. exact (fails_on_sound native_call env rk rank_ok_all 8 g K Hf d k rest Hk). Qed.

Definition hdr_sep_follow (rest : list byte) : Prop := match rest with c :: _ => c = 32 \/ c = 41 | [] => False end.

Lemma oksep_header_names ws d : enc_header_names ws ->
  exists vs, OkSep native_call env rk (Leaf (LTag (bs " "))) (Ref f_core_x_astring DSame) d (SPb ++ ws) vs closes.
Proof.
  intro H. induction H as [s w Hs | s w ws Hs Hl [vs IH]].
  - exists [VBytes s]. rewrite <- (app_nil_r w). unfold SPb.
    eapply (oksep_cons _ _ _ _ _ _ _ _ _ _ _ _ any (stops_at cls_core_x_is_astring_char)).
    + apply ok_tag.
    + discriminate.
    + apply ok_astring, Hs.
    + apply oksep_nil. intros rest Hr. destruct rest as [|c r]; [destruct Hr|]. cbn in Hr. subst c. apply rej_tag. reflexivity.
    + intros rest Hr. destruct rest as [|c r]; [destruct Hr|]. cbn in Hr. subst c. reflexivity.
    + intros; exact I.
  - exists (VBytes s :: vs). unfold SPb in *.
    eapply (oksep_cons _ _ _ _ _ _ _ _ _ _ _ _ any (stops_at cls_core_x_is_astring_char)).
    + apply ok_tag.
    + discriminate.
    + apply ok_astring, Hs.
    + exact IH.
    + intros rest _. reflexivity.
    + intros; exact I.
Qed.

Lemma ok_header_list hl d : enc_header_names hl ->
  exists vs, OK (SepList0 (Leaf (LTag (bs " "))) (Ref f_core_x_astring DSame)) d hl (VList vs) closes.
Proof.
  intros [s w Hs | s w ws Hs Hl].
  - exists [VBytes s]. rewrite <- (app_nil_r w). eapply (ok_seplist0 _ _ _ _ _ _ _ _ _ _ (stops_at cls_core_x_is_astring_char)).
    + apply ok_astring, Hs.
    + apply oksep_nil. intros rest Hr. destruct rest as [|c r]; [destruct Hr|]. cbn in Hr. subst c. apply rej_tag. reflexivity.
    + intros rest Hr. destruct rest as [|c r]; [destruct Hr|]. cbn in Hr. subst c. reflexivity.
  - destruct (oksep_header_names ws d Hl) as [vs Hvs]. exists (VBytes s :: vs).
    eapply (ok_seplist0 _ _ _ _ _ _ _ _ _ _ (stops_at cls_core_x_is_astring_char)).
    + apply ok_astring, Hs.
    + exact Hvs.
    + intros rest _. reflexivity.
Qed.

Lemma ok_msgtext m w d : enc_msgtext m w -> OK (Ref f_body_x_section_msgtext DSame) d w m closes93.
Proof.
  intro H. apply (okref _ _ _ _ _ _ _ env_section_msgtext). unfold def_body_x_section_msgtext.
  destruct H as [k Hk | k Hk | k n hl Hk Hn Hl]; unfold kw in Hk.
  - (* HEADER: the longer keyword is refused at the closing bracket *)
    apply ok_alt_skip.
    { intros rest Hr. destruct rest as [|c r]; [destruct Hr|]. cbn in Hr. subst c.
      apply (rej_kw_then _ (bs "HEADER") _ 93 _ _ Hk). vm_compute. reflexivity. }
    apply ok_alt_here. apply (Ok_follow _ _ _ _ _ _ _ any); [|intros; exact I].
    eapply ok_map; [apply ok_tag_nc, Hk | reflexivity].
  - (* TEXT *)
    apply ok_alt_skip. { intros rest _. apply (rej_kw _ (bs "TEXT") _ _ _ Hk). vm_compute. reflexivity. }
    apply ok_alt_skip. { intros rest _. apply (rej_kw _ (bs "TEXT") _ _ _ Hk). vm_compute. reflexivity. }
    apply ok_alt_here. apply (Ok_follow _ _ _ _ _ _ _ any); [|intros; exact I].
    eapply ok_map; [apply ok_tag_nc, Hk | reflexivity].
  - (* HEADER.FIELDS[.NOT] (names) *)
    apply ok_alt_here. apply (Ok_follow _ _ _ _ _ _ _ any); [|intros; exact I].
    destruct (ok_header_list hl d Hl) as [vs Hvs].
    assert (Hlist : OK (Map (mk_action (PTuple [PWild; PVar "p1"; PWild]) (AVar "p1"))
                        (Seq [(Leaf (LTag (bs "("))); (SepList0 (Leaf (LTag (bs " "))) (Ref f_core_x_astring DSame)); (Leaf (LTag (bs ")")))]))
                       d ([40] ++ hl ++ [41]) (VList vs) any).
    { eapply ok_map.
      { apply ok_seq. regroup ([40] ++ (hl ++ ([41] ++ []))).
        eapply (okseq_cons _ _ _ _ _ _ _ _ _ _ any any); [apply ok_tag | | intros; exact I].
        eapply (okseq_cons _ _ _ _ _ _ _ _ _ _ closes any); [exact Hvs | | intros rest _; reflexivity].
        eapply (okseq_cons _ _ _ _ _ _ _ _ _ _ any any); [apply ok_tag | apply (okseq_nil _ _ _ _ any) | intros; exact I]. }
      reflexivity. }
    destruct Hn as [-> | Hn].
    + eapply ok_map.
      { apply ok_seq. unfold SPb. regroup (k ++ ([] ++ ([32] ++ (([40] ++ hl ++ [41]) ++ [])))).
        eapply (okseq_cons _ _ _ _ _ _ _ _ _ _ any any); [apply ok_tag_nc, Hk | | intros; exact I].
        eapply (okseq_cons _ _ _ _ _ _ _ _ _ _ (fun rest => match rest with c :: _ => c = 32 | [] => False end) any).
        - apply ok_opt_none. intros rest Hr. destruct rest as [|c r]; [destruct Hr|]. subst c. apply rej_tag_nc. reflexivity.
        - eapply (okseq_cons _ _ _ _ _ _ _ _ _ _ any any); [apply ok_tag | | intros; exact I].
          eapply (okseq_cons _ _ _ _ _ _ _ _ _ _ any any); [exact Hlist | apply (okseq_nil _ _ _ _ any) | intros; exact I].
        - intros rest _. reflexivity. }
      reflexivity.
    + unfold kw in Hn. eapply ok_map.
      { apply ok_seq. unfold SPb. regroup (k ++ (n ++ ([32] ++ (([40] ++ hl ++ [41]) ++ [])))).
        eapply (okseq_cons _ _ _ _ _ _ _ _ _ _ any any); [apply ok_tag_nc, Hk | | intros; exact I].
        eapply (okseq_cons _ _ _ _ _ _ _ _ _ _ any any); [apply ok_opt_some, ok_tag_nc, Hn | | intros; exact I].
        eapply (okseq_cons _ _ _ _ _ _ _ _ _ _ any any); [apply ok_tag | | intros; exact I].
        eapply (okseq_cons _ _ _ _ _ _ _ _ _ _ any any); [exact Hlist | apply (okseq_nil _ _ _ _ any) | intros; exact I]. }
      reflexivity.
Qed.

Lemma ok_section_text t w d : enc_section_text t w -> OK (Ref f_body_x_section_text DSame) d w t closes93.
Proof.
  intro H. apply (okref _ _ _ _ _ _ _ env_section_text). unfold def_body_x_section_text.
  destruct H as [m w0 Hm | k Hk].
  - apply ok_alt_here. apply ok_msgtext, Hm.
  - unfold kw in Hk. apply ok_alt_skip. { intros rest _. apply (rej_kw _ (bs "MIME") _ _ _ Hk). vm_compute. reflexivity. }
    apply ok_alt_here. apply (Ok_follow _ _ _ _ _ _ _ any); [|intros; exact I].
    eapply ok_map; [apply ok_tag_nc, Hk | reflexivity].
Qed.

Lemma kw_head_letter K0 K k : same_nocase (K0 :: K) k = true -> (65 <=? K0) && (K0 <=? 90) = true ->
  exists c r, k = c :: r /\ nom_is_digit c = false.
Proof.
  intros H HK. destruct k as [|c r]; [discriminate|]. exists c, r. split; [reflexivity|].
  cbn [same_nocase] in H. apply andb_true_iff in H. destruct H as [H _].
  apply andb_true_iff in HK. destruct HK as [A B]. apply N.leb_le in A, B.
  pose proof (lower_variants K0 c H) as Hin. unfold variants in Hin. cbv zeta in Hin.
  assert (Hl : lower K0 = K0 + 32) by (unfold lower, is_upper; replace ((65 <=? K0) && (K0 <=? 90)) with true by (symmetry; apply andb_true_iff; split; apply N.leb_le; lia); reflexivity).
  rewrite Hl in Hin. unfold nom_is_digit.
  destruct ((97 <=? K0 + 32) && (K0 + 32 <=? 122)); cbn [In] in Hin.
  - destruct Hin as [<- | [<- | []]]; apply andb_false_iff; right; apply N.leb_gt; lia.
  - destruct Hin as [<- | []]; apply andb_false_iff; right; apply N.leb_gt; lia.
Qed.

Lemma enc_msgtext_head m w : enc_msgtext m w -> exists c r, w = c :: r /\ nom_is_digit c = false.
Proof.
  intros [k Hk | k Hk | k n hl Hk _ _]; unfold kw in Hk.
  - apply (kw_head_letter 72 (bs "EADER") k Hk). reflexivity.
  - apply (kw_head_letter 84 (bs "EXT") k Hk). reflexivity.
  - destruct (kw_head_letter 72 (bs "EADER.FIELDS") k Hk eq_refl) as (c & r & -> & Hc). eexists _, _. split; [reflexivity | exact Hc].
Qed.

Lemma enc_section_text_head t w : enc_section_text t w -> exists c r, w = c :: r /\ nom_is_digit c = false.
Proof.
  intros [m w0 Hm | k Hk]; [exact (enc_msgtext_head m w0 Hm)|]. unfold kw in Hk. apply (kw_head_letter 77 (bs "IME") k Hk). reflexivity.
Qed.

Definition part_follow (rest : list byte) : Prop :=
  match rest with
  | c :: r => c = 93 \/ (c = 46 /\ match r with c2 :: _ => nom_is_digit c2 = false | [] => False end)
  | [] => False
  end.

Lemma rej_part_item rest d : part_follow rest -> REJ part_item d rest.
Proof.
  intro H. unfold part_item. apply rej_map. destruct rest as [|c r]; [destruct H|]. destruct H as [-> | [-> H]].
  - apply rej_seq_head, rej_tag. reflexivity.
  - destruct r as [|c2 r2]; [destruct H|]. change (46 :: c2 :: r2) with ([46] ++ (c2 :: r2)).
    eapply (rej_seq_after _ _ _ _ _ _ _ _ any); [apply ok_tag | exact I |]. apply rejseq_head. apply rej_number_nondigit, H.
Qed.

Lemma part_follow_nodigit rest : part_follow rest -> nodigit rest.
Proof. destruct rest as [|c r]; [intros []|]. intros [-> | [-> _]]; reflexivity. Qed.

Lemma okmany_parts l ws d : enc_part_more l ws -> OkMany native_call env rk part_item d ws l part_follow.
Proof.
  intro H. induction H as [| n w l ws Hn Hl IH].
  - apply okmany_nil. intros rest Hr. apply rej_part_item, Hr.
  - rewrite app_assoc. eapply (okmany_cons _ _ _ _ _ _ _ _ _ nodigit).
    + unfold part_item. eapply ok_map.
      { apply ok_seq. regroup ([46] ++ (w ++ [])).
        eapply (okseq_cons _ _ _ _ _ _ _ _ _ _ any nodigit); [apply ok_tag | | intros; exact I].
        eapply (okseq_cons _ _ _ _ _ _ _ _ _ _ nodigit nodigit); [apply ok_number, Hn | apply (okseq_nil _ _ _ _ nodigit) | intros r Hr; exact Hr]. }
      reflexivity.
    + discriminate.
    + exact IH.
    + intros rest Hr. destruct Hl; cbn [app]; [apply part_follow_nodigit, Hr | reflexivity].
Qed.

Lemma ok_section_part n w l ws d : enc_number 32 n w -> enc_part_more l ws ->
  OK (Ref f_body_x_section_part DSame) d (w ++ ws) (VList (VNum n :: l)) part_follow.
Proof.
  intros Hn Hl. apply (okref _ _ _ _ _ _ _ env_section_part). unfold def_section_part.
  eapply ok_map.
  { apply ok_seq. regroup (w ++ (ws ++ [])).
    eapply (okseq_cons _ _ _ _ _ _ _ _ _ _ nodigit part_follow); [apply ok_number, Hn | |].
    - eapply (okseq_cons _ _ _ _ _ _ _ _ _ _ part_follow part_follow); [apply ok_many0, okmany_parts, Hl | apply (okseq_nil _ _ _ _ part_follow) | intros r Hr; exact Hr].
    - intros rest Hr. rewrite app_nil_r. destruct Hl; cbn [app]; [apply part_follow_nodigit, Hr | reflexivity]. }
  reflexivity.
Qed.

Definition dot_text : G := Map proj12 (Seq [(Leaf (LTag (bs "."))); (Ref f_body_x_section_text DSame)]).

Lemma ok_section_spec sp w d : enc_section_spec sp w -> OK (Ref f_body_x_section_spec DSame) d w sp closes93.
Proof.
  intro H. apply (okref _ _ _ _ _ _ _ env_section_spec). unfold def_body_x_section_spec. fold proj12. fold dot_text.
  destruct H as [m w0 Hm | n w0 l ws Hn Hl | n w0 l ws t wt Hn Hl Ht].
  - apply ok_alt_here. eapply ok_map; [apply ok_msgtext, Hm | reflexivity].
  - apply ok_alt_skip.
    { intros rest _. destruct (enc_number_head _ _ _ Hn) as (c & r & -> & Hc). cbn [app].
      match goal with |- Rej _ _ _ ?g _ _ => apply (rej_on_digit g); [vm_compute; reflexivity | exact Hc] end. }
    apply ok_alt_here. eapply ok_map.
    { apply ok_seq. regroup ((w0 ++ ws) ++ ([] ++ [])).
      eapply (okseq_cons _ _ _ _ _ _ _ _ _ _ part_follow closes93); [apply ok_section_part; eassumption | |].
      - eapply (okseq_cons _ _ _ _ _ _ _ _ _ _ closes93 closes93); [| apply (okseq_nil _ _ _ _ closes93) | intros r Hr; exact Hr].
        apply ok_opt_none. intros rest Hr. destruct rest as [|c r]; [destruct Hr|]. cbn in Hr. subst c.
        unfold dot_text. apply rej_map, rej_seq_head, rej_tag. reflexivity.
      - intros rest Hr. cbn [app]. destruct rest as [|c r]; [destruct Hr|]. cbn in Hr. subst c. left. reflexivity. }
    reflexivity.
  - apply ok_alt_skip.
    { intros rest _. destruct (enc_number_head _ _ _ Hn) as (c & r & -> & Hc). cbn [app].
      match goal with |- Rej _ _ _ ?g _ _ => apply (rej_on_digit g); [vm_compute; reflexivity | exact Hc] end. }
    apply ok_alt_here. eapply ok_map.
    { apply ok_seq. regroup ((w0 ++ ws) ++ (([46] ++ wt) ++ [])).
      eapply (okseq_cons _ _ _ _ _ _ _ _ _ _ part_follow closes93); [apply ok_section_part; eassumption | |].
      - eapply (okseq_cons _ _ _ _ _ _ _ _ _ _ closes93 closes93); [| apply (okseq_nil _ _ _ _ closes93) | intros r Hr; exact Hr].
        apply ok_opt_some. unfold dot_text. eapply ok_map.
        { apply ok_seq. regroup ([46] ++ (wt ++ [])).
          eapply (okseq_cons _ _ _ _ _ _ _ _ _ _ any closes93); [apply ok_tag | | intros; exact I].
          eapply (okseq_cons _ _ _ _ _ _ _ _ _ _ closes93 closes93); [apply ok_section_text, Ht | apply (okseq_nil _ _ _ _ closes93) | intros r Hr; exact Hr]. }
        reflexivity.
      - intros rest _. destruct (enc_section_text_head t wt Ht) as (c & r & -> & Hc). cbn [app]. right. split; [reflexivity | exact Hc]. }
    reflexivity.
Qed.

Lemma ok_section sec w d : enc_section sec w -> OK (Ref f_body_x_section DSame) d w sec any.
Proof.
  intro H. apply (okref _ _ _ _ _ _ _ env_section). unfold def_body_x_section.
  destruct H as [| sp w0 Hsp].
  - eapply ok_map.
    { apply ok_seq. regroup ([91] ++ ([] ++ ([93] ++ []))).
      eapply (okseq_cons _ _ _ _ _ _ _ _ _ _ any any); [apply ok_tag | | intros; exact I].
      eapply (okseq_cons _ _ _ _ _ _ _ _ _ _ closes93 any).
      - apply ok_opt_none. intros rest Hr. destruct rest as [|c r]; [destruct Hr|]. cbn in Hr. subst c.
        apply (fails_on_byte native_call env rk rank_ok_all 8). vm_compute. reflexivity.
      - eapply (okseq_cons _ _ _ _ _ _ _ _ _ _ any any); [apply ok_tag | apply (okseq_nil _ _ _ _ any) | intros; exact I].
      - intros rest _. reflexivity. }
    reflexivity.
  - eapply ok_map.
    { apply ok_seq. regroup ([91] ++ (w0 ++ ([93] ++ []))).
      eapply (okseq_cons _ _ _ _ _ _ _ _ _ _ any any); [apply ok_tag | | intros; exact I].
      eapply (okseq_cons _ _ _ _ _ _ _ _ _ _ closes93 any); [apply ok_opt_some, ok_section_spec, Hsp | | intros rest _; reflexivity].
      eapply (okseq_cons _ _ _ _ _ _ _ _ _ _ any any); [apply ok_tag | apply (okseq_nil _ _ _ _ any) | intros; exact I]. }
    reflexivity.
Qed.

Definition origin_g : G := Opt (Map (mk_action (PTuple [PWild; PVar "p1"; PWild]) (AVar "p1")) (Seq [(Leaf (LTag (bs "<"))); (Ref f_core_x_number DSame); (Leaf (LTag (bs ">")))])).

Lemma ok_origin idx w d : enc_origin idx w -> OK origin_g d w idx (fun rest => match rest with c :: _ => c = 32 | [] => False end).
Proof.
  intros [| n w0 Hn]; unfold origin_g.
  - apply ok_opt_none. intros rest Hr. destruct rest as [|c r]; [destruct Hr|]. subst c. apply rej_map, rej_seq_head, rej_tag. reflexivity.
  - apply (Ok_follow _ _ _ _ _ _ _ any); [|intros; exact I]. apply ok_opt_some. eapply ok_map.
    { apply ok_seq. regroup ([60] ++ (w0 ++ ([62] ++ []))).
      eapply (okseq_cons _ _ _ _ _ _ _ _ _ _ any any); [apply ok_tag | | intros; exact I].
      eapply (okseq_cons _ _ _ _ _ _ _ _ _ _ nodigit any); [apply ok_number, Hn | | intros rest _; reflexivity].
      eapply (okseq_cons _ _ _ _ _ _ _ _ _ _ any any); [apply ok_tag | apply (okseq_nil _ _ _ _ any) | intros; exact I]. }
    reflexivity.
Qed.

Lemma ok_body_section k sec wsec idx widx v w d : kw "BODY" k -> enc_section sec wsec -> enc_origin idx widx -> enc_nstring v w ->
  OK (Ref f_body_x_msg_att_body_section DSame) d (k ++ wsec ++ widx ++ SPb ++ w)
     (VRec "AttributeValue::BodySection" [("section"%string, sec); ("index"%string, idx); ("data"%string, v)]) any.
Proof.
  intros Hk Hsec Hidx Hv. unfold kw in Hk. apply (okref _ _ _ _ _ _ _ env_att_body_section). unfold def_body_x_msg_att_body_section. fold origin_g.
  eapply ok_map.
  { apply ok_seq. unfold SPb. regroup (k ++ (wsec ++ (widx ++ ([32] ++ (w ++ []))))).
    eapply (okseq_cons _ _ _ _ _ _ _ _ _ _ any any); [apply ok_tag_nc, Hk | | intros; exact I].
    eapply (okseq_cons _ _ _ _ _ _ _ _ _ _ any any); [apply ok_section, Hsec | | intros; exact I].
    eapply (okseq_cons _ _ _ _ _ _ _ _ _ _ (fun rest => match rest with c :: _ => c = 32 | [] => False end) any); [apply ok_origin, Hidx | | intros rest _; reflexivity].
    eapply (okseq_cons _ _ _ _ _ _ _ _ _ _ any any); [apply ok_tag | | intros; exact I].
    eapply (okseq_cons _ _ _ _ _ _ _ _ _ _ any any); [apply ok_nstring, Hv | apply (okseq_nil _ _ _ _ any) | intros; exact I]. }
  reflexivity.
Qed.

(* ---------------------------------------------------------------- X-GM-LABELS *)
Lemma env_att_labels : env f_gmail_x_msg_att_gmail_labels = Some def_gmail_x_msg_att_gmail_labels. Proof. reflexivity. Qed.
Lemma env_label_list : env f_gmail_x_gmail_label_list = Some def_gmail_x_gmail_label_list. Proof. reflexivity. Qed.
Lemma env_quoted_utf8_l : env f_core_x_quoted_utf8 = Some def_core_x_quoted_utf8. Proof. reflexivity. Qed.

Lemma ok_flag_core f w d : enc_flag f w -> OK (Ref f_rfc3501_x_flag DSame) d w (VBytes f) flag_follow.
Proof.
  intro H. apply (okref _ _ _ _ _ _ _ env_flag). unfold def_rfc3501_x_flag.
  destruct H as [a Hne Ha | a Hne Ha].
  - destruct a as [|c a]; [contradiction|]. cbn [forallb] in Ha. apply andb_true_iff in Ha. destruct Ha as [Hc Ha].
    destruct (atom_char_facts c Hc) as (_ & Hcs & _ & H92 & _).
    apply ok_alt_skip.
    { intros rest _. cbn [app]. apply (rejref _ _ _ _ _ env_flag_ext). unfold def_rfc3501_x_flag_extension.
      apply rej_mapres, rej_recognize, rej_seq_head, rej_tag. rewrite N.eqb_sym. exact H92. }
    apply ok_alt_here. apply (Ok_follow _ _ _ _ _ _ _ (stops_at cls_core_x_is_astring_char)); [|intros r Hr; exact (proj2 (flag_follow_stops r Hr))].
    eapply ok_mapres.
    { apply ok_take_while1; [|discriminate]. cbn [forallb]. rewrite Hcs.
      apply (forallb_impl rfc_ATOM_CHAR); [intros x Hx; exact (proj1 (proj2 (atom_char_facts x Hx))) | exact Ha]. }
    cbn. unfold native_call. cbn. rewrite ascii_utf8; [reflexivity|].
    cbn [forallb]. rewrite (proj1 (proj2 (proj2 (atom_char_facts c Hc)))).
    apply (forallb_impl rfc_ATOM_CHAR); [intros x Hx; exact (proj1 (proj2 (proj2 (atom_char_facts x Hx)))) | exact Ha].
  - destruct a as [|c a]; [contradiction|]. pose proof Ha as Ha0.
    apply ok_alt_here. apply (okref _ _ _ _ _ _ _ env_flag_ext). unfold def_rfc3501_x_flag_extension.
    apply (Ok_follow _ _ _ _ _ _ _ (stops_at cls_core_x_is_atom_char)); [|intros r Hr; exact (proj1 (flag_follow_stops r Hr))].
    eapply ok_mapres.
    { eapply ok_recognize. apply ok_seq. regroup ([92] ++ ((c :: a) ++ [])).
      eapply (okseq_cons _ _ _ _ _ _ _ _ _ _ any (stops_at cls_core_x_is_atom_char)); [apply ok_tag | | intros; exact I].
      eapply (okseq_cons _ _ _ _ _ _ _ _ _ _ (stops_at cls_core_x_is_atom_char) (stops_at cls_core_x_is_atom_char)); [| apply (okseq_nil _ _ _ _ (stops_at cls_core_x_is_atom_char)) | intros r Hr; exact Hr].
      apply ok_take_while. apply (forallb_impl rfc_ATOM_CHAR); [intros x Hx; exact (proj1 (atom_char_facts x Hx)) | exact Ha0]. }
    cbn. unfold native_call. cbn. rewrite ascii_utf8; [reflexivity|].
    change (forallb (fun b => b <=? 127) (92 :: c :: a) = true). cbn [forallb]. apply andb_true_iff. split; [reflexivity|].
    apply (forallb_impl rfc_ATOM_CHAR (fun b => b <=? 127) (c :: a)); [intros x Hx; exact (proj1 (proj2 (proj2 (atom_char_facts x Hx)))) | exact Ha0].
Qed.

Definition label_item : G := Map (mk_action (PVar "x") (AVar "x")) (Alt [(Ref f_rfc3501_x_flag DSame); (Ref f_core_x_quoted_utf8 DSame)]).

Lemma ok_label f w d : enc_label f w -> OK label_item d w (VBytes f) flag_follow.
Proof.
  intro H. unfold label_item. eapply ok_map; [|reflexivity]. destruct H as [f w Hf | s w Hq Hu].
  - apply ok_alt_here. apply ok_flag_core, Hf.
  - apply (Ok_follow _ _ _ _ _ _ _ any); [|intros; exact I]. apply ok_alt_skip.
    { intros rest _. destruct Hq as [s' Hs]. cbn [app]. apply (fails_on_byte native_call env rk rank_ok_all 8). vm_compute. reflexivity. }
    apply ok_alt_here. apply (okref _ _ _ _ _ _ _ env_quoted_utf8_l). unfold def_core_x_quoted_utf8.
    eapply ok_mapres. { apply ok_quoted, Hq. } cbn. unfold native_call. cbn. rewrite Hu. reflexivity.
Qed.

Lemma oksep_labels l ws d : enc_labels_more l ws ->
  OkSep native_call env rk (Leaf (LTag (bs " "))) label_item d ws l closes.
Proof.
  intro H. induction H as [| f w l ws Hf Hl IH].
  - apply oksep_nil. intros rest Hr. destruct rest as [|c r]; [destruct Hr|]. cbn in Hr. subst c. apply rej_tag. reflexivity.
  - unfold SPb. eapply (oksep_cons _ _ _ _ _ _ _ _ _ _ _ _ any flag_follow).
    + apply ok_tag.
    + discriminate.
    + apply ok_label, Hf.
    + exact IH.
    + intros rest Hr. destruct Hl; cbn [app].
      * destruct rest as [|c r]; [destruct Hr|]. cbn in Hr. subst c. right. reflexivity.
      * left. reflexivity.
    + intros; exact I.
Qed.

Lemma ok_label_list k v w d : same_nocase (bs "X-GM-LABELS ") k = true -> enc_label_list v w ->
  OK (Ref f_gmail_x_gmail_label_list DSame) d (k ++ w) v any.
Proof.
  intros Hk H. apply (okref _ _ _ _ _ _ _ env_label_list). unfold def_gmail_x_gmail_label_list. fold label_item.
  destruct H as [| f w0 l ws Hf Hl].
  - eapply ok_map.
    { apply ok_seq. regroup (k ++ ([40; 41] ++ [])).
      eapply (okseq_cons _ _ _ _ _ _ _ _ _ _ any any); [apply ok_tag_nc, Hk | | intros; exact I].
      eapply (okseq_cons _ _ _ _ _ _ _ _ _ _ any any); [| apply (okseq_nil _ _ _ _ any) | intros; exact I].
      eapply ok_map.
      { apply ok_seq. regroup ([40] ++ ([] ++ ([41] ++ []))).
        eapply (okseq_cons _ _ _ _ _ _ _ _ _ _ any any); [apply ok_tag | | intros; exact I].
        eapply (okseq_cons _ _ _ _ _ _ _ _ _ _ closes any).
        - apply ok_seplist0_empty. intros rest Hr. destruct rest as [|c r]; [destruct Hr|]. cbn in Hr. subst c.
          apply (fails_on_byte native_call env rk rank_ok_all 8). vm_compute. reflexivity.
        - eapply (okseq_cons _ _ _ _ _ _ _ _ _ _ any any); [apply ok_tag | apply (okseq_nil _ _ _ _ any) | intros; exact I].
        - intros rest _. reflexivity. }
      reflexivity. }
    reflexivity.
  - eapply ok_map.
    { apply ok_seq. regroup (k ++ (([40] ++ w0 ++ ws ++ [41]) ++ [])).
      eapply (okseq_cons _ _ _ _ _ _ _ _ _ _ any any); [apply ok_tag_nc, Hk | | intros; exact I].
      eapply (okseq_cons _ _ _ _ _ _ _ _ _ _ any any); [| apply (okseq_nil _ _ _ _ any) | intros; exact I].
      eapply ok_map.
      { apply ok_seq. regroup ([40] ++ ((w0 ++ ws) ++ ([41] ++ []))).
        eapply (okseq_cons _ _ _ _ _ _ _ _ _ _ any any); [apply ok_tag | | intros; exact I].
        eapply (okseq_cons _ _ _ _ _ _ _ _ _ _ closes any).
        - eapply (ok_seplist0 _ _ _ _ _ _ _ _ _ _ flag_follow).
          + apply ok_label, Hf.
          + apply oksep_labels, Hl.
          + intros rest Hr. destruct Hl; cbn [app].
            * destruct rest as [|c r]; [destruct Hr|]. cbn in Hr. subst c. right. reflexivity.
            * left. reflexivity.
        - eapply (okseq_cons _ _ _ _ _ _ _ _ _ _ any any); [apply ok_tag | apply (okseq_nil _ _ _ _ any) | intros; exact I].
        - intros rest _. reflexivity. }
      reflexivity. }
    reflexivity.
Qed.

(* ---------------------------------------------------------------- BODYSTRUCTURE / BODY (non-extensible form) *)
Lemma env_att_bodystructure : env f_body_structure_x_msg_att_body_structure = Some def_body_structure_x_msg_att_body_structure. Proof. reflexivity. Qed.
Lemma env_att_body : env f_body_structure_x_msg_att_body = Some def_body_structure_x_msg_att_body. Proof. reflexivity. Qed.

Lemma kw_split4 K5 Krest k : same_nocase (66 :: 79 :: 68 :: 89 :: K5 :: Krest) k = true ->
  exists k4 c k', k = k4 ++ c :: k' /\ same_nocase [66; 79; 68; 89] k4 = true /\ eq_nocase1 K5 c = true.
Proof.
  intro H. destruct k as [|a1 [|a2 [|a3 [|a4 [|a5 k']]]]]; cbn [same_nocase] in H; rewrite ?andb_false_r in H; try discriminate H.
  apply andb_true_iff in H. destruct H as [H1 H]. apply andb_true_iff in H. destruct H as [H2 H].
  apply andb_true_iff in H. destruct H as [H3 H]. apply andb_true_iff in H. destruct H as [H4 H].
  apply andb_true_iff in H. destruct H as [H5 _].
  exists [a1; a2; a3; a4], a5, k'. split; [reflexivity|]. split; [|exact H5]. cbn [same_nocase]. rewrite H1, H2, H3, H4. reflexivity.
Qed.

(* BODY[...] is not BODY SP (...) nor BODYSTRUCTURE: after the four letters it wants "[" *)
Lemma rej_body_section_kw k4 c rest d : same_nocase [66; 79; 68; 89] k4 = true -> (91 =? c) = false ->
  REJ (Ref f_body_x_msg_att_body_section DSame) d (k4 ++ c :: rest).
Proof.
  intros Hk Hc. apply (rejref _ _ _ _ _ env_att_body_section). unfold def_body_x_msg_att_body_section. apply rej_map.
  eapply (rej_seq_after _ _ _ _ _ _ _ _ any); [apply ok_tag_nc; exact Hk | exact I |]. apply rejseq_head.
  apply (rejref _ _ _ _ _ env_section). unfold def_body_x_section. apply rej_map, rej_seq_head, rej_tag. exact Hc.
Qed.

Lemma ok_att_body_kind K k b w d : (K = "BODYSTRUCTURE " \/ K = "BODY ")%string -> same_nocase (bs K) k = true -> enc_body 0 b w ->
  OK (Alt (match def_rfc3501_x_msg_att with Alt l => l | _ => [] end)) d (k ++ w) (VCon "AttributeValue::BodyStructure" [b]) any.
Proof.
  intros HK Hk Hb. cbn [def_rfc3501_x_msg_att]. destruct HK as [-> | ->].
  - apply ok_alt_skip.
    { intros rest _. destruct (kw_split4 _ _ _ Hk) as (k4 & c & k' & -> & H4 & H5).
      rewrite <- !app_assoc. cbn [app]. apply rej_body_section_kw; [exact H4|].
      destruct (lower_variants _ _ H5) as [<- | [<- | []]]; reflexivity. }
    apply (skip_kw _ _ (bs "BODYSTRUCTURE ") _ _ _ _ _ Hk); [vm_compute; reflexivity|].
    apply ok_alt_here. apply (okref _ _ _ _ _ _ _ env_att_bodystructure). unfold def_body_structure_x_msg_att_body_structure.
    eapply ok_map.
    { apply ok_seq. regroup (k ++ (w ++ [])).
      eapply (okseq_cons _ _ _ _ _ _ _ _ _ _ any any); [apply ok_tag_nc, Hk | | intros; exact I].
      eapply (okseq_cons _ _ _ _ _ _ _ _ _ _ any any); [apply ok_body, Hb | apply (okseq_nil _ _ _ _ any) | intros; exact I]. }
    reflexivity.
  - apply ok_alt_skip.
    { intros rest _. destruct (kw_split4 _ _ _ Hk) as (k4 & c & k' & -> & H4 & H5).
      rewrite <- !app_assoc. cbn [app]. apply rej_body_section_kw; [exact H4|].
      destruct (lower_variants _ _ H5) as [<- | []]; reflexivity. }
    apply ok_alt_here. apply (okref _ _ _ _ _ _ _ env_att_body). unfold def_body_structure_x_msg_att_body.
    eapply ok_map.
    { apply ok_seq. regroup (k ++ (w ++ [])).
      eapply (okseq_cons _ _ _ _ _ _ _ _ _ _ any any); [apply ok_tag_nc, Hk | | intros; exact I].
      eapply (okseq_cons _ _ _ _ _ _ _ _ _ _ any any); [apply ok_body, Hb | apply (okseq_nil _ _ _ _ any) | intros; exact I]. }
    reflexivity.
Qed.

Ltac skip K Hk := apply (skip_kw _ _ (bs K) _ _ _ _ _ Hk); [vm_compute; reflexivity|].

Lemma ok_msg_att v w d : enc_msg_att v w -> OK (Ref f_rfc3501_x_msg_att DSame) d w v nodigit.
Proof.
  intro H. apply (okref _ _ _ _ _ _ _ env_msg_att). unfold def_rfc3501_x_msg_att.
  destruct H as [k e w Hk He | k n w Hk Hn | k n w Hk Hn | k v w Hk Hv | k v w Hk Hv | k v w sp Hk Hv Hsp | k n w Hk Hn | k n w Hk Hn
                 | k v w Hk Hv | k s w Hk Hs Hu | k b w Hk Hb | k b w Hk Hb | k v w Hk Hv | k sec wsec idx widx v w Hk Hsec Hidx Hv];
    unfold kw in Hk.
  - (* ENVELOPE *)
    do 3 skip "ENVELOPE "%string Hk. apply ok_alt_here. apply (Ok_follow _ _ _ _ _ _ _ any); [|intros; exact I].
    apply (okref _ _ _ _ _ _ _ env_att_envelope). unfold def_rfc3501_x_msg_att_envelope.
    eapply ok_map. { apply (ok_kw2 _ _ _ _ _ _ any Hk). apply ok_envelope, He. } reflexivity.
  - (* UID *)
    do 11 skip "UID "%string Hk. apply ok_alt_here.
    apply (okref _ _ _ _ _ _ _ env_att_uid). unfold def_rfc3501_x_msg_att_uid.
    eapply ok_map. { apply (ok_kw2 _ _ _ _ _ _ nodigit Hk). apply ok_number, Hn. } reflexivity.
  - (* RFC822.SIZE *)
    do 9 skip "RFC822.SIZE "%string Hk. apply ok_alt_here.
    apply (okref _ _ _ _ _ _ _ env_att_size). unfold def_rfc3501_x_msg_att_rfc822_size.
    eapply ok_map. { apply (ok_kw2 _ _ _ _ _ _ nodigit Hk). apply ok_number, Hn. } reflexivity.
  - (* RFC822 *)
    do 7 skip "RFC822 "%string Hk. apply ok_alt_here. apply (Ok_follow _ _ _ _ _ _ _ any); [|intros; exact I].
    apply (okref _ _ _ _ _ _ _ env_att_rfc822). unfold def_rfc3501_x_msg_att_rfc822.
    eapply ok_map. { apply (ok_kw2 _ _ _ _ _ _ any Hk). apply ok_nstring, Hv. } reflexivity.
  - (* RFC822.TEXT *)
    do 10 skip "RFC822.TEXT "%string Hk. apply ok_alt_here. apply (Ok_follow _ _ _ _ _ _ _ any); [|intros; exact I].
    apply (okref _ _ _ _ _ _ _ env_att_text). unfold def_rfc3501_x_msg_att_rfc822_text.
    eapply ok_map. { apply (ok_kw2 _ _ _ _ _ _ any Hk). apply ok_nstring, Hv. } reflexivity.
  - (* RFC822.HEADER, with or without the doubled space *)
    do 8 skip "RFC822.HEADER "%string Hk. apply ok_alt_here. apply (Ok_follow _ _ _ _ _ _ _ any); [|intros; exact I].
    apply (okref _ _ _ _ _ _ _ env_att_header). unfold def_rfc3501_x_msg_att_rfc822_header.
    destruct Hsp as [-> | ->].
    + destruct (enc_nstring_head _ _ Hv) as (c & r & Ew & Hc).
      eapply ok_map.
      { apply ok_seq. regroup (k ++ ([] ++ (w ++ []))).
        eapply (okseq_cons _ _ _ _ _ _ _ _ _ _ any any); [apply ok_tag_nc, Hk | | intros; exact I].
        eapply (okseq_cons _ _ _ _ _ _ _ _ _ _ (fun rest => match rest with x :: _ => (x =? 32) = false | [] => False end) any).
        - apply ok_opt_none. intros rest Hr. destruct rest as [|x rr]; [destruct Hr|]. apply rej_tag. rewrite N.eqb_sym. exact Hr.
        - eapply (okseq_cons _ _ _ _ _ _ _ _ _ _ any any); [apply ok_nstring, Hv | apply (okseq_nil _ _ _ _ any) | intros; exact I].
        - intros rest _. rewrite Ew. cbn [app]. exact Hc. }
      reflexivity.
    + eapply ok_map.
      { apply ok_seq. regroup (k ++ (SPb ++ (w ++ []))).
        eapply (okseq_cons _ _ _ _ _ _ _ _ _ _ any any); [apply ok_tag_nc, Hk | | intros; exact I].
        eapply (okseq_cons _ _ _ _ _ _ _ _ _ _ any any); [apply ok_opt_some, ok_tag | | intros; exact I].
        eapply (okseq_cons _ _ _ _ _ _ _ _ _ _ any any); [apply ok_nstring, Hv | apply (okseq_nil _ _ _ _ any) | intros; exact I]. }
      reflexivity.
  - (* MODSEQ (n) *)
    do 6 skip "MODSEQ "%string Hk. apply ok_alt_here. apply (Ok_follow _ _ _ _ _ _ _ any); [|intros; exact I].
    apply (okref _ _ _ _ _ _ _ env_att_modseq). unfold def_rfc4551_x_msg_att_mod_seq.
    eapply ok_map.
    { apply ok_seq. regroup (k ++ (([40] ++ (w ++ ([41] ++ []))) ++ [])).
      eapply (okseq_cons _ _ _ _ _ _ _ _ _ _ any any); [apply ok_tag_nc, Hk | | intros; exact I].
      eapply (okseq_cons _ _ _ _ _ _ _ _ _ _ any any); [| apply (okseq_nil _ _ _ _ any) | intros; exact I].
      eapply ok_map.
      { apply ok_seq.
        eapply (okseq_cons _ _ _ _ _ _ _ _ _ _ any any); [apply ok_tag | | intros; exact I].
        eapply (okseq_cons _ _ _ _ _ _ _ _ _ _ nodigit any); [apply ok_number_64, Hn | | intros rest _; reflexivity].
        eapply (okseq_cons _ _ _ _ _ _ _ _ _ _ any any); [apply ok_tag | apply (okseq_nil _ _ _ _ any) | intros; exact I]. }
      reflexivity. }
    reflexivity.
  - (* X-GM-MSGID *)
    do 13 skip "X-GM-MSGID "%string Hk. apply ok_alt_here.
    apply (okref _ _ _ _ _ _ _ env_att_msgid). unfold def_gmail_x_msg_att_gmail_msgid.
    eapply ok_map.
    { apply (okref _ _ _ _ _ _ _ env_gmail_msgid). unfold def_gmail_x_gmail_msgid.
      apply (ok_kw2 _ _ _ _ _ _ nodigit Hk). apply ok_number_64, Hn. }
    reflexivity.
  - (* FLAGS *)
    do 5 skip "FLAGS "%string Hk. apply ok_alt_here. apply (Ok_follow _ _ _ _ _ _ _ any); [|intros; exact I].
    apply (okref _ _ _ _ _ _ _ env_att_flags). unfold def_rfc3501_x_msg_att_flags.
    eapply ok_map. { apply (ok_kw2 _ _ _ _ _ _ any Hk). apply ok_flag_list, Hv. } reflexivity.
  - (* INTERNALDATE *)
    do 4 skip "INTERNALDATE "%string Hk. apply ok_alt_here. apply (Ok_follow _ _ _ _ _ _ _ any); [|intros; exact I].
    apply (okref _ _ _ _ _ _ _ env_att_date). unfold def_rfc3501_x_msg_att_internal_date.
    eapply ok_map. { apply (ok_kw2 _ _ _ _ _ _ any Hk). apply (ok_string_utf8 s w _ Hs Hu). } reflexivity.
  - (* BODYSTRUCTURE *)
    apply (Ok_follow _ _ _ _ _ _ _ any); [|intros; exact I]. apply (ok_att_body_kind "BODYSTRUCTURE "); [left; reflexivity | exact Hk | exact Hb].
  - (* BODY (...) *)
    apply (Ok_follow _ _ _ _ _ _ _ any); [|intros; exact I]. apply (ok_att_body_kind "BODY "); [right; reflexivity | exact Hk | exact Hb].
  - (* X-GM-LABELS *)
    do 12 skip "X-GM-LABELS "%string Hk. apply ok_alt_here. apply (Ok_follow _ _ _ _ _ _ _ any); [|intros; exact I].
    apply (okref _ _ _ _ _ _ _ env_att_labels). unfold def_gmail_x_msg_att_gmail_labels.
    eapply ok_map; [apply ok_label_list; eassumption | reflexivity].
  - (* BODY[section]<origin> nstring *)
    apply ok_alt_here. apply (Ok_follow _ _ _ _ _ _ _ any); [|intros; exact I].
    apply ok_body_section; assumption.
Qed.

(* ---------------------------------------------------------------- the FETCH response, up to the entry point *)
Lemma oksep_atts l ws d : enc_att_more l ws ->
  OkSep native_call env rk (Leaf (LTag (bs " "))) (Ref f_rfc3501_x_msg_att DSame) d ws l closes.
Proof.
  intro H. induction H as [| a l w ws Ha Hl IH].
  - apply oksep_nil. intros rest Hr. destruct rest as [|c r]; [destruct Hr|]. cbn in Hr. subst c. apply rej_tag. reflexivity.
  - unfold SPb. eapply (oksep_cons _ _ _ _ _ _ _ _ _ _ _ _ any nodigit closes).
    + apply ok_tag.
    + discriminate.
    + apply ok_msg_att, Ha.
    + exact IH.
    + intros rest Hr. destruct Hl; cbn [app].
      * destruct rest as [|c r]; [destruct Hr|]. cbn in Hr. subst c. reflexivity.
      * reflexivity.
    + intros; exact I.
Qed.

Lemma ok_att_list a l wa wl d : enc_msg_att a wa -> enc_att_more l wl ->
  OK (Ref f_rfc3501_x_msg_att_list DSame) d ([40] ++ wa ++ wl ++ [41]) (VList (a :: l)) any.
Proof.
  intros Ha Hl. apply (okref _ _ _ _ _ _ _ env_att_list). unfold def_rfc3501_x_msg_att_list.
  eapply ok_map.
  { apply ok_seq. regroup ([40] ++ ((wa ++ wl) ++ ([41] ++ []))).
    eapply (okseq_cons _ _ _ _ _ _ _ _ _ _ any any); [apply ok_tag | | intros; exact I].
    eapply (okseq_cons _ _ _ _ _ _ _ _ _ _ closes any).
    - eapply (ok_seplist1 _ _ _ _ _ _ _ _ _ _ nodigit closes).
      + apply ok_msg_att, Ha.
      + apply oksep_atts, Hl.
      + intros rest Hr. destruct Hl; cbn [app].
        * destruct rest as [|c r]; [destruct Hr|]. cbn in Hr. subst c. reflexivity.
        * reflexivity.
    - eapply (okseq_cons _ _ _ _ _ _ _ _ _ _ any any); [apply ok_tag | apply (okseq_nil _ _ _ _ any) | intros; exact I].
    - intros rest _. reflexivity. }
  reflexivity.
Qed.

Lemma kw_space_first K k : same_nocase (32 :: K) k = true -> exists r, k = 32 :: r.
Proof.
  destruct k as [|c r]; [discriminate|]. cbn [same_nocase]. intro H. apply andb_true_iff in H. destruct H as [H _].
  destruct (lower_variants _ _ H) as [<- | []]. exists r. reflexivity.
Qed.

Lemma ok_fetch_data n wn k a wa l wl d :
  enc_number 32 n wn -> kw " FETCH " k -> enc_msg_att a wa -> enc_att_more l wl ->
  OK (Ref f_rfc3501_x_message_data_fetch DSame) d (wn ++ k ++ [40] ++ wa ++ wl ++ [41])
     (VCon "Response::Fetch" [VNum n; VList (a :: l)]) any.
Proof.
  intros Hn Hk Ha Hl. apply (okref _ _ _ _ _ _ _ env_fetch). unfold def_rfc3501_x_message_data_fetch.
  destruct (kw_space_first _ _ Hk) as [r Ek].
  eapply ok_map.
  { apply ok_seq. regroup (wn ++ (k ++ (([40] ++ wa ++ wl ++ [41]) ++ []))).
    eapply (okseq_cons _ _ _ _ _ _ _ _ _ _ nodigit any); [apply ok_number, Hn | | intros rest _; rewrite Ek; reflexivity].
    eapply (okseq_cons _ _ _ _ _ _ _ _ _ _ any any); [apply ok_tag_nc, Hk | | intros; exact I].
    eapply (okseq_cons _ _ _ _ _ _ _ _ _ _ any any); [apply (ok_att_list a l wa wl _ Ha Hl) | apply (okseq_nil _ _ _ _ any) | intros; exact I]. }
  reflexivity.
Qed.

(* alternatives of the shape `number KEYWORD` reject `number " FETCH "` *)
Lemma rej_num_kw s n wn K k rest d :
  enc_number 32 n wn -> same_nocase (32 :: K) k = true -> nocase_mismatch s (32 :: K) = true ->
  REJ (Seq [Ref f_core_x_number DSame; Leaf (LTagNC s)]) d (wn ++ k ++ rest).
Proof.
  intros Hn Hk Hm. destruct (kw_space_first _ _ Hk) as [r Ek].
  eapply (rej_seq_after _ _ _ _ _ _ _ _ nodigit).
  - apply ok_number, Hn.
  - rewrite Ek. reflexivity.
  - apply rejseq_head. intros b f Hf Hb. destruct f as [|f]; [cbn [need] in Hf; lia|]. rewrite run_S. cbn [step leaf_run].
    rewrite (nocase_mismatch_scan eq_nocase1 s (32 :: K) k rest (or_intror eq_refl) Hm Hk). reflexivity.
Qed.



Lemma env_mailbox_data : env f_rfc3501_x_mailbox_data = Some def_rfc3501_x_mailbox_data. Proof. reflexivity. Qed.
Lemma env_md_exists : env f_rfc3501_x_mailbox_data_exists = Some def_rfc3501_x_mailbox_data_exists. Proof. reflexivity. Qed.
Lemma env_md_recent : env f_rfc3501_x_mailbox_data_recent = Some def_rfc3501_x_mailbox_data_recent. Proof. reflexivity. Qed.
Lemma env_expunge : env f_rfc3501_x_message_data_expunge = Some def_rfc3501_x_message_data_expunge. Proof. reflexivity. Qed.
Lemma env_parse_response : env f_parser_x_parse_response = Some def_parser_x_parse_response. Proof. reflexivity. Qed.

Lemma rej_mailbox_data_on_fetch n wn k rest d : enc_number 32 n wn -> kw " FETCH " k ->
  REJ (Ref f_rfc3501_x_mailbox_data DSame) d (wn ++ k ++ rest).
Proof.
  intros Hn Hk. apply (rejref _ _ _ _ _ env_mailbox_data). unfold def_rfc3501_x_mailbox_data.
  destruct (enc_number_head _ _ _ Hn) as (c & r & Ew & Hc).
  assert (Hdig : forall g, forallb (fun c => fails_on env 8 g [c]) digits10 = true -> REJ g (apply_darg DSame d) (wn ++ k ++ rest)).
  { intros g Hg. rewrite Ew. cbn [app]. apply rej_on_digit; assumption. }
  apply rej_alt_cons; [apply Hdig; vm_compute; reflexivity|].
  apply rej_alt_cons.
  { apply (rejref _ _ _ _ _ env_md_exists). unfold def_rfc3501_x_mailbox_data_exists. apply rej_map, rej_map.
    apply (rej_num_kw _ _ _ (bs "FETCH ") _ _ _ Hn Hk). vm_compute. reflexivity. }
  do 3 (apply rej_alt_cons; [apply Hdig; vm_compute; reflexivity|]).
  apply rej_alt_cons.
  { apply (rejref _ _ _ _ _ env_md_recent). unfold def_rfc3501_x_mailbox_data_recent. apply rej_map, rej_map.
    apply (rej_num_kw _ _ _ (bs "FETCH ") _ _ _ Hn Hk). vm_compute. reflexivity. }
  do 4 (apply rej_alt_cons; [apply Hdig; vm_compute; reflexivity|]).
  apply rej_alt_nil.
Qed.

Definition trailer : G := Map proj12 (Seq [(Many0 (Leaf (LTag (bs " ")))); (Leaf (LTag [13; 10]))]).

Lemma ok_trailer sp d : enc_spaces sp -> exists vs, OK trailer d (sp ++ [13; 10]) (VBytes [13; 10]) any /\ vs = tt.
Proof.
  intro H. exists tt. split; [|reflexivity].
  assert (Hm : exists l, OkMany native_call env rk (Leaf (LTag (bs " "))) d sp l (fun rest => match rest with c :: _ => c = 13 | [] => False end)).
  { induction H as [| w Hw [l IH]].
    - exists []. apply okmany_nil. intros rest Hr. destruct rest as [|c r]; [destruct Hr|]. subst c. apply rej_tag. reflexivity.
    - eexists. change (32 :: w) with ([32] ++ w). eapply (okmany_cons _ _ _ _ _ _ _ _ _ any).
      + apply ok_tag.
      + discriminate.
      + exact IH.
      + intros; exact I. }
  destruct Hm as [l Hm]. unfold trailer. eapply ok_map.
  { apply ok_seq. regroup (sp ++ ([13; 10] ++ [])).
    eapply (okseq_cons _ _ _ _ _ _ _ _ _ _ (fun rest => match rest with c :: _ => c = 13 | [] => False end) any).
    - apply ok_many0. exact Hm.
    - eapply (okseq_cons _ _ _ _ _ _ _ _ _ _ any any); [apply ok_tag | apply (okseq_nil _ _ _ _ any) | intros; exact I].
    - intros rest _. reflexivity. }
  reflexivity.
Qed.

Theorem fetch_roundtrip v w : enc_fetch v w -> forall rest, parse (w ++ rest) = ROk rest v (nlen w).
Proof.
  intros [n wn k a wa l wl sp Hn Hk Ha Hl Hsp] rest. unfold parse.
  assert (HOK : OK def_parser_x_parse_response 0%nat (bs "* " ++ wn ++ k ++ [40] ++ wa ++ wl ++ [41] ++ sp ++ [13; 10])
                   (VCon "Response::Fetch" [VNum n; VList (a :: l)]) any).
  { unfold def_parser_x_parse_response.
    (* "+" ... *)
    apply ok_alt_skip.
    { intros r _. cbn [bs N_of_ascii app]. apply (fails_on_byte native_call env rk rank_ok_all 8). vm_compute. reflexivity. }
    apply ok_alt_here. apply (okref _ _ _ _ _ _ _ env_response_data). unfold def_rfc3501_x_response_data.
    destruct (ok_trailer sp (apply_darg DSame 0%nat) Hsp) as (_ & Htr & _).
    destruct (enc_number_head _ _ _ Hn) as (c & r & Ew & Hc).
    eapply ok_map.
    { apply ok_seq. regroup (bs "* " ++ ((wn ++ k ++ [40] ++ wa ++ wl ++ [41]) ++ ((sp ++ [13; 10]) ++ []))).
      eapply (okseq_cons _ _ _ _ _ _ _ _ _ _ any any); [apply ok_tag | | intros; exact I].
      eapply (okseq_cons _ _ _ _ _ _ _ _ _ _ any any); [| | intros; exact I].
      - (* resp_cond, mailbox data, expunge are rejected; then FETCH *)
        apply ok_alt_skip.
        { intros r0 _. rewrite Ew. cbn [app]. apply rej_on_digit; [vm_compute; reflexivity | exact Hc]. }
        apply ok_alt_skip.
        { intros r0 _. apply rej_map. repeat rewrite <- app_assoc. apply (rej_mailbox_data_on_fetch n wn k _ _ Hn Hk). }
        apply ok_alt_skip.
        { intros r0 _. apply rej_map. apply (rejref _ _ _ _ _ env_expunge). unfold def_rfc3501_x_message_data_expunge.
          apply rej_map. repeat rewrite <- app_assoc.
          apply (rej_num_kw _ _ _ (bs "FETCH ") _ _ _ Hn Hk). vm_compute. reflexivity. }
        apply ok_alt_here. apply (ok_fetch_data n wn k a wa l wl _ Hn Hk Ha Hl).
      - eapply (okseq_cons _ _ _ _ _ _ _ _ _ _ any any); [exact Htr | apply (okseq_nil _ _ _ _ any) | intros; exact I]. }
    reflexivity. }
  apply HOK; [| rewrite ?app_length; cbn [length]; lia | exact I].
  pose proof fuel_enough as Hf. apply N.leb_le in Hf. exact Hf.
Qed.

(* ---------------------------------------------------------------- lifting any untagged data item to the entry point *)
Definition rd_alts : list G :=
  match def_rfc3501_x_response_data with Map _ (Seq [_; Alt l; _]) => l | _ => [] end.
Lemma response_data_shape :
  def_rfc3501_x_response_data = Map (mk_action (PTuple [PWild; PVar "p1"; PWild]) (AVar "p1")) (Seq [Leaf (LTag (bs "* ")); Alt rd_alts; trailer]).
Proof. reflexivity. Qed.

Definition before_trailer (rest : list byte) : Prop := match rest with c :: _ => c = 32 \/ c = 13 | [] => False end.

Lemma spaces_then_crlf sp rest : enc_spaces sp -> before_trailer (sp ++ [13; 10] ++ rest).
Proof. intros [|w H]; cbn [app]; [right | left]; reflexivity. Qed.

Theorem untagged_lift_gen body v (F : list byte -> Prop) sp : (forall d, OK (Alt rd_alts) d body v F) ->
  enc_spaces sp -> (forall rest, F (sp ++ [13; 10] ++ rest)) -> forall rest,
  parse ((bs "* " ++ body ++ sp ++ [13; 10]) ++ rest) = ROk rest v (nlen (bs "* " ++ body ++ sp ++ [13; 10])).
Proof.
  intros Hbody Hsp HF rest. unfold parse.
  assert (HOK : OK def_parser_x_parse_response 0%nat (bs "* " ++ body ++ sp ++ [13; 10]) v any).
  { unfold def_parser_x_parse_response.
    apply ok_alt_skip.
    { intros r _. cbn [bs N_of_ascii app]. apply (fails_on_byte native_call env rk rank_ok_all 8). vm_compute. reflexivity. }
    apply ok_alt_here. apply (okref _ _ _ _ _ _ _ env_response_data). rewrite response_data_shape.
    destruct (ok_trailer sp (apply_darg DSame 0%nat) Hsp) as (_ & Htr & _).
    eapply ok_map.
    { apply ok_seq. regroup (bs "* " ++ (body ++ ((sp ++ [13; 10]) ++ []))).
      eapply (okseq_cons _ _ _ _ _ _ _ _ _ _ any any); [apply ok_tag | | intros; exact I].
      eapply (okseq_cons _ _ _ _ _ _ _ _ _ _ F any); [apply Hbody | | ].
      - eapply (okseq_cons _ _ _ _ _ _ _ _ _ _ any any); [exact Htr | apply (okseq_nil _ _ _ _ any) | intros; exact I].
      - intros r _. match goal with |- F ?x => replace x with (sp ++ [13; 10] ++ r) by app_norm end. apply HF. }
    reflexivity. }
  apply HOK; [| rewrite ?app_length; cbn [length]; lia | exact I].
  pose proof fuel_enough as Hf. apply N.leb_le in Hf. exact Hf.
Qed.

Theorem untagged_lift body v : (forall d, OK (Alt rd_alts) d body v before_trailer) ->
  forall sp rest, enc_spaces sp ->
  parse ((bs "* " ++ body ++ sp ++ [13; 10]) ++ rest) = ROk rest v (nlen (bs "* " ++ body ++ sp ++ [13; 10])).
Proof.
  intros Hbody sp rest Hsp. apply (untagged_lift_gen body v before_trailer sp Hbody Hsp). intro r. apply spaces_then_crlf, Hsp.
Qed.

(* ---------------------------------------------------------------- n EXISTS / n RECENT / n EXPUNGE *)
Lemma rej_mailbox_data_num n wn K k rest d : enc_number 32 n wn -> same_nocase (32 :: K) k = true ->
  nocase_mismatch (bs " EXISTS") (32 :: K) = true -> nocase_mismatch (bs " RECENT") (32 :: K) = true ->
  REJ (Ref f_rfc3501_x_mailbox_data DSame) d (wn ++ k ++ rest).
Proof.
  intros Hn Hk M1 M2. apply (rejref _ _ _ _ _ env_mailbox_data). unfold def_rfc3501_x_mailbox_data.
  destruct (enc_number_head _ _ _ Hn) as (c & r & Ew & Hc).
  assert (Hdig : forall g, forallb (fun c => fails_on env 8 g [c]) digits10 = true -> REJ g (apply_darg DSame d) (wn ++ k ++ rest)).
  { intros g Hg. rewrite Ew. cbn [app]. apply rej_on_digit; assumption. }
  apply rej_alt_cons; [apply Hdig; vm_compute; reflexivity|].
  apply rej_alt_cons.
  { apply (rejref _ _ _ _ _ env_md_exists). unfold def_rfc3501_x_mailbox_data_exists. apply rej_map, rej_map.
    apply (rej_num_kw _ _ _ K _ _ _ Hn Hk M1). }
  do 3 (apply rej_alt_cons; [apply Hdig; vm_compute; reflexivity|]).
  apply rej_alt_cons.
  { apply (rejref _ _ _ _ _ env_md_recent). unfold def_rfc3501_x_mailbox_data_recent. apply rej_map, rej_map.
    apply (rej_num_kw _ _ _ K _ _ _ Hn Hk M2). }
  do 4 (apply rej_alt_cons; [apply Hdig; vm_compute; reflexivity|]).
  apply rej_alt_nil.
Qed.

Lemma ok_num_kw s n wn k d : enc_number 32 n wn -> same_nocase (32 :: s) k = true ->
  OK (Map (mk_action (PTuple [PVar "p0"; PWild]) (AVar "p0")) (Seq [Ref f_core_x_number DSame; Leaf (LTagNC (32 :: s))])) d (wn ++ k) (VNum n) any.
Proof.
  intros Hn Hk. destruct (kw_space_first _ _ Hk) as [r Ek]. eapply ok_map.
  { apply ok_seq. regroup (wn ++ (k ++ [])).
    eapply (okseq_cons _ _ _ _ _ _ _ _ _ _ nodigit any); [apply ok_number, Hn | | intros rest _; rewrite Ek; reflexivity].
    eapply (okseq_cons _ _ _ _ _ _ _ _ _ _ any any); [apply ok_tag_nc, Hk | apply (okseq_nil _ _ _ _ any) | intros; exact I]. }
  reflexivity.
Qed.

Lemma rd_alts_unfold : rd_alts = match def_rfc3501_x_response_data with Map _ (Seq [_; Alt l; _]) => l | _ => [] end.
Proof. reflexivity. Qed.

Lemma ok_untagged_numeric v body d : 
  (exists n w k, enc_number 32 n w /\ body = w ++ k /\
     ((kw " EXISTS" k /\ v = VCon "Response::MailboxData" [VCon "MailboxDatum::Exists" [VNum n]]) \/
      (kw " RECENT" k /\ v = VCon "Response::MailboxData" [VCon "MailboxDatum::Recent" [VNum n]]) \/
      (kw " EXPUNGE" k /\ v = VCon "Response::Expunge" [VNum n]))) ->
  OK (Alt rd_alts) d body v before_trailer.
Proof.
  intros (n & w & k & Hn & -> & Hcase). apply (Ok_follow _ _ _ _ _ _ _ any); [|intros; exact I].
  destruct (enc_number_head _ _ _ Hn) as (c & r & Ew & Hc).
  unfold rd_alts. cbn [def_rfc3501_x_response_data].
  (* resp_cond never starts with a digit *)
  apply ok_alt_skip.
  { intros r0 _. rewrite Ew. cbn [app]. apply rej_on_digit; [vm_compute; reflexivity | exact Hc]. }
  destruct Hcase as [[Hk ->] | [[Hk ->] | [Hk ->]]]; unfold kw in Hk.
  - (* EXISTS: mailbox_data, second alternative *)
    apply ok_alt_here. eapply ok_map.
    { apply (okref _ _ _ _ _ _ _ env_mailbox_data). unfold def_rfc3501_x_mailbox_data.
      apply ok_alt_skip.
      { intros r0 _. rewrite Ew. cbn [app]. apply rej_on_digit; [vm_compute; reflexivity | exact Hc]. }
      apply ok_alt_here. apply (okref _ _ _ _ _ _ _ env_md_exists). unfold def_rfc3501_x_mailbox_data_exists.
      eapply ok_map. { apply (ok_num_kw (bs "EXISTS") n w k _ Hn Hk). } reflexivity. }
    reflexivity.
  - (* RECENT *)
    apply ok_alt_here. eapply ok_map.
    { apply (okref _ _ _ _ _ _ _ env_mailbox_data). unfold def_rfc3501_x_mailbox_data.
      apply ok_alt_skip.
      { intros r0 _. rewrite Ew. cbn [app]. apply rej_on_digit; [vm_compute; reflexivity | exact Hc]. }
      apply ok_alt_skip.
      { intros r0 _. apply (rejref _ _ _ _ _ env_md_exists). unfold def_rfc3501_x_mailbox_data_exists. apply rej_map, rej_map.
        rewrite <- app_assoc. apply (rej_num_kw _ _ _ (bs "RECENT") _ _ _ Hn Hk). vm_compute. reflexivity. }
      do 3 (apply ok_alt_skip; [intros r0 _; rewrite Ew; cbn [app]; apply rej_on_digit; [vm_compute; reflexivity | exact Hc]|]).
      apply ok_alt_here. apply (okref _ _ _ _ _ _ _ env_md_recent). unfold def_rfc3501_x_mailbox_data_recent.
      eapply ok_map. { apply (ok_num_kw (bs "RECENT") n w k _ Hn Hk). } reflexivity. }
    reflexivity.
  - (* EXPUNGE *)
    apply ok_alt_skip.
    { intros r0 _. apply rej_map. rewrite <- app_assoc.
      apply (rej_mailbox_data_num n w (bs "EXPUNGE") k r0 _ Hn Hk); vm_compute; reflexivity. }
    apply ok_alt_here. eapply ok_map.
    { apply (okref _ _ _ _ _ _ _ env_expunge). unfold def_rfc3501_x_message_data_expunge. apply (ok_num_kw (bs "EXPUNGE") n w k _ Hn Hk). }
    reflexivity.
Qed.

(* ---------------------------------------------------------------- VANISHED and sequence sets (RFC 7162) *)
Lemma env_sequence_set : env f_core_x_sequence_set = Some def_core_x_sequence_set. Proof. reflexivity. Qed.
Lemma env_sequence_range : env f_core_x_sequence_range = Some def_core_x_sequence_range. Proof. reflexivity. Qed.
Lemma env_vanished : env f_rfc7162_x_resp_vanished = Some def_rfc7162_x_resp_vanished. Proof. reflexivity. Qed.

Definition seq_item_g : G :=
  Alt [(Ref f_core_x_sequence_range DSame);
       (Map (mk_action (PVar "x") (ACon "RangeInclusive" [AVar "x"; AVar "x"])) (Ref f_core_x_number DSame))].

(* after an item: not a digit and not a colon *)
Definition item_follow (rest : list byte) : Prop :=
  match rest with c :: _ => nom_is_digit c = false /\ (58 =? c) = false | [] => False end.

Lemma ok_seq_item v w d : enc_seq_item v w -> OK seq_item_g d w v item_follow.
Proof.
  intros [n w0 Hn | a b wa wb Ha Hb]; unfold seq_item_g.
  - apply ok_alt_skip.
    + intros rest Hr. apply (rejref _ _ _ _ _ env_sequence_range). unfold def_core_x_sequence_range. apply rej_map.
      destruct rest as [|c r]; [destruct Hr|]. destruct Hr as [Hd Hc].
      eapply (rej_seq_after _ _ _ _ _ _ _ _ nodigit).
      * apply ok_number, Hn.
      * exact Hd.
      * apply rejseq_head. apply rej_tag. exact Hc.
    + apply ok_alt_here. apply (Ok_follow _ _ _ _ _ _ _ nodigit).
      * eapply ok_map. { apply ok_number, Hn. } reflexivity.
      * intros r Hr. destruct r as [|c r]; [destruct Hr|]. exact (proj1 Hr).
  - apply ok_alt_here. apply (Ok_follow _ _ _ _ _ _ _ nodigit).
    + apply (okref _ _ _ _ _ _ _ env_sequence_range). unfold def_core_x_sequence_range.
      eapply ok_map.
      { apply ok_seq. regroup (wa ++ ([58] ++ (wb ++ []))).
        eapply (okseq_cons _ _ _ _ _ _ _ _ _ _ nodigit nodigit); [apply ok_number, Ha | | intros rest _; reflexivity].
        eapply (okseq_cons _ _ _ _ _ _ _ _ _ _ any nodigit); [apply ok_tag | | intros; exact I].
        eapply (okseq_cons _ _ _ _ _ _ _ _ _ _ nodigit nodigit); [apply ok_number, Hb | apply (okseq_nil _ _ _ _ nodigit) | intros r Hr; exact Hr]. }
      reflexivity.
    + intros r Hr. destruct r as [|c r]; [destruct Hr|]. exact (proj1 Hr).
Qed.

Lemma enc_seq_item_head v w : enc_seq_item v w -> exists c r, w = c :: r /\ nom_is_digit c = true.
Proof.
  intros [n w0 Hn | a b wa wb Ha Hb].
  - exact (enc_number_head _ _ _ Hn).
  - destruct (enc_number_head _ _ _ Ha) as (c & r & -> & Hc). cbn [app]. eexists _, _. split; [reflexivity | exact Hc].
Qed.

Lemma oksep_seq l ws d : enc_seq_more l ws ->
  OkSep native_call env rk (Leaf (LTag (bs ","))) seq_item_g d ws l before_trailer.
Proof.
  intro H. induction H as [| v l w ws Hv Hl IH].
  - apply oksep_nil. intros rest Hr. destruct rest as [|c r]; [destruct Hr|]. apply rej_tag. destruct Hr as [-> | ->]; reflexivity.
  - eapply (oksep_cons _ _ _ _ _ _ _ _ _ _ _ _ any item_follow before_trailer).
    + apply ok_tag.
    + discriminate.
    + apply ok_seq_item, Hv.
    + exact IH.
    + intros rest Hr. destruct Hl; cbn [app].
      * destruct rest as [|c r]; [destruct Hr|]. destruct Hr as [-> | ->]; split; reflexivity.
      * split; reflexivity.
    + intros; exact I.
Qed.

Lemma ok_sequence_set v l w wl d : enc_seq_item v w -> enc_seq_more l wl ->
  OK (Ref f_core_x_sequence_set DSame) d (w ++ wl) (VList (v :: l)) before_trailer.
Proof.
  intros Hv Hl. apply (okref _ _ _ _ _ _ _ env_sequence_set). unfold def_core_x_sequence_set. fold seq_item_g.
  eapply (ok_seplist1 _ _ _ _ _ _ _ _ _ _ item_follow before_trailer).
  - apply ok_seq_item, Hv.
  - apply oksep_seq, Hl.
  - intros rest Hr. destruct Hl; cbn [app].
    + destruct rest as [|c r]; [destruct Hr|]. destruct Hr as [-> | ->]; split; reflexivity.
    + split; reflexivity.
Qed.

Lemma ok_ws1 ws d : enc_ws1 ws -> OK (Leaf (LTakeWhile1 nom_is_space)) d ws (VBytes ws) (stops_at nom_is_space).
Proof. intros [w Hne Hw]. apply ok_take_while1; assumption. Qed.

Lemma digit_not_space c : nom_is_digit c = true -> nom_is_space c = false.
Proof.
  unfold nom_is_digit, nom_is_space. intro H. apply andb_true_iff in H. destruct H as [A B]. apply N.leb_le in A, B.
  apply orb_false_iff. split; apply N.eqb_neq; lia.
Qed.

Lemma range_val_norm a b : range_val a b = range_norm a b.
Proof. reflexivity. Qed.

Lemma ok_vanished v body d : (exists k earlier ke ws vi l w wl, body = k ++ ke ++ ws ++ w ++ wl /\
    v = VRec "Response::Vanished" [("earlier"%string, VBool earlier); ("uids"%string, VList (vi :: l))] /\ kw "VANISHED" k /\
    ((earlier = true /\ (exists s e, ke = s ++ e /\ enc_ws1 s /\ kw "(EARLIER)" e)) \/ (earlier = false /\ ke = [])) /\
    enc_ws1 ws /\ enc_seq_item vi w /\ enc_seq_more l wl) ->
  OK (Alt rd_alts) d body v before_trailer.
Proof.
  intros (k & earlier & ke & ws & vi & l & w & wl & -> & -> & Hk & Hke & Hws & Hvi & Hl). unfold kw in Hk.
  unfold rd_alts. cbn [def_rfc3501_x_response_data].
  do 8 (apply (skip_kw _ _ (bs "VANISHED") _ _ _ _ _ Hk); [vm_compute; reflexivity|]).
  apply ok_alt_here. apply (okref _ _ _ _ _ _ _ env_vanished). unfold def_rfc7162_x_resp_vanished.
  destruct (enc_seq_item_head _ _ Hvi) as (c & r & Ew & Hc).
  destruct Hke as [[-> (s & e & -> & Hs & He)] | [-> ->]].
  - (* (EARLIER) present *)
    unfold kw in He.
    assert (He1 : exists r1, e = 40 :: r1).
    { destruct e as [|x r1]; [discriminate|]. cbn [bs N_of_ascii same_nocase] in He. apply andb_true_iff in He. destruct He as [Hx _].
      destruct (lower_variants _ _ Hx) as [<- | []]. exists r1. reflexivity. }
    destruct He1 as [r1 Ee].
    eapply ok_map.
    { apply ok_seq. regroup (k ++ ((s ++ (e ++ [])) ++ (ws ++ ((w ++ wl) ++ [])))).
      eapply (okseq_cons _ _ _ _ _ _ _ _ _ _ any before_trailer); [apply ok_tag_nc, Hk | | intros; exact I].
      eapply (okseq_cons _ _ _ _ _ _ _ _ _ _ any before_trailer); [| | intros; exact I].
      - apply ok_opt_some. apply ok_seq.
        eapply (okseq_cons _ _ _ _ _ _ _ _ _ _ (stops_at nom_is_space) any); [apply ok_ws1, Hs | | intros rest _; rewrite Ee; reflexivity].
        eapply (okseq_cons _ _ _ _ _ _ _ _ _ _ any any); [apply ok_tag_nc, He | apply (okseq_nil _ _ _ _ any) | intros; exact I].
      - eapply (okseq_cons _ _ _ _ _ _ _ _ _ _ (stops_at nom_is_space) before_trailer); [apply ok_ws1, Hws | | ].
        + eapply (okseq_cons _ _ _ _ _ _ _ _ _ _ before_trailer before_trailer); [apply (ok_sequence_set vi l w wl _ Hvi Hl) | apply (okseq_nil _ _ _ _ before_trailer) | intros r0 Hr0; exact Hr0].
        + intros rest _. rewrite Ew. cbn [app]. apply digit_not_space, Hc. }
    reflexivity.
  - (* no (EARLIER): the optional group is tried (spaces are consumed) and turned down by the digit *)
    eapply ok_map.
    { apply ok_seq. regroup (k ++ ([] ++ (ws ++ ((w ++ wl) ++ [])))).
      eapply (okseq_cons _ _ _ _ _ _ _ _ _ _ any before_trailer); [apply ok_tag_nc, Hk | | intros; exact I].
      eapply (okseq_cons _ _ _ _ _ _ _ _ _ _ (fun rest => exists r2, rest = ws ++ c :: r2) before_trailer).
      - apply ok_opt_none. intros rest (r2 & ->).
        eapply (rej_seq_after _ _ _ _ _ _ _ _ (stops_at nom_is_space)).
        + apply ok_ws1, Hws.
        + cbn. apply digit_not_space, Hc.
        + apply rejseq_head. apply rej_tag_nc.
          assert (Hlt : c < 256) by (unfold nom_is_digit in Hc; apply andb_true_iff in Hc; destruct Hc as [_ B]; apply N.leb_le in B; lia).
          pose proof (sweep (fun c => implb (nom_is_digit c) (negb (eq_nocase1 40 c))) ltac:(vm_compute; reflexivity) c Hlt) as Hx.
          cbv beta in Hx. rewrite Hc in Hx. cbn [implb] in Hx. apply negb_true_iff in Hx. exact Hx.
      - eapply (okseq_cons _ _ _ _ _ _ _ _ _ _ (stops_at nom_is_space) before_trailer); [apply ok_ws1, Hws | | ].
        + eapply (okseq_cons _ _ _ _ _ _ _ _ _ _ before_trailer before_trailer); [apply (ok_sequence_set vi l w wl _ Hvi Hl) | apply (okseq_nil _ _ _ _ before_trailer) | intros r0 Hr0; exact Hr0].
        + intros rest _. rewrite Ew. cbn [app]. apply digit_not_space, Hc.
      - intros rest _. rewrite Ew. repeat rewrite <- app_assoc. cbn [app]. eexists. reflexivity. }
    reflexivity.
Qed.

Theorem untagged_roundtrip v w : enc_untagged_response v w -> forall rest, parse (w ++ rest) = ROk rest v (nlen w).
Proof.
  intros [v0 body sp Hb Hsp] rest. apply untagged_lift; [|exact Hsp]. intro d.
  destruct Hb as [n w0 k Hn Hk | n w0 k Hn Hk | n w0 k Hn Hk | k earlier ke ws vi l w0 wl Hk Hke Hws Hvi Hl].
  - apply ok_untagged_numeric. exists n, w0, k. split; [exact Hn|]. split; [reflexivity|]. left. split; [exact Hk | reflexivity].
  - apply ok_untagged_numeric. exists n, w0, k. split; [exact Hn|]. split; [reflexivity|]. right. left. split; [exact Hk | reflexivity].
  - apply ok_untagged_numeric. exists n, w0, k. split; [exact Hn|]. split; [reflexivity|]. right. right. split; [exact Hk | reflexivity].
  - apply ok_vanished. exists k, earlier, ke, ws, vi, l, w0, wl.
    split; [reflexivity|]. split; [reflexivity|]. split; [exact Hk|]. split; [exact Hke|]. split; [exact Hws|]. split; [exact Hvi | exact Hl].
Qed.


(* ---------------------------------------------------------------- QUOTA (RFC 2087): name, usage, limit in their slots *)
Lemma env_quota : env f_rfc2087_x_quota = Some def_rfc2087_x_quota. Proof. reflexivity. Qed.
Lemma env_quota_list : env f_rfc2087_x_quota_list = Some def_rfc2087_x_quota_list. Proof. reflexivity. Qed.
Lemma env_quota_resource : env f_rfc2087_x_quota_resource = Some def_rfc2087_x_quota_resource. Proof. reflexivity. Qed.
Lemma env_quota_resource_name : env f_rfc2087_x_quota_resource_name = Some def_rfc2087_x_quota_resource_name. Proof. reflexivity. Qed.
Lemma env_astring_utf8 : env f_core_x_astring_utf8 = Some def_core_x_astring_utf8. Proof. reflexivity. Qed.

Lemma ok_astring_utf8 s w d : enc_astring s w -> utf8_valid s = true ->
  OK (Ref f_core_x_astring_utf8 DSame) d w (VBytes s) (stops_at cls_core_x_is_astring_char).
Proof.
  intros Hs Hu. apply (okref _ _ _ _ _ _ _ env_astring_utf8). unfold def_core_x_astring_utf8.
  eapply ok_mapres. { apply ok_astring, Hs. } cbn. unfold native_call. cbn. rewrite Hu. reflexivity.
Qed.

Lemma same_nocase_eq_nocase s w : same_nocase s w = true -> eq_nocase w s = true.
Proof.
  revert w; induction s as [|a s IH]; intros [|b w] H; try discriminate; [reflexivity|].
  cbn [same_nocase] in H. apply andb_true_iff in H. destruct H as [H1 H2].
  unfold eq_nocase. cbn [list_eqb]. unfold eq_nocase1 in H1. rewrite N.eqb_sym, H1. exact (IH w H2).
Qed.

(* a keyword spelled in any case is still made of atom characters when the keyword is alphabetic *)
Lemma kw_alpha_chars K w : forallb (fun b => (65 <=? b) && (b <=? 90)) K = true -> same_nocase K w = true ->
  forallb cls_core_x_is_astring_char w = true /\ forallb (fun b => b <=? 127) w = true.
Proof.
  revert w; induction K as [|a K IH]; intros [|b w] HK H; try discriminate; [split; reflexivity|].
  cbn [forallb] in HK. apply andb_true_iff in HK. destruct HK as [Ha HK].
  cbn [same_nocase] in H. apply andb_true_iff in H. destruct H as [Hab H].
  destruct (IH w HK H) as [I1 I2]. cbn [forallb]. rewrite I1, I2.
  assert (Hb : b = lower a \/ b = lower a - 32).
  { pose proof (lower_variants a b Hab) as Hin. unfold variants in Hin. cbv zeta in Hin.
    destruct ((97 <=? lower a) && (lower a <=? 122)); cbn [In] in Hin.
    - destruct Hin as [E | [E | []]]; [left | right]; symmetry; exact E.
    - destruct Hin as [E | []]. left. symmetry. exact E. }
  apply andb_true_iff in Ha. destruct Ha as [A1 A2]. apply N.leb_le in A1, A2.
  assert (Hl : lower a = a + 32) by (unfold lower, is_upper; replace ((65 <=? a) && (a <=? 90)) with true by (symmetry; apply andb_true_iff; split; apply N.leb_le; lia); reflexivity).
  assert (Hlt : b < 256) by (destruct Hb as [-> | ->]; lia).
  pose proof (sweep (fun b => implb (((65 <=? b) && (b <=? 90)) || ((97 <=? b) && (b <=? 122))) (cls_core_x_is_astring_char b && (b <=? 127))) ltac:(vm_compute; reflexivity) b Hlt) as Hx.
  cbv beta in Hx.
  assert (Hrange : (((65 <=? b) && (b <=? 90)) || ((97 <=? b) && (b <=? 122))) = true).
  { apply orb_true_iff. destruct Hb as [-> | ->]; [right | left]; apply andb_true_iff; split; apply N.leb_le; lia. }
  rewrite Hrange in Hx. cbn [implb] in Hx. apply andb_true_iff in Hx. destruct Hx as [X1 X2]. rewrite X1, X2. split; reflexivity.
Qed.

Lemma ok_quota_name v w d : enc_quota_name v w -> OK (Ref f_rfc2087_x_quota_resource_name DSame) d w v (stops_at cls_core_x_is_astring_char).
Proof.
  intro H. apply (okref _ _ _ _ _ _ _ env_quota_resource_name). unfold def_rfc2087_x_quota_resource_name.
  assert (Hgen : forall a, a <> [] -> forallb cls_core_x_is_astring_char a = true -> forallb (fun b => b <=? 127) a = true ->
            OK (Ref f_core_x_astring_utf8 DSame) (apply_darg DSame d) a (VBytes a) (stops_at cls_core_x_is_astring_char)).
  { intros a Hne Hc H7. apply (okref _ _ _ _ _ _ _ env_astring_utf8). unfold def_core_x_astring_utf8.
    eapply ok_mapres.
    { apply (okref _ _ _ _ _ _ _ env_astring). unfold def_core_x_astring. apply ok_alt_here. apply ok_take_while1; assumption. }
    cbn. unfold native_call. cbn. rewrite (ascii_utf8 a H7). reflexivity. }
  destruct H as [w Hk | w Hk | a Hne Ha N1 N2]; unfold kw in *.
  - destruct (kw_alpha_chars (bs "STORAGE") w ltac:(reflexivity) Hk) as [C1 C2].
    eapply ok_map. { apply Hgen; [destruct w; [discriminate|discriminate] | exact C1 | exact C2]. }
    cbn. unfold native_call. cbn. unfold classify_quota_name. rewrite (same_nocase_eq_nocase _ _ Hk). reflexivity.
  - destruct (kw_alpha_chars (bs "MESSAGE") w ltac:(reflexivity) Hk) as [C1 C2].
    eapply ok_map. { apply Hgen; [destruct w; [discriminate|discriminate] | exact C1 | exact C2]. }
    cbn. unfold native_call. cbn. unfold classify_quota_name.
    destruct (eq_nocase w (bs "STORAGE")) eqn:E.
    + (* a word cannot be both *)
      exfalso. clear - Hk E. unfold eq_nocase in E.
      destruct w as [|c0 w]; [discriminate|]. cbn [bs N_of_ascii same_nocase list_eqb] in Hk, E.
      apply andb_true_iff in Hk. destruct Hk as [Hk _]. apply andb_true_iff in E. destruct E as [E _].
      unfold eq_nocase1 in Hk. apply N.eqb_eq in Hk, E. rewrite E in Hk. discriminate Hk.
    + rewrite (same_nocase_eq_nocase _ _ Hk). reflexivity.
  - eapply ok_map.
    { apply Hgen; [exact Hne | |].
      - apply (forallb_impl rfc_ATOM_CHAR); [intros x Hx; exact (proj1 (proj2 (atom_char_facts x Hx))) | exact Ha].
      - apply (forallb_impl rfc_ATOM_CHAR); [intros x Hx; exact (proj1 (proj2 (proj2 (atom_char_facts x Hx)))) | exact Ha]. }
    cbn. unfold native_call. cbn. unfold classify_quota_name. rewrite N1, N2. reflexivity.
Qed.

Definition ws_g : G := Leaf (LTakeWhile1 nom_is_space).
Definition notspace : list byte -> Prop := stops_at nom_is_space.

Lemma enc_quota_name_head v w : enc_quota_name v w -> exists c r, w = c :: r /\ nom_is_space c = false.
Proof.
  assert (Hkw : forall K w1, forallb (fun b => (65 <=? b) && (b <=? 90)) K = true -> K <> [] -> same_nocase K w1 = true ->
             exists c r, w1 = c :: r /\ nom_is_space c = false).
  { intros K w1 HK Hne Hs. destruct (kw_alpha_chars K w1 HK Hs) as [C _]. destruct w1 as [|c r]; [destruct K; [contradiction|discriminate]|].
    exists c, r. split; [reflexivity|]. cbn [forallb] in C. apply andb_true_iff in C. destruct C as [C _].
    destruct (nom_is_space c) eqn:E; [|reflexivity]. unfold nom_is_space in E. apply orb_true_iff in E.
    destruct E as [E | E]; apply N.eqb_eq in E; subst c; discriminate C. }
  intros [w0 Hk | w0 Hk | a Hne Ha _ _].
  - apply (Hkw (bs "STORAGE")); [reflexivity | discriminate | exact Hk].
  - apply (Hkw (bs "MESSAGE")); [reflexivity | discriminate | exact Hk].
  - destruct a as [|c r]; [contradiction|]. exists c, r. split; [reflexivity|].
    cbn [forallb] in Ha. apply andb_true_iff in Ha. destruct Ha as [Hc _]. destruct (atom_char_facts c Hc) as (_ & C & _).
    destruct (nom_is_space c) eqn:E; [|reflexivity]. unfold nom_is_space in E. apply orb_true_iff in E.
    destruct E as [E | E]; apply N.eqb_eq in E; subst c; discriminate C.
Qed.

Lemma ws1_head s : enc_ws1 s -> exists c r, s = c :: r /\ nom_is_space c = true /\ nom_is_digit c = false /\ cls_core_x_is_astring_char c = false.
Proof.
  intros [w Hne Hw]. destruct w as [|c r]; [contradiction|]. exists c, r. split; [reflexivity|].
  cbn [forallb] in Hw. apply andb_true_iff in Hw. destruct Hw as [Hc _]. split; [exact Hc|].
  apply orb_true_iff in Hc. destruct Hc as [E | E]; apply N.eqb_eq in E; subst c; split; reflexivity.
Qed.

Definition res_follow (rest : list byte) : Prop := match rest with c :: _ => nom_is_digit c = false | [] => False end.

Lemma ok_quota_resource v w d : enc_quota_resource v w -> OK (Ref f_rfc2087_x_quota_resource DSame) d w v nodigit.
Proof.
  intros [name wn s1 usage wu s2 limit wl Hn H1 Hu H2 Hl]. apply (okref _ _ _ _ _ _ _ env_quota_resource). unfold def_rfc2087_x_quota_resource.
  destruct (ws1_head _ H1) as (c1 & r1 & E1 & _ & _ & A1). destruct (ws1_head _ H2) as (c2 & r2 & E2 & _ & D2 & _).
  destruct (enc_number_head _ _ _ Hu) as (cu & ru & Eu & Du). destruct (enc_number_head _ _ _ Hl) as (cl & rl & El & Dl).
  eapply ok_map.
  { apply ok_seq. regroup (wn ++ (s1 ++ (wu ++ (s2 ++ (wl ++ []))))). fold ws_g.
    eapply (okseq_cons _ _ _ _ _ _ _ _ _ _ (stops_at cls_core_x_is_astring_char) nodigit); [apply ok_quota_name, Hn | | intros rest _; rewrite E1; exact A1].
    eapply (okseq_cons _ _ _ _ _ _ _ _ _ _ notspace nodigit); [apply ok_ws1, H1 | | intros rest _; rewrite Eu; apply digit_not_space, Du].
    eapply (okseq_cons _ _ _ _ _ _ _ _ _ _ nodigit nodigit); [apply ok_number_64, Hu | | intros rest _; rewrite E2; exact D2].
    eapply (okseq_cons _ _ _ _ _ _ _ _ _ _ notspace nodigit); [apply ok_ws1, H2 | | intros rest _; rewrite El; apply digit_not_space, Dl].
    eapply (okseq_cons _ _ _ _ _ _ _ _ _ _ nodigit nodigit); [apply ok_number_64, Hl | apply (okseq_nil _ _ _ _ nodigit) | intros r Hr; exact Hr]. }
  reflexivity.
Qed.

Lemma enc_quota_resource_head v w : enc_quota_resource v w -> exists c r, w = c :: r /\ nom_is_space c = false.
Proof.
  intros [name wn s1 usage wu s2 limit wl Hn _ _ _ _]. destruct (enc_quota_name_head _ _ Hn) as (c & r & -> & Hc).
  cbn [app]. eexists _, _. split; [reflexivity | exact Hc].
Qed.

Lemma oksep_quota l ws d : enc_quota_more l ws ->
  OkSep native_call env rk ws_g (Ref f_rfc2087_x_quota_resource DSame) d ws l closes.
Proof.
  intro H. induction H as [| r l s w ws Hs Hr Hl IH].
  - apply oksep_nil. intros rest Hr. destruct rest as [|c r]; [destruct Hr|]. cbn in Hr. subst c. apply rej_take_while1. reflexivity.
  - destruct (enc_quota_resource_head _ _ Hr) as (c & r0 & Ew & Hc).
    eapply (oksep_cons _ _ _ _ _ _ _ _ _ _ _ _ notspace nodigit closes).
    + apply ok_ws1, Hs.
    + destruct Hs as [w0 Hne _]. exact Hne.
    + apply ok_quota_resource, Hr.
    + exact IH.
    + intros rest Hr0. destruct Hl as [| r1 l1 s1 w1 ws1 Hs1 _ _]; cbn [app].
      * destruct rest as [|x rr]; [destruct Hr0|]. cbn in Hr0. subst x. reflexivity.
      * destruct (ws1_head _ Hs1) as (cs & rs & -> & _ & D & _). cbn [app]. exact D.
    + intros rest _. rewrite Ew. cbn [app]. exact Hc.
Qed.

Lemma ok_quota_list v w d : enc_quota_list v w -> OK (Ref f_rfc2087_x_quota_list DSame) d w v any.
Proof.
  intros [| r w0 l ws Hr Hl]; apply (okref _ _ _ _ _ _ _ env_quota_list); unfold def_rfc2087_x_quota_list; fold ws_g.
  - eapply ok_map.
    { apply ok_seq. regroup ([40] ++ ([] ++ ([41] ++ []))).
      eapply (okseq_cons _ _ _ _ _ _ _ _ _ _ any any); [apply ok_tag | | intros; exact I].
      eapply (okseq_cons _ _ _ _ _ _ _ _ _ _ closes any).
      - apply ok_seplist0_empty. intros rest Hr. destruct rest as [|c r]; [destruct Hr|]. cbn in Hr. subst c.
        apply (fails_on_byte native_call env rk rank_ok_all 8). vm_compute. reflexivity.
      - eapply (okseq_cons _ _ _ _ _ _ _ _ _ _ any any); [apply ok_tag | apply (okseq_nil _ _ _ _ any) | intros; exact I].
      - intros rest _. reflexivity. }
    reflexivity.
  - eapply ok_map.
    { apply ok_seq. regroup ([40] ++ ((w0 ++ ws) ++ ([41] ++ []))).
      eapply (okseq_cons _ _ _ _ _ _ _ _ _ _ any any); [apply ok_tag | | intros; exact I].
      eapply (okseq_cons _ _ _ _ _ _ _ _ _ _ closes any).
      - eapply (ok_seplist0 _ _ _ _ _ _ _ _ _ _ nodigit closes).
        + apply ok_quota_resource, Hr.
        + apply oksep_quota, Hl.
        + intros rest Hr0. destruct Hl as [| r1 l1 s1 w1 ws1 Hs1 _ _]; cbn [app].
          * destruct rest as [|x rr]; [destruct Hr0|]. cbn in Hr0. subst x. reflexivity.
          * destruct (ws1_head _ Hs1) as (cs & rs & -> & _ & D & _). cbn [app]. exact D.
      - eapply (okseq_cons _ _ _ _ _ _ _ _ _ _ any any); [apply ok_tag | apply (okseq_nil _ _ _ _ any) | intros; exact I].
      - intros rest _. reflexivity. }
    reflexivity.
Qed.

Lemma enc_astring_head s w : enc_astring s w -> exists c r, w = c :: r /\ nom_is_space c = false.
Proof.
  intros [s0 Hne Hs | s0 w0 Hs].
  - destruct s0 as [|c r]; [contradiction|]. exists c, r. split; [reflexivity|].
    cbn [forallb] in Hs. apply andb_true_iff in Hs. destruct Hs as [Hc _]. apply astring_char_ok in Hc.
    destruct (nom_is_space c) eqn:E; [|reflexivity]. unfold nom_is_space in E. apply orb_true_iff in E.
    destruct E as [E | E]; apply N.eqb_eq in E; subst c; discriminate Hc.
  - destruct (enc_string_head s0 w0 Hs) as (c & r & -> & [-> | ->]); eexists _, _; (split; [reflexivity|]); reflexivity.
Qed.

Lemma ok_quota v body d : enc_quota v body -> OK (Alt rd_alts) d body v before_trailer.
Proof.
  intros [k s1 root wr s2 res wl Hk H1 Hroot Hu H2 Hres]. unfold kw in Hk.
  apply (Ok_follow _ _ _ _ _ _ _ any); [|intros; exact I].
  unfold rd_alts. cbn [def_rfc3501_x_response_data].
  do 9 (apply (skip_kw _ _ (bs "QUOTA") _ _ _ _ _ Hk); [vm_compute; reflexivity|]).
  apply ok_alt_here. apply (okref _ _ _ _ _ _ _ env_quota). unfold def_rfc2087_x_quota. fold ws_g.
  destruct (ws1_head _ H2) as (c2 & r2 & E2 & _ & _ & A2).
  destruct (enc_astring_head _ _ Hroot) as (cr & rr & Er & Sr).
  eapply ok_map.
  { apply ok_seq. regroup (k ++ (s1 ++ (wr ++ (s2 ++ (wl ++ []))))).
    eapply (okseq_cons _ _ _ _ _ _ _ _ _ _ any any); [apply ok_tag_nc, Hk | | intros; exact I].
    eapply (okseq_cons _ _ _ _ _ _ _ _ _ _ notspace any); [apply ok_ws1, H1 | | intros rest _; rewrite Er; exact Sr].
    eapply (okseq_cons _ _ _ _ _ _ _ _ _ _ (stops_at cls_core_x_is_astring_char) any).
    - eapply ok_map. { apply ok_astring_utf8; eassumption. } reflexivity.
    - eapply (okseq_cons _ _ _ _ _ _ _ _ _ _ notspace any); [apply ok_ws1, H2 | | intros rest _; destruct Hres; reflexivity].
      eapply (okseq_cons _ _ _ _ _ _ _ _ _ _ any any); [apply ok_quota_list, Hres | apply (okseq_nil _ _ _ _ any) | intros; exact I].
    - intros rest _. rewrite E2. exact A2. }
  reflexivity.
Qed.

Lemma ok_untagged v body d : enc_untagged v body -> OK (Alt rd_alts) d body v before_trailer.
Proof.
  intros [n w0 k Hn Hk | n w0 k Hn Hk | n w0 k Hn Hk | k earlier ke ws vi l w0 wl Hk Hke Hws Hvi Hl].
  - apply ok_untagged_numeric. exists n, w0, k. split; [exact Hn|]. split; [reflexivity|]. left. split; [exact Hk | reflexivity].
  - apply ok_untagged_numeric. exists n, w0, k. split; [exact Hn|]. split; [reflexivity|]. right. left. split; [exact Hk | reflexivity].
  - apply ok_untagged_numeric. exists n, w0, k. split; [exact Hn|]. split; [reflexivity|]. right. right. split; [exact Hk | reflexivity].
  - apply ok_vanished. exists k, earlier, ke, ws, vi, l, w0, wl.
    split; [reflexivity|]. split; [reflexivity|]. split; [exact Hk|]. split; [exact Hke|]. split; [exact Hws|]. split; [exact Hvi | exact Hl].
Qed.


(* ---------------------------------------------------------------- status responses (RFC 3501 7.1) *)
Lemma env_resp_cond : env f_rfc3501_x_resp_cond = Some def_rfc3501_x_resp_cond. Proof. reflexivity. Qed.
Lemma env_status : env f_rfc3501_x_status = Some def_rfc3501_x_status. Proof. reflexivity. Qed.
Lemma env_status_ok : env f_rfc3501_x_status_ok = Some def_rfc3501_x_status_ok. Proof. reflexivity. Qed.
Lemma env_status_no : env f_rfc3501_x_status_no = Some def_rfc3501_x_status_no. Proof. reflexivity. Qed.
Lemma env_status_bad : env f_rfc3501_x_status_bad = Some def_rfc3501_x_status_bad. Proof. reflexivity. Qed.
Lemma env_status_preauth : env f_rfc3501_x_status_preauth = Some def_rfc3501_x_status_preauth. Proof. reflexivity. Qed.
Lemma env_status_bye : env f_rfc3501_x_status_bye = Some def_rfc3501_x_status_bye. Proof. reflexivity. Qed.
Lemma env_trailing : env f_rfc3501_x_trailing_resp_text = Some def_rfc3501_x_trailing_resp_text. Proof. reflexivity. Qed.
Lemma env_resp_text' : env f_rfc3501_x_resp_text = Some def_rfc3501_x_resp_text. Proof. reflexivity. Qed.
Lemma env_resp_text_code : env f_rfc3501_x_resp_text_code = Some def_rfc3501_x_resp_text_code. Proof. reflexivity. Qed.
Lemma env_text' : env f_core_x_text = Some def_core_x_text. Proof. reflexivity. Qed.
Lemma env_code_alert : env f_rfc3501_x_resp_text_code_alert = Some def_rfc3501_x_resp_text_code_alert. Proof. reflexivity. Qed.
Lemma env_code_parse : env f_rfc3501_x_resp_text_code_parse = Some def_rfc3501_x_resp_text_code_parse. Proof. reflexivity. Qed.
Lemma env_code_ro : env f_rfc3501_x_resp_text_code_read_only = Some def_rfc3501_x_resp_text_code_read_only. Proof. reflexivity. Qed.
Lemma env_code_rw : env f_rfc3501_x_resp_text_code_read_write = Some def_rfc3501_x_resp_text_code_read_write. Proof. reflexivity. Qed.
Lemma env_code_tc : env f_rfc3501_x_resp_text_code_try_create = Some def_rfc3501_x_resp_text_code_try_create. Proof. reflexivity. Qed.
Lemma env_code_uv : env f_rfc3501_x_resp_text_code_uid_validity = Some def_rfc3501_x_resp_text_code_uid_validity. Proof. reflexivity. Qed.
Lemma env_code_un : env f_rfc3501_x_resp_text_code_uid_next = Some def_rfc3501_x_resp_text_code_uid_next. Proof. reflexivity. Qed.
Lemma env_code_us : env f_rfc3501_x_resp_text_code_unseen = Some def_rfc3501_x_resp_text_code_unseen. Proof. reflexivity. Qed.
Lemma env_code_hm : env f_rfc4551_x_resp_text_code_highest_mod_seq = Some def_rfc4551_x_resp_text_code_highest_mod_seq. Proof. reflexivity. Qed.

Lemma ok_status st w d : enc_status st w -> OK (Ref f_rfc3501_x_status DSame) d w st any.
Proof.
  intro H. apply (okref _ _ _ _ _ _ _ env_status). unfold def_rfc3501_x_status.
  replace w with (w ++ []) by apply app_nil_r.
  destruct H as [w Hk | w Hk | w Hk | w Hk | w Hk]; unfold kw in Hk.
  - apply ok_alt_here. rewrite app_nil_r. apply (okref _ _ _ _ _ _ _ env_status_ok). unfold def_rfc3501_x_status_ok.
    eapply ok_map. { apply ok_tag_nc, Hk. } reflexivity.
  - do 1 skip "NO"%string Hk. apply ok_alt_here. rewrite app_nil_r. apply (okref _ _ _ _ _ _ _ env_status_no). unfold def_rfc3501_x_status_no.
    eapply ok_map. { apply ok_tag_nc, Hk. } reflexivity.
  - do 2 skip "BAD"%string Hk. apply ok_alt_here. rewrite app_nil_r. apply (okref _ _ _ _ _ _ _ env_status_bad). unfold def_rfc3501_x_status_bad.
    eapply ok_map. { apply ok_tag_nc, Hk. } reflexivity.
  - do 3 skip "PREAUTH"%string Hk. apply ok_alt_here. rewrite app_nil_r. apply (okref _ _ _ _ _ _ _ env_status_preauth). unfold def_rfc3501_x_status_preauth.
    eapply ok_map. { apply ok_tag_nc, Hk. } reflexivity.
  - do 4 skip "BYE"%string Hk. apply ok_alt_here. rewrite app_nil_r. apply (okref _ _ _ _ _ _ _ env_status_bye). unfold def_rfc3501_x_status_bye.
    eapply ok_map. { apply ok_tag_nc, Hk. } reflexivity.
Qed.

Definition code_alts : list G :=
  match def_rfc3501_x_resp_text_code with Map _ (Seq [_; Alt l; _]) => l | _ => [] end.

Lemma ok_code_alt_simple c w d : enc_code_simple c w -> OK (Alt code_alts) d w c nodigit.
Proof.
  intro H. unfold code_alts. cbn [def_rfc3501_x_resp_text_code].
  destruct H as [w Hk | w Hk | w Hk | w Hk | w Hk | k n w Hk Hn | k n w Hk Hn | k n w Hk Hn | k n w Hk Hn]; unfold kw in Hk.
  - replace w with (w ++ []) by apply app_nil_r. apply ok_alt_here. rewrite app_nil_r. apply (Ok_follow _ _ _ _ _ _ _ any); [|intros; exact I].
    apply (okref _ _ _ _ _ _ _ env_code_alert). unfold def_rfc3501_x_resp_text_code_alert. eapply ok_map. { apply ok_tag_nc, Hk. } reflexivity.
  - replace w with (w ++ []) by apply app_nil_r. do 3 skip "PARSE"%string Hk. apply ok_alt_here. rewrite app_nil_r. apply (Ok_follow _ _ _ _ _ _ _ any); [|intros; exact I].
    apply (okref _ _ _ _ _ _ _ env_code_parse). unfold def_rfc3501_x_resp_text_code_parse. eapply ok_map. { apply ok_tag_nc, Hk. } reflexivity.
  - replace w with (w ++ []) by apply app_nil_r. do 8 skip "READ-ONLY"%string Hk. apply ok_alt_here. rewrite app_nil_r. apply (Ok_follow _ _ _ _ _ _ _ any); [|intros; exact I].
    apply (okref _ _ _ _ _ _ _ env_code_ro). unfold def_rfc3501_x_resp_text_code_read_only. eapply ok_map. { apply ok_tag_nc, Hk. } reflexivity.
  - replace w with (w ++ []) by apply app_nil_r. do 9 skip "READ-WRITE"%string Hk. apply ok_alt_here. rewrite app_nil_r. apply (Ok_follow _ _ _ _ _ _ _ any); [|intros; exact I].
    apply (okref _ _ _ _ _ _ _ env_code_rw). unfold def_rfc3501_x_resp_text_code_read_write. eapply ok_map. { apply ok_tag_nc, Hk. } reflexivity.
  - replace w with (w ++ []) by apply app_nil_r. do 10 skip "TRYCREATE"%string Hk. apply ok_alt_here. rewrite app_nil_r. apply (Ok_follow _ _ _ _ _ _ _ any); [|intros; exact I].
    apply (okref _ _ _ _ _ _ _ env_code_tc). unfold def_rfc3501_x_resp_text_code_try_create. eapply ok_map. { apply ok_tag_nc, Hk. } reflexivity.
  - do 5 skip "UIDVALIDITY "%string Hk. apply ok_alt_here.
    apply (okref _ _ _ _ _ _ _ env_code_uv). unfold def_rfc3501_x_resp_text_code_uid_validity.
    eapply ok_map. { apply (ok_kw2 _ _ _ _ _ _ nodigit Hk). apply ok_number, Hn. } reflexivity.
  - do 6 skip "UIDNEXT "%string Hk. apply ok_alt_here.
    apply (okref _ _ _ _ _ _ _ env_code_un). unfold def_rfc3501_x_resp_text_code_uid_next.
    eapply ok_map. { apply (ok_kw2 _ _ _ _ _ _ nodigit Hk). apply ok_number, Hn. } reflexivity.
  - do 7 skip "UNSEEN "%string Hk. apply ok_alt_here.
    apply (okref _ _ _ _ _ _ _ env_code_us). unfold def_rfc3501_x_resp_text_code_unseen.
    eapply ok_map. { apply (ok_kw2 _ _ _ _ _ _ nodigit Hk). apply ok_number, Hn. } reflexivity.
  - do 11 skip "HIGHESTMODSEQ "%string Hk. apply ok_alt_here.
    apply (okref _ _ _ _ _ _ _ env_code_hm). unfold def_rfc4551_x_resp_text_code_highest_mod_seq.
    eapply ok_map.
    { apply ok_seq. regroup (k ++ (w ++ [])).
      eapply (okseq_cons _ _ _ _ _ _ _ _ _ _ any nodigit); [apply ok_tag_nc, Hk | | intros; exact I].
      eapply (okseq_cons _ _ _ _ _ _ _ _ _ _ nodigit nodigit); [apply ok_number_64, Hn | apply (okseq_nil _ _ _ _ nodigit) | intros r Hr; exact Hr]. }
    reflexivity.
Qed.

Definition kw_char (b : byte) : bool := ((65 <=? b) && (b <=? 90)) || ((97 <=? b) && (b <=? 122)) || ((48 <=? b) && (b <=? 57)) || (b =? 61).

Lemma kw_chars_ok K w : forallb kw_char K = true -> same_nocase K w = true ->
  forallb cls_core_x_is_atom_char w = true /\ forallb (fun b => b <=? 127) w = true.
Proof.
  revert w; induction K as [|a K IH]; intros [|b w] HK H; try discriminate; [split; reflexivity|].
  cbn [forallb] in HK. apply andb_true_iff in HK. destruct HK as [Ha HK].
  cbn [same_nocase] in H. apply andb_true_iff in H. destruct H as [Hab H].
  destruct (IH w HK H) as [I1 I2]. cbn [forallb]. rewrite I1, I2.
  assert (Hlt : a < 256).
  { unfold kw_char in Ha. repeat (apply orb_true_iff in Ha; destruct Ha as [Ha | Ha]);
      try (apply andb_true_iff in Ha; destruct Ha as [_ Ha]; apply N.leb_le in Ha; lia). apply N.eqb_eq in Ha. lia. }
  pose proof (sweep (fun a => implb (kw_char a) (forallb (fun b => cls_core_x_is_atom_char b && (b <=? 127)) (variants a))) ltac:(vm_compute; reflexivity) a Hlt) as Hx.
  cbv beta in Hx. rewrite Ha in Hx. cbn [implb] in Hx. rewrite forallb_forall in Hx.
  specialize (Hx b (lower_variants a b Hab)). apply andb_true_iff in Hx. destruct Hx as [X1 X2]. rewrite X1, X2. split; reflexivity.
Qed.

Lemma env_capability_data : env f_rfc3501_x_capability_data = Some def_rfc3501_x_capability_data. Proof. reflexivity. Qed.
Lemma env_capability : env f_rfc3501_x_capability = Some def_rfc3501_x_capability. Proof. reflexivity. Qed.
Lemma env_atom : env f_core_x_atom = Some def_core_x_atom. Proof. reflexivity. Qed.

Lemma ok_atom_bytes a d : a <> [] -> forallb cls_core_x_is_atom_char a = true -> forallb (fun b => b <=? 127) a = true ->
  OK (Ref f_core_x_atom DSame) d a (VBytes a) (stops_at cls_core_x_is_atom_char).
Proof.
  intros Hne Hc H7. apply (okref _ _ _ _ _ _ _ env_atom). unfold def_core_x_atom.
  eapply ok_mapres. { apply ok_take_while1; assumption. } cbn. unfold native_call. cbn. rewrite (ascii_utf8 a H7). reflexivity.
Qed.

Lemma ok_cap c w d : enc_cap c w -> OK (Ref f_rfc3501_x_capability DSame) d w c (stops_at cls_core_x_is_atom_char).
Proof.
  intro H. apply (okref _ _ _ _ _ _ _ env_capability). unfold def_rfc3501_x_capability.
  destruct H as [w Hk | p m Hp Hne Hm | a Hne Ha N1 N2]; unfold kw in *.
  - destruct (kw_chars_ok (bs "IMAP4rev1") w ltac:(reflexivity) Hk) as [C1 C2].
    eapply ok_map. { apply ok_atom_bytes; [destruct w; discriminate | exact C1 | exact C2]. }
    cbn. unfold native_call. cbn. unfold classify_capability. rewrite (same_nocase_eq_nocase _ _ Hk). reflexivity.
  - destruct (kw_chars_ok (bs "AUTH=") p ltac:(reflexivity) Hp) as [C1 C2].
    assert (Hm1 : forallb cls_core_x_is_atom_char m = true) by (apply (forallb_impl rfc_ATOM_CHAR); [intros x Hx; exact (proj1 (atom_char_facts x Hx)) | exact Hm]).
    assert (Hm2 : forallb (fun b => b <=? 127) m = true) by (apply (forallb_impl rfc_ATOM_CHAR); [intros x Hx; exact (proj1 (proj2 (proj2 (atom_char_facts x Hx)))) | exact Hm]).
    eapply ok_map.
    { apply ok_atom_bytes; [destruct p; discriminate | rewrite forallb_app, C1, Hm1; reflexivity |].
      change byte with N in *. rewrite forallb_app, C2, Hm2. reflexivity. }
    cbn. unfold native_call. cbn. unfold classify_capability.
    (* p has exactly five bytes *)
    change (bs "AUTH=") with [65; 85; 84; 72; 61] in Hp |- *. change (bs "IMAP4rev1") with [73; 77; 65; 80; 52; 114; 101; 118; 49].
    destruct p as [|p1 [|p2 [|p3 [|p4 [|p5 [|p6 p']]]]]]; cbn [same_nocase] in Hp; rewrite ?andb_false_r in Hp; try discriminate Hp.
    pose proof Hp as Hp0. apply andb_true_iff in Hp. destruct Hp as [Hp1 _].
    assert (E1 : eq_nocase ([p1; p2; p3; p4; p5] ++ m) [73; 77; 65; 80; 52; 114; 101; 118; 49] = false).
    { unfold eq_nocase. cbn [app list_eqb]. unfold eq_nocase1 in Hp1. apply N.eqb_eq in Hp1.
      replace (lower p1 =? lower 73) with false; [reflexivity|]. symmetry. apply N.eqb_neq. rewrite <- Hp1. discriminate. }
    rewrite E1.
    assert (E2 : Nat.ltb 5 (length ([p1; p2; p3; p4; p5] ++ m)) = true).
    { apply Nat.ltb_lt. rewrite app_length. cbn [length]. destruct m; [contradiction | cbn [length]; lia]. }
    rewrite E2. cbn [app firstn skipn andb].
    rewrite (same_nocase_eq_nocase [65; 85; 84; 72; 61] [p1; p2; p3; p4; p5] Hp0). reflexivity.
  - eapply ok_map.
    { apply ok_atom_bytes; [exact Hne | |].
      - apply (forallb_impl rfc_ATOM_CHAR); [intros x Hx; exact (proj1 (atom_char_facts x Hx)) | exact Ha].
      - apply (forallb_impl rfc_ATOM_CHAR); [intros x Hx; exact (proj1 (proj2 (proj2 (atom_char_facts x Hx)))) | exact Ha]. }
    cbn. unfold native_call. cbn. unfold classify_capability. rewrite N1, N2. reflexivity.
Qed.

Definition cap_item : G := Map proj12 (Seq [Leaf (LTag (bs " ")); Ref f_rfc3501_x_capability DSame]).
Definition caps_end (rest : list byte) : Prop :=
  match rest with
  | 13 :: _ => True
  | 32 :: c :: _ => cls_core_x_is_atom_char c = false
  | _ => False
  end.

Lemma byte_13_32 c0 (P : Prop) : (c0 = 13 -> P) -> (c0 = 32 -> P) -> (c0 <> 13 -> c0 <> 32 -> P) -> P.
Proof. intros A B C. destruct (N.eq_dec c0 13); [auto|]. destruct (N.eq_dec c0 32); auto. Qed.

Lemma caps_end_inv rest : caps_end rest ->
  (exists r, rest = 13 :: r) \/ (exists c r, rest = 32 :: c :: r /\ cls_core_x_is_atom_char c = false).
Proof.
  destruct rest as [|c0 r]; [intros []|]. intro H.
  apply (byte_13_32 c0); intros.
  - subst. left. eexists. reflexivity.
  - subst. destruct r as [|c r']; [destruct H|]. right. exists c, r'. split; [reflexivity | exact H].
  - exfalso. cbn in H. destruct c0 as [|p]; [exact H|].
    repeat (destruct p as [p|p|]; try exact H; try (apply H0; reflexivity); try (apply H1; reflexivity)).
Qed.

Lemma rej_atom_nonatom c i d : cls_core_x_is_atom_char c = false -> REJ (Ref f_rfc3501_x_capability DSame) d (c :: i).
Proof.
  intro H. apply (rejref _ _ _ _ _ env_capability). unfold def_rfc3501_x_capability. apply rej_map.
  apply (rejref _ _ _ _ _ env_atom). unfold def_core_x_atom. apply rej_mapres, rej_take_while1. exact H.
Qed.

Lemma rej_cap_item rest d : caps_end rest -> REJ cap_item d rest.
Proof.
  intro H. unfold cap_item. apply rej_map. destruct (caps_end_inv rest H) as [(r & ->) | (c & r & -> & Hc)].
  - apply rej_seq_head, rej_tag. reflexivity.
  - change (32 :: c :: r) with ([32] ++ (c :: r)).
    eapply (rej_seq_after _ _ _ _ _ _ _ _ any); [apply ok_tag | exact I |]. apply rejseq_head. apply rej_atom_nonatom, Hc.
Qed.

Lemma okmany_caps l ws d : enc_caps l ws -> OkMany native_call env rk cap_item d ws l caps_end.
Proof.
  intro H. induction H as [| c w l ws Hc Hl IH].
  - apply okmany_nil. intros rest Hr. apply rej_cap_item, Hr.
  - unfold SPb. rewrite app_assoc. eapply (okmany_cons _ _ _ _ _ _ _ _ _ (stops_at cls_core_x_is_atom_char)).
    + unfold cap_item. eapply ok_map.
      { apply ok_seq. regroup ([32] ++ (w ++ [])).
        eapply (okseq_cons _ _ _ _ _ _ _ _ _ _ any (stops_at cls_core_x_is_atom_char)); [apply ok_tag | | intros; exact I].
        eapply (okseq_cons _ _ _ _ _ _ _ _ _ _ (stops_at cls_core_x_is_atom_char) (stops_at cls_core_x_is_atom_char)); [apply ok_cap, Hc | apply (okseq_nil _ _ _ _ (stops_at cls_core_x_is_atom_char)) | intros r Hr; exact Hr]. }
      reflexivity.
    + discriminate.
    + exact IH.
    + intros rest Hr. destruct Hl; cbn [app].
      * destruct (caps_end_inv rest Hr) as [(r & ->) | (c0 & r & -> & _)]; reflexivity.
      * reflexivity.
Qed.

Lemma okmany_caps_gen (F : list byte -> Prop) l ws d : (forall rest, F rest -> REJ cap_item d rest) ->
  (forall rest, F rest -> stops_at cls_core_x_is_atom_char rest) -> enc_caps l ws -> OkMany native_call env rk cap_item d ws l F.
Proof.
  intros HR HS H. induction H as [| c w l ws Hc Hl IH].
  - apply okmany_nil. exact HR.
  - unfold SPb. rewrite app_assoc. eapply (okmany_cons _ _ _ _ _ _ _ _ _ (stops_at cls_core_x_is_atom_char)).
    + unfold cap_item. eapply ok_map.
      { apply ok_seq. regroup ([32] ++ (w ++ [])).
        eapply (okseq_cons _ _ _ _ _ _ _ _ _ _ any (stops_at cls_core_x_is_atom_char)); [apply ok_tag | | intros; exact I].
        eapply (okseq_cons _ _ _ _ _ _ _ _ _ _ (stops_at cls_core_x_is_atom_char) (stops_at cls_core_x_is_atom_char)); [apply ok_cap, Hc | apply (okseq_nil _ _ _ _ (stops_at cls_core_x_is_atom_char)) | intros r Hr; exact Hr]. }
      reflexivity.
    + discriminate.
    + exact IH.
    + intros rest Hr. destruct Hl; cbn [app]; [apply HS, Hr | reflexivity].
Qed.

Lemma contains_rev1_early l : In (VCon "Capability::Imap4rev1" []) l -> contains_imap4rev1 (VList l) = true.
Proof. intro H. unfold contains_imap4rev1. apply existsb_exists. eexists. split; [exact H | reflexivity]. Qed.

Lemma env_code_cap : env f_rfc3501_x_resp_text_code_capability = Some def_rfc3501_x_resp_text_code_capability. Proof. reflexivity. Qed.

(* ---- the codes that carry lists: PERMANENTFLAGS, BADCHARSET, APPENDUID / COPYUID (RFC 4315), and the METADATA codes *)
Lemma env_code_uns : env f_rfc4315_x_resp_text_code_uid_not_sticky = Some def_rfc4315_x_resp_text_code_uid_not_sticky. Proof. reflexivity. Qed.
Lemma env_code_mtm : env f_rfc5464_x_resp_text_code_metadata_too_many = Some def_rfc5464_x_resp_text_code_metadata_too_many. Proof. reflexivity. Qed.
Lemma env_code_mnp : env f_rfc5464_x_resp_text_code_metadata_no_private = Some def_rfc5464_x_resp_text_code_metadata_no_private. Proof. reflexivity. Qed.
Lemma env_code_mle : env f_rfc5464_x_resp_text_code_metadata_long_entries = Some def_rfc5464_x_resp_text_code_metadata_long_entries. Proof. reflexivity. Qed.
Lemma env_code_mms : env f_rfc5464_x_resp_text_code_metadata_max_size = Some def_rfc5464_x_resp_text_code_metadata_max_size. Proof. reflexivity. Qed.
Lemma env_code_pf : env f_rfc3501_x_resp_text_code_permanent_flags = Some def_rfc3501_x_resp_text_code_permanent_flags. Proof. reflexivity. Qed.
Lemma env_code_bc : env f_rfc3501_x_resp_text_code_badcharset = Some def_rfc3501_x_resp_text_code_badcharset. Proof. reflexivity. Qed.
Lemma env_code_au : env f_rfc4315_x_resp_text_code_append_uid = Some def_rfc4315_x_resp_text_code_append_uid. Proof. reflexivity. Qed.
Lemma env_code_cu : env f_rfc4315_x_resp_text_code_copy_uid = Some def_rfc4315_x_resp_text_code_copy_uid. Proof. reflexivity. Qed.
Lemma env_uid_set : env f_rfc4315_x_uid_set = Some def_rfc4315_x_uid_set. Proof. reflexivity. Qed.
Lemma env_uid_range : env f_rfc4315_x_uid_range = Some def_rfc4315_x_uid_range. Proof. reflexivity. Qed.

Lemma closes93_nodigit rest : closes93 rest -> nodigit rest.
Proof. destruct rest as [|c r]; [intros []|]. cbn. intros ->. reflexivity. Qed.

Lemma ok_pflag f w d : enc_pflag f w -> OK flag_item d w (VBytes f) flag_follow.
Proof.
  intros [f0 w0 Hf |]; [apply ok_flag, Hf|]. unfold flag_item. eapply ok_map; [|reflexivity].
  apply (okref _ _ _ _ _ _ _ env_flag_perm). unfold def_rfc3501_x_flag_perm.
  apply ok_alt_here. apply (Ok_follow _ _ _ _ _ _ _ any); [|intros; exact I].
  eapply ok_mapres; [apply ok_tag | reflexivity].
Qed.

Lemma oksep_pflags l ws d : enc_pflags_more l ws ->
  OkSep native_call env rk (Leaf (LTag (bs " "))) flag_item d ws l closes.
Proof.
  intro H. induction H as [| f w l ws Hf Hl IH].
  - apply oksep_nil. intros rest Hr. destruct rest as [|c r]; [destruct Hr|]. cbn in Hr. subst c. apply rej_tag. reflexivity.
  - unfold SPb. eapply (oksep_cons _ _ _ _ _ _ _ _ _ _ _ _ any flag_follow).
    + apply ok_tag.
    + discriminate.
    + apply ok_pflag, Hf.
    + exact IH.
    + intros rest Hr. destruct Hl; cbn [app].
      * destruct rest as [|c r]; [destruct Hr|]. cbn in Hr. subst c. right. reflexivity.
      * left. reflexivity.
    + intros; exact I.
Qed.

Definition paren_list (g : G) : G :=
  Map (mk_action (PTuple [PWild; PVar "p1"; PWild]) (AVar "p1")) (Seq [(Leaf (LTag (bs "("))); g; (Leaf (LTag (bs ")")))]).

Lemma ok_pflag_list v w d : enc_pflag_list v w -> OK (paren_list (SepList0 (Leaf (LTag (bs " "))) flag_item)) d w v any.
Proof.
  intros [| f w0 l ws Hf Hl]; unfold paren_list.
  - eapply ok_map.
    { apply ok_seq. regroup ([40] ++ ((@nil byte) ++ ([41] ++ []))).
      eapply (okseq_cons _ _ _ _ _ _ _ _ _ _ any any); [apply ok_tag | | intros; exact I].
      eapply (okseq_cons _ _ _ _ _ _ _ _ _ _ closes any).
      - apply ok_seplist0_empty. intros rest Hr. destruct rest as [|c r]; [destruct Hr|]. cbn in Hr. subst c.
        apply (fails_on_byte native_call env rk rank_ok_all 8). vm_compute. reflexivity.
      - eapply (okseq_cons _ _ _ _ _ _ _ _ _ _ any any); [apply ok_tag | apply (okseq_nil _ _ _ _ any) | intros; exact I].
      - intros rest _. reflexivity. }
    reflexivity.
  - eapply ok_map.
    { apply ok_seq. regroup ([40] ++ ((w0 ++ ws) ++ ([41] ++ []))).
      eapply (okseq_cons _ _ _ _ _ _ _ _ _ _ any any); [apply ok_tag | | intros; exact I].
      eapply (okseq_cons _ _ _ _ _ _ _ _ _ _ closes any).
      - eapply (ok_seplist0 _ _ _ _ _ _ _ _ _ _ flag_follow).
        + apply ok_pflag, Hf.
        + apply oksep_pflags, Hl.
        + intros rest Hr. destruct Hl; cbn [app].
          * destruct rest as [|c r]; [destruct Hr|]. cbn in Hr. subst c. right. reflexivity.
          * left. reflexivity.
      - eapply (okseq_cons _ _ _ _ _ _ _ _ _ _ any any); [apply ok_tag | apply (okseq_nil _ _ _ _ any) | intros; exact I].
      - intros rest _. reflexivity. }
    reflexivity.
Qed.

Definition charset_item : G := Map (mk_action (PVar "x") (AVar "x")) (Ref f_core_x_astring_utf8 DSame).

Lemma oksep_charsets l ws d : enc_charsets_more l ws -> OkSep native_call env rk (Leaf (LTag (bs " "))) charset_item d ws l closes.
Proof.
  intro H. induction H as [| s w l ws Hs Hu Hl IH].
  - apply oksep_nil. intros rest Hr. destruct rest as [|c r]; [destruct Hr|]. cbn in Hr. subst c. apply rej_tag. reflexivity.
  - unfold SPb. eapply (oksep_cons _ _ _ _ _ _ _ _ _ _ _ _ any (stops_at cls_core_x_is_astring_char)).
    + apply ok_tag.
    + discriminate.
    + unfold charset_item. eapply ok_map; [apply ok_astring_utf8; eassumption | reflexivity].
    + exact IH.
    + intros rest Hr. destruct Hl; cbn [app].
      * destruct rest as [|c r]; [destruct Hr|]. cbn in Hr. subst c. reflexivity.
      * reflexivity.
    + intros; exact I.
Qed.

Definition uid_item_g : G :=
  Alt [(Ref f_rfc4315_x_uid_range DSame); (Map (mk_action (PVar "x") (ACall "rfc4315::uid_set#1" [AVar "x"])) (Ref f_core_x_number DSame))].

Lemma ok_uid_item v w d : enc_uid_item v w -> OK uid_item_g d w v item_follow.
Proof.
  intros [n w0 Hn | a b wa wb Ha Hb]; unfold uid_item_g.
  - apply ok_alt_skip.
    + intros rest Hr. apply (rejref _ _ _ _ _ env_uid_range). unfold def_rfc4315_x_uid_range. apply rej_map, rej_map.
      destruct rest as [|c r]; [destruct Hr|]. destruct Hr as [Hd Hc].
      eapply (rej_seq_after _ _ _ _ _ _ _ _ nodigit); [apply ok_number, Hn | exact Hd |]. apply rejseq_head. apply rej_tag. exact Hc.
    + apply ok_alt_here. apply (Ok_follow _ _ _ _ _ _ _ nodigit).
      * eapply ok_map. { apply ok_number, Hn. } reflexivity.
      * intros r Hr. destruct r as [|c r]; [destruct Hr|]. exact (proj1 Hr).
  - apply ok_alt_here. apply (Ok_follow _ _ _ _ _ _ _ nodigit).
    + apply (okref _ _ _ _ _ _ _ env_uid_range). unfold def_rfc4315_x_uid_range.
      eapply ok_map.
      { eapply ok_map.
        { apply ok_seq. regroup (wa ++ ([58] ++ (wb ++ []))).
          eapply (okseq_cons _ _ _ _ _ _ _ _ _ _ nodigit nodigit); [apply ok_number, Ha | | intros rest _; reflexivity].
          eapply (okseq_cons _ _ _ _ _ _ _ _ _ _ any nodigit); [apply ok_tag | | intros; exact I].
          eapply (okseq_cons _ _ _ _ _ _ _ _ _ _ nodigit nodigit); [apply ok_number, Hb | apply (okseq_nil _ _ _ _ nodigit) | intros r Hr; exact Hr]. }
        reflexivity. }
      reflexivity.
    + intros r Hr. destruct r as [|c r]; [destruct Hr|]. exact (proj1 Hr).
Qed.

(* a uid set is followed by SP (COPYUID's first set) or "]" *)
Definition uid_set_follow (rest : list byte) : Prop := match rest with c :: _ => c = 32 \/ c = 93 | [] => False end.
Lemma uid_set_follow_item rest : uid_set_follow rest -> item_follow rest.
Proof. destruct rest as [|c r]; [intros []|]. intros [-> | ->]; split; reflexivity. Qed.

Lemma oksep_uids l ws d : enc_uid_more l ws -> OkSep native_call env rk (Leaf (LTag (bs ","))) uid_item_g d ws l uid_set_follow.
Proof.
  intro H. induction H as [| v l w ws Hv Hl IH].
  - apply oksep_nil. intros rest Hr. destruct rest as [|c r]; [destruct Hr|]. apply rej_tag. destruct Hr as [-> | ->]; reflexivity.
  - eapply (oksep_cons _ _ _ _ _ _ _ _ _ _ _ _ any item_follow).
    + apply ok_tag.
    + discriminate.
    + apply ok_uid_item, Hv.
    + exact IH.
    + intros rest Hr. destruct Hl; cbn [app]; [apply uid_set_follow_item, Hr | split; reflexivity].
    + intros; exact I.
Qed.

Lemma ok_uid_set s w d : enc_uid_set s w -> OK (Ref f_rfc4315_x_uid_set DSame) d w s uid_set_follow.
Proof.
  intros [v w0 l ws Hv Hl]. apply (okref _ _ _ _ _ _ _ env_uid_set). unfold def_rfc4315_x_uid_set. fold uid_item_g.
  eapply (ok_seplist1 _ _ _ _ _ _ _ _ _ _ item_follow).
  - apply ok_uid_item, Hv.
  - apply oksep_uids, Hl.
  - intros rest Hr. destruct Hl; cbn [app]; [apply uid_set_follow_item, Hr | split; reflexivity].
Qed.

Lemma closes93_uid_set_follow rest : closes93 rest -> uid_set_follow rest.
Proof. destruct rest as [|c r]; [intros []|]. cbn. intros ->. right. reflexivity. Qed.

Lemma ok_code_alt c w d : enc_code c w -> OK (Alt code_alts) d w c closes93.
Proof.
  intro H. destruct H as [c0 w0 H0 | w Hk | w Hk | w Hk | k n w Hk Hn | k n w Hk Hn | k v w Hk Hv | k Hk | k s w l ws Hk Hs Hu Hl
                          | k n wn s ws Hk Hn Hs | k l w Hk Hl Hin | k n wn s1 ws1 s2 ws2 Hk Hn H1 H2].
  - apply (Ok_follow _ _ _ _ _ _ _ nodigit); [apply ok_code_alt_simple, H0 | exact closes93_nodigit].
  - unfold kw in Hk. unfold code_alts. cbn [def_rfc3501_x_resp_text_code].
    replace w with (w ++ []) by apply app_nil_r. do 14 skip "UIDNOTSTICKY"%string Hk. apply ok_alt_here. rewrite app_nil_r.
    apply (Ok_follow _ _ _ _ _ _ _ any); [|intros; exact I].
    apply (okref _ _ _ _ _ _ _ env_code_uns). unfold def_rfc4315_x_resp_text_code_uid_not_sticky. eapply ok_map. { apply ok_tag_nc, Hk. } reflexivity.
  - unfold kw in Hk. unfold code_alts. cbn [def_rfc3501_x_resp_text_code].
    replace w with (w ++ []) by apply app_nil_r. do 17 skip "METADATA TOOMANY"%string Hk. apply ok_alt_here. rewrite app_nil_r.
    apply (Ok_follow _ _ _ _ _ _ _ any); [|intros; exact I].
    apply (okref _ _ _ _ _ _ _ env_code_mtm). unfold def_rfc5464_x_resp_text_code_metadata_too_many. eapply ok_map. { apply ok_tag_nc, Hk. } reflexivity.
  - unfold kw in Hk. unfold code_alts. cbn [def_rfc3501_x_resp_text_code].
    replace w with (w ++ []) by apply app_nil_r. do 18 skip "METADATA NOPRIVATE"%string Hk. apply ok_alt_here. rewrite app_nil_r.
    apply (Ok_follow _ _ _ _ _ _ _ any); [|intros; exact I].
    apply (okref _ _ _ _ _ _ _ env_code_mnp). unfold def_rfc5464_x_resp_text_code_metadata_no_private. eapply ok_map. { apply ok_tag_nc, Hk. } reflexivity.
  - unfold kw in Hk. unfold code_alts. cbn [def_rfc3501_x_resp_text_code].
    do 15 skip "METADATA LONGENTRIES "%string Hk. apply ok_alt_here. apply (Ok_follow _ _ _ _ _ _ _ nodigit); [|exact closes93_nodigit].
    apply (okref _ _ _ _ _ _ _ env_code_mle). unfold def_rfc5464_x_resp_text_code_metadata_long_entries.
    eapply ok_map.
    { apply ok_seq. regroup (k ++ (w ++ [])).
      eapply (okseq_cons _ _ _ _ _ _ _ _ _ _ any nodigit); [apply ok_tag_nc, Hk | | intros; exact I].
      eapply (okseq_cons _ _ _ _ _ _ _ _ _ _ nodigit nodigit); [apply ok_number_64, Hn | apply (okseq_nil _ _ _ _ nodigit) | intros r Hr; exact Hr]. }
    reflexivity.
  - unfold kw in Hk. unfold code_alts. cbn [def_rfc3501_x_resp_text_code].
    do 16 skip "METADATA MAXSIZE "%string Hk. apply ok_alt_here. apply (Ok_follow _ _ _ _ _ _ _ nodigit); [|exact closes93_nodigit].
    apply (okref _ _ _ _ _ _ _ env_code_mms). unfold def_rfc5464_x_resp_text_code_metadata_max_size.
    eapply ok_map.
    { apply ok_seq. regroup (k ++ (w ++ [])).
      eapply (okseq_cons _ _ _ _ _ _ _ _ _ _ any nodigit); [apply ok_tag_nc, Hk | | intros; exact I].
      eapply (okseq_cons _ _ _ _ _ _ _ _ _ _ nodigit nodigit); [apply ok_number_64, Hn | apply (okseq_nil _ _ _ _ nodigit) | intros r Hr; exact Hr]. }
    reflexivity.
  - (* PERMANENTFLAGS *)
    unfold kw in Hk. unfold code_alts. cbn [def_rfc3501_x_resp_text_code].
    do 4 skip "PERMANENTFLAGS "%string Hk. apply ok_alt_here. apply (Ok_follow _ _ _ _ _ _ _ any); [|intros; exact I].
    apply (okref _ _ _ _ _ _ _ env_code_pf). unfold def_rfc3501_x_resp_text_code_permanent_flags. fold flag_item.
    eapply ok_map.
    { apply (ok_kw2 _ _ _ _ _ _ any Hk). apply ok_pflag_list, Hv. }
    reflexivity.
  - (* BADCHARSET alone *)
    unfold kw in Hk. unfold code_alts. cbn [def_rfc3501_x_resp_text_code].
    replace k with (k ++ []) by apply app_nil_r. do 1 skip "BADCHARSET"%string Hk. apply ok_alt_here. rewrite app_nil_r.
    apply (okref _ _ _ _ _ _ _ env_code_bc). unfold def_rfc3501_x_resp_text_code_badcharset.
    eapply ok_map.
    { eapply ok_map.
      { apply ok_seq. eapply (okseq_cons' _ _ _ _ k [] _ _ any closes93); [symmetry; apply app_nil_r | apply ok_tag_nc, Hk | | intros; exact I].
        eapply (okseq_cons' _ _ _ _ [] [] _ _ closes93 closes93); [reflexivity | | apply (okseq_nil _ _ _ _ closes93) | intros r Hr; exact Hr].
        apply ok_opt_none. intros rest Hr. destruct rest as [|c r]; [destruct Hr|]. cbn in Hr. subst c.
        apply rej_map, rej_seq_head, rej_tag. reflexivity. }
      reflexivity. }
    reflexivity.
  - (* BADCHARSET (charsets) *)
    unfold kw in Hk. unfold code_alts. cbn [def_rfc3501_x_resp_text_code].
    do 1 skip "BADCHARSET"%string Hk. apply ok_alt_here. apply (Ok_follow _ _ _ _ _ _ _ any); [|intros; exact I].
    apply (okref _ _ _ _ _ _ _ env_code_bc). unfold def_rfc3501_x_resp_text_code_badcharset. fold charset_item.
    eapply ok_map.
    { eapply ok_map.
      { apply ok_seq. unfold SPb. regroup (k ++ (([32] ++ [40] ++ w ++ ws ++ [41]) ++ [])).
        eapply (okseq_cons _ _ _ _ _ _ _ _ _ _ any any); [apply ok_tag_nc, Hk | | intros; exact I].
        eapply (okseq_cons _ _ _ _ _ _ _ _ _ _ any any); [| apply (okseq_nil _ _ _ _ any) | intros; exact I].
        apply ok_opt_some. eapply ok_map.
        { apply ok_seq. regroup ([32] ++ (([40] ++ w ++ ws ++ [41]) ++ [])).
          eapply (okseq_cons _ _ _ _ _ _ _ _ _ _ any any); [apply ok_tag | | intros; exact I].
          eapply (okseq_cons _ _ _ _ _ _ _ _ _ _ any any); [| apply (okseq_nil _ _ _ _ any) | intros; exact I].
          eapply ok_map.
          { apply ok_seq. regroup ([40] ++ ((w ++ ws) ++ ([41] ++ []))).
            eapply (okseq_cons _ _ _ _ _ _ _ _ _ _ any any); [apply ok_tag | | intros; exact I].
            eapply (okseq_cons _ _ _ _ _ _ _ _ _ _ closes any).
            - eapply (ok_seplist1 _ _ _ _ _ _ _ _ _ _ (stops_at cls_core_x_is_astring_char)).
              + unfold charset_item. eapply ok_map; [apply ok_astring_utf8; eassumption | reflexivity].
              + apply oksep_charsets, Hl.
              + intros rest Hr. destruct Hl; cbn [app].
                * destruct rest as [|c r]; [destruct Hr|]. cbn in Hr. subst c. reflexivity.
                * reflexivity.
            - eapply (okseq_cons _ _ _ _ _ _ _ _ _ _ any any); [apply ok_tag | apply (okseq_nil _ _ _ _ any) | intros; exact I].
            - intros rest _. reflexivity. }
          reflexivity. }
        reflexivity. }
      reflexivity. }
    reflexivity.
  - (* APPENDUID *)
    unfold kw in Hk. unfold code_alts. cbn [def_rfc3501_x_resp_text_code].
    do 12 skip "APPENDUID "%string Hk. apply ok_alt_here. apply (Ok_follow _ _ _ _ _ _ _ uid_set_follow); [|exact closes93_uid_set_follow].
    apply (okref _ _ _ _ _ _ _ env_code_au). unfold def_rfc4315_x_resp_text_code_append_uid.
    eapply ok_map.
    { eapply ok_map.
      { apply ok_seq. unfold SPb. regroup (k ++ ((wn ++ [32] ++ ws) ++ [])).
        eapply (okseq_cons _ _ _ _ _ _ _ _ _ _ any uid_set_follow); [apply ok_tag_nc, Hk | | intros; exact I].
        eapply (okseq_cons _ _ _ _ _ _ _ _ _ _ uid_set_follow uid_set_follow); [| apply (okseq_nil _ _ _ _ uid_set_follow) | intros r Hr; exact Hr].
        apply ok_seq. regroup (wn ++ ([32] ++ (ws ++ []))).
        eapply (okseq_cons _ _ _ _ _ _ _ _ _ _ nodigit uid_set_follow); [apply ok_number, Hn | | intros rest _; reflexivity].
        eapply (okseq_cons _ _ _ _ _ _ _ _ _ _ any uid_set_follow); [apply ok_tag | | intros; exact I].
        eapply (okseq_cons _ _ _ _ _ _ _ _ _ _ uid_set_follow uid_set_follow); [apply ok_uid_set, Hs | apply (okseq_nil _ _ _ _ uid_set_follow) | intros r Hr; exact Hr]. }
      reflexivity. }
    reflexivity.
  - (* CAPABILITY as a response code *)
    unfold kw in Hk. unfold code_alts. cbn [def_rfc3501_x_resp_text_code].
    do 2 skip "CAPABILITY"%string Hk. apply ok_alt_here.
    apply (okref _ _ _ _ _ _ _ env_code_cap). unfold def_rfc3501_x_resp_text_code_capability.
    eapply ok_map; [|reflexivity].
    apply (okref _ _ _ _ _ _ _ env_capability_data). unfold def_rfc3501_x_capability_data. fold cap_item.
    eapply ok_mapres.
    { eapply ok_map.
      { apply ok_seq. regroup (k ++ (w ++ [])).
        eapply (okseq_cons _ _ _ _ _ _ _ _ _ _ any closes93); [apply ok_tag_nc, Hk | | intros; exact I].
        eapply (okseq_cons _ _ _ _ _ _ _ _ _ _ closes93 closes93); [| apply (okseq_nil _ _ _ _ closes93) | intros r Hr; exact Hr].
        apply ok_many0. apply okmany_caps_gen; [| | exact Hl].
        - intros rest Hr. destruct rest as [|c r]; [destruct Hr|]. cbn in Hr. subst c. unfold cap_item. apply rej_map, rej_seq_head, rej_tag. reflexivity.
        - intros rest Hr. destruct rest as [|c r]; [destruct Hr|]. cbn in Hr. subst c. reflexivity. }
      reflexivity. }
    unfold act. cbn [a_pat a_body bind eval eval_list of_lres lookup String.eqb Ascii.eqb Bool.eqb].
    unfold native_call. cbn [String.eqb Ascii.eqb Bool.eqb]. rewrite (contains_rev1_early l Hin). reflexivity.
  - (* COPYUID *)
    unfold kw in Hk. unfold code_alts. cbn [def_rfc3501_x_resp_text_code].
    do 13 skip "COPYUID "%string Hk. apply ok_alt_here. apply (Ok_follow _ _ _ _ _ _ _ uid_set_follow); [|exact closes93_uid_set_follow].
    apply (okref _ _ _ _ _ _ _ env_code_cu). unfold def_rfc4315_x_resp_text_code_copy_uid.
    eapply ok_map.
    { eapply ok_map.
      { apply ok_seq. unfold SPb. regroup (k ++ ((wn ++ [32] ++ ws1 ++ [32] ++ ws2) ++ [])).
        eapply (okseq_cons _ _ _ _ _ _ _ _ _ _ any uid_set_follow); [apply ok_tag_nc, Hk | | intros; exact I].
        eapply (okseq_cons _ _ _ _ _ _ _ _ _ _ uid_set_follow uid_set_follow); [| apply (okseq_nil _ _ _ _ uid_set_follow) | intros r Hr; exact Hr].
        apply ok_seq. regroup (wn ++ ([32] ++ (ws1 ++ ([32] ++ (ws2 ++ []))))).
        eapply (okseq_cons _ _ _ _ _ _ _ _ _ _ nodigit uid_set_follow); [apply ok_number, Hn | | intros rest _; reflexivity].
        eapply (okseq_cons _ _ _ _ _ _ _ _ _ _ any uid_set_follow); [apply ok_tag | | intros; exact I].
        eapply (okseq_cons _ _ _ _ _ _ _ _ _ _ uid_set_follow uid_set_follow); [apply ok_uid_set, H1 | | intros rest _; left; reflexivity].
        eapply (okseq_cons _ _ _ _ _ _ _ _ _ _ any uid_set_follow); [apply ok_tag | | intros; exact I].
        eapply (okseq_cons _ _ _ _ _ _ _ _ _ _ uid_set_follow uid_set_follow); [apply ok_uid_set, H2 | apply (okseq_nil _ _ _ _ uid_set_follow) | intros r Hr; exact Hr]. }
      reflexivity. }
    reflexivity.
Qed.

Lemma ok_resp_text_code c w d : enc_code c w -> OK (Ref f_rfc3501_x_resp_text_code DSame) d ([91] ++ w ++ [93]) c any.
Proof.
  intro H. apply (okref _ _ _ _ _ _ _ env_resp_text_code).
  assert (Hshape : def_rfc3501_x_resp_text_code = Map (mk_action (PTuple [PWild; PVar "p1"; PWild]) (AVar "p1")) (Seq [Leaf (LTag (bs "[")); Alt code_alts; Leaf (LTag (bs "]"))])) by reflexivity.
  rewrite Hshape. eapply ok_map.
  { apply ok_seq. regroup ([91] ++ (w ++ ([93] ++ []))).
    eapply (okseq_cons _ _ _ _ _ _ _ _ _ _ any any); [apply ok_tag | | intros; exact I].
    eapply (okseq_cons _ _ _ _ _ _ _ _ _ _ closes93 any); [apply ok_code_alt, H | | intros rest _; reflexivity].
    eapply (okseq_cons _ _ _ _ _ _ _ _ _ _ any any); [apply ok_tag | apply (okseq_nil _ _ _ _ any) | intros; exact I]. }
  reflexivity.
Qed.

Definition at_cr (rest : list byte) : Prop := match rest with c :: _ => c = 13 | [] => False end.

Lemma text_char_ok b : rfc_TEXT_CHAR b = true -> cls_core_x_is_text_char b = true /\ (b <=? 127) = true /\ is_cont b = false.
Proof.
  intro H. assert (Hb : b < 256).
  { unfold rfc_TEXT_CHAR in H. apply andb_true_iff in H. destruct H as [H _]. apply andb_true_iff in H. destruct H as [H _]. apply rfc_char_small, H. }
  pose proof (sweep (fun b => implb (rfc_TEXT_CHAR b) (cls_core_x_is_text_char b && (b <=? 127) && negb (is_cont b))) ltac:(vm_compute; reflexivity) b Hb) as Hx.
  cbv beta in Hx. rewrite H in Hx. cbn [implb] in Hx. apply andb_true_iff in Hx. destruct Hx as [Hx H3]. apply andb_true_iff in Hx. destruct Hx as [H1 H2].
  apply negb_true_iff in H3. repeat split; assumption.
Qed.

Lemma ok_text t d : forallb rfc_TEXT_CHAR t = true -> OK (Ref f_core_x_text DSame) d t (VBytes t) at_cr.
Proof.
  intro H. apply (okref _ _ _ _ _ _ _ env_text'). unfold def_core_x_text.
  apply (Ok_follow _ _ _ _ _ _ _ (stops_at cls_core_x_is_text_char)); [|intros r Hr; destruct r as [|c r]; [destruct Hr|]; cbn in Hr; subst c; reflexivity].
  eapply ok_mapres.
  { apply ok_take_while. apply (forallb_impl rfc_TEXT_CHAR); [intros x Hx; exact (proj1 (text_char_ok x Hx)) | exact H]. }
  cbn. unfold native_call. cbn. rewrite ascii_utf8; [reflexivity|].
  apply (forallb_impl rfc_TEXT_CHAR); [intros x Hx; exact (proj1 (proj2 (text_char_ok x Hx))) | exact H].
Qed.

Lemma ok_resp_text code info w d : enc_resp_text code info w ->
  OK (Ref f_rfc3501_x_resp_text DSame) d w (VTuple [code; info]) at_cr.
Proof.
  intro H. apply (okref _ _ _ _ _ _ _ env_resp_text'). unfold def_rfc3501_x_resp_text.
  destruct H as [c t Ht Hc | code wc Hcode | code wc t Hcode Ht].
  - (* no code: the bracketed form is not even tried beyond its first byte *)
    eapply ok_map.
    { apply ok_seq. regroup ([] ++ ((c :: t) ++ [])).
      eapply (okseq_cons _ _ _ _ _ _ _ _ _ _ (fun rest => exists r, rest = c :: r) at_cr).
      - apply ok_opt_none. intros rest (r & ->). apply (rejref _ _ _ _ _ env_resp_text_code). unfold def_rfc3501_x_resp_text_code.
        apply rej_map, rej_seq_head, rej_tag. apply N.eqb_neq. intro E. apply Hc. symmetry. exact E.
      - eapply (okseq_cons _ _ _ _ _ _ _ _ _ _ at_cr at_cr); [apply ok_text, Ht | apply (okseq_nil _ _ _ _ at_cr) | intros r Hr; exact Hr].
      - intros rest _. cbn [app]. eexists. reflexivity. }
    cbn. unfold native_call. cbn. reflexivity.
  - eapply ok_map.
    { apply ok_seq. regroup (([91] ++ wc ++ [93]) ++ ([] ++ [])).
      eapply (okseq_cons _ _ _ _ _ _ _ _ _ _ any at_cr); [apply ok_opt_some, ok_resp_text_code, Hcode | | intros; exact I].
      eapply (okseq_cons _ _ _ _ _ _ _ _ _ _ at_cr at_cr); [apply (ok_text [] _ eq_refl) | apply (okseq_nil _ _ _ _ at_cr) | intros r Hr; exact Hr]. }
    cbn. unfold native_call. cbn. reflexivity.
  - eapply ok_map.
    { apply ok_seq. regroup (([91] ++ wc ++ [93]) ++ ((32 :: t) ++ [])).
      eapply (okseq_cons _ _ _ _ _ _ _ _ _ _ any at_cr); [apply ok_opt_some, ok_resp_text_code, Hcode | | intros; exact I].
      eapply (okseq_cons _ _ _ _ _ _ _ _ _ _ at_cr at_cr); [apply (ok_text (32 :: t)) | apply (okseq_nil _ _ _ _ at_cr) | intros r Hr; exact Hr].
      cbn [forallb]. rewrite Ht. reflexivity. }
    cbn. unfold native_call. cbn. unfold resp_text_action, str_slice_from1.
    destruct t as [|x t']; [reflexivity|]. cbn [forallb] in Ht. apply andb_true_iff in Ht. destruct Ht as [Hx _].
    rewrite (proj2 (proj2 (text_char_ok x Hx))). reflexivity.
Qed.

Lemma ok_trailing code info w d : enc_resp_text code info w ->
  OK (Ref f_rfc3501_x_trailing_resp_text DSame) d ([32] ++ w) (VTuple [code; info]) at_cr.
Proof.
  intro H. apply (okref _ _ _ _ _ _ _ env_trailing). unfold def_rfc3501_x_trailing_resp_text.
  eapply ok_map.
  { apply ok_opt_some. apply ok_seq. regroup ([32] ++ (w ++ [])).
    eapply (okseq_cons _ _ _ _ _ _ _ _ _ _ any at_cr); [apply ok_tag | | intros; exact I].
    eapply (okseq_cons _ _ _ _ _ _ _ _ _ _ at_cr at_cr); [apply ok_resp_text, H | apply (okseq_nil _ _ _ _ at_cr) | intros r Hr; exact Hr]. }
  cbn. unfold native_call. cbn. reflexivity.
Qed.
Lemma ok_trailing_none d : OK (Ref f_rfc3501_x_trailing_resp_text DSame) d [] (VTuple [VNone; VNone]) at_cr.
Proof.
  apply (okref _ _ _ _ _ _ _ env_trailing). unfold def_rfc3501_x_trailing_resp_text.
  eapply ok_map.
  { apply ok_opt_none. intros rest Hr. destruct rest as [|c r]; [destruct Hr|]. cbn in Hr. subst c. apply rej_seq_head, rej_tag. reflexivity. }
  cbn. unfold native_call. cbn. reflexivity.
Qed.

Lemma ok_status_body v body d : enc_status_body v body -> OK (Alt rd_alts) d body v at_cr.
Proof.
  intro H. unfold rd_alts. cbn [def_rfc3501_x_response_data]. apply ok_alt_here.
  apply (okref _ _ _ _ _ _ _ env_resp_cond). unfold def_rfc3501_x_resp_cond.
  destruct H as [st ws Hs | st ws code info wt Hs Ht].
  - eapply ok_map.
    { apply ok_seq. regroup (ws ++ ([] ++ [])).
      eapply (okseq_cons _ _ _ _ _ _ _ _ _ _ any at_cr); [apply ok_status, Hs | | intros; exact I].
      eapply (okseq_cons _ _ _ _ _ _ _ _ _ _ at_cr at_cr); [apply ok_trailing_none | apply (okseq_nil _ _ _ _ at_cr) | intros r Hr; exact Hr]. }
    reflexivity.
  - eapply ok_map.
    { apply ok_seq. regroup (ws ++ (([32] ++ wt) ++ [])).
      eapply (okseq_cons _ _ _ _ _ _ _ _ _ _ any at_cr); [apply ok_status, Hs | | intros; exact I].
      eapply (okseq_cons _ _ _ _ _ _ _ _ _ _ at_cr at_cr); [apply ok_trailing, Ht | apply (okseq_nil _ _ _ _ at_cr) | intros r Hr; exact Hr]. }
    reflexivity.
Qed.

Theorem status_roundtrip v w : enc_status_response v w -> forall rest, parse (w ++ rest) = ROk rest v (nlen w).
Proof.
  intros [v0 body Hb] rest.
  pose proof (untagged_lift_gen body v0 at_cr [] (fun d => ok_status_body v0 body d Hb) spaces_nil (fun r => eq_refl) rest) as H.
  cbn [app] in H. exact H.
Qed.

(* ---------------------------------------------------------------- tagged completions *)
Lemma env_tagged : env f_rfc3501_x_response_tagged = Some def_rfc3501_x_response_tagged. Proof. reflexivity. Qed.
Lemma env_imap_tag : env f_rfc3501_x_imap_tag = Some def_rfc3501_x_imap_tag. Proof. reflexivity. Qed.

Lemma tag_char_ok b : rfc_TAG_CHAR b = true ->
  cls_rfc3501_x_is_tag_char b = true /\ (b <=? 127) = true /\ (43 =? b) = false /\ (42 =? b) = false.
Proof.
  intro H. assert (Hb : b < 256).
  { unfold rfc_TAG_CHAR, rfc_ASTRING_CHAR, rfc_ATOM_CHAR, rfc_resp_specials in H. apply andb_true_iff in H. destruct H as [H _].
    apply orb_true_iff in H. destruct H as [H|H]; [apply andb_true_iff in H; destruct H as [H _]; apply rfc_char_small, H | apply N.eqb_eq in H; lia]. }
  pose proof (sweep (fun b => implb (rfc_TAG_CHAR b) (cls_rfc3501_x_is_tag_char b && (b <=? 127) && negb (43 =? b) && negb (42 =? b))) ltac:(vm_compute; reflexivity) b Hb) as Hx.
  cbv beta in Hx. rewrite H in Hx. cbn [implb] in Hx.
  apply andb_true_iff in Hx. destruct Hx as [Hx H4]. apply andb_true_iff in Hx. destruct Hx as [Hx H3]. apply andb_true_iff in Hx. destruct Hx as [H1 H2].
  apply negb_true_iff in H3, H4. repeat split; assumption.
Qed.

Lemma ok_imap_tag tag d : tag <> [] -> forallb rfc_TAG_CHAR tag = true ->
  OK (Ref f_rfc3501_x_imap_tag DSame) d tag (VCon "RequestId" [VBytes tag]) (stops_at cls_rfc3501_x_is_tag_char).
Proof.
  intros Hne Ht. apply (okref _ _ _ _ _ _ _ env_imap_tag). unfold def_rfc3501_x_imap_tag.
  eapply ok_map.
  { eapply ok_mapres.
    { apply ok_take_while1; [|exact Hne]. apply (forallb_impl rfc_TAG_CHAR); [intros x Hx; exact (proj1 (tag_char_ok x Hx)) | exact Ht]. }
    cbn. unfold native_call. cbn. rewrite ascii_utf8; [reflexivity|].
    apply (forallb_impl rfc_TAG_CHAR); [intros x Hx; exact (proj1 (proj2 (tag_char_ok x Hx))) | exact Ht]. }
  reflexivity.
Qed.

Lemma env_continue_req : env f_rfc3501_x_continue_req = Some def_rfc3501_x_continue_req. Proof. reflexivity. Qed.

Lemma skip_to_tagged c r v (F : list byte -> Prop) : rfc_TAG_CHAR c = true ->
  OK (Ref f_rfc3501_x_response_tagged DSame) 0%nat (c :: r) v F -> OK def_parser_x_parse_response 0%nat (c :: r) v F.
Proof.
  intros Hc H. destruct (tag_char_ok c Hc) as (_ & _ & H43 & H42). unfold def_parser_x_parse_response.
  apply ok_alt_skip.
  { intros x _. cbn [app]. apply (rejref _ _ _ _ _ env_continue_req). unfold def_rfc3501_x_continue_req.
    apply rej_map, rej_seq_head, rej_tag. exact H43. }
  apply ok_alt_skip.
  { intros x _. cbn [app]. apply (rejref _ _ _ _ _ env_response_data). rewrite response_data_shape.
    apply rej_map, rej_seq_head. cbn [bs N_of_ascii]. apply rej_tag. exact H42. }
  apply ok_alt_here. exact H.
Qed.

Theorem tagged_roundtrip v w : enc_tagged_response v w -> forall rest, parse (w ++ rest) = ROk rest v (nlen w).
Proof.
  intros H rest. unfold parse.
  assert (HOK : OK def_parser_x_parse_response 0%nat w v any).
  { destruct H as [tag st ws Hne Ht Hs | tag st ws code info wt Hne Ht Hs Hrt].
    - destruct tag as [|c r]; [contradiction|]. pose proof Ht as Ht0. cbn [forallb] in Ht. apply andb_true_iff in Ht. destruct Ht as [Hc _].
      change ((c :: r) ++ [32] ++ ws ++ [13; 10]) with (c :: (r ++ [32] ++ ws ++ [13; 10])). apply (skip_to_tagged _ _ _ _ Hc).
      change (c :: (r ++ [32] ++ ws ++ [13; 10])) with ((c :: r) ++ [32] ++ ws ++ [13; 10]).
      apply (okref _ _ _ _ _ _ _ env_tagged). unfold def_rfc3501_x_response_tagged.
      eapply ok_map.
      { apply ok_seq. regroup ((c :: r) ++ ([32] ++ (ws ++ ([] ++ ([13; 10] ++ []))))).
        eapply (okseq_cons _ _ _ _ _ _ _ _ _ _ (stops_at cls_rfc3501_x_is_tag_char) any); [apply (ok_imap_tag (c :: r) _ Hne Ht0) | | intros; reflexivity].
        eapply (okseq_cons _ _ _ _ _ _ _ _ _ _ any any); [apply ok_tag | | intros; exact I].
        eapply (okseq_cons _ _ _ _ _ _ _ _ _ _ any any); [apply ok_status, Hs | | intros; exact I].
        eapply (okseq_cons _ _ _ _ _ _ _ _ _ _ at_cr any); [apply ok_trailing_none | | intros; reflexivity].
        eapply (okseq_cons _ _ _ _ _ _ _ _ _ _ any any); [apply ok_tag | apply (okseq_nil _ _ _ _ any) | intros; exact I]. }
      reflexivity.
    - destruct tag as [|c r]; [contradiction|]. pose proof Ht as Ht0. cbn [forallb] in Ht. apply andb_true_iff in Ht. destruct Ht as [Hc _].
      change ((c :: r) ++ [32] ++ ws ++ [32] ++ wt ++ [13; 10]) with (c :: (r ++ [32] ++ ws ++ [32] ++ wt ++ [13; 10])). apply (skip_to_tagged _ _ _ _ Hc).
      change (c :: (r ++ [32] ++ ws ++ [32] ++ wt ++ [13; 10])) with ((c :: r) ++ [32] ++ ws ++ [32] ++ wt ++ [13; 10]).
      apply (okref _ _ _ _ _ _ _ env_tagged). unfold def_rfc3501_x_response_tagged.
      eapply ok_map.
      { apply ok_seq. regroup ((c :: r) ++ ([32] ++ (ws ++ (([32] ++ wt) ++ ([13; 10] ++ []))))).
        eapply (okseq_cons _ _ _ _ _ _ _ _ _ _ (stops_at cls_rfc3501_x_is_tag_char) any); [apply (ok_imap_tag (c :: r) _ Hne Ht0) | | intros; reflexivity].
        eapply (okseq_cons _ _ _ _ _ _ _ _ _ _ any any); [apply ok_tag | | intros; exact I].
        eapply (okseq_cons _ _ _ _ _ _ _ _ _ _ any any); [apply ok_status, Hs | | intros; exact I].
        eapply (okseq_cons _ _ _ _ _ _ _ _ _ _ at_cr any); [apply ok_trailing, Hrt | | intros; reflexivity].
        eapply (okseq_cons _ _ _ _ _ _ _ _ _ _ any any); [apply ok_tag | apply (okseq_nil _ _ _ _ any) | intros; exact I]. }
      reflexivity. }
  apply HOK; [| rewrite ?app_length; cbn [length]; lia | exact I].
  pose proof fuel_enough as Hf. apply N.leb_le in Hf. exact Hf.
Qed.

(* ---------------------------------------------------------------- continuation request *)
Theorem continue_roundtrip v w : enc_continue_response v w -> forall rest, parse (w ++ rest) = ROk rest v (nlen w).
Proof.
  intros [code info wt Hrt] rest. unfold parse.
  assert (HOK : OK def_parser_x_parse_response 0%nat ([43; 32] ++ wt ++ [13; 10]) (VRec "Response::Continue" [("code"%string, code); ("information"%string, info)]) any).
  { unfold def_parser_x_parse_response. apply ok_alt_here.
    apply (okref _ _ _ _ _ _ _ env_continue_req). unfold def_rfc3501_x_continue_req.
    eapply ok_map.
    { apply ok_seq. regroup ([43] ++ ([32] ++ (wt ++ ([13; 10] ++ [])))).
      eapply (okseq_cons _ _ _ _ _ _ _ _ _ _ any any); [apply ok_tag | | intros; exact I].
      eapply (okseq_cons _ _ _ _ _ _ _ _ _ _ any any); [apply ok_opt_some, ok_tag | | intros; exact I].
      eapply (okseq_cons _ _ _ _ _ _ _ _ _ _ at_cr any); [apply ok_resp_text, Hrt | | intros; reflexivity].
      eapply (okseq_cons _ _ _ _ _ _ _ _ _ _ any any); [apply ok_tag | apply (okseq_nil _ _ _ _ any) | intros; exact I]. }
    reflexivity. }
  apply HOK; [| rewrite ?app_length; cbn [length]; lia | exact I].
  pose proof fuel_enough as Hf. apply N.leb_le in Hf. exact Hf.
Qed.

(* ---------------------------------------------------------------- SEARCH / SORT *)
Lemma env_md_search : env f_rfc3501_x_mailbox_data_search = Some def_rfc3501_x_mailbox_data_search. Proof. reflexivity. Qed.
Lemma env_md_sort : env f_rfc5256_x_mailbox_data_sort = Some def_rfc5256_x_mailbox_data_sort. Proof. reflexivity. Qed.

Definition id_item : G := Map proj12 (Seq [Leaf (LTag (bs " ")); Ref f_core_x_number DSame]).
Definition ids_end (rest : list byte) : Prop :=
  match rest with
  | 13 :: _ => True
  | 32 :: c :: _ => nom_is_digit c = false
  | _ => False
  end.


Lemma rej_id_item rest d : ids_end rest -> REJ id_item d rest.
Proof.
  intro H. unfold id_item. apply rej_map.
  destruct rest as [|c0 r]; [destruct H|]. 
  destruct (N.eq_dec c0 13) as [-> | Hn13].
  - apply rej_seq_head, rej_tag. reflexivity.
  - destruct (N.eq_dec c0 32) as [-> | Hn32].
    + destruct r as [|c r']; [destruct H|]. cbn in H.
      change (32 :: c :: r') with ([32] ++ (c :: r')).
      eapply (rej_seq_after _ _ _ _ _ _ _ _ any); [apply ok_tag | exact I |].
      apply rejseq_head. apply rej_number_nondigit, H.
    + exfalso. cbn in H. destruct c0 as [|p]; [exact H|].
      repeat (destruct p as [p|p|]; try exact H; try (apply Hn13; reflexivity); try (apply Hn32; reflexivity)).
Qed.

Lemma okmany_ids l ws d : enc_ids l ws -> OkMany native_call env rk id_item d ws l ids_end.
Proof.
  intro H. induction H as [| n w l ws Hn Hl IH].
  - apply okmany_nil. intros rest Hr. apply rej_id_item, Hr.
  - unfold SPb. rewrite app_assoc. eapply (okmany_cons _ _ _ _ _ _ _ _ _ nodigit).
    + unfold id_item. apply (Ok_follow _ _ _ _ _ _ _ nodigit); [|intros r Hr; exact Hr].
      eapply ok_map.
      { apply ok_seq. regroup ([32] ++ (w ++ [])).
        eapply (okseq_cons _ _ _ _ _ _ _ _ _ _ any nodigit); [apply ok_tag | | intros; exact I].
        eapply (okseq_cons _ _ _ _ _ _ _ _ _ _ nodigit nodigit); [apply ok_number, Hn | apply (okseq_nil _ _ _ _ nodigit) | intros r Hr; exact Hr]. }
      reflexivity.
    + discriminate.
    + exact IH.
    + intros rest Hr. destruct Hl; cbn [app].
      * destruct rest as [|c0 r]; [destruct Hr|]. cbn. destruct (N.eq_dec c0 13) as [-> | Hx]; [reflexivity|].
        destruct (N.eq_dec c0 32) as [-> | Hx2]; [reflexivity|].
        exfalso. cbn in Hr. destruct c0 as [|p]; [exact Hr|].
        repeat (destruct p as [p|p|]; try exact Hr; try (apply Hx; reflexivity); try (apply Hx2; reflexivity)).
      * reflexivity.
Qed.

(* the shared shape of mailbox_data_search and mailbox_data_sort *)
Definition id_list_g (K : string) (con : string) : G :=
  Map (mk_action (PVar "x") (ACon con [AVar "x"]))
      (Map (mk_action (PTuple [PVar "p0"; PWild]) (AVar "p0"))
           (Seq [Map proj12 (Seq [Leaf (LTagNC (bs K)); Many0 id_item]); Opt (Leaf (LTag (bs " ")))])).

(* core ++ optional first trailing space; what follows is CR (no space taken) or anything (one space taken) *)
Lemma ok_id_list K con k l w d : same_nocase (bs K) k = true -> enc_ids l w ->
  OK (id_list_g K con) d (k ++ w) (VCon con [VList l]) (fun rest => match rest with c :: _ => c = 13 | [] => False end) /\
  OK (id_list_g K con) d (k ++ w ++ [32]) (VCon con [VList l]) (fun rest => match rest with c :: _ => c = 13 \/ c = 32 | [] => False end).
Proof.
  intros Hk Hl. unfold id_list_g. split.
  - eapply ok_map; [|reflexivity]. eapply ok_map.
    { apply ok_seq. regroup ((k ++ (w ++ [])) ++ ([] ++ [])).
      eapply (okseq_cons _ _ _ _ _ _ _ _ _ _ ids_end (fun rest => match rest with c :: _ => c = 13 | [] => False end)).
      - eapply ok_map.
        { apply ok_seq.
          eapply (okseq_cons _ _ _ _ _ _ _ _ _ _ any ids_end); [apply ok_tag_nc, Hk | | intros; exact I].
          eapply (okseq_cons _ _ _ _ _ _ _ _ _ _ ids_end ids_end); [apply ok_many0, okmany_ids, Hl | apply (okseq_nil _ _ _ _ ids_end) | intros r Hr; exact Hr]. }
        reflexivity.
      - eapply (okseq_cons _ _ _ _ _ _ _ _ _ _ (fun rest => match rest with c :: _ => c = 13 | [] => False end) (fun rest => match rest with c :: _ => c = 13 | [] => False end)).
        + apply ok_opt_none. intros rest Hr. destruct rest as [|c r]; [destruct Hr|]. subst c. apply rej_tag. reflexivity.
        + apply (okseq_nil _ _ _ _ (fun rest => match rest with c :: _ => c = 13 | [] => False end)).
        + intros r Hr. exact Hr.
      - intros rest Hr. destruct rest as [|c r]; [destruct Hr|]. subst c. exact I. }
    reflexivity.
  - eapply ok_map; [|reflexivity]. eapply ok_map.
    { apply ok_seq. regroup ((k ++ (w ++ [])) ++ ([32] ++ [])).
      eapply (okseq_cons _ _ _ _ _ _ _ _ _ _ ids_end (fun rest => match rest with c :: _ => c = 13 \/ c = 32 | [] => False end)).
      - eapply ok_map.
        { apply ok_seq.
          eapply (okseq_cons _ _ _ _ _ _ _ _ _ _ any ids_end); [apply ok_tag_nc, Hk | | intros; exact I].
          eapply (okseq_cons _ _ _ _ _ _ _ _ _ _ ids_end ids_end); [apply ok_many0, okmany_ids, Hl | apply (okseq_nil _ _ _ _ ids_end) | intros r Hr; exact Hr]. }
        reflexivity.
      - eapply (okseq_cons _ _ _ _ _ _ _ _ _ _ any (fun rest => match rest with c :: _ => c = 13 \/ c = 32 | [] => False end)).
        + apply ok_opt_some, ok_tag.
        + apply (okseq_nil _ _ _ _ (fun rest => match rest with c :: _ => c = 13 \/ c = 32 | [] => False end)).
        + intros; exact I.
      - intros rest Hr. destruct rest as [|c r]; [destruct Hr|]. cbn [app]. destruct Hr as [-> | ->]; reflexivity. }
    reflexivity.
Qed.

Lemma search_shape : def_rfc3501_x_mailbox_data_search = id_list_g "SEARCH" "MailboxDatum::Search". Proof. reflexivity. Qed.
Lemma sort_shape : def_rfc5256_x_mailbox_data_sort = id_list_g "SORT" "MailboxDatum::Sort". Proof. reflexivity. Qed.

Lemma ok_mailbox_data_search k body v (F : list byte -> Prop) d : same_nocase (bs "SEARCH") k = true ->
  (exists tl, body = k ++ tl) ->
  OK (id_list_g "SEARCH" "MailboxDatum::Search") (apply_darg DSame (apply_darg DSame d)) body v F ->
  OK (Alt rd_alts) d body (VCon "Response::MailboxData" [v]) F.
Proof.
  intros Hk (tl & ->) H. unfold rd_alts. cbn [def_rfc3501_x_response_data].
  apply (skip_kw _ _ (bs "SEARCH") _ _ _ _ _ Hk); [vm_compute; reflexivity|].
  apply ok_alt_here. eapply ok_map; [|reflexivity].
  apply (okref _ _ _ _ _ _ _ env_mailbox_data). unfold def_rfc3501_x_mailbox_data.
  do 6 (apply (skip_kw _ _ (bs "SEARCH") _ _ _ _ _ Hk); [vm_compute; reflexivity|]).
  apply ok_alt_here. apply (okref _ _ _ _ _ _ _ env_md_search). rewrite search_shape. exact H.
Qed.

Lemma ok_mailbox_data_sort k body v (F : list byte -> Prop) d : same_nocase (bs "SORT") k = true ->
  (exists tl, body = k ++ tl) ->
  OK (id_list_g "SORT" "MailboxDatum::Sort") (apply_darg DSame (apply_darg DSame d)) body v F ->
  OK (Alt rd_alts) d body (VCon "Response::MailboxData" [v]) F.
Proof.
  intros Hk (tl & ->) H. unfold rd_alts. cbn [def_rfc3501_x_response_data].
  apply (skip_kw _ _ (bs "SORT") _ _ _ _ _ Hk); [vm_compute; reflexivity|].
  apply ok_alt_here. eapply ok_map; [|reflexivity].
  apply (okref _ _ _ _ _ _ _ env_mailbox_data). unfold def_rfc3501_x_mailbox_data.
  do 9 (apply (skip_kw _ _ (bs "SORT") _ _ _ _ _ Hk); [vm_compute; reflexivity|]).
  apply ok_alt_here. apply (okref _ _ _ _ _ _ _ env_md_sort). rewrite sort_shape. exact H.
Qed.

Lemma spaces_follow sp r : enc_spaces sp -> match sp ++ [13; 10] ++ r with c :: _ => c = 13 \/ c = 32 | [] => False end.
Proof. intros [|w H]; cbn [app]; [left | right]; reflexivity. Qed.

Theorem id_list_roundtrip v w : enc_id_list_response v w -> forall rest, parse (w ++ rest) = ROk rest v (nlen w).
Proof.
  intros H rest.
  destruct H as [k l w0 sp Hk Hl Hsp | k l w0 sp Hk Hl Hsp]; unfold kw in Hk.
  - destruct Hsp as [|sp' Hsp'].
    + destruct (ok_id_list "SEARCH" "MailboxDatum::Search" k l w0 0%nat Hk Hl) as [HA _].
      pose proof (untagged_lift_gen (k ++ w0) _ _ [] (fun d => ok_mailbox_data_search k (k ++ w0) _ _ d Hk (ex_intro _ w0 eq_refl)
                    (proj1 (ok_id_list "SEARCH" "MailboxDatum::Search" k l w0 _ Hk Hl))) spaces_nil (fun r => eq_refl) rest) as HP.
      cbn [app] in HP. repeat rewrite <- app_assoc in HP. repeat rewrite <- app_assoc. cbn [app]. exact HP.
    + pose proof (untagged_lift_gen (k ++ w0 ++ [32]) _ _ sp' (fun d => ok_mailbox_data_search k (k ++ w0 ++ [32]) _ _ d Hk (ex_intro _ (w0 ++ [32]) eq_refl)
                    (proj2 (ok_id_list "SEARCH" "MailboxDatum::Search" k l w0 _ Hk Hl))) Hsp'
                    (fun r => spaces_follow sp' r Hsp') rest) as HP.
      repeat rewrite <- app_assoc in HP. repeat rewrite <- app_assoc. cbn [app] in *. exact HP.
  - destruct Hsp as [|sp' Hsp'].
    + pose proof (untagged_lift_gen (k ++ w0) _ _ [] (fun d => ok_mailbox_data_sort k (k ++ w0) _ _ d Hk (ex_intro _ w0 eq_refl)
                    (proj1 (ok_id_list "SORT" "MailboxDatum::Sort" k l w0 _ Hk Hl))) spaces_nil (fun r => eq_refl) rest) as HP.
      cbn [app] in HP. repeat rewrite <- app_assoc in HP. repeat rewrite <- app_assoc. cbn [app]. exact HP.
    + pose proof (untagged_lift_gen (k ++ w0 ++ [32]) _ _ sp' (fun d => ok_mailbox_data_sort k (k ++ w0 ++ [32]) _ _ d Hk (ex_intro _ (w0 ++ [32]) eq_refl)
                    (proj2 (ok_id_list "SORT" "MailboxDatum::Sort" k l w0 _ Hk Hl))) Hsp'
                    (fun r => spaces_follow sp' r Hsp') rest) as HP.
      repeat rewrite <- app_assoc in HP. repeat rewrite <- app_assoc. cbn [app] in *. exact HP.
Qed.

(* ---------------------------------------------------------------- STATUS *)
Lemma env_md_status : env f_rfc3501_x_mailbox_data_status = Some def_rfc3501_x_mailbox_data_status. Proof. reflexivity. Qed.
Lemma env_mailbox : env f_rfc3501_x_mailbox = Some def_rfc3501_x_mailbox. Proof. reflexivity. Qed.
Lemma env_status_att : env f_rfc3501_x_status_att = Some def_rfc3501_x_status_att. Proof. reflexivity. Qed.
Lemma env_status_att_list : env f_rfc3501_x_status_att_list = Some def_rfc3501_x_status_att_list. Proof. reflexivity. Qed.
Lemma env_sa_hms : env f_rfc4551_x_status_att_val_highest_mod_seq = Some def_rfc4551_x_status_att_val_highest_mod_seq. Proof. reflexivity. Qed.

Lemma ok_mailbox m w d : enc_mailbox m w -> OK (Ref f_rfc3501_x_mailbox DSame) d w (VBytes m) (stops_at cls_core_x_is_astring_char).
Proof.
  intros [s w0 Hs Hu]. apply (okref _ _ _ _ _ _ _ env_mailbox). unfold def_rfc3501_x_mailbox.
  eapply ok_map. { apply ok_astring_utf8; eassumption. } reflexivity.
Qed.

Lemma ok_status_att v w d : enc_status_att v w -> OK (Ref f_rfc3501_x_status_att DSame) d w v nodigit.
Proof.
  intro H. apply (okref _ _ _ _ _ _ _ env_status_att). unfold def_rfc3501_x_status_att.
  destruct H as [k n w Hk Hn | k n w Hk Hn | k n w Hk Hn | k n w Hk Hn | k n w Hk Hn | k n w Hk Hn]; unfold kw in Hk.
  - do 1 skip "MESSAGES "%string Hk. apply ok_alt_here. eapply ok_map. { apply (ok_kw2 _ _ _ _ _ _ nodigit Hk). apply ok_number, Hn. } reflexivity.
  - do 2 skip "RECENT "%string Hk. apply ok_alt_here. eapply ok_map. { apply (ok_kw2 _ _ _ _ _ _ nodigit Hk). apply ok_number, Hn. } reflexivity.
  - do 3 skip "UIDNEXT "%string Hk. apply ok_alt_here. eapply ok_map. { apply (ok_kw2 _ _ _ _ _ _ nodigit Hk). apply ok_number, Hn. } reflexivity.
  - do 4 skip "UIDVALIDITY "%string Hk. apply ok_alt_here. eapply ok_map. { apply (ok_kw2 _ _ _ _ _ _ nodigit Hk). apply ok_number, Hn. } reflexivity.
  - do 5 skip "UNSEEN "%string Hk. apply ok_alt_here. eapply ok_map. { apply (ok_kw2 _ _ _ _ _ _ nodigit Hk). apply ok_number, Hn. } reflexivity.
  - apply ok_alt_here. apply (okref _ _ _ _ _ _ _ env_sa_hms). unfold def_rfc4551_x_status_att_val_highest_mod_seq.
    eapply ok_map.
    { apply ok_seq. regroup (k ++ (w ++ [])).
      eapply (okseq_cons _ _ _ _ _ _ _ _ _ _ any nodigit); [apply ok_tag_nc, Hk | | intros; exact I].
      eapply (okseq_cons _ _ _ _ _ _ _ _ _ _ nodigit nodigit); [apply ok_number_64, Hn | apply (okseq_nil _ _ _ _ nodigit) | intros r Hr; exact Hr]. }
    reflexivity.
Qed.

Lemma oksep_status_atts l ws d : enc_status_atts_more l ws ->
  OkSep native_call env rk (Leaf (LTag (bs " "))) (Ref f_rfc3501_x_status_att DSame) d ws l closes.
Proof.
  intro H. induction H as [| a l w ws Ha Hl IH].
  - apply oksep_nil. intros rest Hr. destruct rest as [|c r]; [destruct Hr|]. cbn in Hr. subst c. apply rej_tag. reflexivity.
  - unfold SPb. eapply (oksep_cons _ _ _ _ _ _ _ _ _ _ _ _ any nodigit closes).
    + apply ok_tag.
    + discriminate.
    + apply ok_status_att, Ha.
    + exact IH.
    + intros rest Hr. destruct Hl; cbn [app].
      * destruct rest as [|c r]; [destruct Hr|]. cbn in Hr. subst c. reflexivity.
      * reflexivity.
    + intros; exact I.
Qed.

Lemma ok_status_att_list v w d : enc_status_att_list v w -> OK (Ref f_rfc3501_x_status_att_list DSame) d w v any.
Proof.
  intros [| a w0 l ws Ha Hl]; apply (okref _ _ _ _ _ _ _ env_status_att_list); unfold def_rfc3501_x_status_att_list.
  - eapply ok_map.
    { apply ok_seq. regroup ([40] ++ ([] ++ ([41] ++ []))).
      eapply (okseq_cons _ _ _ _ _ _ _ _ _ _ any any); [apply ok_tag | | intros; exact I].
      eapply (okseq_cons _ _ _ _ _ _ _ _ _ _ closes any).
      - apply ok_seplist0_empty. intros rest Hr. destruct rest as [|c r]; [destruct Hr|]. cbn in Hr. subst c.
        apply (fails_on_byte native_call env rk rank_ok_all 8). vm_compute. reflexivity.
      - eapply (okseq_cons _ _ _ _ _ _ _ _ _ _ any any); [apply ok_tag | apply (okseq_nil _ _ _ _ any) | intros; exact I].
      - intros rest _. reflexivity. }
    reflexivity.
  - eapply ok_map.
    { apply ok_seq. regroup ([40] ++ ((w0 ++ ws) ++ ([41] ++ []))).
      eapply (okseq_cons _ _ _ _ _ _ _ _ _ _ any any); [apply ok_tag | | intros; exact I].
      eapply (okseq_cons _ _ _ _ _ _ _ _ _ _ closes any).
      - eapply (ok_seplist0 _ _ _ _ _ _ _ _ _ _ nodigit closes).
        + apply ok_status_att, Ha.
        + apply oksep_status_atts, Hl.
        + intros rest Hr. destruct Hl; cbn [app].
          * destruct rest as [|c r]; [destruct Hr|]. cbn in Hr. subst c. reflexivity.
          * reflexivity.
      - eapply (okseq_cons _ _ _ _ _ _ _ _ _ _ any any); [apply ok_tag | apply (okseq_nil _ _ _ _ any) | intros; exact I].
      - intros rest _. reflexivity. }
    reflexivity.
Qed.

Lemma ok_mailbox_status v body d : enc_mailbox_status v body -> OK (Alt rd_alts) d body v before_trailer.
Proof.
  intros [k m wm atts wa Hk Hm Ha]. unfold kw in Hk. apply (Ok_follow _ _ _ _ _ _ _ any); [|intros; exact I].
  unfold rd_alts. cbn [def_rfc3501_x_response_data].
  apply (skip_kw _ _ (bs "STATUS ") _ _ _ _ _ Hk); [vm_compute; reflexivity|].
  apply ok_alt_here. eapply ok_map; [|reflexivity].
  apply (okref _ _ _ _ _ _ _ env_mailbox_data). unfold def_rfc3501_x_mailbox_data.
  do 4 (apply (skip_kw _ _ (bs "STATUS ") _ _ _ _ _ Hk); [vm_compute; reflexivity|]).
  apply ok_alt_here. apply (okref _ _ _ _ _ _ _ env_md_status). unfold def_rfc3501_x_mailbox_data_status.
  eapply ok_map.
  { apply ok_seq. unfold SPb. regroup (k ++ (wm ++ ([32] ++ (wa ++ [])))).
    eapply (okseq_cons _ _ _ _ _ _ _ _ _ _ any any); [apply ok_tag_nc, Hk | | intros; exact I].
    eapply (okseq_cons _ _ _ _ _ _ _ _ _ _ (stops_at cls_core_x_is_astring_char) any); [apply ok_mailbox, Hm | | intros rest _; reflexivity].
    eapply (okseq_cons _ _ _ _ _ _ _ _ _ _ any any); [apply ok_tag | | intros; exact I].
    eapply (okseq_cons _ _ _ _ _ _ _ _ _ _ any any); [apply ok_status_att_list, Ha | apply (okseq_nil _ _ _ _ any) | intros; exact I]. }
  reflexivity.
Qed.


(* ---------------------------------------------------------------- LIST / LSUB *)
Lemma env_md_list : env f_rfc3501_x_mailbox_data_list = Some def_rfc3501_x_mailbox_data_list. Proof. reflexivity. Qed.
Lemma env_md_lsub : env f_rfc3501_x_mailbox_data_lsub = Some def_rfc3501_x_mailbox_data_lsub. Proof. reflexivity. Qed.
Lemma env_mailbox_list : env f_rfc3501_x_mailbox_list = Some def_rfc3501_x_mailbox_list. Proof. reflexivity. Qed.
Lemma env_name_attribute : env f_rfc3501_x_name_attribute = Some def_rfc3501_x_name_attribute. Proof. reflexivity. Qed.
Lemma env_quoted_utf8 : env f_core_x_quoted_utf8 = Some def_core_x_quoted_utf8. Proof. reflexivity. Qed.

Lemma eq_nocase_same_nocase s w : eq_nocase w s = same_nocase s w.
Proof.
  revert w; induction s as [|a s IH]; intros [|b w]; try reflexivity.
  unfold eq_nocase in *. cbn [list_eqb same_nocase]. unfold eq_nocase1. rewrite (N.eqb_sym (lower b)), IH. reflexivity.
Qed.

(* case-insensitive equality is a congruence: a name spelled in another case is classified the same way *)
Lemma eq_nocase_congr s w t : same_nocase s w = true -> eq_nocase w t = eq_nocase s t.
Proof.
  revert w t; induction s as [|a s IH]; intros [|b w] t H; try discriminate; [reflexivity|].
  cbn [same_nocase] in H. apply andb_true_iff in H. destruct H as [H1 H2]. unfold eq_nocase1 in H1. apply N.eqb_eq in H1.
  destruct t as [|c t]; [reflexivity|]. unfold eq_nocase in *. cbn [list_eqb]. rewrite H1, (IH w t H2). reflexivity.
Qed.

Lemma classify_known tbl s w n : same_nocase s w = true ->
  classify_name_attr_in tbl s = VCon n [] -> classify_name_attr_in tbl w = VCon n [].
Proof.
  intro H. induction tbl as [|[k m] tbl IH]; cbn [classify_name_attr_in]; [discriminate|].
  rewrite (eq_nocase_congr s w k H). destruct (eq_nocase s k); [intro E; exact E | exact IH].
Qed.

Lemma classify_ext tbl w : (forall k, In k (map fst tbl) -> eq_nocase w k = false) ->
  classify_name_attr_in tbl w = VCon "NameAttribute::Extension" [VBytes w].
Proof.
  induction tbl as [|[k m] tbl IH]; intro H; cbn [classify_name_attr_in]; [reflexivity|].
  rewrite (H k (or_introl eq_refl)). apply IH. intros k' Hk'. apply H. right. exact Hk'.
Qed.

Lemma nocase_backslash b : eq_nocase1 92 b = true -> b = 92.
Proof.
  unfold eq_nocase1, lower. change (is_upper 92) with false. cbv iota. intro H. apply N.eqb_eq in H.
  destruct (is_upper b) eqn:E; [|symmetry; exact H].
  assert (b = 60) by lia. subst b. discriminate E.
Qed.

(* "\" followed by atom characters, as flag_extension reads it *)
Lemma ok_flag_extension a d : forallb cls_core_x_is_atom_char a = true -> forallb (fun b => b <=? 127) a = true ->
  OK (Ref f_rfc3501_x_flag_extension DSame) d (92 :: a) (VBytes (92 :: a)) (stops_at cls_core_x_is_atom_char).
Proof.
  intros Ha H7. apply (okref _ _ _ _ _ _ _ env_flag_ext). unfold def_rfc3501_x_flag_extension.
  eapply ok_mapres.
  { eapply ok_recognize. apply ok_seq. regroup ([92] ++ (a ++ [])).
    eapply (okseq_cons _ _ _ _ _ _ _ _ _ _ any (stops_at cls_core_x_is_atom_char)); [apply ok_tag | | intros; exact I].
    eapply (okseq_cons _ _ _ _ _ _ _ _ _ _ (stops_at cls_core_x_is_atom_char) (stops_at cls_core_x_is_atom_char)); [| apply (okseq_nil _ _ _ _ (stops_at cls_core_x_is_atom_char)) | intros r Hr; exact Hr].
    apply ok_take_while. exact Ha. }
  cbn. unfold native_call. cbn. rewrite ascii_utf8; [reflexivity|].
  change (forallb (fun b => b <=? 127) (92 :: a) = true). cbn [forallb]. rewrite H7. reflexivity.
Qed.

Lemma known_attr_shape K w : same_nocase (92 :: K) w = true -> forallb kw_char K = true ->
  exists a, w = 92 :: a /\ forallb cls_core_x_is_atom_char a = true /\ forallb (fun b => b <=? 127) a = true.
Proof.
  intros H HK. destruct w as [|b a]; [discriminate|]. cbn [same_nocase] in H. apply andb_true_iff in H. destruct H as [H1 H2].
  apply nocase_backslash in H1. subst b. exists a. split; [reflexivity|]. exact (kw_chars_ok K a HK H2).
Qed.

Lemma known_tables_agree : map (fun Kn : string * string => bs (fst Kn)) rfc_name_attrs = map fst known_name_attrs.
Proof. reflexivity. Qed.

Lemma act_name_attr a : act native_call (mk_action (PVar "x") (ACall "rfc3501::name_attribute#1" [AVar "x"])) (VBytes a)
  = AVal (classify_name_attr_in known_name_attrs a).
Proof. reflexivity. Qed.

Lemma ok_name_attr v w d : enc_name_attr v w -> OK (Ref f_rfc3501_x_name_attribute DSame) d w v (stops_at cls_core_x_is_atom_char).
Proof.
  intro H. apply (okref _ _ _ _ _ _ _ env_name_attribute). unfold def_rfc3501_x_name_attribute.
  destruct H as [K n w Hin Hk | a Hne Ha Hno].
  - unfold kw in Hk.
    assert (Hshape : exists K', bs K = 92 :: K' /\ forallb kw_char K' = true /\ classify_name_attr_in known_name_attrs (bs K) = VCon n []).
    { unfold rfc_name_attrs in Hin. cbn [In] in Hin.
      repeat (destruct Hin as [Hin | Hin]; [inversion Hin; subst K n; eexists; split; [reflexivity | split; reflexivity] |]). destruct Hin. }
    destruct Hshape as (K' & EK & HK' & Hcl). rewrite EK in Hk.
    destruct (known_attr_shape K' w Hk HK') as (a & -> & A1 & A2).
    eapply ok_map. { apply ok_flag_extension; assumption. }
    rewrite act_name_attr. rewrite <- EK in Hk. rewrite (classify_known _ _ _ _ Hk Hcl). reflexivity.
  - eapply ok_map.
    { apply ok_flag_extension.
      - apply (forallb_impl rfc_ATOM_CHAR); [intros x Hx; exact (proj1 (atom_char_facts x Hx)) | exact Ha].
      - apply (forallb_impl rfc_ATOM_CHAR); [intros x Hx; exact (proj1 (proj2 (proj2 (atom_char_facts x Hx)))) | exact Ha]. }
    rewrite act_name_attr. rewrite classify_ext; [reflexivity|].
    intros k Hk. rewrite <- known_tables_agree in Hk. apply in_map_iff in Hk. destruct Hk as (Kn & <- & HKn).
    rewrite forallb_forall in Hno. specialize (Hno Kn HKn). apply negb_true_iff in Hno.
    rewrite eq_nocase_same_nocase. exact Hno.
Qed.

Lemma enc_name_attr_head v w : enc_name_attr v w -> exists r, w = 92 :: r.
Proof.
  intros [K n w0 Hin Hk | a _ _ _]; [|eexists; reflexivity]. unfold kw in Hk.
  assert (E : exists K', bs K = 92 :: K').
  { unfold rfc_name_attrs in Hin. cbn [In] in Hin.
    repeat (destruct Hin as [Hin | Hin]; [inversion Hin; subst K n; eexists; reflexivity |]). destruct Hin. }
  destruct E as (K' & EK). rewrite EK in Hk. destruct w0 as [|b r]; [discriminate|].
  cbn [same_nocase] in Hk. apply andb_true_iff in Hk. destruct Hk as [H1 _]. apply nocase_backslash in H1. subst b. eexists. reflexivity.
Qed.

Lemma oksep_name_attrs l ws d : enc_name_attrs_more l ws ->
  OkSep native_call env rk (Leaf (LTag (bs " "))) (Ref f_rfc3501_x_name_attribute DSame) d ws l closes.
Proof.
  intro H. induction H as [| a l w ws Ha Hl IH].
  - apply oksep_nil. intros rest Hr. destruct rest as [|c r]; [destruct Hr|]. cbn in Hr. subst c. apply rej_tag. reflexivity.
  - unfold SPb. eapply (oksep_cons _ _ _ _ _ _ _ _ _ _ _ _ any (stops_at cls_core_x_is_atom_char)).
    + apply ok_tag.
    + discriminate.
    + apply ok_name_attr, Ha.
    + exact IH.
    + intros rest Hr. destruct Hl; cbn [app].
      * destruct rest as [|c r]; [destruct Hr|]. cbn in Hr. subst c. reflexivity.
      * reflexivity.
    + intros; exact I.
Qed.

Lemma ok_name_attr_list v w d : enc_name_attr_list v w ->
  OK (Map (mk_action (PTuple [PWild; PVar "p1"; PWild]) (AVar "p1"))
        (Seq [(Leaf (LTag (bs "("))); (SepList0 (Leaf (LTag (bs " "))) (Ref f_rfc3501_x_name_attribute DSame)); (Leaf (LTag (bs ")")))])) d w v any.
Proof.
  intros [| a w0 l ws Ha Hl].
  - eapply ok_map.
    { apply ok_seq. regroup ([40] ++ ([] ++ ([41] ++ []))).
      eapply (okseq_cons _ _ _ _ _ _ _ _ _ _ any any); [apply ok_tag | | intros; exact I].
      eapply (okseq_cons _ _ _ _ _ _ _ _ _ _ closes any).
      - apply ok_seplist0_empty. intros rest Hr. destruct rest as [|c r]; [destruct Hr|]. cbn in Hr. subst c.
        apply (fails_on_byte native_call env rk rank_ok_all 8). vm_compute. reflexivity.
      - eapply (okseq_cons _ _ _ _ _ _ _ _ _ _ any any); [apply ok_tag | apply (okseq_nil _ _ _ _ any) | intros; exact I].
      - intros rest _. reflexivity. }
    reflexivity.
  - eapply ok_map.
    { apply ok_seq. regroup ([40] ++ ((w0 ++ ws) ++ ([41] ++ []))).
      eapply (okseq_cons _ _ _ _ _ _ _ _ _ _ any any); [apply ok_tag | | intros; exact I].
      eapply (okseq_cons _ _ _ _ _ _ _ _ _ _ closes any).
      - eapply (ok_seplist0 _ _ _ _ _ _ _ _ _ _ (stops_at cls_core_x_is_atom_char)).
        + apply ok_name_attr, Ha.
        + apply oksep_name_attrs, Hl.
        + intros rest Hr. destruct Hl; cbn [app].
          * destruct rest as [|c r]; [destruct Hr|]. cbn in Hr. subst c. reflexivity.
          * reflexivity.
      - eapply (okseq_cons _ _ _ _ _ _ _ _ _ _ any any); [apply ok_tag | apply (okseq_nil _ _ _ _ any) | intros; exact I].
      - intros rest _. reflexivity. }
    reflexivity.
Qed.

Definition delim_g : G :=
  Alt [(Map (mk_action (PVar "x") (ASome (AVar "x"))) (Ref f_core_x_quoted_utf8 DSame));
       (Map (mk_action (PWild) (ANone)) (Ref f_core_x_nil DSame))].

Lemma ok_delim v w d : enc_delim v w -> OK delim_g d w v any.
Proof.
  intros [w0 Hn | s w0 Hq Hu]; unfold delim_g.
  - apply ok_alt_skip.
    + intros rest _. destruct Hn as [w1 Hk]. unfold kw in Hk. destruct w1 as [|c r]; [discriminate|].
      cbn [app]. apply rej_map. apply (rejref _ _ _ _ _ env_quoted_utf8). unfold def_core_x_quoted_utf8. apply rej_mapres.
      apply (rejref _ _ _ _ _ env_quoted). unfold def_core_x_quoted. apply rej_map, rej_seq_head, rej_tag.
      change (bs "NIL") with [78; 73; 76] in Hk. cbn [same_nocase] in Hk. apply andb_true_iff in Hk. destruct Hk as [Hc _].
      destruct (lower_variants _ _ Hc) as [<- | [<- | []]]; reflexivity.
    + apply ok_alt_here. eapply ok_map. { apply ok_nil. constructor. destruct Hn as [w1 Hk]. exact Hk. } reflexivity.
  - apply ok_alt_here. eapply ok_map.
    { apply (okref _ _ _ _ _ _ _ env_quoted_utf8). unfold def_core_x_quoted_utf8.
      eapply ok_mapres. { apply ok_quoted, Hq. } cbn. unfold native_call. cbn. rewrite Hu. reflexivity. }
    reflexivity.
Qed.

Lemma ok_mailbox_list_body attrs wa dl wd m wm d : enc_name_attr_list attrs wa -> enc_delim dl wd -> enc_mailbox m wm ->
  OK (Ref f_rfc3501_x_mailbox_list DSame) d (wa ++ SPb ++ wd ++ SPb ++ wm) (VTuple [attrs; dl; VBytes m]) (stops_at cls_core_x_is_astring_char).
Proof.
  intros Ha Hd Hm. apply (okref _ _ _ _ _ _ _ env_mailbox_list). unfold def_rfc3501_x_mailbox_list. fold delim_g.
  eapply ok_map.
  { apply ok_seq. unfold SPb. regroup (wa ++ ([32] ++ (wd ++ ([32] ++ (wm ++ []))))).
    eapply (okseq_cons _ _ _ _ _ _ _ _ _ _ any (stops_at cls_core_x_is_astring_char)); [apply ok_name_attr_list, Ha | | intros; exact I].
    eapply (okseq_cons _ _ _ _ _ _ _ _ _ _ any (stops_at cls_core_x_is_astring_char)); [apply ok_tag | | intros; exact I].
    eapply (okseq_cons _ _ _ _ _ _ _ _ _ _ any (stops_at cls_core_x_is_astring_char)); [apply ok_delim, Hd | | intros; exact I].
    eapply (okseq_cons _ _ _ _ _ _ _ _ _ _ any (stops_at cls_core_x_is_astring_char)); [apply ok_tag | | intros; exact I].
    eapply (okseq_cons _ _ _ _ _ _ _ _ _ _ (stops_at cls_core_x_is_astring_char) (stops_at cls_core_x_is_astring_char));
      [apply ok_mailbox, Hm | apply (okseq_nil _ _ _ _ (stops_at cls_core_x_is_astring_char)) | intros r Hr; exact Hr]. }
  reflexivity.
Qed.

Lemma before_trailer_stops rest : before_trailer rest -> stops_at cls_core_x_is_astring_char rest.
Proof. destruct rest as [|c r]; [intros []|]. intros [-> | ->]; reflexivity. Qed.

Lemma ok_mailbox_list v body d : enc_mailbox_list v body -> OK (Alt rd_alts) d body v before_trailer.
Proof.
  intros [K k attrs wa dl wd m wm HK Hk Ha Hd Hm]. unfold kw in Hk.
  apply (Ok_follow _ _ _ _ _ _ _ (stops_at cls_core_x_is_astring_char)); [|exact before_trailer_stops].
  unfold rd_alts. cbn [def_rfc3501_x_response_data].
  destruct HK as [-> | ->].
  - apply (skip_kw _ _ (bs "LIST ") _ _ _ _ _ Hk); [vm_compute; reflexivity|].
    apply ok_alt_here. eapply ok_map; [|reflexivity].
    apply (okref _ _ _ _ _ _ _ env_mailbox_data). unfold def_rfc3501_x_mailbox_data.
    do 2 (apply (skip_kw _ _ (bs "LIST ") _ _ _ _ _ Hk); [vm_compute; reflexivity|]).
    apply ok_alt_here. apply (okref _ _ _ _ _ _ _ env_md_list). unfold def_rfc3501_x_mailbox_data_list.
    eapply ok_map.
    { eapply ok_map.
      { apply ok_seq. regroup (k ++ ((wa ++ SPb ++ wd ++ SPb ++ wm) ++ [])).
        eapply (okseq_cons _ _ _ _ _ _ _ _ _ _ any (stops_at cls_core_x_is_astring_char)); [apply ok_tag_nc, Hk | | intros; exact I].
        eapply (okseq_cons _ _ _ _ _ _ _ _ _ _ (stops_at cls_core_x_is_astring_char) (stops_at cls_core_x_is_astring_char));
          [apply ok_mailbox_list_body; eassumption | apply (okseq_nil _ _ _ _ (stops_at cls_core_x_is_astring_char)) | intros r Hr; exact Hr]. }
      reflexivity. }
    reflexivity.
  - apply (skip_kw _ _ (bs "LSUB ") _ _ _ _ _ Hk); [vm_compute; reflexivity|].
    apply ok_alt_here. eapply ok_map; [|reflexivity].
    apply (okref _ _ _ _ _ _ _ env_mailbox_data). unfold def_rfc3501_x_mailbox_data.
    do 3 (apply (skip_kw _ _ (bs "LSUB ") _ _ _ _ _ Hk); [vm_compute; reflexivity|]).
    apply ok_alt_here. apply (okref _ _ _ _ _ _ _ env_md_lsub). unfold def_rfc3501_x_mailbox_data_lsub.
    eapply ok_map.
    { eapply ok_map.
      { apply ok_seq. regroup (k ++ ((wa ++ SPb ++ wd ++ SPb ++ wm) ++ [])).
        eapply (okseq_cons _ _ _ _ _ _ _ _ _ _ any (stops_at cls_core_x_is_astring_char)); [apply ok_tag_nc, Hk | | intros; exact I].
        eapply (okseq_cons _ _ _ _ _ _ _ _ _ _ (stops_at cls_core_x_is_astring_char) (stops_at cls_core_x_is_astring_char));
          [apply ok_mailbox_list_body; eassumption | apply (okseq_nil _ _ _ _ (stops_at cls_core_x_is_astring_char)) | intros r Hr; exact Hr]. }
      reflexivity. }
    reflexivity.
Qed.

(* ---------------------------------------------------------------- FLAGS / X-GM-LABELS / X-GM-MSGID as mailbox data *)
Lemma env_md_flags : env f_rfc3501_x_mailbox_data_flags = Some def_rfc3501_x_mailbox_data_flags. Proof. reflexivity. Qed.
Lemma env_md_labels : env f_gmail_x_mailbox_data_gmail_labels = Some def_gmail_x_mailbox_data_gmail_labels. Proof. reflexivity. Qed.
Lemma env_md_msgid : env f_gmail_x_mailbox_data_gmail_msgid = Some def_gmail_x_mailbox_data_gmail_msgid. Proof. reflexivity. Qed.

Lemma before_trailer_nodigit rest : before_trailer rest -> nodigit rest.
Proof. destruct rest as [|c r]; [intros []|]. intros [-> | ->]; reflexivity. Qed.

Lemma ok_mailbox_misc v body d : enc_mailbox_misc v body -> OK (Alt rd_alts) d body v before_trailer.
Proof.
  intros [k v0 w Hk Hv | k v0 w Hk Hv | k n w Hk Hn]; unfold kw in Hk; unfold rd_alts; cbn [def_rfc3501_x_response_data].
  - apply (Ok_follow _ _ _ _ _ _ _ any); [|intros; exact I].
    apply (skip_kw _ _ (bs "FLAGS ") _ _ _ _ _ Hk); [vm_compute; reflexivity|].
    apply ok_alt_here. eapply ok_map; [|reflexivity].
    apply (okref _ _ _ _ _ _ _ env_mailbox_data). unfold def_rfc3501_x_mailbox_data.
    apply ok_alt_here. apply (okref _ _ _ _ _ _ _ env_md_flags). unfold def_rfc3501_x_mailbox_data_flags.
    eapply ok_map; [|reflexivity]. apply (ok_kw2 _ _ _ _ _ _ any Hk). apply ok_flag_list, Hv.
  - apply (Ok_follow _ _ _ _ _ _ _ any); [|intros; exact I].
    apply (skip_kw _ _ (bs "X-GM-LABELS ") _ _ _ _ _ Hk); [vm_compute; reflexivity|].
    apply ok_alt_here. eapply ok_map; [|reflexivity].
    apply (okref _ _ _ _ _ _ _ env_mailbox_data). unfold def_rfc3501_x_mailbox_data.
    do 7 (apply (skip_kw _ _ (bs "X-GM-LABELS ") _ _ _ _ _ Hk); [vm_compute; reflexivity|]).
    apply ok_alt_here. apply (okref _ _ _ _ _ _ _ env_md_labels). unfold def_gmail_x_mailbox_data_gmail_labels.
    eapply ok_map; [apply ok_label_list; eassumption | reflexivity].
  - apply (Ok_follow _ _ _ _ _ _ _ nodigit); [|exact before_trailer_nodigit].
    apply (skip_kw _ _ (bs "X-GM-MSGID ") _ _ _ _ _ Hk); [vm_compute; reflexivity|].
    apply ok_alt_here. eapply ok_map; [|reflexivity].
    apply (okref _ _ _ _ _ _ _ env_mailbox_data). unfold def_rfc3501_x_mailbox_data.
    do 8 (apply (skip_kw _ _ (bs "X-GM-MSGID ") _ _ _ _ _ Hk); [vm_compute; reflexivity|]).
    apply ok_alt_here. apply (okref _ _ _ _ _ _ _ env_md_msgid). unfold def_gmail_x_mailbox_data_gmail_msgid.
    eapply ok_map; [|reflexivity].
    apply (okref _ _ _ _ _ _ _ env_gmail_msgid). unfold def_gmail_x_gmail_msgid.
    apply (ok_kw2 _ _ _ _ _ _ nodigit Hk). apply ok_number_64, Hn.
Qed.

Theorem data_roundtrip v w : enc_data_response v w -> forall rest, parse (w ++ rest) = ROk rest v (nlen w).
Proof.
  intros [v0 body sp Hb Hsp] rest. apply untagged_lift; [|exact Hsp]. intro d.
  destruct Hb as [v1 b1 H | v1 b1 H | v1 b1 H | v1 b1 H | v1 b1 H]; [apply ok_untagged, H | apply ok_quota, H | apply ok_mailbox_status, H | apply ok_mailbox_list, H | apply ok_mailbox_misc, H].
Qed.

(* ---------------------------------------------------------------- CAPABILITY *)

Lemma contains_rev1 l : In (VCon "Capability::Imap4rev1" []) l -> contains_imap4rev1 (VList l) = true.
Proof.
  intro H. unfold contains_imap4rev1. apply existsb_exists. eexists. split; [exact H | reflexivity].
Qed.

Lemma ok_capability_data v body d : enc_capability_data v body -> OK (Alt rd_alts) d body v caps_end.
Proof.
  intros [k l w Hk Hl Hin]. unfold kw in Hk. unfold rd_alts. cbn [def_rfc3501_x_response_data].
  do 4 (apply (skip_kw _ _ (bs "CAPABILITY") _ _ _ _ _ Hk); [vm_compute; reflexivity|]).
  apply ok_alt_here. eapply ok_map; [|reflexivity].
  apply (okref _ _ _ _ _ _ _ env_capability_data). unfold def_rfc3501_x_capability_data. fold cap_item.
  eapply ok_mapres.
  { eapply ok_map.
    { apply ok_seq. regroup (k ++ (w ++ [])).
      eapply (okseq_cons _ _ _ _ _ _ _ _ _ _ any caps_end); [apply ok_tag_nc, Hk | | intros; exact I].
      eapply (okseq_cons _ _ _ _ _ _ _ _ _ _ caps_end caps_end); [apply ok_many0, okmany_caps, Hl | apply (okseq_nil _ _ _ _ caps_end) | intros r Hr; exact Hr]. }
    reflexivity. }
  unfold act. cbn [a_pat a_body bind eval eval_list of_lres lookup String.eqb Ascii.eqb Bool.eqb].
  unfold native_call. cbn [String.eqb Ascii.eqb Bool.eqb]. rewrite (contains_rev1 l Hin). reflexivity.
Qed.

Lemma spaces_caps_end sp r : enc_spaces sp -> caps_end (sp ++ [13; 10] ++ r).
Proof.
  intros [|w H]; cbn [app]; [exact I|]. destruct H as [|w' H']; cbn [app]; reflexivity.
Qed.

Theorem capability_roundtrip v body sp : enc_capability_data v body -> enc_spaces sp -> forall rest,
  parse ((bs "* " ++ body ++ sp ++ [13; 10]) ++ rest) = ROk rest v (nlen (bs "* " ++ body ++ sp ++ [13; 10])).
Proof.
  intros Hb Hsp rest. apply (untagged_lift_gen body v caps_end sp (fun d => ok_capability_data v body d Hb) Hsp).
  intro r. apply spaces_caps_end, Hsp.
Qed.

(* ---------------------------------------------------------------- ENABLED *)
Lemma env_resp_enabled : env f_rfc5161_x_resp_enabled = Some def_rfc5161_x_resp_enabled. Proof. reflexivity. Qed.
Lemma env_enabled_data : env f_rfc5161_x_enabled_data = Some def_rfc5161_x_enabled_data. Proof. reflexivity. Qed.
Lemma env_capability_5161 : env f_rfc5161_x_capability = Some def_rfc5161_x_capability. Proof. reflexivity. Qed.

Definition enabled_item : G := Map proj12 (Seq [Leaf (LTag (bs " ")); Ref f_rfc5161_x_capability DSame]).

Lemma ok_enabled_cap a d : a <> [] -> forallb rfc_ATOM_CHAR a = true ->
  OK (Ref f_rfc5161_x_capability DSame) d a (VCon "Capability::Atom" [VBytes a]) (stops_at cls_core_x_is_atom_char).
Proof.
  intros Hne Ha. apply (okref _ _ _ _ _ _ _ env_capability_5161). unfold def_rfc5161_x_capability.
  eapply ok_map.
  { eapply ok_map.
    { apply ok_atom_bytes; [exact Hne | |].
      - apply (forallb_impl rfc_ATOM_CHAR); [intros x Hx; exact (proj1 (atom_char_facts x Hx)) | exact Ha].
      - apply (forallb_impl rfc_ATOM_CHAR); [intros x Hx; exact (proj1 (proj2 (proj2 (atom_char_facts x Hx)))) | exact Ha]. }
    reflexivity. }
  reflexivity.
Qed.

Lemma rej_enabled_item rest d : caps_end rest -> REJ enabled_item d rest.
Proof.
  intro H. unfold enabled_item. apply rej_map. destruct (caps_end_inv rest H) as [(r & ->) | (c & r & -> & Hc)].
  - apply rej_seq_head, rej_tag. reflexivity.
  - change (32 :: c :: r) with ([32] ++ (c :: r)).
    eapply (rej_seq_after _ _ _ _ _ _ _ _ any); [apply ok_tag | exact I |]. apply rejseq_head.
    apply (rejref _ _ _ _ _ env_capability_5161). unfold def_rfc5161_x_capability. apply rej_map, rej_map.
    apply (rejref _ _ _ _ _ env_atom). unfold def_core_x_atom. apply rej_mapres, rej_take_while1. exact Hc.
Qed.

Lemma okmany_enabled l ws d : enc_enabled_more l ws -> OkMany native_call env rk enabled_item d ws l caps_end.
Proof.
  intro H. induction H as [| a l ws Hne Ha Hl IH].
  - apply okmany_nil. intros rest Hr. apply rej_enabled_item, Hr.
  - unfold SPb. rewrite app_assoc. eapply (okmany_cons _ _ _ _ _ _ _ _ _ (stops_at cls_core_x_is_atom_char)).
    + unfold enabled_item. eapply ok_map.
      { apply ok_seq. regroup ([32] ++ (a ++ [])).
        eapply (okseq_cons _ _ _ _ _ _ _ _ _ _ any (stops_at cls_core_x_is_atom_char)); [apply ok_tag | | intros; exact I].
        eapply (okseq_cons _ _ _ _ _ _ _ _ _ _ (stops_at cls_core_x_is_atom_char) (stops_at cls_core_x_is_atom_char)); [apply ok_enabled_cap; assumption | apply (okseq_nil _ _ _ _ (stops_at cls_core_x_is_atom_char)) | intros r Hr; exact Hr]. }
      reflexivity.
    + discriminate.
    + exact IH.
    + intros rest Hr. destruct Hl; cbn [app].
      * destruct (caps_end_inv rest Hr) as [(r & ->) | (c0 & r & -> & _)]; reflexivity.
      * reflexivity.
Qed.

Lemma ok_enabled_data v body d : enc_enabled_data v body -> OK (Alt rd_alts) d body v caps_end.
Proof.
  intros [k l w Hk Hl]. unfold kw in Hk. unfold rd_alts. cbn [def_rfc3501_x_response_data].
  do 5 (apply (skip_kw _ _ (bs "ENABLED") _ _ _ _ _ Hk); [vm_compute; reflexivity|]).
  apply ok_alt_here. apply (okref _ _ _ _ _ _ _ env_resp_enabled). unfold def_rfc5161_x_resp_enabled.
  eapply ok_map.
  { apply (okref _ _ _ _ _ _ _ env_enabled_data). unfold def_rfc5161_x_enabled_data. fold proj12. fold enabled_item.
    eapply ok_map.
    { apply ok_seq. regroup (k ++ (w ++ [])).
      eapply (okseq_cons _ _ _ _ _ _ _ _ _ _ any caps_end); [apply ok_tag_nc, Hk | | intros; exact I].
      eapply (okseq_cons _ _ _ _ _ _ _ _ _ _ caps_end caps_end); [apply ok_many0, okmany_enabled, Hl | apply (okseq_nil _ _ _ _ caps_end) | intros r Hr; exact Hr]. }
    reflexivity. }
  reflexivity.
Qed.

Theorem enabled_roundtrip v body sp : enc_enabled_data v body -> enc_spaces sp -> forall rest,
  parse ((bs "* " ++ body ++ sp ++ [13; 10]) ++ rest) = ROk rest v (nlen (bs "* " ++ body ++ sp ++ [13; 10])).
Proof.
  intros Hb Hsp rest. apply (untagged_lift_gen body v caps_end sp (fun d => ok_enabled_data v body d Hb) Hsp).
  intro r. apply spaces_caps_end, Hsp.
Qed.

(* ---------------------------------------------------------------- QUOTAROOT *)
Lemma env_quota_root : env f_rfc2087_x_quota_root = Some def_rfc2087_x_quota_root. Proof. reflexivity. Qed.

Definition idmap : action := mk_action (PVar "x") (AVar "x").
Definition qr_item : G := Map proj12 (Seq [(Leaf (LTakeWhile1 nom_is_space)); (Map idmap (Ref f_core_x_astring_utf8 DSame))]).
Definition qr_end (rest : list byte) : Prop := exists sp r, enc_spaces sp /\ rest = sp ++ 13 :: r.

Lemma qr_end_head rest : qr_end rest -> exists c r, rest = c :: r /\ (c = 32 \/ c = 13).
Proof. intros (sp & r & [|w Hs] & ->); cbn [app]; eexists _, _; (split; [reflexivity|]); [right | left]; reflexivity. Qed.

Lemma qr_end_stops rest : qr_end rest -> stops_at cls_core_x_is_astring_char rest.
Proof. intro H. destruct (qr_end_head rest H) as (c & r & -> & [-> | ->]); reflexivity. Qed.

Lemma spaces_ws1 sp : enc_spaces sp -> sp <> [] -> enc_ws1 sp.
Proof.
  intros H Hne. constructor; [exact Hne|]. clear Hne. induction H as [|w H IH]; [reflexivity|]. cbn [forallb]. rewrite IH. reflexivity.
Qed.

Lemma rej_qr_item rest d : qr_end rest -> REJ qr_item d rest.
Proof.
  intros (sp & r & Hs & ->). unfold qr_item. apply rej_map. destruct sp as [|c sp'].
  - cbn [app]. apply rej_seq_head, rej_take_while1. reflexivity.
  - eapply (rej_seq_after _ _ _ _ _ _ _ _ (stops_at nom_is_space)); [apply ok_ws1, spaces_ws1; [exact Hs | discriminate] | reflexivity |].
    apply rejseq_head. apply (fails_on_byte native_call env rk rank_ok_all 8). vm_compute. reflexivity.
Qed.

Lemma ok_qr_item s n wn d : enc_ws1 s -> enc_astring n wn -> utf8_valid n = true ->
  OK qr_item d (s ++ wn) (VBytes n) (stops_at cls_core_x_is_astring_char).
Proof.
  intros Hs Hn Hu. unfold qr_item. eapply ok_map.
  { apply ok_seq. regroup (s ++ (wn ++ [])).
    eapply (okseq_cons _ _ _ _ _ _ _ _ _ _ (stops_at nom_is_space) (stops_at cls_core_x_is_astring_char)); [apply ok_ws1, Hs | |].
    - eapply (okseq_cons _ _ _ _ _ _ _ _ _ _ (stops_at cls_core_x_is_astring_char) (stops_at cls_core_x_is_astring_char));
        [eapply ok_map; [apply ok_astring_utf8; eassumption | reflexivity] | apply (okseq_nil _ _ _ _ (stops_at cls_core_x_is_astring_char)) | intros r Hr; exact Hr].
    - intros rest _. destruct (enc_astring_head n wn Hn) as (c & r & -> & Hc). cbn [app]. exact Hc. }
  reflexivity.
Qed.

Lemma enc_ws1_head s : enc_ws1 s -> exists c r, s = c :: r /\ cls_core_x_is_astring_char c = false.
Proof. intro H. destruct (ws1_head s H) as (c & r & -> & _ & _ & Hc). eexists _, _. split; [reflexivity | exact Hc]. Qed.

Lemma okmany_quotaroots l ws d : enc_quotaroot_names l ws -> OkMany native_call env rk qr_item d ws l qr_end.
Proof.
  intro H. induction H as [| s n wn l ws Hs Hn Hu Hl IH].
  - apply okmany_nil. intros rest Hr. apply rej_qr_item, Hr.
  - rewrite app_assoc. eapply (okmany_cons _ _ _ _ _ _ _ _ _ (stops_at cls_core_x_is_astring_char)).
    + apply ok_qr_item; assumption.
    + destruct Hs as [s0 Hne _]. destruct s0; [contradiction | discriminate].
    + exact IH.
    + intros rest Hr. destruct Hl as [| s' n' wn' l' ws' Hs' _ _ _]; cbn [app].
      * apply qr_end_stops, Hr.
      * destruct (enc_ws1_head s' Hs') as (c & r & -> & Hc). cbn [app]. exact Hc.
Qed.

Lemma ok_quotaroot v body d : enc_quotaroot v body -> OK (Alt rd_alts) d body v qr_end.
Proof.
  intros [k s m wm l ws Hk Hs Hm Hu Hl]. unfold kw in Hk. unfold rd_alts. cbn [def_rfc3501_x_response_data].
  do 9 (apply (skip_kw _ _ (bs "QUOTAROOT") _ _ _ _ _ Hk); [vm_compute; reflexivity|]).
  apply ok_alt_skip.
  { (* QUOTA matches the first five bytes, then wants a space where "ROOT" stands *)
    intros rest _. apply (rejref _ _ _ _ _ env_quota). unfold def_rfc2087_x_quota. apply rej_map.
    change (bs "QUOTAROOT") with [81; 85; 79; 84; 65; 82; 79; 79; 84] in Hk.
    destruct k as [|k1 [|k2 [|k3 [|k4 [|k5 [|k6 k']]]]]]; cbn [same_nocase] in Hk; rewrite ?andb_false_r in Hk; try discriminate Hk.
    apply andb_true_iff in Hk. destruct Hk as [H1 Hk]. apply andb_true_iff in Hk. destruct Hk as [H2 Hk].
    apply andb_true_iff in Hk. destruct Hk as [H3 Hk]. apply andb_true_iff in Hk. destruct Hk as [H4 Hk].
    apply andb_true_iff in Hk. destruct Hk as [H5 Hk]. apply andb_true_iff in Hk. destruct Hk as [H6 _].
    assert (E : forall t : list byte, (k1 :: k2 :: k3 :: k4 :: k5 :: k6 :: k') ++ t = [k1; k2; k3; k4; k5] ++ (k6 :: k' ++ t)) by reflexivity.
    rewrite <- app_assoc. rewrite E.
    eapply (rej_seq_after _ _ _ _ _ _ _ _ any).
    - apply ok_tag_nc. change (bs "QUOTA") with [81; 85; 79; 84; 65]. cbn [same_nocase]. rewrite H1, H2, H3, H4, H5. reflexivity.
    - exact I.
    - apply rejseq_head, rej_take_while1. destruct (lower_variants _ _ H6) as [<- | [<- | []]]; reflexivity. }
  apply ok_alt_here. apply (okref _ _ _ _ _ _ _ env_quota_root). unfold def_rfc2087_x_quota_root. fold idmap. fold proj12. fold qr_item.
  eapply ok_map.
  { apply ok_seq. regroup (k ++ (s ++ (wm ++ (ws ++ [])))).
    eapply (okseq_cons _ _ _ _ _ _ _ _ _ _ any qr_end); [apply ok_tag_nc, Hk | | intros; exact I].
    eapply (okseq_cons _ _ _ _ _ _ _ _ _ _ (stops_at nom_is_space) qr_end); [apply ok_ws1, Hs | |].
    - eapply (okseq_cons _ _ _ _ _ _ _ _ _ _ (stops_at cls_core_x_is_astring_char) qr_end).
      + eapply ok_map; [apply ok_astring_utf8; eassumption | reflexivity].
      + eapply (okseq_cons _ _ _ _ _ _ _ _ _ _ qr_end qr_end); [apply ok_many0, okmany_quotaroots, Hl | apply (okseq_nil _ _ _ _ qr_end) | intros r Hr; exact Hr].
      + intros rest Hr. rewrite app_nil_r. destruct Hl as [| s' n' wn' l' ws' Hs' _ _ _]; cbn [app].
        * apply qr_end_stops, Hr.
        * destruct (enc_ws1_head s' Hs') as (c & r & -> & Hc). cbn [app]. exact Hc.
    - intros rest _. destruct (enc_astring_head m wm Hm) as (c & r & -> & Hc). cbn [app]. exact Hc. }
  reflexivity.
Qed.

Theorem quotaroot_roundtrip v body sp : enc_quotaroot v body -> enc_spaces sp -> forall rest,
  parse ((bs "* " ++ body ++ sp ++ [13; 10]) ++ rest) = ROk rest v (nlen (bs "* " ++ body ++ sp ++ [13; 10])).
Proof.
  intros Hb Hsp rest. apply (untagged_lift_gen body v qr_end sp (fun d => ok_quotaroot v body d Hb) Hsp).
  intro r. exists sp, (10 :: r). split; [exact Hsp | reflexivity].
Qed.

(* ---------------------------------------------------------------- MYRIGHTS *)
Lemma env_my_rights : env f_rfc4314_x_my_rights = Some def_rfc4314_x_my_rights. Proof. reflexivity. Qed.

Lemma utf8_chars_ascii s : forallb (fun b => b <=? 127) s = true -> utf8_chars s = s.
Proof.
  induction s as [|c s IH]; intro H; [reflexivity|]. cbn [forallb] in H. apply andb_true_iff in H. destruct H as [Hc Hs].
  cbn [utf8_chars]. replace (c <? 128) with true by (symmetry; apply N.ltb_lt; apply N.leb_le in Hc; lia). rewrite (IH Hs). reflexivity.
Qed.

Lemma acl_right_table c : acl_right c = rfc_right_in rfc_rights c.
Proof. reflexivity. Qed.

Definition rights_g : G := Map (mk_action (PVar "x") (ACall "rfc4314::map_text_to_rights" [AVar "x"])) (Ref f_core_x_astring_utf8 DSame).

Lemma ok_rights r w d : enc_rights r w -> OK rights_g d w r (stops_at cls_core_x_is_astring_char).
Proof.
  intros [s w0 Hs H7]. unfold rights_g. eapply ok_map. { apply ok_astring_utf8; [exact Hs | apply ascii_utf8, H7]. }
  cbn. unfold native_call. cbn. unfold rights_of. rewrite (utf8_chars_ascii s H7).
  first [reflexivity | do 2 f_equal; apply map_ext; intro c; apply acl_right_table].
Qed.

Lemma enc_rights_head r w : enc_rights r w -> exists c t, w = c :: t /\ nom_is_space c = false.
Proof. intros [s w0 Hs _]. exact (enc_astring_head s w0 Hs). Qed.

Lemma enc_mailbox_head m w : enc_mailbox m w -> exists c t, w = c :: t /\ nom_is_space c = false.
Proof. intros [s w0 Hs _]. exact (enc_astring_head s w0 Hs). Qed.

Lemma ok_myrights v body d : enc_myrights v body -> OK (Alt rd_alts) d body v before_trailer.
Proof.
  intros [k s1 m wm s2 r wr Hk H1 Hm H2 Hr]. unfold kw in Hk.
  apply (Ok_follow _ _ _ _ _ _ _ (stops_at cls_core_x_is_astring_char)); [|exact before_trailer_stops].
  unfold rd_alts. cbn [def_rfc3501_x_response_data].
  do 14 (apply (skip_kw _ _ (bs "MYRIGHTS") _ _ _ _ _ Hk); [vm_compute; reflexivity|]).
  apply ok_alt_here. apply (okref _ _ _ _ _ _ _ env_my_rights). unfold def_rfc4314_x_my_rights. fold idmap. fold rights_g.
  destruct (enc_ws1_head _ H2) as (c2 & r2 & E2 & A2).
  eapply ok_map.
  { apply ok_seq. regroup (k ++ (s1 ++ (wm ++ (s2 ++ (wr ++ []))))).
    eapply (okseq_cons _ _ _ _ _ _ _ _ _ _ any (stops_at cls_core_x_is_astring_char)); [apply ok_tag_nc, Hk | | intros; exact I].
    eapply (okseq_cons _ _ _ _ _ _ _ _ _ _ (stops_at nom_is_space) (stops_at cls_core_x_is_astring_char)); [apply ok_ws1, H1 | |].
    - eapply (okseq_cons _ _ _ _ _ _ _ _ _ _ (stops_at cls_core_x_is_astring_char) (stops_at cls_core_x_is_astring_char)).
      + eapply ok_map; [apply ok_mailbox, Hm | reflexivity].
      + eapply (okseq_cons _ _ _ _ _ _ _ _ _ _ (stops_at nom_is_space) (stops_at cls_core_x_is_astring_char)); [apply ok_ws1, H2 | |].
        * eapply (okseq_cons _ _ _ _ _ _ _ _ _ _ (stops_at cls_core_x_is_astring_char) (stops_at cls_core_x_is_astring_char));
            [apply ok_rights, Hr | apply (okseq_nil _ _ _ _ (stops_at cls_core_x_is_astring_char)) | intros t Ht; exact Ht].
        * intros rest _. destruct (enc_rights_head r wr Hr) as (c & t & -> & Hc). cbn [app]. exact Hc.
      + intros rest _. rewrite E2. cbn [app]. exact A2.
    - intros rest _. destruct (enc_mailbox_head m wm Hm) as (c & t & -> & Hc). cbn [app]. exact Hc. }
  reflexivity.
Qed.

Theorem myrights_roundtrip v body sp : enc_myrights v body -> enc_spaces sp -> forall rest,
  parse ((bs "* " ++ body ++ sp ++ [13; 10]) ++ rest) = ROk rest v (nlen (bs "* " ++ body ++ sp ++ [13; 10])).
Proof.
  intros Hb Hsp rest. apply (untagged_lift_gen body v before_trailer sp (fun d => ok_myrights v body d Hb) Hsp).
  intro r. apply spaces_then_crlf, Hsp.
Qed.

(* ---------------------------------------------------------------- ACL *)
Lemma env_acl : env f_rfc4314_x_acl = Some def_rfc4314_x_acl. Proof. reflexivity. Qed.
Lemma env_acl_list : env f_rfc4314_x_acl_list = Some def_rfc4314_x_acl_list. Proof. reflexivity. Qed.
Lemma env_acl_entry : env f_rfc4314_x_acl_entry = Some def_rfc4314_x_acl_entry. Proof. reflexivity. Qed.


Lemma ok_acl_entry e w d : enc_acl_entry e w -> OK (Ref f_rfc4314_x_acl_entry DSame) d w e (stops_at cls_core_x_is_astring_char).
Proof.
  intros [i wi s r wr Hi Hu Hs Hr]. apply (okref _ _ _ _ _ _ _ env_acl_entry). unfold def_rfc4314_x_acl_entry. fold idmap. fold rights_g.
  destruct (enc_ws1_head _ Hs) as (c2 & r2 & E2 & A2).
  eapply ok_map.
  { eapply ok_map.
    { apply ok_seq. regroup (wi ++ (s ++ (wr ++ []))).
      eapply (okseq_cons _ _ _ _ _ _ _ _ _ _ (stops_at cls_core_x_is_astring_char) (stops_at cls_core_x_is_astring_char)).
      - eapply ok_map; [apply ok_astring_utf8; eassumption | reflexivity].
      - eapply (okseq_cons _ _ _ _ _ _ _ _ _ _ (stops_at nom_is_space) (stops_at cls_core_x_is_astring_char)); [apply ok_ws1, Hs | |].
        + eapply (okseq_cons _ _ _ _ _ _ _ _ _ _ (stops_at cls_core_x_is_astring_char) (stops_at cls_core_x_is_astring_char));
            [apply ok_rights, Hr | apply (okseq_nil _ _ _ _ (stops_at cls_core_x_is_astring_char)) | intros t Ht; exact Ht].
        + intros rest _. destruct (enc_rights_head r wr Hr) as (c & t & -> & Hc). cbn [app]. exact Hc.
      - intros rest _. rewrite E2. cbn [app]. exact A2. }
    reflexivity. }
  reflexivity.
Qed.

Lemma enc_acl_entry_head e w : enc_acl_entry e w -> exists c t, w = c :: t /\ nom_is_space c = false.
Proof. intros [i wi s r wr Hi _ _ _]. destruct (enc_astring_head i wi Hi) as (c & t & -> & Hc). eexists _, _. split; [reflexivity | exact Hc]. Qed.

Lemma rej_sep_or_elem g rest d : (forall r, REJ g d (13 :: r)) -> qr_end rest ->
  REJ (Leaf (LTakeWhile1 nom_is_space)) d rest \/
  exists ws sv r2 (Fs : list byte -> Prop), rest = ws ++ r2 /\ OK (Leaf (LTakeWhile1 nom_is_space)) d ws sv Fs /\ Fs r2 /\ ws <> [] /\ REJ g d r2.
Proof.
  intros Hg (sp & r & Hs & ->). destruct sp as [|c sp'].
  - left. cbn [app]. apply rej_take_while1. reflexivity.
  - right. exists (c :: sp'), (VBytes (c :: sp')), (13 :: r), (stops_at nom_is_space).
    split; [reflexivity|]. split; [apply ok_ws1, spaces_ws1; [exact Hs | discriminate]|].
    split; [reflexivity|]. split; [discriminate|]. apply Hg.
Qed.

Lemma rej_acl_entry_cr d r : REJ (Ref f_rfc4314_x_acl_entry DSame) d (13 :: r).
Proof. apply (fails_on_byte native_call env rk rank_ok_all 8). vm_compute. reflexivity. Qed.

Lemma oksep_acl l ws d : enc_acl_more l ws ->
  OkSep native_call env rk (Leaf (LTakeWhile1 nom_is_space)) (Ref f_rfc4314_x_acl_entry DSame) d ws l qr_end.
Proof.
  intro H. induction H as [| s e w l ws Hs He Hl IH].
  - apply oksep_nil_elem. intros rest Hr. apply rej_sep_or_elem; [intro r; apply rej_acl_entry_cr | exact Hr].
  - eapply (oksep_cons _ _ _ _ _ _ _ _ _ _ _ _ (stops_at nom_is_space) (stops_at cls_core_x_is_astring_char)).
    + apply ok_ws1, Hs.
    + destruct Hs as [s0 Hne _]. exact Hne.
    + apply ok_acl_entry, He.
    + exact IH.
    + intros rest Hr. destruct Hl as [| s' e' w' l' ws' Hs' _ _]; cbn [app].
      * apply qr_end_stops, Hr.
      * destruct (enc_ws1_head s' Hs') as (c & t & -> & Hc). cbn [app]. exact Hc.
    + intros rest _. destruct (enc_acl_entry_head e w He) as (c & t & -> & Hc). cbn [app]. exact Hc.
Qed.

Lemma acl_skip k body v (F : list byte -> Prop) d : same_nocase (bs "ACL") k = true ->
  OK (Ref f_rfc4314_x_acl DSame) d (k ++ body) v F -> OK (Alt rd_alts) d (k ++ body) v F.
Proof.
  intros Hk H. unfold rd_alts. cbn [def_rfc3501_x_response_data].
  do 12 (apply (skip_kw _ _ (bs "ACL") _ _ _ _ _ Hk); [vm_compute; reflexivity|]).
  apply ok_alt_here. exact H.
Qed.

Lemma ok_acl_none k s1 m wm s0 d : kw "ACL" k -> enc_ws1 s1 -> enc_mailbox m wm -> forallb nom_is_space s0 = true ->
  OK (Alt rd_alts) d (k ++ s1 ++ wm ++ s0)
     (VCon "Response::Acl" [VRec "Acl" [("mailbox"%string, VBytes m); ("acls"%string, VList [])]]) at_cr.
Proof.
  intros Hk H1 Hm H0. unfold kw in Hk. apply (acl_skip _ _ _ _ _ Hk).
  apply (okref _ _ _ _ _ _ _ env_acl). unfold def_rfc4314_x_acl. fold idmap.
  eapply ok_map.
  { apply ok_seq. regroup (k ++ (s1 ++ (wm ++ (s0 ++ [])))).
    eapply (okseq_cons _ _ _ _ _ _ _ _ _ _ any at_cr); [apply ok_tag_nc, Hk | | intros; exact I].
    eapply (okseq_cons _ _ _ _ _ _ _ _ _ _ (stops_at nom_is_space) at_cr); [apply ok_ws1, H1 | |].
    - eapply (okseq_cons _ _ _ _ _ _ _ _ _ _ (stops_at cls_core_x_is_astring_char) at_cr).
      + eapply ok_map; [apply ok_mailbox, Hm | reflexivity].
      + eapply (okseq_cons _ _ _ _ _ _ _ _ _ _ at_cr at_cr); [| apply (okseq_nil _ _ _ _ at_cr) | intros t Ht; exact Ht].
        apply (okref _ _ _ _ _ _ _ env_acl_list). unfold def_rfc4314_x_acl_list. fold proj12.
        eapply ok_map.
        { apply ok_seq.
          eapply (okseq_cons' _ _ _ _ s0 [] _ _ (stops_at nom_is_space) at_cr); [symmetry; apply app_nil_r | apply ok_take_while, H0 | |].
          - eapply (okseq_cons' _ _ _ _ [] [] _ _ at_cr at_cr); [reflexivity | | apply (okseq_nil _ _ _ _ at_cr) | intros t Ht; exact Ht].
            apply ok_seplist0_empty. intros rest Hr. destruct rest as [|c t]; [destruct Hr|]. cbn in Hr. subst c. apply rej_acl_entry_cr.
          - intros rest Hr. destruct rest as [|c t]; [destruct Hr|]. cbn in Hr. subst c. reflexivity. }
        reflexivity.
      + intros rest Hr. rewrite app_nil_r. destruct s0 as [|c0 s0']; cbn [app].
        * destruct rest as [|c t]; [destruct Hr|]. cbn in Hr. subst c. reflexivity.
        * cbn [forallb] in H0. apply andb_true_iff in H0. destruct H0 as [Hc _].
          unfold nom_is_space in Hc. apply orb_true_iff in Hc. destruct Hc as [Hc | Hc]; apply N.eqb_eq in Hc; subst c0; reflexivity.
    - intros rest _. destruct (enc_mailbox_head m wm Hm) as (c & t & -> & Hc). cbn [app]. exact Hc. }
  reflexivity.
Qed.

Lemma ok_acl_some k s1 m wm s2 e we l wl d : kw "ACL" k -> enc_ws1 s1 -> enc_mailbox m wm -> enc_ws1 s2 ->
  enc_acl_entry e we -> enc_acl_more l wl ->
  OK (Alt rd_alts) d (k ++ s1 ++ wm ++ s2 ++ we ++ wl)
     (VCon "Response::Acl" [VRec "Acl" [("mailbox"%string, VBytes m); ("acls"%string, VList (e :: l))]]) qr_end.
Proof.
  intros Hk H1 Hm H2 He Hl. unfold kw in Hk. apply (acl_skip _ _ _ _ _ Hk).
  apply (okref _ _ _ _ _ _ _ env_acl). unfold def_rfc4314_x_acl. fold idmap.
  destruct (enc_ws1_head _ H2) as (c2 & r2 & E2 & A2).
  eapply ok_map.
  { apply ok_seq. regroup (k ++ (s1 ++ (wm ++ ((s2 ++ we ++ wl) ++ [])))).
    eapply (okseq_cons _ _ _ _ _ _ _ _ _ _ any qr_end); [apply ok_tag_nc, Hk | | intros; exact I].
    eapply (okseq_cons _ _ _ _ _ _ _ _ _ _ (stops_at nom_is_space) qr_end); [apply ok_ws1, H1 | |].
    - eapply (okseq_cons _ _ _ _ _ _ _ _ _ _ (stops_at cls_core_x_is_astring_char) qr_end).
      + eapply ok_map; [apply ok_mailbox, Hm | reflexivity].
      + eapply (okseq_cons _ _ _ _ _ _ _ _ _ _ qr_end qr_end); [| apply (okseq_nil _ _ _ _ qr_end) | intros t Ht; exact Ht].
        apply (okref _ _ _ _ _ _ _ env_acl_list). unfold def_rfc4314_x_acl_list. fold proj12.
        eapply ok_map.
        { apply ok_seq. regroup (s2 ++ ((we ++ wl) ++ [])).
          eapply (okseq_cons _ _ _ _ _ _ _ _ _ _ (stops_at nom_is_space) qr_end); [destruct H2 as [s2' _ H2']; apply ok_take_while, H2' | |].
          - eapply (okseq_cons _ _ _ _ _ _ _ _ _ _ qr_end qr_end); [| apply (okseq_nil _ _ _ _ qr_end) | intros t Ht; exact Ht].
            eapply (ok_seplist0 _ _ _ _ _ _ _ _ _ _ (stops_at cls_core_x_is_astring_char)).
            + apply ok_acl_entry, He.
            + apply oksep_acl, Hl.
            + intros rest Hr. destruct Hl as [| s' e' w' l' ws' Hs' _ _]; cbn [app].
              * apply qr_end_stops, Hr.
              * destruct (enc_ws1_head s' Hs') as (c & t & -> & Hc). cbn [app]. exact Hc.
          - intros rest _. rewrite app_nil_r. destruct (enc_acl_entry_head e we He) as (c & t & -> & Hc). cbn [app]. exact Hc. }
        reflexivity.
      + intros rest _. rewrite app_nil_r, E2. cbn [app]. exact A2.
    - intros rest _. destruct (enc_mailbox_head m wm Hm) as (c & t & -> & Hc). cbn [app]. exact Hc. }
  reflexivity.
Qed.

Theorem acl_roundtrip v w : enc_acl_response v w -> forall rest, parse (w ++ rest) = ROk rest v (nlen w).
Proof.
  intros [k s1 m wm s0 Hk H1 Hm H0 | k s1 m wm s2 e we l wl sp Hk H1 Hm H2 He Hl Hsp] rest.
  - change (bs "* " ++ (k ++ s1 ++ wm ++ s0) ++ [13; 10]) with (bs "* " ++ (k ++ s1 ++ wm ++ s0) ++ [] ++ [13; 10]).
    apply (untagged_lift_gen _ _ at_cr [] (fun d => ok_acl_none k s1 m wm s0 d Hk H1 Hm H0) spaces_nil).
    intro r. reflexivity.
  - apply (untagged_lift_gen _ _ qr_end sp (fun d => ok_acl_some k s1 m wm s2 e we l wl d Hk H1 Hm H2 He Hl) Hsp).
    intro r. exists sp, (10 :: r). split; [exact Hsp | reflexivity].
Qed.

(* ---------------------------------------------------------------- LISTRIGHTS *)
Lemma env_list_rights : env f_rfc4314_x_list_rights = Some def_rfc4314_x_list_rights. Proof. reflexivity. Qed.
Lemma env_list_rights_optional : env f_rfc4314_x_list_rights_optional = Some def_rfc4314_x_list_rights_optional. Proof. reflexivity. Qed.

Lemma rej_astring_utf8_cr d r : REJ (Ref f_core_x_astring_utf8 DSame) d (13 :: r).
Proof. apply (fails_on_byte native_call env rk rank_ok_all 8). vm_compute. reflexivity. Qed.

Lemma right_items_ascii l ws : enc_right_items l ws -> Forall (fun t => forallb (fun b => b <=? 127) t = true) l.
Proof. intro H. induction H as [| s t wt l ws _ _ Ht _ IH]; constructor; assumption. Qed.

Lemma rights_flat items : Forall (fun t => forallb (fun b => b <=? 127) t = true) items ->
  flat_map (fun v => rights_of (vbytes v)) (map VBytes items) = flat_map rights_val items.
Proof.
  intro H. induction H as [| t l Ht _ IH]; [reflexivity|]. cbn [map flat_map vbytes]. rewrite IH. f_equal.
  unfold rights_of, rights_val. rewrite (utf8_chars_ascii t Ht). apply map_ext. intro c. apply acl_right_table.
Qed.

Lemma oksep_right_items l ws d : enc_right_items l ws ->
  OkSep native_call env rk (Leaf (LTakeWhile1 nom_is_space)) (Ref f_core_x_astring_utf8 DSame) d ws (map VBytes l) qr_end.
Proof.
  intro H. induction H as [| s t wt l ws Hs Ht H7 Hl IH]; cbn [map].
  - apply oksep_nil_elem. intros rest Hr. apply rej_sep_or_elem; [intro r; apply rej_astring_utf8_cr | exact Hr].
  - eapply (oksep_cons _ _ _ _ _ _ _ _ _ _ _ _ (stops_at nom_is_space) (stops_at cls_core_x_is_astring_char)).
    + apply ok_ws1, Hs.
    + destruct Hs as [s0 Hne _]. exact Hne.
    + apply ok_astring_utf8; [exact Ht | apply ascii_utf8, H7].
    + exact IH.
    + intros rest Hr. destruct Hl as [| s' t' wt' l' ws' Hs' _ _ _]; cbn [app].
      * apply qr_end_stops, Hr.
      * destruct (enc_ws1_head s' Hs') as (c & r & -> & Hc). cbn [app]. exact Hc.
    + intros rest _. destruct (enc_astring_head t wt Ht) as (c & r & -> & Hc). cbn [app]. exact Hc.
Qed.

Definition lro_inner : G := Map proj12 (Seq [(Leaf (LTakeWhile nom_is_space)); (SepList0 (Leaf (LTakeWhile1 nom_is_space)) (Ref f_core_x_astring_utf8 DSame))]).

Lemma act_lro items : act native_call (mk_action (PVar "x") (ACall "rfc4314::list_rights_optional#1" [AVar "x"])) (VList (map VBytes items))
  = AVal (VList (flat_map (fun v => rights_of (vbytes v)) (map VBytes items))).
Proof. reflexivity. Qed.

Lemma ok_lro_none s0 d : forallb nom_is_space s0 = true ->
  OK (Ref f_rfc4314_x_list_rights_optional DSame) d s0 (VList (flat_map rights_val [])) at_cr.
Proof.
  intro H0. apply (okref _ _ _ _ _ _ _ env_list_rights_optional). unfold def_rfc4314_x_list_rights_optional. fold proj12.
  eapply ok_map.
  { eapply ok_map.
    { apply ok_seq.
      eapply (okseq_cons' _ _ _ _ s0 [] _ _ (stops_at nom_is_space) at_cr); [symmetry; apply app_nil_r | apply ok_take_while, H0 | |].
      - eapply (okseq_cons' _ _ _ _ [] [] _ _ at_cr at_cr); [reflexivity | | apply (okseq_nil _ _ _ _ at_cr) | intros t Ht; exact Ht].
        apply ok_seplist0_empty. intros rest Hr. destruct rest as [|c t]; [destruct Hr|]. cbn in Hr. subst c. apply rej_astring_utf8_cr.
      - intros rest Hr. destruct rest as [|c t]; [destruct Hr|]. cbn in Hr. subst c. reflexivity. }
    reflexivity. }
  reflexivity.
Qed.

Lemma ok_lro_some t l wo d : enc_right_items (t :: l) wo ->
  OK (Ref f_rfc4314_x_list_rights_optional DSame) d wo (VList (flat_map rights_val (t :: l))) qr_end.
Proof.
  intro H. pose proof (right_items_ascii _ _ H) as Hall. inversion H as [| s t0 wt l0 ws Hs Ht H7 Hl]; subst.
  apply (okref _ _ _ _ _ _ _ env_list_rights_optional). unfold def_rfc4314_x_list_rights_optional. fold proj12.
  eapply ok_map.
  { eapply ok_map.
    { apply ok_seq. regroup (s ++ ((wt ++ ws) ++ [])).
      eapply (okseq_cons _ _ _ _ _ _ _ _ _ _ (stops_at nom_is_space) qr_end); [destruct Hs as [s' _ Hs']; apply ok_take_while, Hs' | |].
      - eapply (okseq_cons _ _ _ _ _ _ _ _ _ _ qr_end qr_end); [| apply (okseq_nil _ _ _ _ qr_end) | intros r Hr; exact Hr].
        eapply (ok_seplist0 _ _ _ _ _ _ _ _ _ _ (stops_at cls_core_x_is_astring_char)).
        + apply ok_astring_utf8; [exact Ht | apply ascii_utf8, H7].
        + apply oksep_right_items, Hl.
        + intros rest Hr. destruct Hl as [| s' t' wt' l' ws' Hs' _ _ _]; cbn [app].
          * apply qr_end_stops, Hr.
          * destruct (enc_ws1_head s' Hs') as (c & r & -> & Hc). cbn [app]. exact Hc.
      - intros rest _. rewrite app_nil_r. destruct (enc_astring_head t wt Ht) as (c & r & -> & Hc). cbn [app]. exact Hc. }
    reflexivity. }
  change (act native_call (mk_action (PVar "x") (ACall "rfc4314::list_rights_optional#1" [AVar "x"])) (VList (map VBytes (t :: l)))
          = AVal (VList (flat_map rights_val (t :: l)))).
  rewrite act_lro. rewrite (rights_flat _ Hall). reflexivity.
Qed.

Lemma ok_listrights_gen k s1 m wm s2 i wi s3 req wr wo optv (F : list byte -> Prop) d :
  kw "LISTRIGHTS" k -> enc_ws1 s1 -> enc_mailbox m wm -> enc_ws1 s2 -> enc_astring i wi -> utf8_valid i = true -> enc_ws1 s3 -> enc_rights req wr ->
  OK (Ref f_rfc4314_x_list_rights_optional DSame) d wo (VList optv) F ->
  (forall rest, F rest -> stops_at cls_core_x_is_astring_char (wo ++ rest)) ->
  OK (Alt rd_alts) d (k ++ s1 ++ wm ++ s2 ++ wi ++ s3 ++ wr ++ wo)
     (VCon "Response::ListRights" [VRec "ListRights" [("mailbox"%string, VBytes m); ("identifier"%string, VBytes i);
                                                      ("required"%string, req); ("optional"%string, VList optv)]]) F.
Proof.
  intros Hk H1 Hm H2 Hi Hu H3 Hr Ho HF. unfold kw in Hk. unfold rd_alts. cbn [def_rfc3501_x_response_data].
  do 13 (apply (skip_kw _ _ (bs "LISTRIGHTS") _ _ _ _ _ Hk); [vm_compute; reflexivity|]).
  apply ok_alt_here. apply (okref _ _ _ _ _ _ _ env_list_rights). unfold def_rfc4314_x_list_rights. fold idmap. fold rights_g.
  destruct (enc_ws1_head _ H2) as (c2 & r2 & E2 & A2). destruct (enc_ws1_head _ H3) as (c3 & r3 & E3 & A3).
  eapply ok_map.
  { apply ok_seq. regroup (k ++ (s1 ++ (wm ++ (s2 ++ (wi ++ (s3 ++ (wr ++ (wo ++ [])))))))).
    eapply (okseq_cons _ _ _ _ _ _ _ _ _ _ any F); [apply ok_tag_nc, Hk | | intros; exact I].
    eapply (okseq_cons _ _ _ _ _ _ _ _ _ _ (stops_at nom_is_space) F); [apply ok_ws1, H1 | |].
    2: { intros rest _. destruct (enc_mailbox_head m wm Hm) as (c & t & -> & Hc). cbn [app]. exact Hc. }
    eapply (okseq_cons _ _ _ _ _ _ _ _ _ _ (stops_at cls_core_x_is_astring_char) F); [eapply ok_map; [apply ok_mailbox, Hm | reflexivity] | |].
    2: { intros rest _. rewrite E2. cbn [app]. exact A2. }
    eapply (okseq_cons _ _ _ _ _ _ _ _ _ _ (stops_at nom_is_space) F); [apply ok_ws1, H2 | |].
    2: { intros rest _. destruct (enc_astring_head i wi Hi) as (c & t & -> & Hc). cbn [app]. exact Hc. }
    eapply (okseq_cons _ _ _ _ _ _ _ _ _ _ (stops_at cls_core_x_is_astring_char) F); [eapply ok_map; [apply ok_astring_utf8; eassumption | reflexivity] | |].
    2: { intros rest _. rewrite E3. cbn [app]. exact A3. }
    eapply (okseq_cons _ _ _ _ _ _ _ _ _ _ (stops_at nom_is_space) F); [apply ok_ws1, H3 | |].
    2: { intros rest _. destruct (enc_rights_head req wr Hr) as (c & t & -> & Hc). cbn [app]. exact Hc. }
    eapply (okseq_cons _ _ _ _ _ _ _ _ _ _ (stops_at cls_core_x_is_astring_char) F); [apply ok_rights, Hr | |].
    2: { intros rest HFr. rewrite app_nil_r. apply HF, HFr. }
    eapply (okseq_cons _ _ _ _ _ _ _ _ _ _ F F); [exact Ho | apply (okseq_nil _ _ _ _ F) | intros t Ht; exact Ht]. }
  reflexivity.
Qed.

Theorem listrights_roundtrip v w : enc_listrights_response v w -> forall rest, parse (w ++ rest) = ROk rest v (nlen w).
Proof.
  intros [k s1 m wm s2 i wi s3 req wr s0 Hk H1 Hm H2 Hi Hu H3 Hr H0 | k s1 m wm s2 i wi s3 req wr opt wo sp Hk H1 Hm H2 Hi Hu H3 Hr Ho Hne Hsp] rest.
  - change (bs "* " ++ (k ++ s1 ++ wm ++ s2 ++ wi ++ s3 ++ wr ++ s0) ++ [13; 10]) with (bs "* " ++ (k ++ s1 ++ wm ++ s2 ++ wi ++ s3 ++ wr ++ s0) ++ [] ++ [13; 10]).
    apply (untagged_lift_gen _ _ at_cr [] (fun d => ok_listrights_gen k s1 m wm s2 i wi s3 req wr s0 _ at_cr d Hk H1 Hm H2 Hi Hu H3 Hr (ok_lro_none s0 d H0)
      (fun rest Hr0 => ltac:(destruct s0 as [|c0 s0']; cbn [app];
         [destruct rest as [|c t]; [destruct Hr0|]; cbn in Hr0; subst c; reflexivity
         | cbn [forallb] in H0; apply andb_true_iff in H0; destruct H0 as [Hc _]; unfold nom_is_space in Hc; apply orb_true_iff in Hc;
           destruct Hc as [Hc | Hc]; apply N.eqb_eq in Hc; subst c0; reflexivity]))) spaces_nil).
    intro r. reflexivity.
  - destruct opt as [|t l]; [contradiction|].
    apply (untagged_lift_gen _ _ qr_end sp (fun d => ok_listrights_gen k s1 m wm s2 i wi s3 req wr wo _ qr_end d Hk H1 Hm H2 Hi Hu H3 Hr (ok_lro_some t l wo d Ho)
      (fun rest _ => ltac:(inversion Ho as [| s t0 wt l0 ws Hs Ht H7 Hl]; subst; destruct (enc_ws1_head s Hs) as (c & r & -> & Hc); cbn [app]; exact Hc))) Hsp).
    intro r. exists sp, (10 :: r). split; [exact Hsp | reflexivity].
Qed.

(* ---------------------------------------------------------------- ID *)
Lemma env_resp_id : env f_rfc2971_x_resp_id = Some def_rfc2971_x_resp_id. Proof. reflexivity. Qed.
Lemma env_id_param_list : env f_rfc2971_x_id_param_list = Some def_rfc2971_x_id_param_list. Proof. reflexivity. Qed.
Lemma env_id_not_nil : env f_rfc2971_x_id_param_list_not_nil = Some def_rfc2971_x_id_param_list_not_nil. Proof. reflexivity. Qed.
Lemma env_id_param : env f_rfc2971_x_id_param = Some def_rfc2971_x_id_param. Proof. reflexivity. Qed.

Definition field_val (f : field) : val :=
  VTuple [VBytes (fst f); match snd f with None => VNone | Some v => VSome (VBytes v) end].

Lemma ok_id_param f w d : enc_id_field f w -> OK (Ref f_rfc2971_x_id_param DSame) d w (field_val f) any.
Proof.
  intro H. apply (okref _ _ _ _ _ _ _ env_id_param). unfold def_rfc2971_x_id_param.
  destruct H as [k wk s w0 Hk Hu Hs Hn | k wk s v wv Hk Hu Hs Hv Huv]; unfold field_val; cbn [fst snd].
  - destruct (enc_nil_head w0 Hn) as (c & r & E & Hc).
    eapply ok_map.
    { apply ok_seq. regroup (wk ++ (s ++ (w0 ++ []))).
      eapply (okseq_cons _ _ _ _ _ _ _ _ _ _ any any); [apply ok_string_utf8; eassumption | | intros; exact I].
      eapply (okseq_cons _ _ _ _ _ _ _ _ _ _ (stops_at nom_is_space) any); [apply ok_ws1, Hs | |].
      - eapply (okseq_cons _ _ _ _ _ _ _ _ _ _ any any); [apply ok_nstring_utf8, nsu_nil, Hn | apply (okseq_nil _ _ _ _ any) | intros; exact I].
      - intros rest _. rewrite E. cbn [app]. destruct Hc as [-> | ->]; reflexivity. }
    reflexivity.
  - destruct (enc_string_head v wv Hv) as (c & r & E & Hc).
    eapply ok_map.
    { apply ok_seq. regroup (wk ++ (s ++ (wv ++ []))).
      eapply (okseq_cons _ _ _ _ _ _ _ _ _ _ any any); [apply ok_string_utf8; eassumption | | intros; exact I].
      eapply (okseq_cons _ _ _ _ _ _ _ _ _ _ (stops_at nom_is_space) any); [apply ok_ws1, Hs | |].
      - eapply (okseq_cons _ _ _ _ _ _ _ _ _ _ any any); [apply ok_nstring_utf8, nsu_some; eassumption | apply (okseq_nil _ _ _ _ any) | intros; exact I].
      - intros rest _. rewrite E. cbn [app]. destruct Hc as [-> | ->]; reflexivity. }
    reflexivity.
Qed.

Lemma enc_id_field_head f w : enc_id_field f w -> exists c r, w = c :: r /\ nom_is_space c = false.
Proof.
  intros [k wk s w0 Hk _ _ _ | k wk s v wv Hk _ _ _ _]; destruct (enc_string_head k wk Hk) as (c & r & -> & [-> | ->]);
    eexists _, _; (split; [reflexivity|]); reflexivity.
Qed.

Definition id_more_item : G := Seq [(Leaf (LTakeWhile1 nom_is_space)); (Ref f_rfc2971_x_id_param DSame)].
(* what follows the fields: optional blanks, then ")" *)
Definition id_end (rest : list byte) : Prop := exists s0 r, forallb nom_is_space s0 = true /\ rest = s0 ++ 41 :: r.

Lemma rej_id_param_close d r : REJ (Ref f_rfc2971_x_id_param DSame) d (41 :: r).
Proof. apply (fails_on_byte native_call env rk rank_ok_all 8). vm_compute. reflexivity. Qed.

Lemma rej_id_more_item rest d : id_end rest -> REJ id_more_item d rest.
Proof.
  intros (s0 & r & H0 & ->). unfold id_more_item. destruct s0 as [|c s0'].
  - cbn [app]. apply rej_seq_head, rej_take_while1. reflexivity.
  - eapply (rej_seq_after _ _ _ _ _ _ _ _ (stops_at nom_is_space)).
    + apply ok_take_while1; [exact H0 | discriminate].
    + reflexivity.
    + apply rejseq_head. apply rej_id_param_close.
Qed.

Definition snd_of (t : val) : val := match t with VTuple [_; p] => p | _ => VUnit end.

Lemma okmany_id_fields l ws d : enc_id_fields_more l ws ->
  exists vs, OkMany native_call env rk id_more_item d ws vs id_end /\ map snd_of vs = map field_val l.
Proof.
  intro H. induction H as [| s f w l ws Hs Hf Hl [vs [IH Hmap]]].
  - exists []. split; [|reflexivity]. apply okmany_nil. intros rest Hr. apply rej_id_more_item, Hr.
  - exists (VTuple [VBytes s; field_val f] :: vs). split; [|cbn [map snd_of]; rewrite Hmap; reflexivity].
    rewrite app_assoc. eapply (okmany_cons _ _ _ _ _ _ _ _ _ any).
    + unfold id_more_item. apply ok_seq. regroup (s ++ (w ++ [])).
      eapply (okseq_cons _ _ _ _ _ _ _ _ _ _ (stops_at nom_is_space) any); [apply ok_ws1, Hs | |].
      * eapply (okseq_cons _ _ _ _ _ _ _ _ _ _ any any); [apply ok_id_param, Hf | apply (okseq_nil _ _ _ _ any) | intros; exact I].
      * intros rest _. destruct (enc_id_field_head f w Hf) as (c & r & -> & Hc). cbn [app]. exact Hc.
    + destruct Hs as [s' Hne _]. destruct s'; [contradiction | discriminate].
    + exact IH.
    + intros; exact I.
Qed.

(* the parser's collection of the fields is the fold that IdMap characterises *)
Lemma id_params_fold : forall (fs : list field) (m : amap),
  fold_left (fun m p => match p with
                        | VTuple [VBytes k; VSome (VBytes v)] => hm_insert k v m
                        | _ => m
                        end) (map field_val fs) m = fold_left ins_field fs m.
Proof.
  induction fs as [|[k [v|]] fs IH]; intro m; cbn [map fold_left field_val fst snd ins_field]; [reflexivity | apply IH | apply IH].
Qed.

Lemma id_params_value f l vs : map snd_of vs = map field_val l ->
  id_params (field_val f) (VList vs) = id_map_val (fold_left ins_field (f :: l) []).
Proof.
  intro Hmap. unfold id_params, id_map_val. f_equal. f_equal.
  change (map (fun t => match t with VTuple [_; p] => p | _ => VUnit end) vs) with (map snd_of vs). rewrite Hmap.
  change (field_val f :: map field_val l) with (map field_val (f :: l)). apply id_params_fold.
Qed.

Definition close_g : G := Map proj12 (Seq [(Leaf (LTakeWhile nom_is_space)); (Leaf (LTag (bs ")")))]).

Lemma ok_id v body d : enc_id v body -> OK (Alt rd_alts) d body v any.
Proof.
  intros [k s w Hk Hs Hn | k s f wf l wl s0 m Hk Hs Hf Hl H0 Hden]; unfold kw in Hk; unfold rd_alts; cbn [def_rfc3501_x_response_data].
  - do 11 (apply (skip_kw _ _ (bs "ID") _ _ _ _ _ Hk); [vm_compute; reflexivity|]).
    apply ok_alt_here. apply (okref _ _ _ _ _ _ _ env_resp_id). unfold def_rfc2971_x_resp_id.
    destruct (enc_nil_head w Hn) as (c & r & E & Hc).
    eapply ok_map.
    { eapply ok_map.
      { apply ok_seq. regroup (k ++ (s ++ (w ++ []))).
        eapply (okseq_cons _ _ _ _ _ _ _ _ _ _ any any); [apply ok_tag_nc, Hk | | intros; exact I].
        eapply (okseq_cons _ _ _ _ _ _ _ _ _ _ (stops_at nom_is_space) any); [apply ok_ws1, Hs | |].
        - eapply (okseq_cons _ _ _ _ _ _ _ _ _ _ any any); [| apply (okseq_nil _ _ _ _ any) | intros; exact I].
          apply (okref _ _ _ _ _ _ _ env_id_param_list). unfold def_rfc2971_x_id_param_list.
          apply ok_alt_skip.
          { intros rest _. rewrite E. cbn [app]. apply rej_map. apply (rejref _ _ _ _ _ env_id_not_nil). unfold def_rfc2971_x_id_param_list_not_nil.
            apply rej_map, rej_seq_head, rej_tag. destruct Hc as [-> | ->]; reflexivity. }
          apply ok_alt_here. eapply ok_map; [apply ok_nil, Hn | reflexivity].
        - intros rest _. rewrite E. cbn [app]. destruct Hc as [-> | ->]; reflexivity. }
      reflexivity. }
    reflexivity.
  - do 11 (apply (skip_kw _ _ (bs "ID") _ _ _ _ _ Hk); [vm_compute; reflexivity|]).
    apply ok_alt_here. apply (okref _ _ _ _ _ _ _ env_resp_id). unfold def_rfc2971_x_resp_id.
    destruct (okmany_id_fields l wl d Hl) as (vs & Hmany & Hmap).
    assert (Hm : m = fold_left ins_field (f :: l) []) by (apply (denotes_unique (f :: l)); [exact Hden | apply fold_ins_is_the_denoted_map]).
    eapply ok_map.
    { eapply ok_map.
      { apply ok_seq. regroup (k ++ (s ++ (([40] ++ wf ++ wl ++ s0 ++ [41]) ++ []))).
        eapply (okseq_cons _ _ _ _ _ _ _ _ _ _ any any); [apply ok_tag_nc, Hk | | intros; exact I].
        eapply (okseq_cons _ _ _ _ _ _ _ _ _ _ (stops_at nom_is_space) any); [apply ok_ws1, Hs | | intros rest _; reflexivity].
        eapply (okseq_cons _ _ _ _ _ _ _ _ _ _ any any); [| apply (okseq_nil _ _ _ _ any) | intros; exact I].
        apply (okref _ _ _ _ _ _ _ env_id_param_list). unfold def_rfc2971_x_id_param_list.
        apply ok_alt_here. eapply ok_map; [|reflexivity].
        apply (okref _ _ _ _ _ _ _ env_id_not_nil). unfold def_rfc2971_x_id_param_list_not_nil. fold id_more_item. fold proj12. fold close_g.
        eapply ok_map.
        { apply ok_seq. regroup ([40] ++ (wf ++ (wl ++ ((s0 ++ [41]) ++ [])))).
          eapply (okseq_cons _ _ _ _ _ _ _ _ _ _ any any); [apply ok_tag | | intros; exact I].
          eapply (okseq_cons _ _ _ _ _ _ _ _ _ _ any any); [apply ok_id_param, Hf | | intros; exact I].
          eapply (okseq_cons _ _ _ _ _ _ _ _ _ _ id_end any); [apply ok_many0, Hmany | |].
          - eapply (okseq_cons _ _ _ _ _ _ _ _ _ _ any any); [| apply (okseq_nil _ _ _ _ any) | intros; exact I].
            unfold close_g. eapply ok_map.
            { apply ok_seq. regroup (s0 ++ ([41] ++ [])).
              eapply (okseq_cons _ _ _ _ _ _ _ _ _ _ (stops_at nom_is_space) any); [apply ok_take_while, H0 | | intros rest _; reflexivity].
              eapply (okseq_cons _ _ _ _ _ _ _ _ _ _ any any); [apply ok_tag | apply (okseq_nil _ _ _ _ any) | intros; exact I]. }
            reflexivity.
          - intros rest _. exists s0, rest. split; [exact H0|]. rewrite <- !app_assoc. reflexivity. }
        (* the native: collect the fields into the map *)
        unfold act. cbn [a_pat a_body bind eval eval_list of_lres lookup String.eqb Ascii.eqb Bool.eqb].
        unfold native_call. cbn [String.eqb Ascii.eqb Bool.eqb]. rewrite (id_params_value f l vs Hmap), <- Hm. reflexivity. }
      reflexivity. }
    reflexivity.
Qed.

Theorem id_roundtrip v body sp : enc_id v body -> enc_spaces sp -> forall rest,
  parse ((bs "* " ++ body ++ sp ++ [13; 10]) ++ rest) = ROk rest v (nlen (bs "* " ++ body ++ sp ++ [13; 10])).
Proof.
  intros Hb Hsp rest. apply (untagged_lift_gen body v any sp (fun d => ok_id v body d Hb) Hsp). intros; exact I.
Qed.

(* ---------------------------------------------------------------- METADATA *)
Lemma env_md_solicited : env f_rfc5464_x_metadata_solicited = Some def_rfc5464_x_metadata_solicited. Proof. reflexivity. Qed.
Lemma env_md_unsolicited : env f_rfc5464_x_metadata_unsolicited = Some def_rfc5464_x_metadata_unsolicited. Proof. reflexivity. Qed.
Lemma env_md_common : env f_rfc5464_x_metadata_common = Some def_rfc5464_x_metadata_common. Proof. reflexivity. Qed.
Lemma env_keyval_list : env f_rfc5464_x_keyval_list = Some def_rfc5464_x_keyval_list. Proof. reflexivity. Qed.
Lemma env_entry_list : env f_rfc5464_x_entry_list = Some def_rfc5464_x_entry_list. Proof. reflexivity. Qed.
Lemma env_nil_value : env f_rfc5464_x_nil_value = Some def_rfc5464_x_nil_value. Proof. reflexivity. Qed.
Lemma env_string_value : env f_rfc5464_x_string_value = Some def_rfc5464_x_string_value. Proof. reflexivity. Qed.
Definition def_entry_name : G := MapRes (mk_action (PVar "x") (ACall "check_entry_name" [AVar "x"])) (Ref f_core_x_astring DSame).
Lemma env_entry_name : env f_rfc5464_x_entry_name = Some def_entry_name. Proof. reflexivity. Qed.

Lemma comp_ascii c : cls_rfc5464_x_is_entry_component_char c = true -> (c <=? 127) = true.
Proof.
  unfold cls_rfc5464_x_is_entry_component_char. intro H. repeat (apply andb_true_iff in H; destruct H as [H _]).
  apply N.ltb_lt in H. apply N.leb_le. lia.
Qed.

Lemma rfc_path_ascii p : rfc_path p -> Forall (fun b => (b <=? 127) = true) p.
Proof.
  intro H. induction H as [| c r Hc Hr IH]; [constructor|]. apply Forall_app. split; [repeat constructor|]. apply Forall_app. split; [|exact IH].
  apply Forall_forall. intros x Hx. rewrite forallb_forall in Hc. exact (comp_ascii x (Hc x Hx)).
Qed.

Lemma rfc_entry_ascii e : rfc_entry e -> forallb (fun b => b <=? 127) e = true.
Proof.
  intro H. apply forallb_forall. apply Forall_forall.
  destruct H as [p Hp | p Hp | p Hp | c0 c p H0 Hc Hp | c0 c p H0 Hc Hp]; apply Forall_app; split; try (repeat constructor; fail);
    try exact (rfc_path_ascii p Hp).
  - apply Forall_app. split; [|exact (rfc_path_ascii p Hp)]. constructor; [exact (comp_ascii c0 H0)|].
    apply Forall_forall. intros x Hx. rewrite forallb_forall in Hc. exact (comp_ascii x (Hc x Hx)).
  - apply Forall_app. split; [|exact (rfc_path_ascii p Hp)]. constructor; [exact (comp_ascii c0 H0)|].
    apply Forall_forall. intros x Hx. rewrite forallb_forall in Hc. exact (comp_ascii x (Hc x Hx)).
Qed.

Lemma rfc_entry_head e : rfc_entry e -> exists r, e = 47 :: r.
Proof. intros []; eexists; reflexivity. Qed.

Definition entry_str : G := MapRes (mk_action (PVar "x") (ACall "rfc5464::slice_to_str" [AVar "x"])) (Ref f_rfc5464_x_entry_name DSame).

Lemma ok_entry_str e w d : rfc_entry e -> enc_astring e w -> OK entry_str d w (VBytes e) (stops_at cls_core_x_is_astring_char).
Proof.
  intros He Hw. unfold entry_str. eapply ok_mapres.
  { apply (okref _ _ _ _ _ _ _ env_entry_name). unfold def_entry_name. eapply ok_mapres; [apply ok_astring, Hw|].
    cbn. unfold native_call. cbn. rewrite (entry_names_accepted e He). reflexivity. }
  cbn. unfold native_call. cbn. rewrite (ascii_utf8 e (rfc_entry_ascii e He)). reflexivity.
Qed.

Lemma entry_wire_head e w : rfc_entry e -> enc_astring e w -> exists c r, w = c :: r /\ (c = 47 \/ c = 34 \/ c = 123).
Proof.
  intros He Hw. inversion Hw as [s Hne Hs E1 E2 | s w0 Hs E1 E2]; subst.
  - destruct (rfc_entry_head _ He) as (r & E). rewrite E. eexists _, _. split; [reflexivity|]. left. reflexivity.
  - destruct (enc_string_head _ _ Hs) as (c & r & -> & [-> | ->]); eexists _, _; (split; [reflexivity|]); auto.
Qed.

Definition md_value_g : G := Alt [(Ref f_rfc5464_x_nil_value DSame); (Ref f_rfc5464_x_string_value DSame)].

Lemma ok_md_value v w d : enc_md_value v w -> OK md_value_g d w v any.
Proof.
  intros [w0 Hn | s w0 Hs Hu]; unfold md_value_g.
  - apply ok_alt_here. apply (okref _ _ _ _ _ _ _ env_nil_value). unfold def_rfc5464_x_nil_value.
    destruct Hn as [w1 Hk]. eapply ok_map; [apply ok_tag_nc, Hk | reflexivity].
  - apply ok_alt_skip.
    { intros rest _. destruct (enc_string_head s w0 Hs) as (c & r & -> & Hc). cbn [app].
      apply (rejref _ _ _ _ _ env_nil_value). unfold def_rfc5464_x_nil_value. apply rej_map.
      destruct Hc as [-> | ->]; apply rej_tag_nc; reflexivity. }
    apply ok_alt_here. apply (okref _ _ _ _ _ _ _ env_string_value). unfold def_rfc5464_x_string_value.
    eapply ok_mapres.
    { destruct Hs as [s' w' Hq | s' w' Hl].
      - apply ok_alt_here. apply ok_quoted, Hq.
      - apply ok_alt_skip; [|apply ok_alt_here, ok_literal, Hl].
        intros rest _. destruct Hl as [s'' ds]. cbn [app]. apply (rejref _ _ _ _ _ env_quoted). unfold def_core_x_quoted.
        apply rej_map, rej_seq_head, rej_tag. reflexivity. }
    cbn. unfold native_call. cbn. rewrite Hu. reflexivity.
Qed.

Definition md_pair_g : G :=
  Map (mk_action (PTuple [PVar "p0"%string; PWild; PVar "p2"%string]) (ARec "Metadata"%string [("entry"%string, AVar "p0"); ("value"%string, AVar "p2")]))
      (Seq [entry_str; (Leaf (LTag (bs " "))); md_value_g]).

Lemma ok_md_pair p w d : enc_md_pair p w -> OK md_pair_g d w p any.
Proof.
  intros [e we v wv He Hwe Hv]. unfold md_pair_g. eapply ok_map.
  { apply ok_seq. unfold SPb. regroup (we ++ ([32] ++ (wv ++ []))).
    eapply (okseq_cons _ _ _ _ _ _ _ _ _ _ (stops_at cls_core_x_is_astring_char) any); [apply ok_entry_str; eassumption | | intros rest _; reflexivity].
    eapply (okseq_cons _ _ _ _ _ _ _ _ _ _ any any); [apply ok_tag | | intros; exact I].
    eapply (okseq_cons _ _ _ _ _ _ _ _ _ _ any any); [apply ok_md_value, Hv | apply (okseq_nil _ _ _ _ any) | intros; exact I]. }
  reflexivity.
Qed.

Lemma oksep_md_pairs l ws d : enc_md_pairs_more l ws -> OkSep native_call env rk (Leaf (LTag (bs " "))) md_pair_g d ws l closes.
Proof.
  intro H. induction H as [| p w l ws Hp Hl IH].
  - apply oksep_nil. intros rest Hr. destruct rest as [|c r]; [destruct Hr|]. cbn in Hr. subst c. apply rej_tag. reflexivity.
  - unfold SPb. eapply (oksep_cons _ _ _ _ _ _ _ _ _ _ _ _ any any); [apply ok_tag | discriminate | apply ok_md_pair, Hp | exact IH | intros; exact I | intros; exact I].
Qed.

Definition entry_item : G := Map (mk_action (PVar "x") (AVar "x")) entry_str.

Lemma rej_entry_item_blank c r d : c = 32 \/ c = 13 -> REJ entry_item d (c :: r).
Proof. intros [-> | ->]; apply (fails_on_byte native_call env rk rank_ok_all 8); vm_compute; reflexivity. Qed.

Lemma oksep_md_entries l ws d : enc_md_entries_more l ws ->
  OkSep native_call env rk (Leaf (LTag (bs " "))) entry_item d ws l qr_end.
Proof.
  intro H. induction H as [| e w l ws He Hw Hl IH].
  - apply oksep_nil_elem. intros rest (sp & r & Hsp & ->). destruct Hsp as [| sp' Hsp'].
    + left. cbn [app]. apply rej_tag. reflexivity.
    + right. exists [32], (VBytes [32]), (sp' ++ 13 :: r), any. split; [reflexivity|]. split; [apply ok_tag|]. split; [exact I|].
      split; [discriminate|]. destruct Hsp' as [| sp'' _]; cbn [app]; apply rej_entry_item_blank; [right | left]; reflexivity.
  - unfold SPb. eapply (oksep_cons _ _ _ _ _ _ _ _ _ _ _ _ any (stops_at cls_core_x_is_astring_char)).
    + apply ok_tag.
    + discriminate.
    + unfold entry_item. eapply ok_map; [apply ok_entry_str; eassumption | reflexivity].
    + exact IH.
    + intros rest Hr. destruct Hl; cbn [app]; [apply qr_end_stops, Hr | reflexivity].
    + intros; exact I.
Qed.

Lemma ok_md_common k m wm d : same_nocase (bs "METADATA ") k = true -> enc_mailbox m wm ->
  OK (Ref f_rfc5464_x_metadata_common DSame) d (k ++ wm ++ SPb) (VBytes m) any.
Proof.
  intros Hk Hm. apply (okref _ _ _ _ _ _ _ env_md_common). unfold def_rfc5464_x_metadata_common.
  eapply ok_map.
  { apply ok_seq. unfold SPb. regroup (k ++ (wm ++ ([32] ++ []))).
    eapply (okseq_cons _ _ _ _ _ _ _ _ _ _ any any); [apply ok_tag_nc, Hk | | intros; exact I].
    eapply (okseq_cons _ _ _ _ _ _ _ _ _ _ (stops_at cls_core_x_is_astring_char) any); [apply ok_mailbox, Hm | | intros rest _; reflexivity].
    eapply (okseq_cons _ _ _ _ _ _ _ _ _ _ any any); [apply ok_tag | apply (okseq_nil _ _ _ _ any) | intros; exact I]. }
  reflexivity.
Qed.

Lemma ok_metadata v body d : enc_metadata v body -> OK (Alt rd_alts) d body v qr_end.
Proof.
  intros [k m wm p wp l wl Hk Hm Hp Hl | k m wm e we l wl Hk Hm He Hwe Hl]; unfold kw in Hk; unfold rd_alts; cbn [def_rfc3501_x_response_data].
  - apply (Ok_follow _ _ _ _ _ _ _ any); [|intros; exact I].
    do 6 (apply (skip_kw _ _ (bs "METADATA ") _ _ _ _ _ Hk); [vm_compute; reflexivity|]).
    apply ok_alt_here. apply (okref _ _ _ _ _ _ _ env_md_solicited). unfold def_rfc5464_x_metadata_solicited.
    eapply ok_map.
    { apply ok_seq. regroup ((k ++ wm ++ SPb) ++ (([40] ++ wp ++ wl ++ [41]) ++ [])).
      eapply (okseq_cons _ _ _ _ _ _ _ _ _ _ any any); [apply ok_md_common; eassumption | | intros; exact I].
      eapply (okseq_cons _ _ _ _ _ _ _ _ _ _ any any); [| apply (okseq_nil _ _ _ _ any) | intros; exact I].
      apply (okref _ _ _ _ _ _ _ env_keyval_list). unfold def_rfc5464_x_keyval_list. fold entry_str. fold md_value_g. fold md_pair_g.
      eapply ok_map.
      { apply ok_seq. regroup ([40] ++ ((wp ++ wl) ++ ([41] ++ []))).
        eapply (okseq_cons _ _ _ _ _ _ _ _ _ _ any any); [apply ok_tag | | intros; exact I].
        eapply (okseq_cons _ _ _ _ _ _ _ _ _ _ closes any).
        - eapply (ok_seplist1 _ _ _ _ _ _ _ _ _ _ any); [apply ok_md_pair, Hp | apply oksep_md_pairs, Hl | intros; exact I].
        - eapply (okseq_cons _ _ _ _ _ _ _ _ _ _ any any); [apply ok_tag | apply (okseq_nil _ _ _ _ any) | intros; exact I].
        - intros rest _. reflexivity. }
      reflexivity. }
    reflexivity.
  - do 6 (apply (skip_kw _ _ (bs "METADATA ") _ _ _ _ _ Hk); [vm_compute; reflexivity|]).
    apply ok_alt_skip.
    { (* the solicited form wants "(" where the first entry stands *)
      intros rest _. apply (rejref _ _ _ _ _ env_md_solicited). unfold def_rfc5464_x_metadata_solicited. apply rej_map.
      replace ((k ++ wm ++ SPb ++ we ++ wl) ++ rest) with ((k ++ wm ++ SPb) ++ (we ++ wl ++ rest)) by (rewrite <- !app_assoc; reflexivity).
      eapply (rej_seq_after _ _ _ _ _ _ _ _ any); [apply ok_md_common; eassumption | exact I |]. apply rejseq_head.
      apply (rejref _ _ _ _ _ env_keyval_list). unfold def_rfc5464_x_keyval_list. apply rej_map, rej_seq_head.
      destruct (entry_wire_head e we He Hwe) as (c & r & -> & Hc). cbn [app].
      apply rej_tag. destruct Hc as [-> | [-> | ->]]; reflexivity. }
    apply ok_alt_here. apply (okref _ _ _ _ _ _ _ env_md_unsolicited). unfold def_rfc5464_x_metadata_unsolicited.
    eapply ok_map.
    { apply ok_seq. regroup ((k ++ wm ++ SPb) ++ ((we ++ wl) ++ [])).
      eapply (okseq_cons _ _ _ _ _ _ _ _ _ _ any qr_end); [apply ok_md_common; eassumption | | intros; exact I].
      eapply (okseq_cons _ _ _ _ _ _ _ _ _ _ qr_end qr_end); [| apply (okseq_nil _ _ _ _ qr_end) | intros r Hr; exact Hr].
      apply (okref _ _ _ _ _ _ _ env_entry_list). unfold def_rfc5464_x_entry_list. fold entry_str. fold entry_item.
      eapply (ok_seplist0 _ _ _ _ _ _ _ _ _ _ (stops_at cls_core_x_is_astring_char)).
      - unfold entry_item. eapply ok_map; [apply ok_entry_str; eassumption | reflexivity].
      - apply oksep_md_entries, Hl.
      - intros rest Hr. destruct Hl; cbn [app]; [apply qr_end_stops, Hr | reflexivity]. }
    reflexivity.
Qed.

Theorem metadata_roundtrip v body sp : enc_metadata v body -> enc_spaces sp -> forall rest,
  parse ((bs "* " ++ body ++ sp ++ [13; 10]) ++ rest) = ROk rest v (nlen (bs "* " ++ body ++ sp ++ [13; 10])).
Proof.
  intros Hb Hsp rest. apply (untagged_lift_gen body v qr_end sp (fun d => ok_metadata v body d Hb) Hsp).
  intro r. exists sp, (10 :: r). split; [exact Hsp | reflexivity].
Qed.

(* ---------------------------------------------------------------- all of the above, as one statement *)
Theorem response_roundtrip v w : enc_response v w -> forall rest, parse (w ++ rest) = ROk rest v (nlen w).
Proof.
  intros [v0 w0 H | v0 w0 H | v0 w0 H | v0 w0 H | v0 w0 H | v0 w0 H | v0 w0 H | v0 w0 H
         | v0 body sp H Hsp | v0 body sp H Hsp | v0 body sp H Hsp | v0 body sp H Hsp | v0 body sp H Hsp | v0 body sp H Hsp] rest.
  - apply fetch_roundtrip, H.
  - apply data_roundtrip, H.
  - apply status_roundtrip, H.
  - apply tagged_roundtrip, H.
  - apply continue_roundtrip, H.
  - apply id_list_roundtrip, H.
  - apply acl_roundtrip, H.
  - apply listrights_roundtrip, H.
  - apply capability_roundtrip; assumption.
  - apply enabled_roundtrip; assumption.
  - apply quotaroot_roundtrip; assumption.
  - apply myrights_roundtrip; assumption.
  - apply id_roundtrip; assumption.
  - apply metadata_roundtrip; assumption.
Qed.

Corollary same_value_same_parse_any v w1 w2 r1 r2 : enc_response v w1 -> enc_response v w2 ->
  parse (w1 ++ r1) = ROk r1 v (nlen w1) /\ parse (w2 ++ r2) = ROk r2 v (nlen w2).
Proof. intros H1 H2. split; apply response_roundtrip; assumption. Qed.


(* consequences of the round-trip theorem for the relation itself: a wire form denotes one value only, and no
   spelling is a proper prefix of another one (a response ends where it ends, whatever follows) *)
Corollary spellings_unambiguous v1 v2 w : enc_response v1 w -> enc_response v2 w -> v1 = v2.
Proof.
  intros H1 H2. pose proof (response_roundtrip v1 w H1 []) as P1. pose proof (response_roundtrip v2 w H2 []) as P2.
  rewrite P1 in P2. injection P2 as E. exact E.
Qed.

Corollary spellings_prefix_free v1 v2 w x : enc_response v1 w -> enc_response v2 (w ++ x) -> x = [] /\ v1 = v2.
Proof.
  intros H1 H2. pose proof (response_roundtrip v1 w H1 x) as P1. pose proof (response_roundtrip v2 (w ++ x) H2 []) as P2.
  rewrite app_nil_r in P2. rewrite P1 in P2. injection P2 as Ex Ev _. split; [exact Ex | exact Ev].
Qed.
